/-
  Lemmas/Exec.lean — how `execJobs` threads the state through its two loops (helper lemmas only).
-/
import SchedVerif.Model.Sched
namespace SV

@[simp] theorem State.setJob_heap_length (s : State) (k : Nat) (f : Job → Job) :
    (s.setJob k f).heap.length = s.heap.length := by
  simp [State.setJob]

@[simp] theorem State.setJob_reg (s : State) (k : Nat) (f : Job → Job) :
    (s.setJob k f).reg = s.reg := rfl

@[simp] theorem State.setJob_logs (s : State) (k : Nat) (f : Job → Job) :
    (s.setJob k f).logs = s.logs := rfl

theorem State.find_some (s : State) (k : Nat) (h : k < s.heap.length) : ∃ sj, s.find k = some sj := by
  unfold State.find
  exact ⟨s.heap[k], by simp [h]⟩

theorem State.setJob_find_ne (s : State) (k k' : Nat) (f : Job → Job) (h : k ≠ k') :
    (s.setJob k f).find k' = s.find k' := by
  simp [State.setJob, State.find, List.getElem?_modify, h]

theorem State.setJob_find_eq (s : State) (k : Nat) (f : Job → Job) :
    (s.setJob k f).find k = (s.find k).map (fun sj => { sj with job := f sj.job }) := by
  simp [State.setJob, State.find, List.getElem?_modify]

/-- one worker step without a callback script: exactly one invocation record, registry untouched -/
theorem runOne_plain (clock : Int) (raises : List Nat) (s : State) (inv : List Invoc) (k : Nat)
    (hk : k < s.heap.length) :
    ∃ rec_ : Invoc, rec_.key = k ∧
      (runOne clock raises [] (s, inv) k).2 = inv ++ [rec_] ∧
      (runOne clock raises [] (s, inv) k).1.heap.length = s.heap.length ∧
      (runOne clock raises [] (s, inv) k).1.reg = s.reg := by
  obtain ⟨sj, hsj⟩ := s.find_some k hk
  refine ⟨{ key := k, due := sj.job.due.inst, payload := sj.payload }, rfl, ?_, ?_, ?_⟩ <;>
    simp [runOne, hsj, List.lookup]

theorem runOne_fold_plain (clock : Int) (raises : List Nat) (batch : List Nat) (s : State)
    (inv : List Invoc) (h : ∀ k ∈ batch, k < s.heap.length) :
    ((batch.foldl (runOne clock raises []) (s, inv)).2.map (·.key) = inv.map (·.key) ++ batch) ∧
    (batch.foldl (runOne clock raises []) (s, inv)).1.heap.length = s.heap.length ∧
    (batch.foldl (runOne clock raises []) (s, inv)).1.reg = s.reg := by
  induction batch generalizing s inv with
  | nil => simp
  | cons k ks ih =>
      obtain ⟨rec_, hr1, hr2, hr3, hr4⟩ := runOne_plain clock raises s inv k (h k (by simp))
      simp only [List.foldl_cons]
      have hpair : runOne clock raises [] (s, inv) k =
          ((runOne clock raises [] (s, inv) k).1, (runOne clock raises [] (s, inv) k).2) := rfl
      rw [hpair]
      have := ih (runOne clock raises [] (s, inv) k).1 (runOne clock raises [] (s, inv) k).2
        (by intro k' hk'; rw [hr3]; exact h k' (by simp [hk']))
      obtain ⟨a, b, c⟩ := this
      refine ⟨?_, by rw [b, hr3], by rw [c, hr4]⟩
      rw [a, hr2]; simp [hr1]

theorem nowDT_inst (tz : Option Int) (clock : Int) : (nowDT tz clock).inst = clock := by
  cases tz <;> simp [nowDT, DT.inst]

end SV
