/-
  Lemmas/Advance.lean — one application of a timing's util function yields the least occurrence
  strictly after the instant it is applied to (helper lemmas only).
-/
import SchedVerif.Spec.Occ
namespace SV

theorem inst_of_off (d : DT) (o : Option Int) (h : d.off = o) : d.inst = d.loc - o.getD 0 := by
  simp [DT.inst, h]

/-- window form: strictly after, within one period, on phase, carrying the timing's offset -/
theorem advance_window (tm : Timing) (hv : tm.valid) (hc : tm.isCyclic = false) (d : DT)
    (ha : d.off.isSome = tm.off.isSome) :
    d.inst < (advance tm d).inst ∧ (advance tm d).inst ≤ d.inst + tm.period ∧
    Occ tm (advance tm d).inst ∧ (advance tm d).off = tm.off := by
  cases tm with
  | cyclic td => simp [Timing.isCyclic] at hc
  | minutely t =>
      have hs := nextMinutely_spec (convertInto d t.off) t hv
      have ho := convertInto_off d t.off ha
      have hi := convertInto_inst d t.off
      obtain ⟨h1, h2, h3, h4⟩ := hs
      have e1 := inst_of_off _ _ (h4.trans ho)
      have e2 := inst_of_off _ _ ho
      simp only [advance, Occ, Timing.off, Timing.period, Timing.phase] at *
      refine ⟨by omega, by omega, ?_, h4.trans ho⟩
      rw [e1]; rw [← h3]; congr 1; omega
  | hourly t =>
      have hs := nextHourly_spec (convertInto d t.off) t hv
      have ho := convertInto_off d t.off ha
      have hi := convertInto_inst d t.off
      obtain ⟨h1, h2, h3, h4⟩ := hs
      have e1 := inst_of_off _ _ (h4.trans ho)
      have e2 := inst_of_off _ _ ho
      simp only [advance, Occ, Timing.off, Timing.period, Timing.phase] at *
      refine ⟨by omega, by omega, ?_, h4.trans ho⟩
      rw [e1]; rw [← h3]; congr 1; omega
  | daily t =>
      have hs := nextDaily_spec (convertInto d t.off) t hv
      have ho := convertInto_off d t.off ha
      have hi := convertInto_inst d t.off
      obtain ⟨h1, h2, h3, h4⟩ := hs
      have e1 := inst_of_off _ _ (h4.trans ho)
      have e2 := inst_of_off _ _ ho
      simp only [advance, Occ, Timing.off, Timing.period, Timing.phase] at *
      refine ⟨by omega, by omega, ?_, h4.trans ho⟩
      rw [e1]; rw [← h3]; congr 1; omega
  | weekly wd t =>
      have hs := nextWeekdayTime_spec (convertInto d t.off) wd t hv.2.2 ⟨hv.1, hv.2.1⟩
      have ho := convertInto_off d t.off ha
      have hi := convertInto_inst d t.off
      obtain ⟨h1, h2, h3, h4⟩ := hs
      have e1 := inst_of_off _ _ (h4.trans ho)
      have e2 := inst_of_off _ _ ho
      simp only [advance, Occ, Timing.off, Timing.period, Timing.phase] at *
      refine ⟨by omega, by omega, ?_, h4.trans ho⟩
      rw [e1]; rw [← h3]; congr 1; omega

theorem advance_least (tm : Timing) (hv : tm.valid) (hc : tm.isCyclic = false) (d : DT)
    (ha : d.off.isSome = tm.off.isSome) :
    IsLeastAfter (Occ tm) d.inst (advance tm d).inst := by
  obtain ⟨h1, h2, h3, _⟩ := advance_window tm hv hc d ha
  exact ⟨h1, h3, fun v hv' ho => least_of_window _ _ _ _ _ h2 h3 v hv' ho⟩

/-- applied on an occurrence, the result is exactly one period later -/
theorem advance_on_occ (tm : Timing) (hv : tm.valid) (hc : tm.isCyclic = false) (d : DT)
    (ha : d.off.isSome = tm.off.isSome) (ho : Occ tm d.inst) :
    (advance tm d).inst = d.inst + tm.period := by
  obtain ⟨h1, h2, h3, _⟩ := advance_window tm hv hc d ha
  have hp := tm.period_pos hc
  unfold Occ at *
  -- the difference is a positive multiple of the period not exceeding it
  have e1 : ((advance tm d).inst - d.inst) % tm.period = 0 := by
    have : (advance tm d).inst - d.inst = ((advance tm d).inst + tm.off.getD 0) - (d.inst + tm.off.getD 0) := by omega
    rw [this, Int.sub_emod, h3, ho]; simp
  have hd := Int.dvd_of_emod_eq_zero e1
  obtain ⟨k, hk⟩ := hd
  have hk1 : 0 < k := by
    apply Classical.byContradiction; intro hneg
    have : k ≤ 0 := by omega
    have := Int.mul_le_mul_of_nonneg_left this (Int.le_of_lt hp)
    omega
  have hk2 : k ≤ 1 := by
    apply Classical.byContradiction; intro hneg
    have : 2 ≤ k := by omega
    have := Int.mul_le_mul_of_nonneg_left this (Int.le_of_lt hp)
    omega
  have : k = 1 := by omega
  subst this
  omega

end SV
