/-
  Lemmas/Calendar.lean — arithmetic facts about the util functions (helper lemmas only).
-/
import SchedVerif.Model.Timer
namespace SV

theorem Tod.tod_range (t : Tod) (h : t.valid) : 0 ≤ t.tod ∧ t.tod < DAY := by
  obtain ⟨h1, h2, h3, h4, _⟩ := h
  simp only [Tod.tod, DAY]; omega

theorem Tod.mtod_range (t : Tod) (h : t.valid) : 0 ≤ t.mtod ∧ t.mtod < HOUR := by
  obtain ⟨h1, h2, h3, h4, _⟩ := h
  simp only [Tod.mtod, HOUR]; omega

theorem Tod.stod_range (t : Tod) (h : t.valid) : 0 ≤ t.stod ∧ t.stod < MIN := by
  obtain ⟨h1, h2, h3, h4, _⟩ := h
  simp only [Tod.stod, MIN]; omega

/-- window characterisation of the daily helper, on wall-clock readings -/
theorem nextDaily_spec (now : DT) (t : Tod) (h : t.valid) :
    now.loc < (nextDaily now t).loc ∧ (nextDaily now t).loc ≤ now.loc + DAY ∧
    (nextDaily now t).loc % DAY = t.tod ∧ (nextDaily now t).off = now.off := by
  have ht := t.tod_range h
  simp only [nextDaily, replaceDay, DAY] at *
  refine ⟨?_, ?_, ?_, trivial⟩ <;> omega

theorem nextHourly_spec (now : DT) (t : Tod) (h : t.valid) :
    now.loc < (nextHourly now t).loc ∧ (nextHourly now t).loc ≤ now.loc + HOUR ∧
    (nextHourly now t).loc % HOUR = t.mtod ∧ (nextHourly now t).off = now.off := by
  have ht := t.mtod_range h
  simp only [nextHourly, replaceHour, HOUR] at *
  refine ⟨?_, ?_, ?_, trivial⟩ <;> omega

theorem nextMinutely_spec (now : DT) (t : Tod) (h : t.valid) :
    now.loc < (nextMinutely now t).loc ∧ (nextMinutely now t).loc ≤ now.loc + MIN ∧
    (nextMinutely now t).loc % MIN = t.stod ∧ (nextMinutely now t).off = now.off := by
  have ht := t.stod_range h
  simp only [nextMinutely, replaceMin, MIN] at *
  refine ⟨?_, ?_, ?_, trivial⟩ <;> omega

theorem nextWeekdayTime_spec (now : DT) (wd : Int) (t : Tod) (h : t.valid) (hw : 0 ≤ wd ∧ wd ≤ 6) :
    now.loc < (nextWeekdayTime now wd t).loc ∧ (nextWeekdayTime now wd t).loc ≤ now.loc + WEEK ∧
    (nextWeekdayTime now wd t).loc % WEEK = wd * DAY + t.tod ∧ (nextWeekdayTime now wd t).off = now.off := by
  have ht := t.tod_range h
  simp only [nextWeekdayTime, nextDaily, replaceDay, DT.weekday, DT.date, DAY, WEEK] at *
  refine ⟨?_, ?_, ?_, trivial⟩ <;> omega

/-- with occurrences exactly `P` apart, "strictly after, at most P after, on phase" is "least" -/
theorem least_of_window (P ph o r u : Int) (h2 : u ≤ r + P) (h3 : (u + o) % P = ph) :
    ∀ v, r < v → (v + o) % P = ph → u ≤ v := by
  intro v hv hvp
  apply Classical.byContradiction
  intro hc
  have e1 : (u - v) % P = 0 := by
    have : u - v = (u + o) - (v + o) := by omega
    rw [this, Int.sub_emod, h3, hvp]; simp
  have h5 : u - v < P := by omega
  have := Int.emod_eq_of_lt (by omega : 0 ≤ u - v) h5
  omega

/-- the instant and offset of a converted datetime -/
theorem convertInto_inst (d : DT) (o : Option Int) : (convertInto d o).inst = d.inst := by
  unfold convertInto
  split <;> simp [DT.astz, DT.inst]

theorem convertInto_off (d : DT) (o : Option Int) (h : d.off.isSome = o.isSome) :
    (convertInto d o).off = o := by
  unfold convertInto
  cases hd : d.off <;> cases ho : o <;> simp_all [DT.astz]

end SV
