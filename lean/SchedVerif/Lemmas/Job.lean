/-
  Lemmas/Job.lean — facts about single-timing jobs (helper lemmas only).
-/
import SchedVerif.Model.Job
import SchedVerif.Lemmas.Advance
namespace SV

/-- a non-cyclic timer whose stored datetime has the awareness of its timing -/
structure Timer.WF (tm : Timer) : Prop where
  valid : tm.timing.valid
  nc : tm.timing.isCyclic = false
  aw : tm.next.off.isSome = tm.timing.off.isSome

theorem Timer.calcNext_none (tm : Timer) (hc : tm.timing.isCyclic = false) :
    tm.calcNext none = { tm with next := advance tm.timing tm.next } := by
  unfold Timer.calcNext
  cases h : tm.timing <;> simp_all [Timing.isCyclic] <;> cases tm.skip <;> rfl

/-- without skip the reference is ignored -/
theorem Timer.calcNext_noskip (tm : Timer) (hs : tm.skip = false) (ref : Option DT) :
    tm.calcNext ref = { tm with next := advance tm.timing tm.next } := by
  unfold Timer.calcNext
  cases h : tm.timing <;> simp_all [advance]

theorem Timer.WF_advance (tm : Timer) (h : tm.WF) :
    ({ tm with next := advance tm.timing tm.next } : Timer).WF := by
  obtain ⟨hv, hc, ha⟩ := h
  refine ⟨hv, hc, ?_⟩
  have := (advance_window tm.timing hv hc tm.next ha).2.2.2
  simp [this]

@[simp] theorem argmin_singleton (f : α → Int) (x : α) : argmin f [x] = 0 := rfl

end SV
