/-
  Lemmas/Job.lean — facts about single-timing jobs (helper lemmas only).
-/
import SchedVerif.Model.Job
import SchedVerif.Lemmas.Advance
namespace SV

/-- a non-cyclic timer whose stored datetime has the awareness of its timing -/
structure Timer.WF (tm : Timer) : Prop where
  valid : tm.timing.valid
  nc : tm.timing.isCyclic = false
  aw : tm.next.off.isSome = tm.timing.off.isSome

theorem Timer.calcNext_none (tm : Timer) (hc : tm.timing.isCyclic = false) :
    tm.calcNext none = { tm with next := advance tm.timing tm.next } := by
  unfold Timer.calcNext
  cases h : tm.timing <;> simp_all [Timing.isCyclic] <;> cases tm.skip <;> rfl

/-- without skip the reference is ignored -/
theorem Timer.calcNext_noskip (tm : Timer) (hs : tm.skip = false) (ref : Option DT) :
    tm.calcNext ref = { tm with next := advance tm.timing tm.next } := by
  unfold Timer.calcNext
  cases h : tm.timing <;> simp_all [advance]

theorem Timer.WF_advance (tm : Timer) (h : tm.WF) :
    ({ tm with next := advance tm.timing tm.next } : Timer).WF := by
  obtain ⟨hv, hc, ha⟩ := h
  refine ⟨hv, hc, ?_⟩
  have := (advance_window tm.timing hv hc tm.next ha).2.2.2
  simp [this]

@[simp] theorem argmin_singleton (f : α → Int) (x : α) : argmin f [x] = 0 := by simp [argmin]

end SV

namespace SV
/-- first due instant of any non-cyclic timer (shared by C01, C02, C03) -/
theorem C01_first_due_aux (tm : Timing) (hc : tm.isCyclic = false) (hv : tm.valid) (start : DT)
    (ha : start.off.isSome = tm.off.isSome) (skip : Bool) :
    IsLeastAfter (Occ tm) start.inst (Timer.init tm start skip).next.inst := by
  unfold Timer.init
  rw [Timer.calcNext_none _ hc]
  exact advance_least tm hv hc start ha
theorem Job.create_ok (tz : Option Int) (ts : List Timing) (start stop : Option DT)
    (delay skip : Bool) (m : Int) (clock : Int) (j : Job)
    (h : Job.create tz ts start stop delay skip m clock = .ok j) :
    ∃ s, startStop tz start stop clock = .ok s ∧ j = Job.build (ts.map standardize) s stop delay skip m ∧
      timingTzOk tz (ts.map standardize) = true ∧ uniqueOk tz (ts.map standardize) = true ∧
      (ts.map standardize) ≠ [] := by
  unfold Job.create at h
  simp only [] at h
  split at h
  · cases h
  · by_cases h1 : timingTzOk tz (List.map standardize ts) = true
    · by_cases h2 : uniqueOk tz (List.map standardize ts) = true
      · simp only [h1, h2, Bool.not_true, Bool.false_eq_true, if_false] at h
        cases hs : startStop tz start stop clock with
        | error e => rw [hs] at h; cases h
        | ok s =>
            rw [hs] at h
            by_cases h3 : (List.map standardize ts).isEmpty = true
            · simp [h3] at h
            · simp only [h3] at h
              cases h
              exact ⟨s, rfl, rfl, h1, h2, by simpa using h3⟩
      · simp [h1, h2] at h
    · simp [h1] at h

end SV
