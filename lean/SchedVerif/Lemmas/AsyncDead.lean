/-
  Lemmas/AsyncDead.lean — "deletion cancels for good" over all continuations of the asyncio machine
  (helper lemmas; the property statement is `C18.deleted_never_starts_again`).
-/
import SchedVerif.Lemmas.AsyncBudget
namespace SV

/-- the task of job `k` can never start its coroutine again: it is cancelled / finished, or it is
    the running task and a cancellation is pending for it (delivered at its next await or at the
    loop head) -/
def DeadTask (t : ATask) : Prop :=
  t.phase = .cancelled ∨ t.phase = .finished ∨ (t.pendingCancel = true ∧ ∃ r v, t.phase = .running r v)

def DeadJob (s : AState) (k : Nat) : Prop := ∃ t, s.task? k = some t ∧ DeadTask t

def startCount (l : List AEvent) (k : Nat) : Nat :=
  (l.filter (fun e => e.kind == .start && e.key == k)).length

theorem startCount_append (l : List AEvent) (e : AEvent) (k : Nat) :
    startCount (l ++ [e]) k = startCount l k + (if e.kind == .start && e.key == k then 1 else 0) := by
  unfold startCount
  rw [List.filter_append, List.length_append]
  by_cases h : (e.kind == AEvKind.start && e.key == k) = true <;> simp [List.filter, h]

/-- what every piece of the machine preserves -/
structure Frozen (s s' : AState) (k : Nat) : Prop where
  dead : DeadJob s' k
  count : startCount s'.log k = startCount s.log k

theorem Frozen.refl (s : AState) (k : Nat) (h : DeadJob s k) : Frozen s s k := ⟨h, rfl⟩

theorem Frozen.trans (a b c : AState) (k : Nat) (h1 : Frozen a b k) (h2 : Frozen b c k) : Frozen a c k :=
  ⟨h2.dead, h2.count.trans h1.count⟩

/-- changing a task by a function that keeps dead tasks dead -/
theorem DeadJob.setTask (s : AState) (k : Nat) (h : DeadJob s k) (k' : Nat) (f : ATask → ATask)
    (hf : ∀ b, s.task? k' = some b → k' = k → DeadTask b → DeadTask (f b)) : DeadJob (s.setTask k' f) k := by
  obtain ⟨t, ht, hd⟩ := h
  by_cases hk : k' = k
  · subst hk
    exact ⟨f t, by rw [AState.task?_setTask]; simp [ht], hf t ht rfl hd⟩
  · exact ⟨t, by rw [AState.task?_setTask]; simp [hk, ht], hd⟩

theorem Frozen.setTask (s : AState) (k : Nat) (h : DeadJob s k) (k' : Nat) (f : ATask → ATask)
    (hf : ∀ b, s.task? k' = some b → k' = k → DeadTask b → DeadTask (f b)) : Frozen s (s.setTask k' f) k :=
  ⟨DeadJob.setTask s k h k' f hf, rfl⟩

theorem DeadTask.cancelled (t : ATask) : DeadTask { t with phase := .cancelled } := Or.inl rfl

theorem Frozen.cancel (s : AState) (k : Nat) (h : DeadJob s k) (k' : Nat) (cur : Option Nat) :
    Frozen s (s.cancel k' cur) k := by
  unfold AState.cancel
  apply Frozen.setTask s k h
  intro b _ _ hd
  rcases hd with hd | hd | ⟨hp, r, v, hph⟩
  · simp [hd, DeadTask]
  · simp [hd, DeadTask]
  · simp only [hph]
    split
    · exact Or.inr (Or.inr ⟨rfl, r, v, rfl⟩)
    · exact Or.inl rfl

theorem Frozen.logCancel (s : AState) (k : Nat) (h : DeadJob s k) (k' : Nat) (cur : Option Nat) :
    Frozen s (s.logCancel k' cur) k := by
  obtain ⟨t, ht, hd⟩ := h
  refine ⟨⟨t, by rw [AState.logCancel_task?]; exact ht, hd⟩, ?_⟩
  unfold AState.logCancel
  split
  · split
    · split
      · rfl
      · simp [startCount_append]
    · rfl
  · rfl

theorem DeadJob.withReg (s : AState) (k : Nat) (h : DeadJob s k) (r : List Nat) : DeadJob { s with reg := r } k := h

theorem Frozen.deleteJob (s : AState) (k : Nat) (h : DeadJob s k) (k' : Nat) (cur : Option Nat) :
    Frozen s (s.deleteJob k' cur).1 k := by
  unfold AState.deleteJob
  split
  · have h1 : Frozen s ({ s with reg := s.reg.erase k' } : AState) k := ⟨h, rfl⟩
    have h2 := Frozen.logCancel _ k h1.dead k' cur
    have h3 := Frozen.cancel _ k h2.dead k' cur
    exact Frozen.trans _ _ _ k (Frozen.trans _ _ _ k h1 h2) h3
  · exact Frozen.refl s k h

theorem Frozen.deleteJobs (s : AState) (k : Nat) (h : DeadJob s k) (q : List Nat) (any : Bool) (cur : Option Nat) :
    Frozen s (s.deleteJobs q any cur).1 k := by
  unfold AState.deleteJobs
  simp only []
  generalize s.selectKeys q any = sel
  have : ∀ (sel : List Nat) (s' : AState), Frozen s s' k → Frozen s (sel.foldl (fun st k' => (st.deleteJob k' cur).1) s') k := by
    intro sel
    induction sel with
    | nil => intro s' h'; exact h'
    | cons y ys ih =>
        intro s' h'
        simp only [List.foldl_cons]
        exact ih _ (Frozen.trans _ _ _ k h' (Frozen.deleteJob s' k h'.dead y cur))
  exact this sel s (Frozen.refl s k h)

theorem Frozen.schedule (s : AState) (k : Nat) (h : DeadJob s k) (sp : RawSpec) (runs : List RunScript) :
    Frozen s (s.schedule sp runs).1 k := by
  unfold AState.schedule
  split
  · exact Frozen.refl s k h
  · obtain ⟨t, ht, hd⟩ := h
    refine ⟨⟨t, ?_, hd⟩, rfl⟩
    have hk : k < s.tasks.length := (List.getElem?_eq_some_iff.mp (show s.tasks[k]? = some t from ht)).1
    simp only [AState.task?]
    rw [List.getElem?_append_left hk]
    exact ht

/-- the loop head is only reached by a task that is not terminal (first step, or end of a run) -/
theorem Frozen.loopHead (s : AState) (k : Nat) (h : DeadJob s k) (k' : Nat)
    (hnt : ∀ b, s.task? k' = some b → b.phase ≠ .cancelled ∧ b.phase ≠ .finished) : Frozen s (SV.loopHead s k') k := by
  unfold SV.loopHead
  cases ht : s.task? k' with
  | none => exact Frozen.refl s k h
  | some t =>
      simp only []
      split
      · exact Frozen.setTask s k h k' _ (fun b _ _ _ => Or.inl rfl)
      · rename_i hpc
        split
        · have := Frozen.setTask s k h k' (fun t => { t with phase := Phase.finished }) (fun b _ _ _ => Or.inr (Or.inl rfl))
          exact ⟨this.dead, this.count⟩
        · apply Frozen.setTask s k h k'
          intro b hb _ hd
          have hbt : b = t := by rw [ht] at hb; exact (Option.some.inj hb).symm
          subst hbt
          obtain ⟨n1, n2⟩ := hnt b ht
          rcases hd with hd | hd | ⟨hp, _⟩
          · exact absurd hd n1
          · exact absurd hd n2
          · exact absurd hp (by simpa using hpc)

theorem Frozen.withLogLogs (s : AState) (k : Nat) (h : DeadJob s k) (e : AEvent) (n : Nat)
    (he : (e.kind == AEvKind.start && e.key == k) = false) :
    Frozen s ({ s with log := s.log ++ [e], logs := n } : AState) k := by
  refine ⟨h, ?_⟩
  simp [startCount_append, he]

theorem IsRunning.notTerminal (s : AState) (k : Nat) (h : IsRunning s k) :
    ∀ b, s.task? k = some b → b.phase ≠ .cancelled ∧ b.phase ≠ .finished := by
  intro b hb
  obtain ⟨r, v, hp⟩ := h b hb
  rw [hp]; exact ⟨by simp, by simp⟩

theorem IsRunning.setTask_keep (s : AState) (k : Nat) (h : IsRunning s k) (f : ATask → ATask)
    (hf : ∀ b, (f b).phase = b.phase) : IsRunning (s.setTask k f) k := by
  intro b hb
  rw [AState.task?_setTask] at hb
  simp only [if_true] at hb
  cases hx : s.task? k with
  | none => rw [hx] at hb; simp at hb
  | some y =>
      rw [hx] at hb
      simp only [Option.map_some, Option.some.injEq] at hb
      subst hb
      rw [hf]; exact h y hx

/-- running the coroutine of the current task `k'` (in the running phase) never starts a dead job -/
theorem Frozen.runActs (fuel : Nat) (k : Nat) :
    ∀ (s : AState) (k' : Nat) (acts : List Act) (raises : Bool), DeadJob s k → IsRunning s k' → k' < s.tasks.length →
      Frozen s (SV.runActs fuel s k' acts raises) k := by
  induction fuel with
  | zero => intro s k' acts raises h _ _; unfold SV.runActs; exact Frozen.refl s k h
  | succ n ih =>
      intro s k' acts raises h hr hk
      unfold SV.runActs
      cases acts with
      | nil =>
          simp only []
          cases ht : s.task? k' with
          | none => exact Frozen.refl s k h
          | some t =>
              simp only []
              -- bookkeeping keeps phase and pendingCancel; one end event (not a start); then the loop head
              have h1 : Frozen s (s.setTask k' (fun t => { t with job := (t.job.exec1 raises).calcNext (nowDT s.tz s.now), nrun := t.nrun + 1 })) k :=
                Frozen.setTask s k h k' _ (by
                  intro b _ _ hd
                  rcases hd with hd | hd | ⟨hp, r, v, hph⟩
                  · exact Or.inl hd
                  · exact Or.inr (Or.inl hd)
                  · exact Or.inr (Or.inr ⟨hp, r, v, hph⟩))
              have hr1 : IsRunning (s.setTask k' (fun t => { t with job := (t.job.exec1 raises).calcNext (nowDT s.tz s.now), nrun := t.nrun + 1 })) k' :=
                IsRunning.setTask_keep s k' hr _ (fun _ => rfl)
              refine Frozen.trans _ _ _ k (Frozen.trans _ _ _ k h1 (Frozen.withLogLogs _ k h1.dead _ _ ?_)) (Frozen.loopHead _ k ?_ k' ?_)
              · cases raises <;> simp
              · exact (Frozen.withLogLogs _ k h1.dead _ _ (by cases raises <;> simp)).dead
              · exact IsRunning.notTerminal _ k' hr1
      | cons a rest =>
          simp only []
          cases a with
          | sleep d =>
              simp only []
              cases ht : s.task? k' with
              | none => exact Frozen.refl s k h
              | some t =>
                  simp only []
                  split
                  · have h1 := Frozen.setTask s k h k' (fun t => { t with phase := Phase.cancelled }) (fun b _ _ _ => Or.inl rfl)
                    refine ⟨h1.dead, ?_⟩
                    simp [startCount_append]
                  · rename_i hpc
                    apply Frozen.setTask s k h k'
                    intro b hb _ hd
                    have hbt : b = t := by rw [ht] at hb; exact (Option.some.inj hb).symm
                    subst hbt
                    obtain ⟨r, v, hph⟩ := hr b ht
                    rcases hd with hd | hd | ⟨hp, _⟩
                    · rw [hph] at hd; cases hd
                    · rw [hph] at hd; cases hd
                    · exact absurd hp (by simpa using hpc)
          | del k'' =>
              have h1 := Frozen.deleteJob s k h k'' (some k')
              exact Frozen.trans _ _ _ k h1 (ih _ _ _ _ h1.dead (IsRunning.deleteJob s k' hr k'') (by rw [deleteJob_len]; exact hk))
          | delTags q any =>
              have h1 := Frozen.deleteJobs s k h q any (some k')
              exact Frozen.trans _ _ _ k h1 (ih _ _ _ _ h1.dead (IsRunning.deleteJobs s k' hr q any) (by rw [deleteJobs_len]; exact hk))
          | sched sp =>
              have h1 := Frozen.schedule s k h sp [s.dflt]
              have hr' := IsRunning.schedule s k' hr hk sp [s.dflt]
              exact Frozen.trans _ _ _ k h1 (ih _ _ _ _ h1.dead hr'.1 hr'.2)

theorem Frozen.stepTask (s : AState) (k : Nat) (h : DeadJob s k) (k' : Nat) : Frozen s (SV.stepTask s k') k := by
  unfold SV.stepTask
  cases ht : s.task? k' with
  | none => exact Frozen.refl s k h
  | some t =>
      simp only []
      have hk : k' < s.tasks.length := (List.getElem?_eq_some_iff.mp (show s.tasks[k']? = some t from ht)).1
      split
      · rename_i hph
        exact Frozen.loopHead s k h k' (by intro b hb; rw [ht] at hb; cases hb; rw [hph]; exact ⟨by simp, by simp⟩)
      · rename_i hph
        generalize (t.runs[t.nrun]?).getD (t.runs.getLast?.getD {}) = script
        -- a sleeping task is not dead: it is another job that starts
        have hne : k' ≠ k := by
          intro e; subst e
          obtain ⟨t', ht', hd⟩ := h
          rw [ht] at ht'; cases ht'
          rcases hd with hd | hd | ⟨_, r, v, hd⟩ <;> rw [hph] at hd <;> cases hd
        have h1 : Frozen s (s.setTask k' (fun t' => { t' with phase := Phase.running script.acts script.raises })) k :=
          Frozen.setTask s k h k' _ (fun _ _ e => absurd e hne)
        generalize hs0 : s.setTask k' (fun t' => { t' with phase := Phase.running script.acts script.raises }) = s0 at h1
        have hr0 : IsRunning s0 k' := by
          intro b hb
          rw [← hs0, AState.task?_setTask] at hb
          simp only [if_true, ht, Option.map_some, Option.some.injEq] at hb
          subst hb; exact ⟨_, _, rfl⟩
        have hk0 : k' < s0.tasks.length := by rw [← hs0]; simpa [AState.setTask] using hk
        have h2 : Frozen s0 ({ s0 with log := s0.log ++ [({ time := s.now, key := k', kind := .start, due := t.job.due.inst } : AEvent)] } : AState) k := by
          refine ⟨h1.dead, ?_⟩
          simp only [startCount_append]
          have : (k' == k) = false := by simpa using hne
          simp [this]
        exact Frozen.trans _ _ _ k (Frozen.trans _ _ _ k h1 h2) (Frozen.runActs _ k _ k' _ _ h2.dead hr0 hk0)
      · rename_i rest raises hph
        exact Frozen.runActs _ k s k' _ _ h (by
          intro b hb; rw [ht] at hb; cases hb; exact ⟨_, _, hph⟩) hk
      · exact Frozen.refl s k h
      · exact Frozen.refl s k h

theorem Frozen.runUntil (fuel : Nat) (k : Nat) : ∀ (s : AState) (limit : Int), DeadJob s k → Frozen s (SV.runUntil fuel s limit) k := by
  induction fuel with
  | zero => intro s limit h; exact Frozen.refl s k h
  | succ n ih =>
      intro s limit h
      unfold SV.runUntil
      split
      · exact ⟨h, rfl⟩
      · rename_i k' _
        split
        · exact Frozen.refl s k h
        · rename_i t _
          have h0 : Frozen s ({ s with now := if s.now ≤ t.wake then t.wake else s.now } : AState) k := ⟨h, rfl⟩
          have h1 := Frozen.stepTask _ k h0.dead k'
          exact Frozen.trans _ _ _ k (Frozen.trans _ _ _ k h0 h1) (ih _ _ h1.dead)

theorem Frozen.astepOp (s : AState) (k : Nat) (h : DeadJob s k) (o : AOp) : Frozen s (SV.astepOp s o).1 k := by
  cases o with
  | sched sp runs => exact Frozen.schedule s k h sp runs
  | run limit fuel => exact Frozen.runUntil fuel k s limit h
  | del k' => exact Frozen.deleteJob s k h k' none
  | delTags q any => exact Frozen.deleteJobs s k h q any none
  | get q any => exact Frozen.refl s k h
  | jobs => exact Frozen.refl s k h

theorem Frozen.arun (fuel : Nat) (k : Nat) (ops : List AOp) : ∀ (s : AState), DeadJob s k → Frozen s (SV.arun fuel s ops) k := by
  induction ops with
  | nil => intro s h; exact Frozen.refl s k h
  | cons o os ih =>
      intro s h
      simp only [SV.arun, List.foldl_cons]
      have h1 := Frozen.astepOp s k h o
      have h2 := Frozen.runUntil fuel k _ (SV.astepOp s o).1.now h1.dead
      exact Frozen.trans _ _ _ k (Frozen.trans _ _ _ k h1 h2) (ih _ h2.dead)

end SV

namespace SV

/-! ### never resurrected: an unregistered existing key stays unregistered -/

def AGone (s : AState) (k : Nat) : Prop := k ∉ s.reg ∧ k < s.tasks.length

theorem AGone.withNow (s : AState) (k : Nat) (h : AGone s k) (n : Int) : AGone { s with now := n } k := h

theorem AGone.setTask (s : AState) (k : Nat) (h : AGone s k) (k' : Nat) (f : ATask → ATask) : AGone (s.setTask k' f) k := by
  refine ⟨h.1, ?_⟩
  simp only [AState.setTask, List.length_modify]; exact h.2

theorem AGone.cancel (s : AState) (k : Nat) (h : AGone s k) (k' : Nat) (cur : Option Nat) : AGone (s.cancel k' cur) k :=
  AGone.setTask s k h k' _

theorem AState.logCancel_tasks (s : AState) (k : Nat) (cur : Option Nat) : (s.logCancel k cur).tasks = s.tasks := by
  unfold AState.logCancel
  split
  · split
    · split <;> rfl
    · rfl
  · rfl

theorem AState.logCancel_reg' (s : AState) (k : Nat) (cur : Option Nat) : (s.logCancel k cur).reg = s.reg := by
  unfold AState.logCancel
  split
  · split
    · split <;> rfl
    · rfl
  · rfl

theorem AGone.deleteJob (s : AState) (k : Nat) (h : AGone s k) (k' : Nat) (cur : Option Nat) : AGone (s.deleteJob k' cur).1 k := by
  unfold AState.deleteJob
  split
  · apply AGone.cancel
    refine ⟨?_, ?_⟩
    · rw [AState.logCancel_reg']
      exact fun hc => h.1 (List.mem_of_mem_erase hc)
    · rw [AState.logCancel_tasks]; exact h.2
  · exact h

theorem AGone.deleteJobs (s : AState) (k : Nat) (h : AGone s k) (q : List Nat) (any : Bool) (cur : Option Nat) :
    AGone (s.deleteJobs q any cur).1 k := by
  unfold AState.deleteJobs
  simp only []
  generalize s.selectKeys q any = sel
  induction sel generalizing s with
  | nil => exact h
  | cons y ys ih => simp only [List.foldl_cons]; exact ih _ (AGone.deleteJob s k h y cur)

theorem AGone.schedule (s : AState) (k : Nat) (h : AGone s k) (sp : RawSpec) (runs : List RunScript) :
    AGone (s.schedule sp runs).1 k := by
  unfold AState.schedule
  split
  · exact h
  · refine ⟨?_, by simp; have := h.2; omega⟩
    simp only [List.mem_append, List.mem_singleton, not_or]
    exact ⟨h.1, by have := h.2; omega⟩

theorem AGone.loopHead (s : AState) (k : Nat) (h : AGone s k) (k' : Nat) : AGone (SV.loopHead s k') k := by
  unfold SV.loopHead
  split
  · exact h
  · split
    · exact AGone.setTask s k h k' _
    · split
      · refine ⟨fun hc => h.1 (List.mem_of_mem_erase hc), ?_⟩
        simp only [AState.setTask, List.length_modify]; exact h.2
      · exact AGone.setTask s k h k' _

theorem AGone.runActs (fuel : Nat) (k : Nat) :
    ∀ (s : AState) (k' : Nat) (acts : List Act) (raises : Bool), AGone s k → AGone (SV.runActs fuel s k' acts raises) k := by
  induction fuel with
  | zero => intro s k' acts raises h; unfold SV.runActs; exact h
  | succ n ih =>
      intro s k' acts raises h
      unfold SV.runActs
      cases acts with
      | nil =>
          simp only []
          split
          · exact h
          · apply AGone.loopHead
            exact AGone.setTask s k h k' _
      | cons a rest =>
          simp only []
          cases a with
          | sleep d =>
              simp only []
              split
              · exact h
              · split
                · exact AGone.setTask s k h k' _
                · exact AGone.setTask s k h k' _
          | del k'' => exact ih _ _ _ _ (AGone.deleteJob s k h k'' _)
          | delTags q any => exact ih _ _ _ _ (AGone.deleteJobs s k h q any _)
          | sched sp => exact ih _ _ _ _ (AGone.schedule s k h sp _)

theorem AGone.stepTask (s : AState) (k : Nat) (h : AGone s k) (k' : Nat) : AGone (SV.stepTask s k') k := by
  unfold SV.stepTask
  split
  · exact h
  · split
    · exact AGone.loopHead s k h k'
    · exact AGone.runActs _ k _ k' _ _ (AGone.setTask s k h k' _)
    · exact AGone.runActs _ k s k' _ _ h
    · exact h
    · exact h

theorem AGone.runUntil (fuel : Nat) (k : Nat) : ∀ (s : AState) (limit : Int), AGone s k → AGone (SV.runUntil fuel s limit) k := by
  induction fuel with
  | zero => intro s limit h; exact h
  | succ n ih =>
      intro s limit h
      unfold SV.runUntil
      split
      · exact h
      · split
        · exact h
        · apply ih
          apply AGone.stepTask
          exact h

theorem AGone.astepOp (s : AState) (k : Nat) (h : AGone s k) (o : AOp) : AGone (SV.astepOp s o).1 k := by
  cases o with
  | sched sp runs => exact AGone.schedule s k h sp runs
  | run limit fuel => exact AGone.runUntil fuel k s limit h
  | del k' => exact AGone.deleteJob s k h k' none
  | delTags q any => exact AGone.deleteJobs s k h q any none
  | get q any => exact h
  | jobs => exact h

theorem AGone.arun (fuel : Nat) (k : Nat) (ops : List AOp) : ∀ (s : AState), AGone s k → AGone (SV.arun fuel s ops) k := by
  induction ops with
  | nil => intro s h; exact h
  | cons o os ih =>
      intro s h
      simp only [SV.arun, List.foldl_cons]
      exact ih _ (AGone.runUntil fuel k _ _ (AGone.astepOp s k h o))

end SV
