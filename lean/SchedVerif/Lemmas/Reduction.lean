/-
  Lemmas/Reduction.lean — lock-protected read-compute-write sections are atomic (helper lemmas; the
  property-level statements are `C14.locked_sections_atomic` / `C14.locked_sections_sequential`).

  Invariant of every reachable state of the L3 machine (Model/Conc/Shared.lean) whose programs follow
  the discipline `progOK`:
    * a thread is inside a section exactly when it owns the lock (so at most one thread is inside),
    * every value the owner has buffered equals the CURRENT shared value (nobody else can have written:
      a write is a `commit`, a commit is inside a section, and only the owner is inside one).
-/
import SchedVerif.Model.Conc.Shared
namespace SV.L3

variable {σ ο : Type}

structure Inv (s : Sys σ ο) : Prop where
  disc : ∀ j th, s.thr[j]? = some th → progOK (decide (s.owner = some j)) th.prog
  stable : ∀ i th, s.owner = some i → s.thr[i]? = some th → th.buf = List.replicate th.buf.length s.st

theorem getElem?_set_thr (l : List (Thread σ ο)) (i j : Nat) (t th : Thread σ ο) (h : l[i]? = some th) :
    (l.set i t)[j]? = if i = j then some t else l[j]? := by
  have hlt : i < l.length := (List.getElem?_eq_some_iff.mp h).1
  by_cases hij : i = j
  · subst hij; simp [hlt]
  · simp [hij, List.getElem?_set_ne hij]

theorem replicate_succ_snoc (n : Nat) (x : σ) : List.replicate n x ++ [x] = List.replicate (n + 1) x := by
  induction n with
  | zero => rfl
  | succ k ih => simp [List.replicate_succ, ih]

/-- who is inside a section owns the lock -/
theorem owner_of_inside (s : Sys σ ο) (hI : Inv s) (i : Nat) (th : Thread σ ο) (hth : s.thr[i]? = some th)
    (hin : ¬ progOK false th.prog) : s.owner = some i := by
  have := hI.disc i th hth
  by_cases ho : s.owner = some i
  · exact ho
  · simp only [ho, decide_false] at this
    exact absurd this hin

theorem not_outside_rel (p : List (Step σ ο)) : ¬ progOK false (Step.rel :: p) := by simp [progOK]
theorem not_outside_snap (p : List (Step σ ο)) : ¬ progOK false (Step.snap :: p) := by simp [progOK]
theorem not_outside_commit (f : List σ → σ × ο) (p : List (Step σ ο)) : ¬ progOK false (Step.commit f :: p) := by
  simp [progOK]

/-- **the invariant is preserved by every enabled step** -/
theorem step_inv (s : Sys σ ο) (hI : Inv s) (i : Nat) (he : enabled s i = true) : Inv (step s i) := by
  unfold enabled at he
  cases hth : s.thr[i]? with
  | none => rw [hth] at he; cases he
  | some th =>
      rw [hth] at he
      dsimp only at he
      have hd := hI.disc i th hth
      cases hp : th.prog with
      | nil => rw [hp] at he; cases he
      | cons stp p =>
          rw [hp] at he hd
          cases stp with
          | acq =>
              have hfree : s.owner = none := by simpa using he
              have hstep : step s i = { s with owner := some i, thr := s.thr.set i { th with prog := p, buf := [] } } := by
                unfold step; rw [hth]; simp only [hp]
              rw [hstep]
              constructor
              · intro j tj hj
                rw [getElem?_set_thr _ _ _ _ _ hth] at hj
                by_cases hij : i = j
                · subst hij
                  simp only [if_true, Option.some.injEq] at hj
                  subst hj
                  simp only [decide_true]
                  simp only [hfree] at hd
                  simpa [progOK] using hd
                · simp only [hij, if_false] at hj
                  have h0 := hI.disc j tj hj
                  have hne : ¬ (some i : Option Nat) = some j := by simpa using hij
                  simp only [hfree] at h0
                  simpa [hne] using h0
              · intro k tk hk htk
                have hki : k = i := by simpa using hk.symm
                subst hki
                rw [getElem?_set_thr _ _ _ _ _ hth] at htk
                simp only [if_true, Option.some.injEq] at htk
                subst htk
                rfl
          | rel =>
              have hown := owner_of_inside s hI i th hth (by rw [hp]; exact not_outside_rel p)
              have hstep : step s i = { s with owner := none, thr := s.thr.set i { th with prog := p, buf := [] } } := by
                unfold step; rw [hth]; simp only [hp]
              rw [hstep]
              constructor
              · intro j tj hj
                rw [getElem?_set_thr _ _ _ _ _ hth] at hj
                by_cases hij : i = j
                · subst hij
                  simp only [if_true, Option.some.injEq] at hj
                  subst hj
                  simp only [hown, decide_true] at hd
                  simpa [progOK] using hd
                · simp only [hij, if_false] at hj
                  have h0 := hI.disc j tj hj
                  have hne : ¬ (some i : Option Nat) = some j := by simpa using hij
                  simp only [hown, hne, decide_false] at h0
                  simpa using h0
              · intro k tk hk; cases hk
          | snap =>
              have hown := owner_of_inside s hI i th hth (by rw [hp]; exact not_outside_snap p)
              have hstep : step s i = { s with thr := s.thr.set i { th with prog := p, buf := th.buf ++ [s.st] } } := by
                unfold step; rw [hth]; simp only [hp]
              rw [hstep]
              constructor
              · intro j tj hj
                rw [getElem?_set_thr _ _ _ _ _ hth] at hj
                by_cases hij : i = j
                · subst hij
                  simp only [if_true, Option.some.injEq] at hj
                  subst hj
                  simp only [hown, decide_true] at hd ⊢
                  simpa [progOK] using hd
                · simp only [hij, if_false] at hj
                  exact hI.disc j tj hj
              · intro k tk hk htk
                have hki : k = i := by
                  have : (some k : Option Nat) = some i := by rw [← hk, ← hown]
                  simpa using this
                subst hki
                rw [getElem?_set_thr _ _ _ _ _ hth] at htk
                simp only [if_true, Option.some.injEq] at htk
                subst htk
                have hb := hI.stable k th hown hth
                show th.buf ++ [s.st] = List.replicate (th.buf ++ [s.st]).length s.st
                rw [List.length_append, List.length_singleton, ← replicate_succ_snoc, ← hb]
          | commit f =>
              have hown := owner_of_inside s hI i th hth (by rw [hp]; exact not_outside_commit f p)
              have hstep : step s i = { s with st := (f th.buf).fst, thr := s.thr.set i { th with prog := p, buf := [], outs := th.outs ++ [(f th.buf).snd] } } := by
                unfold step; rw [hth]; simp only [hp]
              rw [hstep]
              constructor
              · intro j tj hj
                rw [getElem?_set_thr _ _ _ _ _ hth] at hj
                by_cases hij : i = j
                · subst hij
                  simp only [if_true, Option.some.injEq] at hj
                  subst hj
                  simp only [hown, decide_true] at hd ⊢
                  simpa [progOK] using hd
                · simp only [hij, if_false] at hj
                  exact hI.disc j tj hj
              · intro k tk hk htk
                have hki : k = i := by
                  have : (some k : Option Nat) = some i := by rw [← hk]; exact hown
                  simpa using this
                subst hki
                rw [getElem?_set_thr _ _ _ _ _ hth] at htk
                simp only [if_true, Option.some.injEq] at htk
                subst htk
                rfl
          | peek g =>
              have hstep : step s i = { s with thr := s.thr.set i { th with prog := p, outs := th.outs ++ [g s.st] } } := by
                unfold step; rw [hth]; simp only [hp]
              rw [hstep]
              constructor
              · intro j tj hj
                rw [getElem?_set_thr _ _ _ _ _ hth] at hj
                by_cases hij : i = j
                · subst hij
                  simp only [if_true, Option.some.injEq] at hj
                  subst hj
                  cases ho : decide (s.owner = some i) with
                  | true => rw [ho] at hd; simpa [progOK] using hd
                  | false => rw [ho] at hd; simpa [progOK] using hd
                · simp only [hij, if_false] at hj
                  exact hI.disc j tj hj
              · intro k tk hk htk
                rw [getElem?_set_thr _ _ _ _ _ hth] at htk
                by_cases hik : i = k
                · subst hik
                  simp only [if_true, Option.some.injEq] at htk
                  subst htk
                  exact hI.stable i th hk hth
                · simp only [hik, if_false] at htk
                  exact hI.stable k tk hk htk

/-- **a commit of the real machine reads the current value**: under the invariant the step the code
    takes (computing from its buffered reads) is the atomic step (computing from the shared value at
    the moment of the commit) -/
theorem step_eq_stepA (s : Sys σ ο) (hI : Inv s) (i : Nat) : step s i = stepA s i := by
  unfold stepA
  cases hth : s.thr[i]? with
  | none => unfold step; rw [hth]
  | some th =>
      simp only []
      cases hp : th.prog with
      | nil => rfl
      | cons stp p =>
          cases stp with
          | commit f =>
              have hown := owner_of_inside s hI i th hth (by rw [hp]; exact not_outside_commit f p)
              have hb := hI.stable i th hown hth
              simp only []
              unfold step
              rw [hth]
              simp only [hp]
              rw [← hb]
          | acq => rfl
          | rel => rfl
          | snap => rfl
          | peek g => rfl

theorem run_inv (sched : List Nat) (s : Sys σ ο) (hI : Inv s) : Inv (run sched s) := by
  induction sched generalizing s with
  | nil => exact hI
  | cons i rest ih =>
      simp only [run, List.foldl_cons]
      by_cases he : enabled s i = true
      · simp only [he, if_true]; exact ih _ (step_inv s hI i he)
      · simp only [he]; exact ih _ hI

theorem run_eq_runA (sched : List Nat) (s : Sys σ ο) (hI : Inv s) : run sched s = runA sched s := by
  induction sched generalizing s with
  | nil => rfl
  | cons i rest ih =>
      simp only [run, runA, List.foldl_cons]
      by_cases he : enabled s i = true
      · simp only [he, if_true]
        rw [← step_eq_stepA s hI i]
        exact ih _ (step_inv s hI i he)
      · simp only [he]; exact ih _ hI

/-- outputs of thread `i` in a state -/
def outsOf (s : Sys σ ο) (i : Nat) : List ο :=
  match s.thr[i]? with
  | some th => th.outs
  | none => []

def outsFor (i : Nat) (l : List (Nat × ο)) : List ο := (l.filter (fun p => p.1 == i)).map (·.2)

/-- one enabled step: what it does to the shared value and to every thread's outputs, in terms of
    the atomic operation it performs -/
theorem step_effect (s : Sys σ ο) (hI : Inv s) (i : Nat) (he : enabled s i = true) :
    match evOf s i with
    | some e => (step s i).st = (applyA s.st e).1 ∧
        ∀ j, outsOf (step s i) j = if j = i then outsOf s j ++ [(applyA s.st e).2] else outsOf s j
    | none => (step s i).st = s.st ∧ ∀ j, outsOf (step s i) j = outsOf s j := by
  unfold enabled at he
  cases hth : s.thr[i]? with
  | none => rw [hth] at he; cases he
  | some th =>
      rw [hth] at he
      dsimp only at he
      cases hp : th.prog with
      | nil => rw [hp] at he; cases he
      | cons stp p =>
          have houts : ∀ (t : Thread σ ο) (j : Nat), outsOf { s with thr := s.thr.set i t } j
              = if j = i then t.outs else outsOf s j := by
            intro t j
            unfold outsOf
            simp only []
            rw [getElem?_set_thr _ _ _ _ _ hth]
            by_cases hij : i = j
            · subst hij; simp
            · have : ¬ j = i := fun h => hij h.symm
              simp [hij, this]
          have hoi : outsOf s i = th.outs := by unfold outsOf; rw [hth]
          cases stp with
          | acq =>
              have hstep : step s i = { s with owner := some i, thr := s.thr.set i { th with prog := p, buf := [] } } := by
                unfold step; rw [hth]; simp only [hp]
              have hev : evOf s i = none := by unfold evOf; rw [hth]; simp only [hp]
              rw [hev, hstep]
              refine ⟨rfl, fun j => ?_⟩
              have := houts { th with prog := p, buf := [] } j
              unfold outsOf at this ⊢
              simp only [] at this ⊢
              rw [this]
              by_cases hji : j = i
              · subst hji; simp [hth]
              · simp [hji]
          | rel =>
              have hstep : step s i = { s with owner := none, thr := s.thr.set i { th with prog := p, buf := [] } } := by
                unfold step; rw [hth]; simp only [hp]
              have hev : evOf s i = none := by unfold evOf; rw [hth]; simp only [hp]
              rw [hev, hstep]
              refine ⟨rfl, fun j => ?_⟩
              have := houts { th with prog := p, buf := [] } j
              unfold outsOf at this ⊢
              simp only [] at this ⊢
              rw [this]
              by_cases hji : j = i
              · subst hji; simp [hth]
              · simp [hji]
          | snap =>
              have hstep : step s i = { s with thr := s.thr.set i { th with prog := p, buf := th.buf ++ [s.st] } } := by
                unfold step; rw [hth]; simp only [hp]
              have hev : evOf s i = none := by unfold evOf; rw [hth]; simp only [hp]
              rw [hev, hstep]
              refine ⟨rfl, fun j => ?_⟩
              rw [houts]
              by_cases hji : j = i
              · subst hji; simp [hoi]
              · simp [hji]
          | commit f =>
              have hown := owner_of_inside s hI i th hth (by rw [hp]; exact not_outside_commit f p)
              have hb := hI.stable i th hown hth
              have hstep : step s i = { s with st := (f th.buf).fst, thr := s.thr.set i { th with prog := p, buf := [], outs := th.outs ++ [(f th.buf).snd] } } := by
                unfold step; rw [hth]; simp only [hp]
              have hev : evOf s i = some (.sec th.buf.length f) := by unfold evOf; rw [hth]; simp only [hp]
              rw [hev, hstep]
              simp only [applyA]
              rw [← hb]
              refine ⟨rfl, fun j => ?_⟩
              have := houts { th with prog := p, buf := [], outs := th.outs ++ [(f th.buf).2] } j
              unfold outsOf at this ⊢
              simp only [] at this ⊢
              rw [this]
              by_cases hji : j = i
              · subst hji; simp [hth]
              · simp [hji]
          | peek g =>
              have hstep : step s i = { s with thr := s.thr.set i { th with prog := p, outs := th.outs ++ [g s.st] } } := by
                unfold step; rw [hth]; simp only [hp]
              have hev : evOf s i = some (.peek g) := by unfold evOf; rw [hth]; simp only [hp]
              rw [hev, hstep]
              simp only [applyA]
              refine ⟨trivial, fun j => ?_⟩
              rw [houts]
              by_cases hji : j = i
              · subst hji; simp [hoi]
              · simp [hji]

/-- **the run is the sequential execution of its atomic operations**: final shared value and every
    thread's outputs -/
theorem run_eq_seq (sched : List Nat) (s : Sys σ ο) (hI : Inv s) :
    (run sched s).st = (seqRun s.st (events sched s)).1 ∧
    ∀ j, outsOf (run sched s) j = outsOf s j ++ outsFor j (seqRun s.st (events sched s)).2 := by
  induction sched generalizing s with
  | nil => simp [run, events, seqRun, outsFor]
  | cons i rest ih =>
      simp only [run, List.foldl_cons]
      by_cases he : enabled s i = true
      · simp only [he, if_true]
        have hI' := step_inv s hI i he
        have ⟨ih1, ih2⟩ := ih (step s i) hI'
        have heff := step_effect s hI i he
        have hrun : List.foldl (fun s i => if enabled s i = true then step s i else s) (step s i) rest = run rest (step s i) := rfl
        rw [hrun]
        cases hev : evOf s i with
        | none =>
            rw [hev] at heff
            have hE : events (i :: rest) s = events rest (step s i) := by
              simp only [events, he, if_true, hev]
            rw [hE, ← heff.1]
            refine ⟨ih1, fun j => ?_⟩
            rw [ih2 j, heff.2 j]
        | some e =>
            rw [hev] at heff
            have hE : events (i :: rest) s = (i, e) :: events rest (step s i) := by
              simp only [events, he, if_true, hev]
            rw [hE]
            simp only [seqRun]
            rw [← heff.1]
            refine ⟨ih1, fun j => ?_⟩
            rw [ih2 j, heff.2 j]
            by_cases hji : j = i
            · subst hji
              simp [outsFor, List.append_assoc]
            · have : (i == j) = false := by simpa using fun h => hji h.symm
              simp [outsFor, hji, this]
      · simp only [he]
        have hE : events (i :: rest) s = events rest s := by
          simp only [events, he]
          simp
        rw [hE]
        exact ih s hI

end SV.L3
