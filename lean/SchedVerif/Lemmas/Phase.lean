/-
  Lemmas/Phase.lean — occurrences on the UTC axis (helper lemmas only).
-/
import SchedVerif.Spec.Union
import SchedVerif.Model.Job
namespace SV

/-- an instant is an occurrence iff its residue modulo the period is the timing's UTC phase -/
theorem occ_iff_utc (tm : Timing) (hv : tm.valid) (hc : tm.isCyclic = false) (U : Int) :
    Occ tm U ↔ U % tm.period = utcPhase tm := by
  have hr := tm.phase_range hv hc
  unfold Occ utcPhase
  cases tm with
  | cyclic td => simp [Timing.isCyclic] at hc
  | minutely t => simp only [Timing.period, Timing.off, MIN] at *; omega
  | hourly t => simp only [Timing.period, Timing.off, HOUR] at *; omega
  | daily t => simp only [Timing.period, Timing.off, DAY] at *; omega
  | weekly wd t => simp only [Timing.period, Timing.off, WEEK] at *; omega

theorem utcPhase_range (tm : Timing) (hc : tm.isCyclic = false) :
    0 ≤ utcPhase tm ∧ utcPhase tm < tm.period := by
  have hp := tm.period_pos hc
  exact ⟨Int.emod_nonneg _ (by omega), Int.emod_lt_of_pos _ hp⟩

theorem nodupInt_iff (l : List Int) : nodupInt l = true ↔ l.Nodup := by
  induction l with
  | nil => simp [nodupInt]
  | cons x xs ih => simp [nodupInt, ih, List.nodup_cons]

theorem nodupInt'_iff (l : List Int) : nodupInt' l = true ↔ l.Nodup := by
  induction l with
  | nil => simp [nodupInt']
  | cons x xs ih => simp [nodupInt', ih, List.nodup_cons]

/-- two key functions that identify the same pairs give the same duplicate verdict -/
theorem nodup_map_congr {α : Type} (l : List α) (f g : α → Int)
    (h : ∀ x ∈ l, ∀ y ∈ l, f x = f y ↔ g x = g y) : (l.map f).Nodup ↔ (l.map g).Nodup := by
  induction l with
  | nil => simp
  | cons a as ih =>
      have ih' := ih (fun x hx y hy => h x (List.mem_cons_of_mem _ hx) y (List.mem_cons_of_mem _ hy))
      simp only [List.map_cons, List.nodup_cons, List.mem_map, ih']
      constructor
      · rintro ⟨h1, h2⟩
        refine ⟨?_, h2⟩
        rintro ⟨y, hy, hgy⟩
        exact h1 ⟨y, hy, ((h y (List.mem_cons_of_mem _ hy) a (List.mem_cons_self)).mpr hgy)⟩
      · rintro ⟨h1, h2⟩
        refine ⟨?_, h2⟩
        rintro ⟨y, hy, hfy⟩
        exact h1 ⟨y, hy, ((h y (List.mem_cons_of_mem _ hy) a (List.mem_cons_self)).mp hfy)⟩

end SV
