/-
  Lemmas/Async.lean — invariants of the asyncio model (helper lemmas only).
-/
import SchedVerif.Model.Async
namespace SV

/-- every start event recorded so far happened at or after the due instant it belonged to -/
def StartsOK (s : AState) : Prop := ∀ e ∈ s.log, e.kind = .start → e.due ≤ e.time

/-- a sleeping supervisor wakes no earlier than its job is due; nobody waits for the past -/
structure WakeInv (s : AState) : Prop where
  sleep : ∀ t ∈ s.tasks, t.phase = .sleeping → t.job.due.inst ≤ t.wake
  starts : StartsOK s

theorem AState.mem_setTask (s : AState) (k : Nat) (f : ATask → ATask) (t : ATask) (h : t ∈ (s.setTask k f).tasks) :
    t ∈ s.tasks ∨ ∃ b, s.task? k = some b ∧ t = f b := by
  simp only [AState.setTask] at h
  obtain ⟨j, hj, rfl⟩ := List.mem_iff_getElem.mp h
  rw [List.getElem_modify]
  have hj' : j < s.tasks.length := by simpa using hj
  by_cases hkj : k = j
  · subst hkj
    right
    exact ⟨s.tasks[k], by simp [AState.task?, hj'], by simp⟩
  · left; simp [hkj]

@[simp] theorem AState.setTask_log (s : AState) (k : Nat) (f : ATask → ATask) : (s.setTask k f).log = s.log := rfl
@[simp] theorem AState.setTask_now (s : AState) (k : Nat) (f : ATask → ATask) : (s.setTask k f).now = s.now := rfl
@[simp] theorem AState.setTask_tz (s : AState) (k : Nat) (f : ATask → ATask) : (s.setTask k f).tz = s.tz := rfl
@[simp] theorem AState.setTask_reg (s : AState) (k : Nat) (f : ATask → ATask) : (s.setTask k f).reg = s.reg := rfl

/-- changing one task in a way that never creates a sleeping task with a too-early wake -/
theorem WakeInv.setTask (s : AState) (h : WakeInv s) (k : Nat) (f : ATask → ATask)
    (hf : ∀ b, s.task? k = some b → (f b).phase = .sleeping → (f b).job.due.inst ≤ (f b).wake) :
    WakeInv (s.setTask k f) := by
  refine ⟨?_, h.starts⟩
  intro t ht hp
  rcases s.mem_setTask k f t ht with h1 | ⟨b, hb, rfl⟩
  · exact h.sleep t h1 hp
  · exact hf b hb hp

theorem WakeInv.withLog (s : AState) (h : WakeInv s) (e : AEvent) (he : e.kind = .start → e.due ≤ e.time) :
    WakeInv { s with log := s.log ++ [e] } := by
  refine ⟨h.sleep, ?_⟩
  intro e' he' hk
  rcases List.mem_append.mp he' with h1 | h1
  · exact h.starts e' h1 hk
  · simp at h1; subst h1; exact he hk

theorem WakeInv.withReg (s : AState) (h : WakeInv s) (r : List Nat) : WakeInv { s with reg := r } :=
  ⟨h.sleep, h.starts⟩

theorem WakeInv.withLogs (s : AState) (h : WakeInv s) (n : Nat) : WakeInv { s with logs := n } :=
  ⟨h.sleep, h.starts⟩

theorem AState.task?_mem (s : AState) (k : Nat) (b : ATask) (h : s.task? k = some b) : b ∈ s.tasks :=
  List.mem_of_getElem? h

theorem WakeInv.withLogLogs (s : AState) (h : WakeInv s) (e : AEvent) (he : e.kind = .start → e.due ≤ e.time) (n : Nat) :
    WakeInv { s with log := s.log ++ [e], logs := n } := by
  refine ⟨h.sleep, ?_⟩
  intro e' he' hk
  rcases List.mem_append.mp he' with h1 | h1
  · exact h.starts e' h1 hk
  · simp at h1; subst h1; exact he hk

theorem WakeInv.cancel (s : AState) (h : WakeInv s) (k : Nat) (cur : Option Nat) : WakeInv (s.cancel k cur) := by
  unfold AState.cancel
  apply WakeInv.setTask s h
  intro b hb hp
  have hsl := h.sleep b (s.task?_mem k b hb)
  cases hph : b.phase <;> simp only [hph] at hp <;> (try split at hp) <;> simp_all

theorem WakeInv.logCancel (s : AState) (h : WakeInv s) (k : Nat) (cur : Option Nat) : WakeInv (s.logCancel k cur) := by
  unfold AState.logCancel
  split
  · split
    · split
      · exact h
      · exact WakeInv.withLog _ h _ (by intro hc; cases hc)
    · exact h
  · exact h

theorem WakeInv.deleteJob (s : AState) (h : WakeInv s) (k : Nat) (cur : Option Nat) :
    WakeInv (s.deleteJob k cur).1 := by
  unfold AState.deleteJob
  split
  · exact WakeInv.cancel _ (WakeInv.logCancel _ (WakeInv.withReg s h (s.reg.erase k)) k cur) k cur
  · exact h

theorem WakeInv.deleteJobs (s : AState) (h : WakeInv s) (q : List Nat) (any : Bool) (cur : Option Nat) :
    WakeInv (s.deleteJobs q any cur).1 := by
  unfold AState.deleteJobs
  simp only []
  generalize s.selectKeys q any = sel
  induction sel generalizing s with
  | nil => exact h
  | cons x xs ih => simp only [List.foldl_cons]; exact ih _ (WakeInv.deleteJob s h x cur)

theorem WakeInv.schedule (s : AState) (h : WakeInv s) (sp : RawSpec) (runs : List RunScript) :
    WakeInv (s.schedule sp runs).1 := by
  unfold AState.schedule
  split
  · exact h
  · refine ⟨?_, h.starts⟩
    intro t ht hp
    simp only [List.mem_append, List.mem_singleton] at ht
    rcases ht with h1 | h1
    · exact h.sleep t h1 hp
    · subst h1; simp at hp

theorem WakeInv.loopHead (s : AState) (h : WakeInv s) (k : Nat) : WakeInv (loopHead s k) := by
  unfold SV.loopHead
  split
  · exact h
  · rename_i t ht
    split
    · exact WakeInv.setTask s h k _ (by intro b _ hp; simp at hp)
    · split
      · exact WakeInv.withReg _ (WakeInv.setTask s h k _ (by intro b _ hp; simp at hp)) _
      · apply WakeInv.setTask s h k
        intro b hb _
        have : b = t := by rw [ht] at hb; exact (Option.some.inj hb).symm
        subst this
        simp only []
        split <;> omega

/-- task `k` is not in the `sleeping` phase (it is the one that is running) -/
def NotSleeping (s : AState) (k : Nat) : Prop := ∀ b, s.task? k = some b → b.phase ≠ .sleeping

theorem AState.task?_setTask (s : AState) (k k' : Nat) (f : ATask → ATask) :
    (s.setTask k f).task? k' = if k = k' then (s.task? k').map f else s.task? k' := by
  simp only [AState.setTask, AState.task?, List.getElem?_modify]
  by_cases h : k = k' <;> simp [h]

theorem NotSleeping.cancel (s : AState) (k : Nat) (h : NotSleeping s k) (k' : Nat) (cur : Option Nat) :
    NotSleeping (s.cancel k' cur) k := by
  intro b hb
  unfold AState.cancel at hb
  rw [AState.task?_setTask] at hb
  by_cases hk : k' = k
  · subst hk
    simp only [if_true] at hb
    cases hx : s.task? k' with
    | none => rw [hx] at hb; simp at hb
    | some x =>
        rw [hx] at hb
        simp only [Option.map_some, Option.some.injEq] at hb
        have hxs := h x hx
        subst hb
        cases hph : x.phase <;> simp only [hph] <;> (try split) <;> simp_all
  · simp only [hk, if_false] at hb
    exact h b hb

theorem AState.logCancel_task? (s : AState) (k : Nat) (cur : Option Nat) (j : Nat) :
    (s.logCancel k cur).task? j = s.task? j := by
  unfold AState.logCancel
  split
  · split
    · split <;> rfl
    · rfl
  · rfl

theorem NotSleeping.deleteJob (s : AState) (k : Nat) (h : NotSleeping s k) (k' : Nat) (cur : Option Nat) :
    NotSleeping (s.deleteJob k' cur).1 k := by
  unfold AState.deleteJob
  split
  · apply NotSleeping.cancel
    intro b hb
    rw [AState.logCancel_task?] at hb
    exact h b hb
  · exact h

theorem NotSleeping.deleteJobs (s : AState) (k : Nat) (h : NotSleeping s k) (q : List Nat) (any : Bool) (cur : Option Nat) :
    NotSleeping (s.deleteJobs q any cur).1 k := by
  unfold AState.deleteJobs
  simp only []
  generalize s.selectKeys q any = sel
  induction sel generalizing s with
  | nil => exact h
  | cons x xs ih => simp only [List.foldl_cons]; exact ih _ (NotSleeping.deleteJob s k h x cur)

theorem NotSleeping.schedule (s : AState) (k : Nat) (h : NotSleeping s k) (sp : RawSpec) (runs : List RunScript) :
    NotSleeping (s.schedule sp runs).1 k := by
  unfold AState.schedule
  split
  · exact h
  · intro b hb
    simp only [AState.task?] at hb
    by_cases hk : k < s.tasks.length
    · rw [List.getElem?_append_left hk] at hb
      exact h b hb
    · rw [List.getElem?_append_right (by omega)] at hb
      cases hx : k - s.tasks.length with
      | zero => rw [hx] at hb; simp at hb; subst hb; simp
      | succ n => rw [hx] at hb; simp at hb

theorem WakeInv.runActs (fuel : Nat) :
    ∀ (s : AState) (k : Nat) (acts : List Act) (raises : Bool), WakeInv s → NotSleeping s k →
      WakeInv (runActs fuel s k acts raises) := by
  induction fuel with
  | zero => intro s k acts raises h _; unfold SV.runActs; exact h
  | succ n ih =>
      intro s k acts raises h hns
      unfold SV.runActs
      cases acts with
      | nil =>
          simp only []
          split
          · exact h
          · apply WakeInv.loopHead
            apply WakeInv.withLogLogs
            · exact WakeInv.setTask s h k _ (by
                intro b hb hp
                exact absurd hp (hns b hb))
            · intro hc; split at hc <;> cases hc
      | cons a rest =>
          simp only []
          cases a with
          | sleep d =>
              simp only []
              split
              · exact h
              · split
                · exact WakeInv.withLog _ (WakeInv.setTask s h k _ (by intro b _ hp; simp at hp)) _ (by intro hc; cases hc)
                · exact WakeInv.setTask s h k _ (by intro b _ hp; simp at hp)
          | del k' => exact ih _ _ _ _ (WakeInv.deleteJob s h k' _) (NotSleeping.deleteJob s k hns k' _)
          | delTags q any => exact ih _ _ _ _ (WakeInv.deleteJobs s h q any _) (NotSleeping.deleteJobs s k hns q any _)
          | sched sp => exact ih _ _ _ _ (WakeInv.schedule s h sp _) (NotSleeping.schedule s k hns sp _)

theorem WakeInv.withNow (s : AState) (h : WakeInv s) (n : Int) : WakeInv { s with now := n } :=
  ⟨h.sleep, h.starts⟩

theorem NotSleeping.withLog (s : AState) (k : Nat) (h : NotSleeping s k) (l : List AEvent) :
    NotSleeping { s with log := l } k := h

theorem WakeInv.stepTask (s : AState) (h : WakeInv s) (k : Nat)
    (hw : ∀ t, s.task? k = some t → t.phase = .sleeping → t.wake ≤ s.now) : WakeInv (stepTask s k) := by
  unfold SV.stepTask
  split
  · exact h
  · rename_i t ht
    split
    · exact WakeInv.loopHead s h k
    · rename_i hph
      simp only []
      generalize (t.runs[t.nrun]?).getD (t.runs.getLast?.getD {}) = script
      have h0 : WakeInv (s.setTask k (fun t' => { t' with phase := Phase.running script.acts script.raises })) :=
        WakeInv.setTask s h k _ (by intro b _ hp; simp at hp)
      have hdue : t.job.due.inst ≤ s.now := by
        have a := h.sleep t (s.task?_mem k t ht) hph
        have b := hw t ht hph
        omega
      apply WakeInv.runActs
      · exact WakeInv.withLog _ h0 _ (by intro _; exact hdue)
      · intro b hb
        have hb' : (s.setTask k (fun t' => { t' with phase := Phase.running script.acts script.raises })).task? k = some b := hb
        rw [AState.task?_setTask] at hb'
        simp only [if_true, ht, Option.map_some, Option.some.injEq] at hb'
        subst hb'
        simp
    · rename_i rest raises hph
      apply WakeInv.runActs _ _ _ _ _ h
      intro b hb
      have : b = t := by rw [ht] at hb; exact (Option.some.inj hb).symm
      subst this
      rw [hph]; simp
    · exact h
    · exact h

theorem WakeInv.runUntil (fuel : Nat) : ∀ (s : AState) (limit : Int), WakeInv s → WakeInv (runUntil fuel s limit) := by
  induction fuel with
  | zero => intro s limit h; exact h
  | succ n ih =>
      intro s limit h
      unfold SV.runUntil
      split
      · exact WakeInv.withNow s h _
      · rename_i k _
        split
        · exact h
        · rename_i t ht
          apply ih
          apply WakeInv.stepTask _ (WakeInv.withNow s h _)
          intro t' ht' _
          have : t' = t := by
            have e : ({ s with now := if s.now ≤ t.wake then t.wake else s.now } : AState).task? k = s.task? k := rfl
            rw [e, ht] at ht'; exact (Option.some.inj ht').symm
          subst this
          simp only []
          split <;> omega

end SV
