/-
  Lemmas/Reexpress.lean — two ways of writing the same schedule (other offsets for timings, start,
  stop, scheduler) evolve in lock step (helper lemmas only).
-/
import SchedVerif.Props.C09
namespace SV

/-- the datetime produced by one application carries the timing's offset (no validity needed) -/
theorem advance_off (tm : Timing) (hc : tm.isCyclic = false) (d : DT) (ha : d.off.isSome = tm.off.isSome) :
    (advance tm d).off = tm.off := by
  cases tm with
  | cyclic td => simp [Timing.isCyclic] at hc
  | minutely t => simp [advance, nextMinutely, replaceMin, convertInto_off d t.off ha, Timing.off]
  | hourly t => simp [advance, nextHourly, replaceHour, convertInto_off d t.off ha, Timing.off]
  | daily t => simp [advance, nextDaily, replaceDay, convertInto_off d t.off ha, Timing.off]
  | weekly wd t => simp [advance, nextWeekdayTime, convertInto_off d t.off ha, Timing.off]

/-- same recurring instants (or the same interval) -/
def TimingEq (a b : Timing) : Prop :=
  (∃ T, a = .cyclic T ∧ b = .cyclic T) ∨
  (a.isCyclic = false ∧ b.isCyclic = false ∧ a.valid ∧ b.valid ∧ a.period = b.period ∧ utcPhase a = utcPhase b)

theorem advance_eq (a b : Timing) (ha : a.isCyclic = false) (hb : b.isCyclic = false) (va : a.valid) (vb : b.valid)
    (hp : a.period = b.period) (hu : utcPhase a = utcPhase b) (d d' : DT) (hi : d.inst = d'.inst)
    (wa : d.off.isSome = a.off.isSome) (wb : d'.off.isSome = b.off.isSome) :
    (advance a d).inst = (advance b d').inst := by
  have la := advance_least a va ha d wa
  have lb := advance_least b vb hb d' wb
  rw [hi] at la
  exact isLeast_unique _ _ _ _ _ ((C09.same_instants_iff a b va vb ha hb hp).mp hu) la lb

/-- two timers in lock step -/
structure TimerEq (x y : Timer) : Prop where
  timing : TimingEq x.timing y.timing
  skip : x.skip = y.skip
  inst : x.next.inst = y.next.inst
  awx : x.timing.isCyclic = false → x.next.off.isSome = x.timing.off.isSome
  awy : y.timing.isCyclic = false → y.next.off.isSome = y.timing.off.isSome

/-- references that denote the same instant, each with the awareness its side needs -/
structure RefEq (x y : Timer) (r r' : Option DT) : Prop where
  both : r.isSome = r'.isSome
  inst : ∀ a b, r = some a → r' = some b → a.inst = b.inst
  awx : ∀ a, r = some a → x.timing.isCyclic = false → a.off.isSome = x.timing.off.isSome
  awy : ∀ b, r' = some b → y.timing.isCyclic = false → b.off.isSome = y.timing.off.isSome

theorem TimerEq.calcNext (x y : Timer) (h : TimerEq x y) (r r' : Option DT) (hr : RefEq x y r r') :
    TimerEq (x.calcNext r) (y.calcNext r') := by
  rcases h.timing with ⟨T, hx, hy⟩ | ⟨ncx, ncy, vx, vy, hp, hu⟩
  · -- cyclic on both sides
    have e1 : (x.calcNext r).timing = x.timing := by unfold Timer.calcNext; rw [hx]
    have e2 : (y.calcNext r').timing = y.timing := by unfold Timer.calcNext; rw [hy]
    have s1 : (x.calcNext r).skip = x.skip := by unfold Timer.calcNext; rw [hx]
    have s2 : (y.calcNext r').skip = y.skip := by unfold Timer.calcNext; rw [hy]
    refine ⟨by rw [e1, e2]; exact h.timing, by rw [s1, s2]; exact h.skip, ?_,
      by rw [e1, hx]; simp [Timing.isCyclic], by rw [e2, hy]; simp [Timing.isCyclic]⟩
    have hs := h.skip
    unfold Timer.calcNext
    rw [hx, hy]
    cases r with
    | none =>
        cases r' with
        | none =>
            have := h.inst
            cases hxs : x.skip <;> cases hys : y.skip <;> simp_all [DT.add, DT.inst] <;> omega
        | some b => have := hr.both; simp at this
    | some a =>
        cases r' with
        | none => have := hr.both; simp at this
        | some b =>
            have hi := hr.inst a b rfl rfl
            have := h.inst
            cases hxs : x.skip <;> cases hys : y.skip <;> simp_all [DT.add, DT.inst] <;> omega
  · have ax := h.awx ncx
    have ay := h.awy ncy
    have n1 := advance_eq x.timing y.timing ncx ncy vx vy hp hu x.next y.next h.inst ax ay
    have ox := advance_off x.timing ncx x.next ax
    have oy := advance_off y.timing ncy y.next ay
    cases r with
    | none =>
        cases r' with
        | some b => have := hr.both; simp at this
        | none =>
            rw [Timer.calcNext_none _ ncx, Timer.calcNext_none _ ncy]
            exact ⟨h.timing, h.skip, n1, fun _ => by simp [ox], fun _ => by simp [oy]⟩
    | some a =>
        cases r' with
        | none => have := hr.both; simp at this
        | some b =>
            have hi := hr.inst a b rfl rfl
            have wa := hr.awx a rfl ncx
            have wb := hr.awy b rfl ncy
            have n2 := advance_eq x.timing y.timing ncx ncy vx vy hp hu a b hi wa wb
            have oa := advance_off x.timing ncx a wa
            have ob := advance_off y.timing ncy b wb
            cases hxs : x.skip with
            | false =>
                have hys : y.skip = false := by rw [← h.skip, hxs]
                rw [Timer.calcNext_noskip _ hxs, Timer.calcNext_noskip _ hys]
                exact ⟨h.timing, h.skip, n1, fun _ => by simp [ox], fun _ => by simp [oy]⟩
            | true =>
                have hys : y.skip = true := by rw [← h.skip, hxs]
                rw [Timer.calcNext_skip_nc _ ncx hxs, Timer.calcNext_skip_nc _ ncy hys]
                by_cases hc : (advance x.timing x.next).inst < a.inst
                · have hc' : (advance y.timing y.next).inst < b.inst := by omega
                  simp only [hc, hc', if_true]
                  exact ⟨h.timing, h.skip, n2, fun _ => by simp [oa], fun _ => by simp [ob]⟩
                · have hc' : ¬ (advance y.timing y.next).inst < b.inst := by omega
                  simp only [hc, hc', if_false]
                  exact ⟨h.timing, h.skip, n1, fun _ => by simp [ox], fun _ => by simp [oy]⟩

/-- `argmin` only looks at the values -/
theorem argmin_congr {α β : Type} (f : α → Int) (g : β → Int) :
    ∀ (l : List α) (l' : List β), l.map f = l'.map g → argmin f l = argmin g l' := by
  intro l
  induction l with
  | nil => intro l' h; cases l' <;> simp_all [argmin]
  | cons x xs ih =>
      intro l' h
      cases l' with
      | nil => simp at h
      | cons y ys =>
          simp only [List.map_cons, List.cons.injEq] at h
          have e := ih ys h.2
          unfold argmin
          rw [e]
          have hv : (xs[argmin g ys]?).map f = (ys[argmin g ys]?).map g := by
            rw [← List.getElem?_map, ← List.getElem?_map, h.2]
          cases hx : xs[argmin g ys]? with
          | none =>
              cases hy : ys[argmin g ys]? with
              | none => rfl
              | some b => rw [hx, hy] at hv; simp at hv
          | some a =>
              cases hy : ys[argmin g ys]? with
              | none => rw [hx, hy] at hv; simp at hv
              | some b =>
                  rw [hx, hy] at hv
                  simp only [Option.map_some, Option.some.injEq] at hv
                  simp only [hv, h.1]

/-- two jobs in lock step -/
structure JobEq (j j' : Job) : Prop where
  len : j.timers.length = j'.timers.length
  timers : ∀ i (h : i < j.timers.length) (h' : i < j'.timers.length), TimerEq j.timers[i] j'.timers[i]
  pending : j.pending = j'.pending
  start : j.start.inst = j'.start.inst
  stop : j.stop.map DT.inst = j'.stop.map DT.inst
  delay : j.delay = j'.delay
  skip : j.skip = j'.skip
  maxAtt : j.maxAtt = j'.maxAtt
  attempts : j.attempts = j'.attempts
  markDelete : j.markDelete = j'.markDelete

theorem JobEq.pendingNext (j j' : Job) (h : JobEq j j') : j.pendingTimer.next.inst = j'.pendingTimer.next.inst := by
  unfold Job.pendingTimer
  rw [← h.pending]
  by_cases hp : j.pending < j.timers.length
  · have hp' : j.pending < j'.timers.length := h.len ▸ hp
    simp only [List.getD_eq_getElem?_getD, List.getElem?_eq_getElem hp, List.getElem?_eq_getElem hp', Option.getD_some]
    exact (h.timers _ hp hp').inst
  · have hp' : ¬ j.pending < j'.timers.length := h.len ▸ hp
    simp [List.getD_eq_getElem?_getD, List.getElem?_eq_none (Nat.le_of_not_lt hp), List.getElem?_eq_none (Nat.le_of_not_lt hp')]

/-- equal due instants, equal "attempts remaining" -/
theorem JobEq.due (j j' : Job) (h : JobEq j j') : j.due.inst = j'.due.inst := by
  unfold Job.due
  rw [h.delay, h.attempts]
  split
  · exact h.start
  · exact h.pendingNext

theorem JobEq.hasAttempts (j j' : Job) (h : JobEq j j') : j.hasAttempts = j'.hasAttempts := by
  unfold Job.hasAttempts
  rw [h.markDelete, h.maxAtt, h.attempts]

theorem JobEq.exec1 (j j' : Job) (h : JobEq j j') (r r' : Bool) : JobEq (j.exec1 r) (j'.exec1 r') := by
  exact ⟨h.len, h.timers, h.pending, h.start, h.stop, h.delay, h.skip, h.maxAtt,
    by simp [Job.exec1, h.attempts], h.markDelete⟩

theorem pastStop_eq (s s' : Option DT) (d d' : DT) (hs : s.map DT.inst = s'.map DT.inst) (hd : d.inst = d'.inst) :
    Job.pastStop s d = Job.pastStop s' d' := by
  cases s <;> cases s' <;> simp_all [Job.pastStop]

/-- index-wise relation between two lists -/
def Rel2 {α β : Type} (R : α → β → Prop) (l : List α) (l' : List β) : Prop :=
  l.length = l'.length ∧ ∀ i (hx : i < l.length) (hy : i < l'.length), R l[i] l'[i]

theorem Rel2.map {α β : Type} (R : α → β → Prop) (l : List α) (l' : List β) (h : Rel2 R l l')
    (f : α → α) (g : β → β) (hfg : ∀ a b, R a b → R (f a) (g b)) : Rel2 R (l.map f) (l'.map g) := by
  refine ⟨by simp [h.1], ?_⟩
  intro i hx hy
  simp only [List.getElem_map]
  exact hfg _ _ (h.2 i (by simpa using hx) (by simpa using hy))

theorem Rel2.modify {α β : Type} (R : α → β → Prop) (l : List α) (l' : List β) (h : Rel2 R l l')
    (p : Nat) (f : α → α) (g : β → β) (hfg : ∀ a b, R a b → R (f a) (g b)) :
    Rel2 R (l.modify p f) (l'.modify p g) := by
  refine ⟨by simp [h.1], ?_⟩
  intro i hx hy
  simp only [List.getElem_modify]
  have := h.2 i (by simpa using hx) (by simpa using hy)
  by_cases hp : p = i
  · simp only [hp, if_true]; exact hfg _ _ this
  · simp only [hp, if_false]; exact this

/-- the timer lists after rescheduling stay in lock step -/
theorem timers_calcNext (j j' : Job) (h : JobEq j j') (ref ref' : DT) (hi : ref.inst = ref'.inst)
    (wa : ∀ tm ∈ j.timers, tm.timing.isCyclic = false → ref.off.isSome = tm.timing.off.isSome)
    (wb : ∀ tm ∈ j'.timers, tm.timing.isCyclic = false → ref'.off.isSome = tm.timing.off.isSome) :
    Rel2 TimerEq (j.calcNext ref).timers (j'.calcNext ref').timers := by
  -- strengthen the relation with membership so that the awareness hypotheses are available
  let R : Timer → Timer → Prop := fun a b => TimerEq a b ∧
    (a.timing.isCyclic = false → ref.off.isSome = a.timing.off.isSome) ∧
    (b.timing.isCyclic = false → ref'.off.isSome = b.timing.off.isSome)
  have h0 : Rel2 R j.timers j'.timers :=
    ⟨h.len, fun i hx hy => ⟨h.timers i hx hy, wa _ (List.getElem_mem hx), wb _ (List.getElem_mem hy)⟩⟩
  have hstep : ∀ a b, R a b → R (a.calcNext (some ref)) (b.calcNext (some ref')) := by
    intro a b ⟨te, ha, hb⟩
    have hr : RefEq a b (some ref) (some ref') :=
      ⟨rfl, fun x y hx hy => by cases hx; cases hy; exact hi,
        fun x hx hc => by cases hx; exact ha hc, fun y hy hc => by cases hy; exact hb hc⟩
    have tc := TimerEq.calcNext a b te _ _ hr
    have ta : (a.calcNext (some ref)).timing = a.timing := by
      unfold Timer.calcNext; cases a.timing <;> simp <;> split <;> (try split) <;> rfl
    have tb : (b.calcNext (some ref')).timing = b.timing := by
      unfold Timer.calcNext; cases b.timing <;> simp <;> split <;> (try split) <;> rfl
    exact ⟨tc, by rw [ta]; exact ha, by rw [tb]; exact hb⟩
  have weaken : ∀ l l', Rel2 R l l' → Rel2 TimerEq l l' := fun l l' hr => ⟨hr.1, fun i hx hy => (hr.2 i hx hy).1⟩
  apply weaken
  have hsk := h.skip
  cases hs : j.skip with
  | true =>
      have hs' : j'.skip = true := by rw [← hsk, hs]
      have e1 : (j.calcNext ref).timers = j.timers.map (fun t => if t.next.inst - ref.inst ≤ 0 then t.calcNext (some ref) else t) := by
        simp [Job.calcNext, hs]
      have e2 : (j'.calcNext ref').timers = j'.timers.map (fun t => if t.next.inst - ref'.inst ≤ 0 then t.calcNext (some ref') else t) := by
        simp [Job.calcNext, hs']
      rw [e1, e2]
      apply Rel2.map R _ _ h0
      intro a b hab
      have : (a.next.inst - ref.inst ≤ 0) ↔ (b.next.inst - ref'.inst ≤ 0) := by rw [hab.1.inst, hi]
      by_cases hc : a.next.inst - ref.inst ≤ 0
      · simp only [hc, this.mp hc, if_true]; exact hstep a b hab
      · have hc' : ¬ (b.next.inst - ref'.inst ≤ 0) := fun e => hc (this.mpr e)
        simp only [hc, hc', if_false]; exact hab
  | false =>
      have hs' : j'.skip = false := by rw [← hsk, hs]
      by_cases hd : (!j.delay && j.attempts == 1) = true
      · have hd' : (!j'.delay && j'.attempts == 1) = true := by rw [← h.delay, ← h.attempts]; exact hd
        have e1 : (j.calcNext ref).timers = j.timers := by simp only [Job.calcNext, hs, hd]; simp
        have e2 : (j'.calcNext ref').timers = j'.timers := by simp only [Job.calcNext, hs', hd']; simp
        rw [e1, e2]; exact h0
      · have hd' : ¬ (!j'.delay && j'.attempts == 1) = true := by rw [← h.delay, ← h.attempts]; exact hd
        have e1 : (j.calcNext ref).timers = j.timers.modify j.pending (fun t => t.calcNext (some ref)) := by
          simp only [Job.calcNext, hs, hd]; simp
        have e2 : (j'.calcNext ref').timers = j'.timers.modify j.pending (fun t => t.calcNext (some ref')) := by
          simp only [Job.calcNext, hs', hd', h.pending]; simp
        rw [e1, e2]
        exact Rel2.modify R _ _ h0 _ _ _ hstep

/-- rescheduling at references that denote the same instant keeps two jobs in lock step -/
theorem JobEq.calcNext (j j' : Job) (h : JobEq j j') (ref ref' : DT) (hi : ref.inst = ref'.inst)
    (wa : ∀ tm ∈ j.timers, tm.timing.isCyclic = false → ref.off.isSome = tm.timing.off.isSome)
    (wb : ∀ tm ∈ j'.timers, tm.timing.isCyclic = false → ref'.off.isSome = tm.timing.off.isSome) :
    JobEq (j.calcNext ref) (j'.calcNext ref') := by
  obtain ⟨hl, hidx⟩ := timers_calcNext j j' h ref ref' hi wa wb
  have hvals : (j.calcNext ref).timers.map (fun (t : Timer) => t.next.inst) =
      (j'.calcNext ref').timers.map (fun (t : Timer) => t.next.inst) := by
    apply List.ext_getElem
    · simp [hl]
    · intro i h1 h2
      simp only [List.getElem_map]
      exact (hidx i (by simpa using h1) (by simpa using h2)).inst
  have hpend : (j.calcNext ref).pending = (j'.calcNext ref').pending := argmin_congr _ _ _ _ hvals
  have hpre : JobEq { (j.calcNext ref) with markDelete := true } { (j'.calcNext ref') with markDelete := true } :=
    ⟨hl, hidx, hpend, h.start, h.stop, h.delay, h.skip, h.maxAtt, h.attempts, rfl⟩
  have hpn' : (j.calcNext ref).pendingTimer.next.inst = (j'.calcNext ref').pendingTimer.next.inst := hpre.pendingNext
  have hmd : (j.calcNext ref).markDelete = (j'.calcNext ref').markDelete := by
    have e1 : (j.calcNext ref).markDelete = (j.markDelete || Job.pastStop j.stop (j.calcNext ref).pendingTimer.next) := rfl
    have e2 : (j'.calcNext ref').markDelete = (j'.markDelete || Job.pastStop j'.stop (j'.calcNext ref').pendingTimer.next) := rfl
    rw [e1, e2, h.markDelete, pastStop_eq _ _ _ _ h.stop hpn']
  exact ⟨hl, hidx, hpend, h.start, h.stop, h.delay, h.skip, h.maxAtt, h.attempts, hmd⟩

end SV
