/-
  Lemmas/AsyncBudget.lean — budget / failure-count invariants of the asyncio model (helper lemmas;
  the property statements are `C06.aio_*` and `C10.aio_*`).
-/
import SchedVerif.Lemmas.Async
import SchedVerif.Lemmas.Inv
namespace SV

def isLive (p : Phase) : Bool :=
  match p with
  | .sleeping | .running _ _ => true
  | _ => false

def raiseCount (l : List AEvent) : Nat := (l.filter (fun e => e.kind == .endRaise)).length

/-- invariant of the asyncio machine; `x` = the task that is executing right now, if any (its
    job may just have used its last attempt while its phase has not been updated yet) -/
structure BudInv (s : AState) (x : Option Nat) : Prop where
  ok : ∀ j t, s.task? j = some t → JobOK t.job
  live : ∀ j t, s.task? j = some t → x ≠ some j → isLive t.phase = true → t.job.hasAttempts = true
  logs : s.logs = raiseCount s.log

theorem raiseCount_append (l : List AEvent) (e : AEvent) :
    raiseCount (l ++ [e]) = raiseCount l + (if e.kind == .endRaise then 1 else 0) := by
  unfold raiseCount
  rw [List.filter_append, List.length_append]
  by_cases h : (e.kind == AEvKind.endRaise) = true <;> simp [List.filter, h]

/-- changing one task without touching its job, in a way that keeps non-live tasks non-live
    (or the task is the executing one) -/
theorem BudInv.setTask (s : AState) (x : Option Nat) (h : BudInv s x) (k : Nat) (f : ATask → ATask)
    (hj : ∀ b, (f b).job = b.job)
    (hl : ∀ b, s.task? k = some b → x ≠ some k → isLive (f b).phase = true → isLive b.phase = true) :
    BudInv (s.setTask k f) x := by
  refine ⟨?_, ?_, h.logs⟩
  · intro j t ht
    rw [AState.task?_setTask] at ht
    by_cases hk : k = j
    · subst hk
      simp only [if_true] at ht
      cases hb : s.task? k with
      | none => rw [hb] at ht; simp at ht
      | some b =>
          rw [hb] at ht
          simp only [Option.map_some, Option.some.injEq] at ht
          subst ht; rw [hj]; exact h.ok k b hb
    · simp only [hk, if_false] at ht; exact h.ok j t ht
  · intro j t ht hx hlv
    rw [AState.task?_setTask] at ht
    by_cases hk : k = j
    · subst hk
      simp only [if_true] at ht
      cases hb : s.task? k with
      | none => rw [hb] at ht; simp at ht
      | some b =>
          rw [hb] at ht
          simp only [Option.map_some, Option.some.injEq] at ht
          subst ht; rw [hj]
          exact h.live k b hb hx (hl b hb hx hlv)
    · simp only [hk, if_false] at ht; exact h.live j t ht hx hlv

theorem BudInv.withReg (s : AState) (x : Option Nat) (h : BudInv s x) (r : List Nat) : BudInv { s with reg := r } x :=
  ⟨h.ok, h.live, h.logs⟩

theorem BudInv.withNow (s : AState) (x : Option Nat) (h : BudInv s x) (n : Int) : BudInv { s with now := n } x :=
  ⟨h.ok, h.live, h.logs⟩

theorem BudInv.withLog (s : AState) (x : Option Nat) (h : BudInv s x) (e : AEvent) (he : e.kind ≠ .endRaise) :
    BudInv { s with log := s.log ++ [e] } x := by
  refine ⟨h.ok, h.live, ?_⟩
  have : (e.kind == AEvKind.endRaise) = false := by simpa using he
  simp only [raiseCount_append, this]
  exact h.logs

theorem BudInv.cancel (s : AState) (x : Option Nat) (h : BudInv s x) (k : Nat) (cur : Option Nat) :
    BudInv (s.cancel k cur) x := by
  unfold AState.cancel
  apply BudInv.setTask s x h
  · intro b; cases hph : b.phase <;> simp only [] <;> (try split) <;> rfl
  · intro b _ _ hlv
    cases hph : b.phase <;> simp only [hph] at hlv <;> (try split at hlv) <;> simp_all [isLive]

theorem BudInv.logCancel (s : AState) (x : Option Nat) (h : BudInv s x) (k : Nat) (cur : Option Nat) :
    BudInv (s.logCancel k cur) x := by
  unfold AState.logCancel
  split
  · split
    · split
      · exact h
      · exact BudInv.withLog _ x h _ (by simp)
    · exact h
  · exact h

theorem BudInv.deleteJob (s : AState) (x : Option Nat) (h : BudInv s x) (k : Nat) (cur : Option Nat) :
    BudInv (s.deleteJob k cur).1 x := by
  unfold AState.deleteJob
  split
  · exact BudInv.cancel _ x (BudInv.logCancel _ x (BudInv.withReg s x h _) k cur) k cur
  · exact h

theorem BudInv.deleteJobs (s : AState) (x : Option Nat) (h : BudInv s x) (q : List Nat) (any : Bool) (cur : Option Nat) :
    BudInv (s.deleteJobs q any cur).1 x := by
  unfold AState.deleteJobs
  simp only []
  generalize s.selectKeys q any = sel
  induction sel generalizing s with
  | nil => exact h
  | cons y ys ih => simp only [List.foldl_cons]; exact ih _ (BudInv.deleteJob s x h y cur)

theorem AState.task?_append (s : AState) (t b : ATask) (j : Nat)
    (h : ({ s with tasks := s.tasks ++ [t] } : AState).task? j = some b) :
    s.task? j = some b ∨ (j = s.tasks.length ∧ b = t) := by
  simp only [AState.task?] at h ⊢
  by_cases hj : j < s.tasks.length
  · left; rw [List.getElem?_append_left hj] at h; exact h
  · right
    rw [List.getElem?_append_right (by omega)] at h
    cases hx : j - s.tasks.length with
    | zero => rw [hx] at h; exact ⟨by omega, by simpa using h.symm⟩
    | succ n => rw [hx] at h; simp at h

theorem BudInv.schedule (s : AState) (x : Option Nat) (h : BudInv s x) (sp : RawSpec) (runs : List RunScript) :
    BudInv (s.schedule sp runs).1 x := by
  unfold AState.schedule
  cases hc : createJob s.tz sp s.now with
  | error e => exact h
  | ok j =>
      simp only []
      have hjok : JobOK j := JobOK.ofCreateJob s.tz sp s.now false j (by simpa using hc)
      refine ⟨?_, ?_, h.logs⟩
      · intro i t ht
        rcases AState.task?_append s _ t i ht with h1 | ⟨_, h1⟩
        · exact h.ok i t h1
        · subst h1; exact hjok
      · intro i t ht hx hlv
        rcases AState.task?_append s _ t i ht with h1 | ⟨_, h1⟩
        · exact h.live i t h1 hx hlv
        · subst h1; simp [isLive] at hlv

/-- the loop head re-establishes the invariant for the executing task -/
theorem BudInv.loopHead (s : AState) (k : Nat) (h : BudInv s (some k)) : BudInv (loopHead s k) none := by
  have lift : ∀ (s' : AState), BudInv s' (some k) →
      (∀ t, s'.task? k = some t → isLive t.phase = true → t.job.hasAttempts = true) → BudInv s' none := by
    intro s' h' hk
    refine ⟨h'.ok, ?_, h'.logs⟩
    intro j t ht _ hlv
    by_cases hjk : k = j
    · subst hjk; exact hk t ht hlv
    · exact h'.live j t ht (by simpa using fun e => hjk e) hlv
  unfold SV.loopHead
  cases ht : s.task? k with
  | none =>
      simp only []
      exact lift s h (by intro t ht'; rw [ht] at ht'; cases ht')
  | some t =>
      simp only []
      have upd : ∀ (f : ATask → ATask), (∀ b, (f b).job = b.job) →
          ∀ t', (s.setTask k f).task? k = some t' → t' = f t := by
        intro f _ t' ht'
        rw [AState.task?_setTask] at ht'
        simp only [if_true, ht, Option.map_some, Option.some.injEq] at ht'
        exact ht'.symm
      split
      · refine lift _ ?_ ?_
        · exact BudInv.setTask s _ h k _ (by intro _; rfl) (fun _ _ hx => absurd rfl hx)
        · intro t' ht' hlv
          have := upd _ (by intro _; rfl) t' ht'
          subst this; simp [isLive] at hlv
      · split
        · refine lift _ ?_ ?_
          · exact BudInv.withReg _ _ (BudInv.setTask s _ h k _ (by intro _; rfl) (fun _ _ hx => absurd rfl hx)) _
          · intro t' ht' hlv
            have ht'' : (s.setTask k (fun t => { t with phase := Phase.finished })).task? k = some t' := ht'
            have := upd _ (by intro _; rfl) t' ht''
            subst this; simp [isLive] at hlv
        · rename_i _ hatt
          refine lift _ ?_ ?_
          · exact BudInv.setTask s _ h k _ (by intro _; rfl) (fun _ _ hx => absurd rfl hx)
          · intro t' ht' _
            have := upd _ (by intro _; rfl) t' ht'
            subst this
            simpa using hatt

/-- the task `k` is in the `running` phase -/
def IsRunning (s : AState) (k : Nat) : Prop := ∀ b, s.task? k = some b → ∃ r v, b.phase = .running r v

theorem IsRunning.cancel (s : AState) (k : Nat) (h : IsRunning s k) (k' : Nat) :
    IsRunning (s.cancel k' (some k)) k := by
  intro b hb
  unfold AState.cancel at hb
  rw [AState.task?_setTask] at hb
  by_cases hk : k' = k
  · subst hk
    simp only [if_true] at hb
    cases hx : s.task? k' with
    | none => rw [hx] at hb; simp at hb
    | some y =>
        rw [hx] at hb
        simp only [Option.map_some, Option.some.injEq] at hb
        obtain ⟨r, v, hy⟩ := h y hx
        subst hb
        simp [hy]
  · simp only [hk, if_false] at hb; exact h b hb

theorem IsRunning.deleteJob (s : AState) (k : Nat) (h : IsRunning s k) (k' : Nat) :
    IsRunning (s.deleteJob k' (some k)).1 k := by
  unfold AState.deleteJob
  split
  · apply IsRunning.cancel
    intro b hb
    rw [AState.logCancel_task?] at hb
    exact h b hb
  · exact h

theorem IsRunning.deleteJobs (s : AState) (k : Nat) (h : IsRunning s k) (q : List Nat) (any : Bool) :
    IsRunning (s.deleteJobs q any (some k)).1 k := by
  unfold AState.deleteJobs
  simp only []
  generalize s.selectKeys q any = sel
  induction sel generalizing s with
  | nil => exact h
  | cons y ys ih => simp only [List.foldl_cons]; exact ih _ (IsRunning.deleteJob s k h y)

theorem IsRunning.schedule (s : AState) (k : Nat) (h : IsRunning s k) (hk : k < s.tasks.length) (sp : RawSpec)
    (runs : List RunScript) : IsRunning (s.schedule sp runs).1 k ∧ k < (s.schedule sp runs).1.tasks.length := by
  unfold AState.schedule
  split
  · exact ⟨h, hk⟩
  · refine ⟨?_, by simp; omega⟩
    intro b hb
    simp only [AState.task?] at hb
    rw [List.getElem?_append_left hk] at hb
    exact h b hb

theorem deleteJob_len (s : AState) (k : Nat) (cur : Option Nat) : (s.deleteJob k cur).1.tasks.length = s.tasks.length := by
  unfold AState.deleteJob
  split
  · simp only [AState.cancel, AState.setTask, List.length_modify]
    unfold AState.logCancel
    split
    · split
      · split <;> rfl
      · rfl
    · rfl
  · rfl

theorem deleteJobs_len (s : AState) (q : List Nat) (any : Bool) (cur : Option Nat) :
    (s.deleteJobs q any cur).1.tasks.length = s.tasks.length := by
  unfold AState.deleteJobs
  simp only []
  generalize s.selectKeys q any = sel
  induction sel generalizing s with
  | nil => rfl
  | cons y ys ih => simp only [List.foldl_cons]; rw [ih, deleteJob_len]

/-- running the user coroutine of task `k` (which is in the running phase) -/
theorem BudInv.runActs (fuel : Nat) :
    ∀ (s : AState) (k : Nat) (acts : List Act) (raises : Bool), BudInv s none → IsRunning s k → k < s.tasks.length →
      BudInv (runActs fuel s k acts raises) none := by
  induction fuel with
  | zero => intro s k acts raises h _ _; unfold SV.runActs; exact h
  | succ n ih =>
      intro s k acts raises h hr hk
      unfold SV.runActs
      cases acts with
      | nil =>
          simp only []
          cases ht : s.task? k with
          | none => exact h
          | some t =>
              simp only []
              apply BudInv.loopHead
              obtain ⟨r, v, hph⟩ := hr t ht
              have hatt : t.job.hasAttempts = true := h.live k t ht (by simp) (by simp [isLive, hph])
              have hok := h.ok k t ht
              refine ⟨?_, ?_, ?_⟩
              · intro j b hb
                have hb' : (s.setTask k (fun t => { t with job := (t.job.exec1 raises).calcNext (nowDT s.tz s.now), nrun := t.nrun + 1 })).task? j = some b := hb
                rw [AState.task?_setTask] at hb'
                by_cases hkj : k = j
                · subst hkj
                  simp only [if_true, ht, Option.map_some, Option.some.injEq] at hb'
                  subst hb'
                  exact JobOK.calcNext _ (JobOK.exec1 _ hok hatt _) _
                · simp only [hkj, if_false] at hb'; exact h.ok j b hb'
              · intro j b hb hx hlv
                have hb' : (s.setTask k (fun t => { t with job := (t.job.exec1 raises).calcNext (nowDT s.tz s.now), nrun := t.nrun + 1 })).task? j = some b := hb
                rw [AState.task?_setTask] at hb'
                have hkj : k ≠ j := fun e => hx (by rw [e])
                simp only [hkj, if_false] at hb'
                exact h.live j b hb' (by simp) hlv
              · simp only [AState.setTask_log, raiseCount_append]
                have := h.logs
                cases raises <;> simp [AState.setTask, this]
      | cons a rest =>
          simp only []
          cases a with
          | sleep d =>
              simp only []
              cases ht : s.task? k with
              | none => exact h
              | some t =>
                  simp only []
                  obtain ⟨r, v, hph⟩ := hr t ht
                  split
                  · exact BudInv.withLog _ _ (BudInv.setTask s _ h k _ (by intro _; rfl) (by
                      intro b _ _ hlv; simp [isLive] at hlv)) _ (by simp)
                  · apply BudInv.setTask s _ h k _ (by intro _; rfl)
                    intro b hb _ _
                    have : b = t := by rw [ht] at hb; exact (Option.some.inj hb).symm
                    subst this; simp [isLive, hph]
          | del k' =>
              exact ih _ _ _ _ (BudInv.deleteJob s _ h k' _) (IsRunning.deleteJob s k hr k') (by rw [deleteJob_len]; exact hk)
          | delTags q any =>
              exact ih _ _ _ _ (BudInv.deleteJobs s _ h q any _) (IsRunning.deleteJobs s k hr q any) (by rw [deleteJobs_len]; exact hk)
          | sched sp =>
              have := IsRunning.schedule s k hr hk sp [s.dflt]
              exact ih _ _ _ _ (BudInv.schedule s _ h sp _) this.1 this.2

theorem BudInv.stepTask (s : AState) (h : BudInv s none) (k : Nat) : BudInv (stepTask s k) none := by
  unfold SV.stepTask
  cases ht : s.task? k with
  | none => exact h
  | some t =>
      simp only []
      have hk : k < s.tasks.length := by
        have := List.getElem?_eq_some_iff.mp (show s.tasks[k]? = some t from ht)
        exact this.1
      split
      · exact BudInv.loopHead s k ⟨h.ok, fun j b hb _ hl => h.live j b hb (by simp) hl, h.logs⟩
      · rename_i hph
        generalize (t.runs[t.nrun]?).getD (t.runs.getLast?.getD {}) = script
        have hatt : t.job.hasAttempts = true := h.live k t ht (by simp) (by simp [isLive, hph])
        apply BudInv.runActs
        · apply BudInv.withLog _ _ _ _ (by simp)
          apply BudInv.setTask s _ h k _ (by intro _; rfl)
          intro b hb _ _
          have : b = t := by rw [ht] at hb; exact (Option.some.inj hb).symm
          subst this; simp [isLive, hph]
        · intro b hb
          have hb' : (s.setTask k (fun t' => { t' with phase := Phase.running script.acts script.raises })).task? k = some b := hb
          rw [AState.task?_setTask] at hb'
          simp only [if_true, ht, Option.map_some, Option.some.injEq] at hb'
          subst hb'
          exact ⟨_, _, rfl⟩
        · simpa [AState.setTask] using hk
      · rename_i rest raises hph
        apply BudInv.runActs _ _ _ _ _ h _ hk
        intro b hb
        have : b = t := by rw [ht] at hb; exact (Option.some.inj hb).symm
        subst this
        exact ⟨_, _, hph⟩
      · exact h
      · exact h

theorem BudInv.runUntil (fuel : Nat) : ∀ (s : AState) (limit : Int), BudInv s none → BudInv (runUntil fuel s limit) none := by
  induction fuel with
  | zero => intro s limit h; exact h
  | succ n ih =>
      intro s limit h
      unfold SV.runUntil
      split
      · exact BudInv.withNow s _ h _
      · split
        · exact h
        · exact ih _ _ (BudInv.stepTask _ (BudInv.withNow s _ h _) _)

theorem BudInv.astepOp (s : AState) (h : BudInv s none) (o : AOp) : BudInv (astepOp s o).1 none := by
  cases o with
  | sched sp runs => exact BudInv.schedule s _ h sp runs
  | run limit fuel => exact BudInv.runUntil fuel s limit h
  | del k => exact BudInv.deleteJob s _ h k none
  | delTags q any => exact BudInv.deleteJobs s _ h q any none
  | get q any => exact h
  | jobs => exact h

theorem BudInv.arun (fuel : Nat) (ops : List AOp) : ∀ (s : AState), BudInv s none → BudInv (arun fuel s ops) none := by
  induction ops with
  | nil => intro s h; exact h
  | cons o os ih =>
      intro s h
      simp only [SV.arun, List.foldl_cons]
      exact ih _ (BudInv.runUntil fuel _ _ (BudInv.astepOp s h o))

theorem BudInv.init (tz : Option Int) (t0 : Int) : BudInv ({ tz := tz, now := t0 } : AState) none :=
  ⟨by intro j t ht; simp [AState.task?] at ht, by intro j t ht; simp [AState.task?] at ht, by simp [raiseCount]⟩

end SV
