/-
  Lemmas/Config.lean — no operation changes the scheduler's configuration (timezone, execution
  limit, priority function); helper lemmas for lifting one-step theorems to all histories.
-/
import SchedVerif.Lemmas.Inv
namespace SV

structure SameCfg (s s' : State) : Prop where
  tz : s'.tz = s.tz
  maxExec : s'.maxExec = s.maxExec
  prio : s'.prio = s.prio

theorem SameCfg.refl (s : State) : SameCfg s s := ⟨rfl, rfl, rfl⟩
theorem SameCfg.trans {a b c : State} (h1 : SameCfg a b) (h2 : SameCfg b c) : SameCfg a c :=
  ⟨h2.tz.trans h1.tz, h2.maxExec.trans h1.maxExec, h2.prio.trans h1.prio⟩

theorem SameCfg.schedule (s : State) (sp : RawSpec) (clock : Int) (direct : Bool) :
    SameCfg s (SV.schedule s sp clock direct).1 := by
  unfold SV.schedule
  split
  · exact SameCfg.refl s
  · split <;> exact ⟨rfl, rfl, rfl⟩

theorem SameCfg.deleteJob (s : State) (k : Nat) : SameCfg s (SV.deleteJob s k).1 := by
  unfold SV.deleteJob; split <;> exact ⟨rfl, rfl, rfl⟩

theorem SameCfg.deleteJobs (s : State) (q : List Nat) (any : Bool) : SameCfg s (SV.deleteJobs s q any).1 :=
  ⟨rfl, rfl, rfl⟩

theorem SameCfg.runCOp (s : State) (clock : Int) (c : COp) : SameCfg s (SV.runCOp s clock c) := by
  cases c with
  | sched sp => exact SameCfg.schedule s sp clock false
  | del k => exact SameCfg.deleteJob s k
  | delTags q any => exact SameCfg.deleteJobs s q any
  | get _ _ => exact SameCfg.refl s
  | str => exact SameCfg.refl s

theorem SameCfg.script (clock : Int) (ops : List COp) : ∀ (s : State),
    SameCfg s (ops.foldl (fun st op => SV.runCOp st clock op) s) := by
  induction ops with
  | nil => intro s; exact SameCfg.refl s
  | cons c cs ih => intro s; simp only [List.foldl_cons]; exact (SameCfg.runCOp s clock c).trans (ih _)

theorem SameCfg.runOne (clock : Int) (raises : List Nat) (scripts : List (Nat × List COp)) (s : State)
    (inv : List Invoc) (k : Nat) : SameCfg s (SV.runOne clock raises scripts (s, inv) k).1 := by
  unfold SV.runOne
  simp only []
  split
  · exact SameCfg.refl s
  · have := SameCfg.script clock ((scripts.lookup k).getD []) s
    exact ⟨this.tz, this.maxExec, this.prio⟩

theorem SameCfg.runFold (clock : Int) (raises : List Nat) (scripts : List (Nat × List COp)) (batch : List Nat) :
    ∀ (s : State) (inv : List Invoc), SameCfg s (batch.foldl (SV.runOne clock raises scripts) (s, inv)).1 := by
  induction batch with
  | nil => intro s inv; exact SameCfg.refl s
  | cons k ks ih =>
      intro s inv
      simp only [List.foldl_cons]
      have hp : SV.runOne clock raises scripts (s, inv) k =
          ((SV.runOne clock raises scripts (s, inv) k).1, (SV.runOne clock raises scripts (s, inv) k).2) := rfl
      rw [hp]
      exact (SameCfg.runOne clock raises scripts s inv k).trans (ih _ _)

theorem SameCfg.postOne (ref : DT) (s : State) (k : Nat) : SameCfg s (SV.postOne ref s k) := by
  unfold SV.postOne
  simp only []
  split
  · exact ⟨rfl, rfl, rfl⟩
  · split <;> exact ⟨rfl, rfl, rfl⟩

theorem SameCfg.postFold (ref : DT) (batch : List Nat) : ∀ (s : State), SameCfg s (batch.foldl (SV.postOne ref) s) := by
  induction batch with
  | nil => intro s; exact SameCfg.refl s
  | cons k ks ih => intro s; simp only [List.foldl_cons]; exact (SameCfg.postOne ref s k).trans (ih _)

theorem SameCfg.execJobs (s : State) (clock : Int) (force : Bool) (order raises : List Nat)
    (scripts : List (Nat × List COp)) : SameCfg s (SV.execJobs s clock force order raises scripts).1 := by
  unfold SV.execJobs
  simp only []
  generalize (if force = true then (if isPermOf order s.reg = true then order else s.reg)
      else List.map (fun x => x.fst) (selectBatch s.maxExec (List.map (fun k => (k, prioOf s.prio (lateness s (nowDT s.tz clock) k) (weightOf s k)))
        (if isPermOf order s.reg = true then order else s.reg)))) = batch
  have hp : batch.foldl (SV.runOne clock raises scripts) (s, []) =
      ((batch.foldl (SV.runOne clock raises scripts) (s, [])).1, (batch.foldl (SV.runOne clock raises scripts) (s, [])).2) := rfl
  rw [hp]
  exact (SameCfg.runFold clock raises scripts batch s []).trans (SameCfg.postFold _ batch _)

theorem SameCfg.step (s : State) (op : Op) : SameCfg s (SV.step s op).1 := by
  cases op with
  | sched sp clock => exact SameCfg.schedule s sp clock false
  | ctor sp clock jtz =>
      simp only [SV.step]
      split
      · exact SameCfg.schedule s sp clock true
      · split
        · exact SameCfg.refl s
        · exact ⟨rfl, rfl, rfl⟩
  | exec clock force order raises scripts => exact SameCfg.execJobs s clock force order raises scripts
  | del k => exact SameCfg.deleteJob s k
  | delTags q any => exact SameCfg.deleteJobs s q any
  | get q any => exact SameCfg.refl s
  | jobs => exact SameCfg.refl s

theorem SameCfg.run (ops : List Op) : ∀ (s : State), SameCfg s (SV.run s ops).1 := by
  intro s
  unfold SV.run
  rw [run_fst]
  induction ops generalizing s with
  | nil => exact SameCfg.refl s
  | cons o os ih => simp only [List.foldl_cons]; exact (SameCfg.step s o).trans (ih _)

end SV
