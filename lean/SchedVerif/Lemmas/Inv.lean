/-
  Lemmas/Inv.lean — invariants of the scheduler machine and their preservation by every operation
  (helper lemmas only; the property statements are in Props/C06.lean, C07.lean, C11.lean).
-/
import SchedVerif.Lemmas.Exec
import SchedVerif.Lemmas.Job
import SchedVerif.Props.C04
namespace SV

/-- facts about one job that every operation preserves -/
structure JobOK (j : Job) : Prop where
  /-- never more runs than the budget -/
  budget : 0 < j.maxAtt → (j.attempts : Int) ≤ j.maxAtt
  /-- the window is non-empty -/
  window : ∀ st, j.stop = some st → j.start.inst < st.inst
  /-- failures are a subset of the runs -/
  failed : j.failed ≤ j.attempts

/-- unless marked for deletion, the planned execution (`start` itself for a `delay=False` job that
    has not run yet, else the pending timer) is not past `stop`. Holds for every job except between
    its run and its rescheduling inside one `exec_jobs` call. -/
def Settled (j : Job) : Prop := j.markDelete = false → ∀ st, j.stop = some st → j.due.inst ≤ st.inst

/-- invariant between operations. `D` = keys of jobs that were run by the current `exec_jobs` call
    but not yet rescheduled/retired (empty between operations). -/
structure Mid (s : State) (D : List Nat) : Prop where
  nodup : s.reg.Nodup
  inHeap : ∀ k ∈ s.reg, k < s.heap.length
  heapOK : ∀ sj ∈ s.heap, JobOK sj.job
  hasAtt : ∀ k ∈ s.reg, k ∉ D → ∀ sj, s.find k = some sj → sj.job.hasAttempts = true
  settled : ∀ k, k ∉ D → ∀ sj, s.find k = some sj → Settled sj.job

abbrev Inv (s : State) : Prop := Mid s []

theorem Settled.due_le_stop (j : Job) (h : Settled j) (hm : j.markDelete = false) (st : DT)
    (hs : j.stop = some st) : j.due.inst ≤ st.inst := h hm st hs

theorem hasAttempts_markDelete (j : Job) (h : j.hasAttempts = true) : j.markDelete = false := by
  unfold Job.hasAttempts at h
  cases hm : j.markDelete <;> simp_all

theorem hasAttempts_budget (j : Job) (h : j.hasAttempts = true) (hp : 0 < j.maxAtt) :
    (j.attempts : Int) < j.maxAtt := by
  unfold Job.hasAttempts at h
  cases hm : j.markDelete <;> simp_all
  omega

/-! ### creation -/

theorem startStop_window (tz : Option Int) (start stop : Option DT) (clock : Int) (s : DT)
    (h : startStop tz start stop clock = .ok s) : ∀ st, stop = some st → s.inst < st.inst := by
  intro st hst
  subst hst
  unfold startStop at h
  cases start with
  | none =>
      simp only [] at h
      split at h <;> try (cases h)
      split at h <;> try (cases h)
      omega
  | some s0 =>
      simp only [] at h
      split at h <;> try (cases h)
      split at h <;> try (cases h)
      split at h <;> try (cases h)
      omega

theorem JobOK.build (ts : List Timing) (s : DT) (stop : Option DT) (delay skip : Bool) (m : Int)
    (hw : ∀ st, stop = some st → s.inst < st.inst) : JobOK (Job.build ts s stop delay skip m) := by
  exact ⟨fun hp => by simp only [Job.build] at hp ⊢; omega, hw, by simp [Job.build]⟩

theorem Settled.build (ts : List Timing) (s : DT) (stop : Option DT) (delay skip : Bool) (m : Int) :
    Settled (Job.build ts s stop delay skip m) := by
  intro hm st hst
  have hst' : stop = some st := hst
  subst hst'
  simp only [Job.build, Job.pastStop] at hm
  have := of_decide_eq_false hm
  cases delay <;> simp [Job.due, Job.pendingTimer, Job.build] at this ⊢ <;> omega

theorem JobOK.create (tz : Option Int) (ts : List Timing) (start stop : Option DT) (delay skip : Bool)
    (m : Int) (clock : Int) (j : Job) (h : Job.create tz ts start stop delay skip m clock = .ok j) :
    JobOK j := by
  obtain ⟨s, hs, hj, _⟩ := Job.create_ok _ _ _ _ _ _ _ _ _ h
  subst hj
  exact JobOK.build _ _ _ _ _ _ (startStop_window _ _ _ _ _ hs)

theorem JobOK.ofCreateJob (tz : Option Int) (sp : RawSpec) (clock : Int) (direct : Bool) (j : Job)
    (h : (if direct then createJobDirect tz sp clock else createJob tz sp clock) = .ok j) : JobOK j := by
  cases direct with
  | true =>
      simp only [if_true, SV.createJobDirect] at h
      split at h
      · cases h
      · exact JobOK.create _ _ _ _ _ _ _ _ _ h
  | false =>
      simp only [Bool.false_eq_true, if_false, SV.createJob] at h
      split at h
      · exact JobOK.create _ _ _ _ _ _ _ _ _ h
      · split at h
        · cases h
        · exact JobOK.create _ _ _ _ _ _ _ _ _ h
      · split at h
        · cases h
        · exact JobOK.create _ _ _ _ _ _ _ _ _ h

theorem Settled.create (tz : Option Int) (ts : List Timing) (start stop : Option DT) (delay skip : Bool)
    (m : Int) (clock : Int) (j : Job) (h : Job.create tz ts start stop delay skip m clock = .ok j) :
    Settled j := by
  obtain ⟨s, _, hj, _⟩ := Job.create_ok _ _ _ _ _ _ _ _ _ h
  subst hj
  exact Settled.build _ _ _ _ _ _

theorem Settled.ofCreateJob (tz : Option Int) (sp : RawSpec) (clock : Int) (direct : Bool) (j : Job)
    (h : (if direct then createJobDirect tz sp clock else createJob tz sp clock) = .ok j) : Settled j := by
  cases direct with
  | true =>
      simp only [if_true, SV.createJobDirect] at h
      split at h
      · cases h
      · exact Settled.create _ _ _ _ _ _ _ _ _ h
  | false =>
      simp only [Bool.false_eq_true, if_false, SV.createJob] at h
      split at h
      · exact Settled.create _ _ _ _ _ _ _ _ _ h
      · split at h
        · cases h
        · exact Settled.create _ _ _ _ _ _ _ _ _ h
      · split at h
        · cases h
        · exact Settled.create _ _ _ _ _ _ _ _ _ h

/-! ### exec1 / calcNext on one job -/

theorem JobOK.exec1 (j : Job) (h : JobOK j) (ha : j.hasAttempts = true) (r : Bool) : JobOK (j.exec1 r) := by
  refine ⟨?_, h.window, ?_⟩
  · intro hp
    have := hasAttempts_budget j ha hp
    simp [Job.exec1]; omega
  · have := h.failed
    simp only [Job.exec1]; split <;> omega

theorem JobOK.calcNext (j : Job) (h : JobOK j) (ref : DT) : JobOK (j.calcNext ref) :=
  ⟨h.budget, h.window, h.failed⟩

/-- rescheduling settles a job whatever its state was -/
theorem Settled.calcNext (j : Job) (h : JobOK j) (ref : DT) : Settled (j.calcNext ref) := by
  intro hm st hst
  simp only [Job.calcNext] at hm hst
  simp only [Bool.or_eq_false_iff, Job.pastStop] at hm
  obtain ⟨_, h2⟩ := hm
  simp only [hst] at h2
  have h3 := of_decide_eq_false h2
  have hw := h.window st hst
  unfold Job.due
  split
  · simp only [Job.calcNext]; omega
  · simp only [Job.pendingTimer, Job.calcNext]; omega

/-! ### registry operations -/

theorem State.find_append_lt (s : State) (sj : SJob) (k : Nat) (hk : k < s.heap.length) :
    ({ s with heap := s.heap ++ [sj] } : State).find k = s.find k := by
  simp [State.find, List.getElem?_append_left hk]

/-- looking a key up in a heap that grew by one job -/
theorem State.find_append (s : State) (sj sj' : SJob) (k : Nat)
    (hf : ({ s with heap := s.heap ++ [sj] } : State).find k = some sj') :
    s.find k = some sj' ∨ sj' = sj := by
  by_cases hk : k < s.heap.length
  · left; rw [← State.find_append_lt s sj k hk]; exact hf
  · right
    simp only [State.find] at hf
    rw [List.getElem?_append_right (by omega)] at hf
    have : k - s.heap.length = 0 := by
      by_cases h0 : k - s.heap.length = 0
      · exact h0
      · rw [List.getElem?_eq_none (by simp; omega)] at hf; cases hf
    rw [this] at hf
    simpa using hf.symm


theorem Mid.schedule (s : State) (D : List Nat) (h : Mid s D) (sp : RawSpec) (clock : Int) (direct : Bool) :
    Mid (schedule s sp clock direct).1 D := by
  unfold SV.schedule
  cases hc : (if direct then createJobDirect s.tz sp clock else createJob s.tz sp clock) with
  | error e => exact h
  | ok j =>
      have hj := JobOK.ofCreateJob s.tz sp clock direct j hc
      have hset := Settled.ofCreateJob s.tz sp clock direct j hc
      have hsettled : ∀ (x : SJob), x.job = j → ∀ k, k ∉ D → ∀ sj,
          ({ s with heap := s.heap ++ [x] } : State).find k = some sj → Settled sj.job := by
        intro x hx k hkD sj hf
        rcases State.find_append s x sj k hf with h1 | h1
        · exact h.settled k hkD sj h1
        · subst h1; rw [hx]; exact hset
      simp only []
      by_cases ha : j.hasAttempts = true
      · simp only [ha, if_true]
        refine ⟨?_, ?_, ?_, ?_, hsettled _ rfl⟩
        · rw [List.nodup_append]
          refine ⟨h.nodup, by simp, ?_⟩
          intro a ha' b hb
          simp at hb; subst hb
          have := h.inHeap a ha'
          omega
        · intro k hk
          simp only [List.length_append, List.length_singleton]
          rcases List.mem_append.mp hk with h1 | h1
          · have := h.inHeap k h1; omega
          · simp at h1; omega
        · intro sj hsj
          rcases List.mem_append.mp hsj with h1 | h1
          · exact h.heapOK sj h1
          · simp at h1; subst h1; exact hj
        · intro k hk hkD sj hf
          rcases List.mem_append.mp hk with h1 | h1
          · have hlt := h.inHeap k h1
            have : s.find k = some sj := by
              rw [← State.find_append_lt s _ k hlt]; exact hf
            exact h.hasAtt k h1 hkD sj this
          · simp at h1; subst h1
            simp [State.find] at hf
            subst hf; exact ha
      · simp only [ha, Bool.false_eq_true, if_false]
        refine ⟨h.nodup, ?_, ?_, ?_, hsettled _ rfl⟩
        · intro k hk
          have := h.inHeap k hk
          simp only [List.length_append, List.length_singleton]; omega
        · intro sj hsj
          rcases List.mem_append.mp hsj with h1 | h1
          · exact h.heapOK sj h1
          · simp at h1; subst h1; exact hj
        · intro k hk hkD sj hf
          have hlt := h.inHeap k hk
          have : s.find k = some sj := by
            rw [← State.find_append_lt s _ k hlt]; exact hf
          exact h.hasAtt k hk hkD sj this

/-- a job object that exists but is not registered -/
theorem Mid.addHeap (s : State) (D : List Nat) (h : Mid s D) (sj : SJob) (hj : JobOK sj.job)
    (hset : Settled sj.job) : Mid { s with heap := s.heap ++ [sj] } D := by
  refine ⟨h.nodup, ?_, ?_, ?_, ?_⟩
  rotate_right
  · intro k hkD sj' hf
    rcases State.find_append s sj sj' k hf with h1 | h1
    · exact h.settled k hkD sj' h1
    · subst h1; exact hset
  · intro k hk
    have := h.inHeap k hk
    simp only [List.length_append, List.length_singleton]; omega
  · intro sj' hsj
    rcases List.mem_append.mp hsj with h1 | h1
    · exact h.heapOK sj' h1
    · simp at h1; subst h1; exact hj
  · intro k hk hkD sj' hf
    have hlt := h.inHeap k hk
    have : s.find k = some sj' := by
      rw [← State.find_append_lt s _ k hlt]; exact hf
    exact h.hasAtt k hk hkD sj' this

theorem Mid.deleteJob (s : State) (D : List Nat) (h : Mid s D) (k : Nat) : Mid (deleteJob s k).1 D := by
  unfold SV.deleteJob
  split
  · refine ⟨h.nodup.erase k, ?_, h.heapOK, ?_, h.settled⟩
    · intro k' hk'; exact h.inHeap k' (List.mem_of_mem_erase hk')
    · intro k' hk' hD sj hf; exact h.hasAtt k' (List.mem_of_mem_erase hk') hD sj hf
  · exact h

theorem Mid.deleteJobs (s : State) (D : List Nat) (h : Mid s D) (q : List Nat) (any : Bool) :
    Mid (deleteJobs s q any).1 D := by
  unfold SV.deleteJobs
  refine ⟨h.nodup.filter _, ?_, h.heapOK, ?_, h.settled⟩
  · intro k' hk'; exact h.inHeap k' (List.mem_filter.mp hk').1
  · intro k' hk' hD sj hf; exact h.hasAtt k' (List.mem_filter.mp hk').1 hD sj hf

theorem Mid.runCOp (s : State) (D : List Nat) (h : Mid s D) (clock : Int) (c : COp) :
    Mid (runCOp s clock c) D := by
  cases c with
  | sched sp => exact Mid.schedule s D h sp clock false
  | del k => exact Mid.deleteJob s D h k
  | delTags q any => exact Mid.deleteJobs s D h q any
  | get _ _ => exact h
  | str => exact h

/-- scripted callback operations never change an existing job and never shrink the heap -/
theorem runCOp_heap (s : State) (clock : Int) (c : COp) :
    s.heap.length ≤ (runCOp s clock c).heap.length ∧
    ∀ k, k < s.heap.length → (runCOp s clock c).find k = s.find k := by
  cases c with
  | sched sp =>
      simp only [runCOp, SV.schedule]
      cases hc : createJob s.tz sp clock with
      | error e => simp [hc]
      | ok j =>
          simp only [hc, Bool.false_eq_true, if_false]
          constructor
          · split <;> simp
          · intro k hk
            split <;> simp [State.find, List.getElem?_append_left hk]
  | del k => simp only [runCOp, SV.deleteJob]; split <;> simp [State.find]
  | delTags q any => simp [runCOp, SV.deleteJobs, State.find]
  | get _ _ => simp [runCOp]
  | str => simp [runCOp]

theorem script_fold (clock : Int) (ops : List COp) (s : State) (D : List Nat) (h : Mid s D) :
    Mid (ops.foldl (fun st op => runCOp st clock op) s) D ∧
    s.heap.length ≤ (ops.foldl (fun st op => runCOp st clock op) s).heap.length ∧
    ∀ k, k < s.heap.length → (ops.foldl (fun st op => runCOp st clock op) s).find k = s.find k := by
  induction ops generalizing s with
  | nil => exact ⟨h, Nat.le_refl _, fun _ _ => rfl⟩
  | cons c cs ih =>
      simp only [List.foldl_cons]
      have h1 := Mid.runCOp s D h clock c
      obtain ⟨l1, f1⟩ := runCOp_heap s clock c
      obtain ⟨a, b, c'⟩ := ih (runCOp s clock c) h1
      refine ⟨a, Nat.le_trans l1 b, ?_⟩
      intro k hk
      rw [c' k (by omega), f1 k hk]

/-! ### the two loops of `exec_jobs` -/

theorem mem_modify {α : Type} (l : List α) (i : Nat) (f : α → α) (a : α) (h : a ∈ l.modify i f) :
    a ∈ l ∨ ∃ b, l[i]? = some b ∧ a = f b := by
  obtain ⟨j, hj, rfl⟩ := List.mem_iff_getElem.mp h
  rw [List.getElem_modify]
  have hj' : j < l.length := by simpa using hj
  by_cases hij : i = j
  · subst hij
    right
    exact ⟨l[i], by simp [hj'], by simp⟩
  · left
    simp [hij]

/-- invariant while the workers run: `B` = batch members still queued -/
structure RunInv (s : State) (D B : List Nat) : Prop where
  mid : Mid s D
  bnodup : B.Nodup
  bOK : ∀ k ∈ B, k < s.heap.length ∧ ∀ sj, s.find k = some sj → sj.job.hasAttempts = true
  disj : ∀ k ∈ B, k ∉ D

theorem RunInv.runOne (s : State) (D B : List Nat) (k : Nat) (h : RunInv s D (k :: B)) (clock : Int)
    (raises : List Nat) (scripts : List (Nat × List COp)) (inv : List Invoc) :
    RunInv (runOne clock raises scripts (s, inv) k).1 (k :: D) B := by
  obtain ⟨hk, hatt⟩ := h.bOK k (by simp)
  obtain ⟨sj, hsj⟩ := s.find_some k hk
  obtain ⟨m1, l1, f1⟩ := script_fold clock ((scripts.lookup k).getD []) s D h.mid
  have hs1k : (((scripts.lookup k).getD []).foldl (fun st op => runCOp st clock op) s).find k = some sj := by
    rw [f1 k hk]; exact hsj
  have hnd := List.nodup_cons.mp h.bnodup
  simp only [SV.runOne, hsj]
  refine ⟨⟨m1.nodup, ?_, ?_, ?_, ?_⟩, hnd.2, ?_, ?_⟩
  · intro k' hk'; simpa using m1.inHeap k' hk'
  · intro sj' hsj'
    simp only [State.setJob] at hsj'
    rcases mem_modify _ _ _ _ hsj' with h1 | ⟨b, hb, rfl⟩
    · exact m1.heapOK sj' h1
    · have hb' : b = sj := by
        have : (((scripts.lookup k).getD []).foldl (fun st op => runCOp st clock op) s).find k = some b := hb
        rw [hs1k] at this; exact (Option.some.inj this).symm
      subst hb'
      have hmem : b ∈ (((scripts.lookup k).getD []).foldl (fun st op => runCOp st clock op) s).heap :=
        List.mem_of_getElem? hb
      exact JobOK.exec1 _ (m1.heapOK b hmem) (hatt b hsj) _
  · intro k' hk' hD sj' hf
    have hne : k ≠ k' := fun e => hD (by simp [e])
    have hD' : k' ∉ D := fun e => hD (by simp [e])
    have hf' : ((((scripts.lookup k).getD []).foldl (fun st op => runCOp st clock op) s).setJob k
        (fun j => j.exec1 (raises.contains k))).find k' = some sj' := hf
    rw [State.setJob_find_ne _ k k' _ hne] at hf'
    exact m1.hasAtt k' hk' hD' sj' hf'
  · intro k' hD sj' hf
    have hne : k ≠ k' := fun e => hD (by simp [e])
    have hD' : k' ∉ D := fun e => hD (by simp [e])
    have hf' : ((((scripts.lookup k).getD []).foldl (fun st op => runCOp st clock op) s).setJob k
        (fun j => j.exec1 (raises.contains k))).find k' = some sj' := hf
    rw [State.setJob_find_ne _ k k' _ hne] at hf'
    exact m1.settled k' hD' sj' hf'
  · intro k' hk'
    obtain ⟨hk2, hatt2⟩ := h.bOK k' (by simp [hk'])
    have hne : k ≠ k' := fun e => hnd.1 (e ▸ hk')
    refine ⟨by simp only [State.setJob_heap_length]; omega, ?_⟩
    intro sj' hf
    have hf' : ((((scripts.lookup k).getD []).foldl (fun st op => runCOp st clock op) s).setJob k
        (fun j => j.exec1 (raises.contains k))).find k' = some sj' := hf
    rw [State.setJob_find_ne _ k k' _ hne, f1 k' hk2] at hf'
    exact hatt2 sj' hf'
  · intro k' hk'
    have hne : k' ≠ k := fun e => hnd.1 (e ▸ hk')
    have := h.disj k' (by simp [hk'])
    simp [hne, this]

theorem RunInv.fold (clock : Int) (raises : List Nat) (scripts : List (Nat × List COp)) (B : List Nat) :
    ∀ (s : State) (D : List Nat) (inv : List Invoc), RunInv s D B →
      Mid (B.foldl (SV.runOne clock raises scripts) (s, inv)).1 (B.reverse ++ D) ∧
      s.heap.length ≤ (B.foldl (SV.runOne clock raises scripts) (s, inv)).1.heap.length := by
  induction B with
  | nil => intro s D inv h; exact ⟨by simpa using h.mid, Nat.le_refl _⟩
  | cons k ks ih =>
      intro s D inv h
      have h1 := RunInv.runOne s D ks k h clock raises scripts inv
      have hlen : s.heap.length ≤ (SV.runOne clock raises scripts (s, inv) k).1.heap.length := by
        obtain ⟨hk, _⟩ := h.bOK k (by simp)
        obtain ⟨sj, hsj⟩ := s.find_some k hk
        obtain ⟨_, l1, _⟩ := script_fold clock ((scripts.lookup k).getD []) s D h.mid
        simp only [SV.runOne, hsj, State.setJob_heap_length]
        exact l1
      simp only [List.foldl_cons]
      have hp : SV.runOne clock raises scripts (s, inv) k =
          ((SV.runOne clock raises scripts (s, inv) k).1, (SV.runOne clock raises scripts (s, inv) k).2) := rfl
      rw [hp]
      obtain ⟨a, b⟩ := ih _ (k :: D) _ h1
      refine ⟨by simpa [List.reverse_cons, List.append_assoc] using a, Nat.le_trans hlen b⟩

theorem Mid.postOne (s : State) (D : List Nat) (h : Mid s D) (ref : DT) (k : Nat) (hk : k < s.heap.length) :
    Mid (postOne ref s k) (D.filter (· ≠ k)) ∧ (postOne ref s k).heap.length = s.heap.length := by
  obtain ⟨sj, hsj⟩ := s.find_some k hk
  have hf1 : (s.setJob k (fun j => j.calcNext ref)).find k = some { sj with job := sj.job.calcNext ref } := by
    rw [State.setJob_find_eq, hsj]; rfl
  have hOK : ∀ sj' ∈ (s.setJob k (fun j => j.calcNext ref)).heap, JobOK sj'.job := by
    intro sj' hsj'
    simp only [State.setJob] at hsj'
    rcases mem_modify _ _ _ _ hsj' with h1 | ⟨b, hb, rfl⟩
    · exact h.heapOK sj' h1
    · exact JobOK.calcNext _ (h.heapOK b (List.mem_of_getElem? hb)) _
  have hSet : ∀ k', k' ∉ D.filter (· ≠ k) → ∀ sj', (s.setJob k (fun j => j.calcNext ref)).find k' = some sj' →
      Settled sj'.job := by
    intro k' hD sj' hf
    by_cases hkk : k = k'
    · subst hkk
      rw [hf1] at hf
      cases hf
      exact Settled.calcNext _ (h.heapOK sj (List.mem_of_getElem? hsj)) _
    · have hD' : k' ∉ D := by
        intro e; exact hD (List.mem_filter.mpr ⟨e, by simpa using fun e' => hkk e'.symm⟩)
      rw [State.setJob_find_ne _ k k' _ hkk] at hf
      exact h.settled k' hD' sj' hf
  simp only [SV.postOne, hf1]
  by_cases ha : (sj.job.calcNext ref).hasAttempts = true
  · simp only [ha, if_true]
    refine ⟨⟨h.nodup, by simpa using h.inHeap, hOK, ?_, hSet⟩, by simp⟩
    intro k' hk' hD sj' hf
    by_cases hkk : k = k'
    · subst hkk
      rw [hf1] at hf
      cases hf; exact ha
    · have hD' : k' ∉ D := by
        intro e; exact hD (List.mem_filter.mpr ⟨e, by simpa using fun e' => hkk e'.symm⟩)
      rw [State.setJob_find_ne _ k k' _ hkk] at hf
      exact h.hasAtt k' hk' hD' sj' hf
  · simp only [ha, Bool.false_eq_true, if_false]
    refine ⟨⟨h.nodup.erase k, ?_, hOK, ?_, hSet⟩, by simp⟩
    · intro k' hk'; simpa using h.inHeap k' (List.mem_of_mem_erase hk')
    · intro k' hk' hD sj' hf
      have hkk : k ≠ k' := by
        intro e; subst e
        exact (List.Nodup.mem_erase_iff h.nodup).mp hk' |>.1 rfl
      have hD' : k' ∉ D := by
        intro e; exact hD (List.mem_filter.mpr ⟨e, by simpa using fun e' => hkk e'.symm⟩)
      have hf' : (s.setJob k (fun j => j.calcNext ref)).find k' = some sj' := hf
      rw [State.setJob_find_ne _ k k' _ hkk] at hf'
      exact h.hasAtt k' (List.mem_of_mem_erase hk') hD' sj' hf'

theorem Mid.postFold (ref : DT) (B : List Nat) :
    ∀ (s : State) (D : List Nat), Mid s D → (∀ k ∈ B, k < s.heap.length) →
      Mid (B.foldl (SV.postOne ref) s) (D.filter (fun d => !B.contains d)) := by
  induction B with
  | nil =>
      intro s D h _
      have e : D.filter (fun d => !([] : List Nat).contains d) = D := by simp
      rw [e]; exact h
  | cons k ks ih =>
      intro s D h hB
      obtain ⟨h1, hl⟩ := Mid.postOne s D h ref k (hB k (by simp))
      have := ih (SV.postOne ref s k) (D.filter (· ≠ k)) h1 (by intro k' hk'; rw [hl]; exact hB k' (by simp [hk']))
      simp only [List.foldl_cons]
      have e : (D.filter (· ≠ k)).filter (fun d => !ks.contains d) = D.filter (fun d => !(k :: ks).contains d) := by
        rw [List.filter_filter]
        apply List.filter_congr
        intro d _
        by_cases hd : d = k <;> simp [hd, List.contains_cons, Bool.and_comm]
      rw [← e]; exact this

/-! ### one whole `exec_jobs` call, one step, any history -/

theorem insertSorted_perm (x : Nat) (l : List Nat) : (insertSorted x l).Perm (x :: l) := by
  induction l with
  | nil => simp [insertSorted]
  | cons y ys ih =>
      simp only [insertSorted]
      split
      · exact List.Perm.refl _
      · exact (List.Perm.cons y ih).trans (List.Perm.swap x y ys)

theorem sortKeys_perm (l : List Nat) : (sortKeys l).Perm l := by
  induction l with
  | nil => simp [sortKeys]
  | cons x xs ih =>
      have : sortKeys (x :: xs) = insertSorted x (sortKeys xs) := rfl
      rw [this]
      exact (insertSorted_perm x _).trans (List.Perm.cons x ih)

theorem isPermOf_perm (order reg : List Nat) (h : isPermOf order reg = true) : order.Perm reg := by
  have e : sortKeys order = sortKeys reg := by simpa [isPermOf] using h
  exact (sortKeys_perm order).symm.trans (e ▸ sortKeys_perm reg)

/-- the order actually used by `execJobs` is an arrangement of the registry -/
theorem order_perm (order reg : List Nat) : (if isPermOf order reg then order else reg).Perm reg := by
  split
  · exact isPermOf_perm _ _ (by assumption)
  · exact List.Perm.refl _

/-- the batch of any call (forced or not) is duplicate-free and consists of registered jobs -/
theorem batch_facts (s : State) (clock : Int) (force : Bool) (order : List Nat) (hn : s.reg.Nodup) :
    let ord := if isPermOf order s.reg then order else s.reg
    let batch : List Nat :=
      if force then ord
      else (selectBatch s.maxExec (ord.map (fun k => (k, prioOf s.prio (lateness s (nowDT s.tz clock) k) (weightOf s k))))).map (·.1)
    batch.Nodup ∧ ∀ k ∈ batch, k ∈ s.reg := by
  intro ord batch
  have hperm := order_perm order s.reg
  have hnd : ord.Nodup := hperm.nodup_iff.mpr hn
  cases force with
  | true => exact ⟨hnd, fun k hk => hperm.mem_iff.mp hk⟩
  | false =>
      refine ⟨batch_keys_nodup _ _ _ hnd, ?_⟩
      intro k hk
      obtain ⟨x, hx, rfl⟩ := List.mem_map.mp hk
      have := C05.subset _ _ x hx
      obtain ⟨k', hk', rfl⟩ := List.mem_map.mp this
      exact hperm.mem_iff.mp hk'

theorem Inv.execJobs (s : State) (h : Inv s) (clock : Int) (force : Bool) (order raises : List Nat)
    (scripts : List (Nat × List COp)) : Inv (execJobs s clock force order raises scripts).1 := by
  obtain ⟨bn, bs⟩ := batch_facts s clock force order h.nodup
  simp only [SV.execJobs]
  generalize hb : (if force = true then (if isPermOf order s.reg = true then order else s.reg)
      else List.map (fun x => x.fst) (selectBatch s.maxExec (List.map (fun k => (k, prioOf s.prio (lateness s (nowDT s.tz clock) k) (weightOf s k)))
        (if isPermOf order s.reg = true then order else s.reg)))) = batch at bn bs
  have hrun : RunInv s [] batch := by
    refine ⟨h, bn, ?_, by simp⟩
    intro k hk
    have hr := bs k hk
    exact ⟨h.inHeap k hr, fun sj hf => h.hasAtt k hr (by simp) sj hf⟩
  obtain ⟨m1, l1⟩ := RunInv.fold clock raises scripts batch s [] [] hrun
  have hp : batch.foldl (runOne clock raises scripts) (s, []) =
      ((batch.foldl (runOne clock raises scripts) (s, [])).1, (batch.foldl (runOne clock raises scripts) (s, [])).2) := rfl
  rw [hp]
  simp only []
  have m2 := Mid.postFold (nowDT s.tz clock) batch _ _ m1
    (by intro k hk; exact Nat.lt_of_lt_of_le (h.inHeap k (bs k hk)) l1)
  have e : (batch.reverse ++ []).filter (fun d => !batch.contains d) = [] := by
    rw [List.filter_eq_nil_iff]
    intro d hd
    simp at hd
    simp [hd]
  rw [e] at m2
  exact m2

theorem Inv.step (s : State) (h : Inv s) (op : Op) : Inv (step s op).1 := by
  cases op with
  | sched sp clock => exact Mid.schedule s [] h sp clock false
  | ctor sp clock jtz =>
      simp only [SV.step]
      split
      · exact Mid.schedule s [] h sp clock true
      · split
        · exact h
        · rename_i j hj
          exact Mid.addHeap s [] h _ (JobOK.ofCreateJob jtz sp clock true j (by simpa using hj))
            (Settled.ofCreateJob jtz sp clock true j (by simpa using hj))
  | exec clock force order raises scripts => exact Inv.execJobs s h clock force order raises scripts
  | del k => exact Mid.deleteJob s [] h k
  | delTags q any => exact Mid.deleteJobs s [] h q any
  | get q any => exact h
  | jobs => exact h

/-- a fresh scheduler -/
def State.init (tz : Option Int) (maxExec : Nat) (prio : PrioKind) : State :=
  { tz := tz, maxExec := maxExec, prio := prio }

theorem Inv.init (tz : Option Int) (maxExec : Nat) (prio : PrioKind) : Inv (State.init tz maxExec prio) :=
  ⟨by simp [State.init], by simp [State.init], by simp [State.init], by simp [State.init],
   by simp [State.init, State.find]⟩

theorem run_fst (s : State) (ops : List Op) (acc : List Out) :
    (ops.foldl (fun (a : State × List Out) op => let (s', o) := step a.1 op; (s', a.2 ++ [o])) (s, acc)).1
      = ops.foldl (fun st op => (step st op).1) s := by
  induction ops generalizing s acc with
  | nil => rfl
  | cons o os ih => simp only [List.foldl_cons]; exact ih _ _

/-- the invariant holds after every finite history of operations -/
theorem Inv.run (s : State) (h : Inv s) (ops : List Op) : Inv (run s ops).1 := by
  unfold SV.run
  rw [run_fst]
  induction ops generalizing s with
  | nil => exact h
  | cons o os ih => simp only [List.foldl_cons]; exact ih _ (Inv.step s h o)

/-! ### frame facts: old keys outside the registry stay outside; attempt counters -/

/-- `k` is an existing job that is not registered -/
def Gone (s : State) (k : Nat) : Prop := k < s.heap.length ∧ k ∉ s.reg

theorem Gone.schedule (s : State) (k : Nat) (h : Gone s k) (sp : RawSpec) (clock : Int) (direct : Bool) :
    Gone (schedule s sp clock direct).1 k := by
  unfold SV.schedule
  split
  · exact h
  · split
    · refine ⟨by simp only [List.length_append]; have := h.1; omega, ?_⟩
      simp only [List.mem_append, List.mem_singleton, not_or]
      exact ⟨h.2, by have := h.1; omega⟩
    · exact ⟨by simp only [List.length_append]; have := h.1; omega, h.2⟩

theorem Gone.runCOp (s : State) (k : Nat) (h : Gone s k) (clock : Int) (c : COp) : Gone (runCOp s clock c) k := by
  cases c with
  | sched sp => exact Gone.schedule s k h sp clock false
  | del k' =>
      simp only [SV.runCOp, SV.deleteJob]
      split
      · exact ⟨h.1, fun hc => h.2 (List.mem_of_mem_erase hc)⟩
      · exact h
  | delTags q any =>
      simp only [SV.runCOp, SV.deleteJobs]
      exact ⟨h.1, fun hc => h.2 (List.mem_filter.mp hc).1⟩
  | get _ _ => exact h
  | str => exact h

theorem Gone.scripts (clock : Int) (ops : List COp) (s : State) (k : Nat) (h : Gone s k) :
    Gone (ops.foldl (fun st op => SV.runCOp st clock op) s) k := by
  induction ops generalizing s with
  | nil => exact h
  | cons c cs ih => simp only [List.foldl_cons]; exact ih _ (Gone.runCOp s k h clock c)

theorem Gone.runOne (clock : Int) (raises : List Nat) (scripts : List (Nat × List COp)) (s : State)
    (inv : List Invoc) (k0 k : Nat) (h : Gone s k) : Gone (SV.runOne clock raises scripts (s, inv) k0).1 k := by
  unfold SV.runOne
  simp only []
  split
  · exact h
  · have := Gone.scripts clock ((scripts.lookup k0).getD []) s k h
    exact ⟨by simpa using this.1, this.2⟩

theorem Gone.runFold (clock : Int) (raises : List Nat) (scripts : List (Nat × List COp)) (B : List Nat) :
    ∀ (s : State) (inv : List Invoc) (k : Nat), Gone s k →
      Gone (B.foldl (SV.runOne clock raises scripts) (s, inv)).1 k := by
  induction B with
  | nil => intro s inv k h; exact h
  | cons b bs ih =>
      intro s inv k h
      simp only [List.foldl_cons]
      have hp : SV.runOne clock raises scripts (s, inv) b =
          ((SV.runOne clock raises scripts (s, inv) b).1, (SV.runOne clock raises scripts (s, inv) b).2) := rfl
      rw [hp]
      exact ih _ _ k (Gone.runOne clock raises scripts s inv b k h)

theorem Gone.postOne (ref : DT) (s : State) (k0 k : Nat) (h : Gone s k) : Gone (SV.postOne ref s k0) k := by
  unfold SV.postOne
  simp only []
  split
  · exact ⟨by simpa using h.1, h.2⟩
  · split
    · exact ⟨by simpa using h.1, h.2⟩
    · exact ⟨by simpa using h.1, fun hc => h.2 (List.mem_of_mem_erase hc)⟩

theorem Gone.postFold (ref : DT) (B : List Nat) :
    ∀ (s : State) (k : Nat), Gone s k → Gone (B.foldl (SV.postOne ref) s) k := by
  induction B with
  | nil => intro s k h; exact h
  | cons b bs ih => intro s k h; simp only [List.foldl_cons]; exact ih _ k (Gone.postOne ref s b k h)

theorem Gone.execJobs (s : State) (k : Nat) (h : Gone s k) (clock : Int) (force : Bool) (order raises : List Nat)
    (scripts : List (Nat × List COp)) : Gone (execJobs s clock force order raises scripts).1 k := by
  simp only [SV.execJobs]
  generalize (if force = true then (if isPermOf order s.reg = true then order else s.reg)
      else List.map (fun x => x.fst) (selectBatch s.maxExec (List.map (fun k => (k, prioOf s.prio (lateness s (nowDT s.tz clock) k) (weightOf s k)))
        (if isPermOf order s.reg = true then order else s.reg)))) = batch
  have h1 := Gone.runFold clock raises scripts batch s [] k h
  have hp : batch.foldl (SV.runOne clock raises scripts) (s, []) =
      ((batch.foldl (SV.runOne clock raises scripts) (s, [])).1, (batch.foldl (SV.runOne clock raises scripts) (s, [])).2) := rfl
  rw [hp]
  exact Gone.postFold _ batch _ k h1

/-- attempts counter of job `k` -/
def attOf (s : State) (k : Nat) : Nat :=
  match s.find k with
  | some sj => sj.job.attempts
  | none => 0

theorem attOf_scripts (clock : Int) (ops : List COp) (s : State) (k : Nat) (hk : k < s.heap.length) :
    attOf (ops.foldl (fun st op => SV.runCOp st clock op) s) k = attOf s k ∧
    s.heap.length ≤ (ops.foldl (fun st op => SV.runCOp st clock op) s).heap.length := by
  induction ops generalizing s with
  | nil => exact ⟨rfl, Nat.le_refl _⟩
  | cons c cs ih =>
      simp only [List.foldl_cons]
      obtain ⟨l1, f1⟩ := runCOp_heap s clock c
      obtain ⟨a, b⟩ := ih (SV.runCOp s clock c) (by omega)
      refine ⟨?_, Nat.le_trans l1 b⟩
      rw [a]; simp [attOf, f1 k hk]

theorem attOf_withLogs (s : State) (n : Nat) (k : Nat) : attOf { s with logs := n } k = attOf s k := rfl

/-- one worker step: exactly the run job's counter grows by one; one record with its key -/
theorem attOf_runOne (clock : Int) (raises : List Nat) (scripts : List (Nat × List COp)) (s : State)
    (inv : List Invoc) (k0 : Nat) (hk0 : k0 < s.heap.length) (k : Nat) (hk : k < s.heap.length) :
    attOf (SV.runOne clock raises scripts (s, inv) k0).1 k = attOf s k + (if k = k0 then 1 else 0) ∧
    s.heap.length ≤ (SV.runOne clock raises scripts (s, inv) k0).1.heap.length ∧
    (SV.runOne clock raises scripts (s, inv) k0).2.map (·.key) = inv.map (·.key) ++ [k0] := by
  obtain ⟨sj, hsj⟩ := s.find_some k0 hk0
  obtain ⟨a1, l1⟩ := attOf_scripts clock ((scripts.lookup k0).getD []) s k hk
  obtain ⟨a0, _⟩ := attOf_scripts clock ((scripts.lookup k0).getD []) s k0 hk0
  simp only [SV.runOne, hsj]
  refine ⟨?_, by simpa using l1, by simp⟩
  rw [attOf_withLogs]
  by_cases hkk : k = k0
  · subst hkk
    simp only [if_true]
    rw [← a1]
    have hlt : k < (((scripts.lookup k).getD []).foldl (fun st op => SV.runCOp st clock op) s).heap.length := by omega
    obtain ⟨x, hx⟩ := State.find_some _ k hlt
    simp only [attOf, State.setJob_find_eq, hx]
    simp [Job.exec1]
  · simp only [hkk, if_false, Nat.add_zero]
    rw [← a1]
    simp only [attOf]
    rw [State.setJob_find_ne _ k0 k _ (fun e => hkk e.symm)]

theorem attOf_runFold (clock : Int) (raises : List Nat) (scripts : List (Nat × List COp)) (B : List Nat) :
    ∀ (s : State) (inv : List Invoc) (k : Nat), k < s.heap.length → (∀ b ∈ B, b < s.heap.length) →
      attOf (B.foldl (SV.runOne clock raises scripts) (s, inv)).1 k = attOf s k + B.count k ∧
      s.heap.length ≤ (B.foldl (SV.runOne clock raises scripts) (s, inv)).1.heap.length ∧
      (B.foldl (SV.runOne clock raises scripts) (s, inv)).2.map (·.key) = inv.map (·.key) ++ B := by
  induction B with
  | nil => intro s inv k _ _; simp
  | cons b bs ih =>
      intro s inv k hk hB
      obtain ⟨a, l, r⟩ := attOf_runOne clock raises scripts s inv b (hB b (by simp)) k hk
      simp only [List.foldl_cons]
      have hp : SV.runOne clock raises scripts (s, inv) b =
          ((SV.runOne clock raises scripts (s, inv) b).1, (SV.runOne clock raises scripts (s, inv) b).2) := rfl
      rw [hp]
      obtain ⟨a2, l2, r2⟩ := ih (SV.runOne clock raises scripts (s, inv) b).1 (SV.runOne clock raises scripts (s, inv) b).2 k (by omega)
        (by intro b' hb'; have := hB b' (by simp [hb']); omega)
      refine ⟨?_, Nat.le_trans l l2, ?_⟩
      · rw [a2, a, List.count_cons]
        by_cases hkb : k = b
        · subst hkb; simp; omega
        · have : (b == k) = false := by simp; exact fun e => hkb e.symm
          simp [hkb, this]
      · rw [r2, r]; simp

theorem attOf_postOne (ref : DT) (s : State) (k0 k : Nat) : attOf (SV.postOne ref s k0) k = attOf s k := by
  have key : attOf (s.setJob k0 (fun j => j.calcNext ref)) k = attOf s k := by
    simp only [attOf]
    by_cases hkk : k0 = k
    · subst hkk
      rw [State.setJob_find_eq]
      cases s.find k0 <;> simp [Job.calcNext]
    · rw [State.setJob_find_ne _ k0 k _ hkk]
  unfold SV.postOne
  simp only []
  split
  · exact key
  · split
    · exact key
    · exact key

theorem attOf_postFold (ref : DT) (B : List Nat) (s : State) (k : Nat) :
    attOf (B.foldl (SV.postOne ref) s) k = attOf s k := by
  induction B generalizing s with
  | nil => rfl
  | cons b bs ih => simp only [List.foldl_cons]; rw [ih, attOf_postOne]

end SV
