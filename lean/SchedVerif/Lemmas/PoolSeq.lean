/-
  Lemmas/PoolSeq.lean — running the callbacks of a batch in any completion order leaves the same
  scheduler state (helper lemmas; the property statement is `C16.same_as_sequential`).
-/
import SchedVerif.Lemmas.Exec
namespace SV

/-- the effect of one worker finishing job `k` (callbacks that do not touch the scheduler) on the
    scheduler state: the job's counters and the log count -/
def runState (raises : List Nat) (s : State) (k : Nat) : State :=
  if (s.heap[k]?).isSome then
    { s with heap := s.heap.modify k (fun sj => { sj with job := sj.job.exec1 (raises.contains k) }),
             logs := if raises.contains k then s.logs + 1 else s.logs }
  else s

theorem runOne_state (clock : Int) (raises : List Nat) (s : State) (inv : List Invoc) (k : Nat) :
    (runOne clock raises [] (s, inv) k).1 = runState raises s k := by
  unfold SV.runOne runState
  cases h : s.heap[k]? with
  | none => simp [State.find, h]
  | some sj => simp [State.find, h, List.lookup, State.setJob]

theorem runOne_fold_state (clock : Int) (raises : List Nat) (batch : List Nat) :
    ∀ (s : State) (inv : List Invoc),
      (batch.foldl (runOne clock raises []) (s, inv)).1 = batch.foldl (runState raises) s := by
  induction batch with
  | nil => intro s inv; rfl
  | cons k ks ih =>
      intro s inv
      simp only [List.foldl_cons]
      have hp : runOne clock raises [] (s, inv) k =
          ((runOne clock raises [] (s, inv) k).1, (runOne clock raises [] (s, inv) k).2) := rfl
      rw [hp, ih, runOne_state]

theorem modify_comm {α : Type} (l : List α) (i j : Nat) (f g : α → α) (h : i ≠ j) :
    (l.modify i f).modify j g = (l.modify j g).modify i f := by
  apply List.ext_getElem?
  intro n
  simp only [List.getElem?_modify]
  by_cases h1 : j = n <;> by_cases h2 : i = n <;> simp_all

theorem isSome_modify {α : Type} (l : List α) (i j : Nat) (f : α → α) :
    ((l.modify i f)[j]?).isSome = (l[j]?).isSome := by
  simp only [List.getElem?_modify]
  by_cases h : i = j <;> simp [h]

/-- two jobs finish in either order with the same result -/
theorem runState_comm (raises : List Nat) (s : State) (a b : Nat) :
    runState raises (runState raises s a) b = runState raises (runState raises s b) a := by
  by_cases hab : a = b
  · subst hab; rfl
  · unfold runState
    by_cases ha : (s.heap[a]?).isSome = true <;> by_cases hb : (s.heap[b]?).isSome = true
    · simp only [ha, hb, if_true, isSome_modify]
      congr 1
      · exact modify_comm s.heap a b _ _ hab
      · cases raises.contains a <;> cases raises.contains b <;> simp
    · simp [ha, hb, isSome_modify]
    · simp [ha, hb, isSome_modify]
    · simp [ha, hb]

/-- **any completion order**: finishing the jobs of a batch in any rearranged order gives the same
    scheduler state -/
theorem runState_perm (raises : List Nat) (b b' : List Nat) (hp : b.Perm b') (s : State) :
    b.foldl (runState raises) s = b'.foldl (runState raises) s :=
  hp.foldl_eq' (fun x _ y _ z => runState_comm raises z x y) s

end SV
