/-
  Lemmas/Strip.lean — erasing the failure counters and the log count commutes with every
  operation: the scheduler never reads them (helper lemmas only).
-/
import SchedVerif.Lemmas.Frame
namespace SV

def Job.strip (j : Job) : Job := { j with failed := 0 }
def SJob.strip (sj : SJob) : SJob := { sj with job := sj.job.strip }
def State.strip (s : State) : State := { s with heap := s.heap.map SJob.strip, logs := 0 }

@[simp] theorem Job.strip_strip (j : Job) : j.strip.strip = j.strip := rfl
@[simp] theorem SJob.strip_strip (sj : SJob) : sj.strip.strip = sj.strip := rfl
@[simp] theorem State.strip_strip (s : State) : s.strip.strip = s.strip := by
  simp [State.strip, List.map_map, Function.comp_def]

@[simp] theorem Job.strip_due (j : Job) : j.strip.due = j.due := rfl
@[simp] theorem Job.strip_hasAttempts (j : Job) : j.strip.hasAttempts = j.hasAttempts := rfl
theorem Job.strip_calcNext (j : Job) (ref : DT) : (j.calcNext ref).strip = j.strip.calcNext ref := rfl
theorem Job.strip_exec1 (j : Job) (r : Bool) : (j.exec1 r).strip = (j.strip.exec1 false).strip := by
  simp [Job.strip, Job.exec1]

@[simp] theorem State.strip_tz (s : State) : s.strip.tz = s.tz := rfl
@[simp] theorem State.strip_reg (s : State) : s.strip.reg = s.reg := rfl
@[simp] theorem State.strip_maxExec (s : State) : s.strip.maxExec = s.maxExec := rfl
@[simp] theorem State.strip_prio (s : State) : s.strip.prio = s.prio := rfl
@[simp] theorem State.strip_heap_length (s : State) : s.strip.heap.length = s.heap.length := by
  simp [State.strip]

theorem State.strip_find (s : State) (k : Nat) : s.strip.find k = (s.find k).map SJob.strip := by
  simp [State.strip, State.find, List.getElem?_map]

theorem State.strip_setJob (s : State) (k : Nat) (f g : Job → Job)
    (h : ∀ j, (f j).strip = (g j.strip).strip) :
    (s.setJob k f).strip = (s.strip.setJob k g).strip := by
  simp only [State.strip, State.setJob]
  congr 1
  apply List.ext_getElem?
  intro i
  simp only [List.getElem?_map, List.getElem?_modify, List.map_map]
  cases hi : s.heap[i]? with
  | none => simp
  | some sj =>
      by_cases hki : k = i
      · simp [hki, SJob.strip, h, Function.comp_def]
      · simp [hki, SJob.strip, Function.comp_def]

theorem State.strip_withLogs (s : State) (n : Nat) : ({ s with logs := n } : State).strip = s.strip := rfl

theorem State.strip_withReg (s : State) (r : List Nat) :
    ({ s with reg := r } : State).strip = { s.strip with reg := r } := rfl

theorem strip_lateness (s : State) (ref : DT) (k : Nat) : lateness s.strip ref k = lateness s ref k := by
  simp only [lateness, State.strip_find]
  cases s.find k <;> simp [SJob.strip]

theorem strip_weightOf (s : State) (k : Nat) : weightOf s.strip k = weightOf s k := by
  simp only [weightOf, State.strip_find]
  cases s.find k <;> simp [SJob.strip]

theorem strip_selectKeys (s : State) (q : List Nat) (any : Bool) :
    selectKeys s.strip q any = selectKeys s q any := by
  simp only [selectKeys, State.strip_reg]
  split
  · rfl
  · apply List.filter_congr
    intro k _
    simp only [State.strip_find]
    cases s.find k <;> simp [SJob.strip]

theorem strip_schedule (s : State) (sp : RawSpec) (clock : Int) (direct : Bool) :
    (schedule s sp clock direct).1.strip = (schedule s.strip sp clock direct).1.strip ∧
    (schedule s sp clock direct).2 = (schedule s.strip sp clock direct).2 := by
  unfold SV.schedule
  simp only [State.strip_tz, State.strip_heap_length]
  split
  · exact ⟨by simp, rfl⟩
  · rename_i j hj
    have hz : j.failed = 0 := by
      have := (JobOK.ofCreateJob s.tz sp clock direct j hj)
      -- freshly created jobs have not failed
      cases direct with
      | true =>
          simp only [if_true, SV.createJobDirect] at hj
          split at hj
          · cases hj
          · obtain ⟨_, _, e, _⟩ := Job.create_ok _ _ _ _ _ _ _ _ _ hj; subst e; rfl
      | false =>
          simp only [Bool.false_eq_true, if_false, SV.createJob] at hj
          split at hj
          · obtain ⟨_, _, e, _⟩ := Job.create_ok _ _ _ _ _ _ _ _ _ hj; subst e; rfl
          · split at hj
            · cases hj
            · obtain ⟨_, _, e, _⟩ := Job.create_ok _ _ _ _ _ _ _ _ _ hj; subst e; rfl
          · split at hj
            · cases hj
            · obtain ⟨_, _, e, _⟩ := Job.create_ok _ _ _ _ _ _ _ _ _ hj; subst e; rfl
    have hs : ∀ sj : SJob, sj.job = j → sj.strip = sj := by
      intro sj e
      cases sj with
      | mk key job tags weight payload =>
          simp only [SJob.strip, Job.strip] at *
          subst e
          cases job
          simp_all
    refine ⟨?_, rfl⟩
    split <;> simp [State.strip, hs, List.map_append, SJob.strip_strip, List.map_map, Function.comp_def]

theorem strip_deleteJob (s : State) (k : Nat) :
    (deleteJob s k).1.strip = (deleteJob s.strip k).1.strip ∧ (deleteJob s k).2 = (deleteJob s.strip k).2 := by
  unfold SV.deleteJob
  simp only [State.strip_reg]
  by_cases hk : k ∈ s.reg
  · have hc : s.reg.contains k = true := by simpa using hk
    simp only [hc, if_true]
    refine ⟨?_, ?_⟩ <;> simp [State.strip, List.map_map, Function.comp_def]
  · have hc : ¬ (s.reg.contains k = true) := by simpa using hk
    simp only [hc]
    refine ⟨?_, ?_⟩ <;> simp

theorem strip_deleteJobs (s : State) (q : List Nat) (any : Bool) :
    (deleteJobs s q any).1.strip = (deleteJobs s.strip q any).1.strip ∧
    (deleteJobs s q any).2 = (deleteJobs s.strip q any).2 := by
  simp only [SV.deleteJobs, strip_selectKeys, State.strip_reg]
  refine ⟨?_, ?_⟩ <;> simp [State.strip]

theorem strip_runCOp (s : State) (clock : Int) (c : COp) :
    (runCOp s clock c).strip = (runCOp s.strip clock c).strip := by
  cases c with
  | sched sp => exact (strip_schedule s sp clock false).1
  | del k => exact (strip_deleteJob s k).1
  | delTags q any => exact (strip_deleteJobs s q any).1
  | get _ _ => simp [SV.runCOp]
  | str => simp [SV.runCOp]

/-- two states with the same stripped form stay so under any scripted operation -/
theorem strip_runCOp_congr (a b : State) (h : a.strip = b.strip) (clock : Int) (c : COp) :
    (runCOp a clock c).strip = (runCOp b clock c).strip := by
  rw [strip_runCOp a, strip_runCOp b, h]

theorem strip_scripts_congr (clock : Int) (ops : List COp) (a b : State) (h : a.strip = b.strip) :
    (ops.foldl (fun st op => SV.runCOp st clock op) a).strip =
    (ops.foldl (fun st op => SV.runCOp st clock op) b).strip := by
  induction ops generalizing a b with
  | nil => exact h
  | cons c cs ih => simp only [List.foldl_cons]; exact ih _ _ (strip_runCOp_congr a b h clock c)

theorem strip_find_congr (a b : State) (h : a.strip = b.strip) (k : Nat) :
    (a.find k).map SJob.strip = (b.find k).map SJob.strip := by
  rw [← State.strip_find, ← State.strip_find, h]

theorem strip_setJob_congr (a b : State) (h : a.strip = b.strip) (k : Nat) (f g : Job → Job)
    (hf : ∀ j, (f j).strip = (f j.strip).strip) (hg : ∀ j, (g j).strip = (f j.strip).strip) :
    (a.setJob k f).strip = (b.setJob k g).strip := by
  rw [State.strip_setJob a k f f hf, State.strip_setJob b k g f hg, h]

/-- one worker step on two states that agree up to failure counters, with different fault
    assignments: the results agree up to failure counters, and the records agree -/
theorem strip_runOne_congr (clock : Int) (r1 r2 : List Nat) (scripts : List (Nat × List COp))
    (a b : State) (inv : List Invoc) (h : a.strip = b.strip) (k : Nat) :
    (SV.runOne clock r1 scripts (a, inv) k).1.strip = (SV.runOne clock r2 scripts (b, inv) k).1.strip ∧
    (SV.runOne clock r1 scripts (a, inv) k).2 = (SV.runOne clock r2 scripts (b, inv) k).2 := by
  have hfk := strip_find_congr a b h k
  unfold SV.runOne
  simp only []
  cases ha : a.find k with
  | none =>
      cases hb : b.find k with
      | none => exact ⟨h, rfl⟩
      | some y => rw [ha, hb] at hfk; simp at hfk
  | some x =>
      cases hb : b.find k with
      | none => rw [ha, hb] at hfk; simp at hfk
      | some y =>
          rw [ha, hb] at hfk
          simp only [Option.map_some, Option.some.injEq] at hfk
          have hxy : x.job.due = y.job.due ∧ x.payload = y.payload := by
            have := congrArg (fun (z : SJob) => (z.job.due, z.payload)) hfk
            simpa [SJob.strip] using this
          simp only []
          refine ⟨?_, by rw [hxy.1, hxy.2]⟩
          have key := strip_setJob_congr _ _ (strip_scripts_congr clock ((scripts.lookup k).getD []) a b h) k
            (fun j => j.exec1 (r1.contains k)) (fun j => j.exec1 (r2.contains k))
            (by intro j; simp [Job.strip, Job.exec1])
            (by intro j; simp [Job.strip, Job.exec1])
          exact key

theorem strip_runFold_congr (clock : Int) (r1 r2 : List Nat) (scripts : List (Nat × List COp)) (B : List Nat) :
    ∀ (a b : State) (inv : List Invoc), a.strip = b.strip →
      (B.foldl (SV.runOne clock r1 scripts) (a, inv)).1.strip = (B.foldl (SV.runOne clock r2 scripts) (b, inv)).1.strip ∧
      (B.foldl (SV.runOne clock r1 scripts) (a, inv)).2 = (B.foldl (SV.runOne clock r2 scripts) (b, inv)).2 := by
  induction B with
  | nil => intro a b inv h; exact ⟨h, rfl⟩
  | cons k ks ih =>
      intro a b inv h
      obtain ⟨h1, h2⟩ := strip_runOne_congr clock r1 r2 scripts a b inv h k
      simp only [List.foldl_cons]
      have hp1 : SV.runOne clock r1 scripts (a, inv) k =
          ((SV.runOne clock r1 scripts (a, inv) k).1, (SV.runOne clock r1 scripts (a, inv) k).2) := rfl
      have hp2 : SV.runOne clock r2 scripts (b, inv) k =
          ((SV.runOne clock r2 scripts (b, inv) k).1, (SV.runOne clock r2 scripts (b, inv) k).2) := rfl
      rw [hp1, hp2, h2]
      exact ih _ _ _ h1

theorem strip_postOne_congr (ref : DT) (a b : State) (h : a.strip = b.strip) (k : Nat) :
    (SV.postOne ref a k).strip = (SV.postOne ref b k).strip := by
  have hs : (a.setJob k (fun j => j.calcNext ref)).strip = (b.setJob k (fun j => j.calcNext ref)).strip :=
    strip_setJob_congr a b h k _ _ (fun j => rfl) (fun j => rfl)
  have hfk := strip_find_congr _ _ hs k
  have hreg : (a.setJob k (fun j => j.calcNext ref)).reg = (b.setJob k (fun j => j.calcNext ref)).reg := by
    have := congrArg State.reg hs
    simpa using this
  unfold SV.postOne
  simp only []
  cases ha : (a.setJob k (fun j => j.calcNext ref)).find k with
  | none =>
      cases hb : (b.setJob k (fun j => j.calcNext ref)).find k with
      | none => exact hs
      | some y => rw [ha, hb] at hfk; simp at hfk
  | some x =>
      cases hb : (b.setJob k (fun j => j.calcNext ref)).find k with
      | none => rw [ha, hb] at hfk; simp at hfk
      | some y =>
          rw [ha, hb] at hfk
          simp only [Option.map_some, Option.some.injEq] at hfk
          have hatt : x.job.hasAttempts = y.job.hasAttempts := by
            have := congrArg (fun (z : SJob) => z.job.hasAttempts) hfk
            simpa [SJob.strip] using this
          by_cases hy : y.job.hasAttempts = true
          · simp only [hatt, hy, if_true]; exact hs
          · simp only [hatt, hy, Bool.false_eq_true, if_false]
            have e1 := State.strip_withReg (a.setJob k (fun j => j.calcNext ref)) ((a.setJob k (fun j => j.calcNext ref)).reg.erase k)
            have e2 := State.strip_withReg (b.setJob k (fun j => j.calcNext ref)) ((b.setJob k (fun j => j.calcNext ref)).reg.erase k)
            have e3 : ({ (a.setJob k (fun j => j.calcNext ref)).strip with reg := (a.setJob k (fun j => j.calcNext ref)).reg.erase k } : State)
                = { (b.setJob k (fun j => j.calcNext ref)).strip with reg := (b.setJob k (fun j => j.calcNext ref)).reg.erase k } := by
              rw [hs, hreg]
            exact e1.trans (e3.trans e2.symm)

theorem strip_postFold_congr (ref : DT) (B : List Nat) (a b : State) (h : a.strip = b.strip) :
    (B.foldl (SV.postOne ref) a).strip = (B.foldl (SV.postOne ref) b).strip := by
  induction B generalizing a b with
  | nil => exact h
  | cons k ks ih => simp only [List.foldl_cons]; exact ih _ _ (strip_postOne_congr ref a b h k)

/-- **non-interference of faults for one `exec_jobs` call** -/
theorem strip_execJobs_congr (a b : State) (h : a.strip = b.strip) (clock : Int) (force : Bool)
    (order r1 r2 : List Nat) (scripts : List (Nat × List COp)) :
    (execJobs a clock force order r1 scripts).1.strip = (execJobs b clock force order r2 scripts).1.strip ∧
    (execJobs a clock force order r1 scripts).2 = (execJobs b clock force order r2 scripts).2 := by
  have hreg : a.reg = b.reg := by simpa using congrArg State.reg h
  have htz : a.tz = b.tz := by simpa using congrArg State.tz h
  have hme : a.maxExec = b.maxExec := by simpa using congrArg State.maxExec h
  have hpr : a.prio = b.prio := by simpa using congrArg State.prio h
  have hlate : ∀ ref k, lateness a ref k = lateness b ref k := by
    intro ref k; rw [← strip_lateness a, ← strip_lateness b, h]
  have hw : ∀ k, weightOf a k = weightOf b k := by
    intro k; rw [← strip_weightOf a, ← strip_weightOf b, h]
  simp only [SV.execJobs, hreg, htz, hme, hpr, hlate, hw]
  generalize (if force = true then (if isPermOf order b.reg = true then order else b.reg)
      else List.map (fun x => x.fst) (selectBatch b.maxExec (List.map (fun k => (k, prioOf b.prio (lateness b (nowDT b.tz clock) k) (weightOf b k)))
        (if isPermOf order b.reg = true then order else b.reg)))) = batch
  obtain ⟨h1, h2⟩ := strip_runFold_congr clock r1 r2 scripts batch a b [] h
  have hp1 : batch.foldl (SV.runOne clock r1 scripts) (a, []) =
      ((batch.foldl (SV.runOne clock r1 scripts) (a, [])).1, (batch.foldl (SV.runOne clock r1 scripts) (a, [])).2) := rfl
  have hp2 : batch.foldl (SV.runOne clock r2 scripts) (b, []) =
      ((batch.foldl (SV.runOne clock r2 scripts) (b, [])).1, (batch.foldl (SV.runOne clock r2 scripts) (b, [])).2) := rfl
  rw [hp1, hp2]
  simp only []
  exact ⟨strip_postFold_congr _ batch _ _ h1, by rw [h2]⟩

end SV
