/-
  Lemmas/Linearize.lean — the memoised search `linearizableB` decides exactly the existence of a
  linearization (helper lemmas; the property-level statement is `C14.linearizableB_iff`).
-/
import SchedVerif.Spec.Linearize
namespace SV

/-- nondeterministic specification of the search: from machine state `s` the calls `remaining`
    can be completed in some order that respects real-time precedence, reproduces every observed
    result and ends in the observed registry -/
inductive Lin (tags : List (Nat × List Nat)) (final : List Nat) (rs : List LRec) : LState → List Nat → Prop where
  | done (s : LState) : s.reg = final → Lin tags final rs s []
  | step (s s' : LState) (remaining : List Nat) (i : Nat) (r : LRec) :
      i ∈ remaining → minimalIn rs remaining i = true → rs[i]? = some r →
      lApply tags s r.op = some s' → Lin tags final rs s' (remaining.filter (· != i)) →
      Lin tags final rs s remaining

def DeadOK (tags : List (Nat × List Nat)) (final : List Nat) (rs : List LRec) (dead : Dead) : Prop :=
  ∀ reg sel rem, (reg, sel, rem) ∈ dead → ¬ Lin tags final rs { reg := reg, selected := sel } rem

theorem linSearch_nil (tags : List (Nat × List Nat)) (final : List Nat) (rs : List LRec) (fuel : Nat)
    (s : LState) (dead : Dead) : linSearch tags final rs fuel s [] dead = (s.reg == final, dead) := by
  cases fuel <;> simp [linSearch]

end SV
