/-
  Lemmas/Linearize.lean — the memoised search `linearizableB` decides exactly the existence of a
  linearization (helper lemmas; the property-level statement is `C14.linearizableB_iff`).
-/
import SchedVerif.Spec.Linearize
namespace SV

/-- nondeterministic specification of the search: from machine state `s` the calls `remaining`
    can be completed in some order that respects real-time precedence, reproduces every observed
    result and ends in the observed registry -/
inductive Lin (tags : List (Nat × List Nat)) (final : List Nat) (rs : List LRec) : LState → List Nat → Prop where
  | done (s : LState) : s.reg = final → Lin tags final rs s []
  | step (s s' : LState) (remaining : List Nat) (i : Nat) (r : LRec) :
      i ∈ remaining → minimalIn rs remaining i = true → rs[i]? = some r →
      lApply tags s r.op = some s' → Lin tags final rs s' (remaining.filter (· != i)) →
      Lin tags final rs s remaining

def DeadOK (tags : List (Nat × List Nat)) (final : List Nat) (rs : List LRec) (dead : Dead) : Prop :=
  ∀ reg sel rem, (reg, sel, rem) ∈ dead → ¬ Lin tags final rs { reg := reg, selected := sel } rem

theorem linSearch_nil (tags : List (Nat × List Nat)) (final : List Nat) (rs : List LRec) (fuel : Nat)
    (s : LState) (dead : Dead) : linSearch tags final rs fuel s [] dead = (s.reg == final, dead) := by
  cases fuel <;> simp [linSearch]

end SV

namespace SV

theorem linSearch_zero_cons (tags : List (Nat × List Nat)) (final : List Nat) (rs : List LRec)
    (s : LState) (a : Nat) (as : List Nat) (dead : Dead) :
    linSearch tags final rs 0 s (a :: as) dead = (false, dead) := by
  simp [linSearch]

theorem linSearch_succ_cons (tags : List (Nat × List Nat)) (final : List Nat) (rs : List LRec) (fuel : Nat)
    (s : LState) (a : Nat) (as : List Nat) (dead : Dead) :
    linSearch tags final rs (fuel + 1) s (a :: as) dead =
      if dead.contains (s.reg, s.selected, a :: as) then (false, dead)
      else
        let r := linTry tags final rs fuel s (a :: as) (a :: as) dead
        if r.1 then r else (false, (s.reg, s.selected, a :: as) :: r.2) := by
  simp [linSearch]

theorem linTry_nil (tags : List (Nat × List Nat)) (final : List Nat) (rs : List LRec) (fuel : Nat)
    (s : LState) (rem : List Nat) (dead : Dead) :
    linTry tags final rs fuel s rem [] dead = (false, dead) := by
  cases fuel <;> simp [linTry]

/-- the outcome of trying candidate `i` -/
def tryOne (tags : List (Nat × List Nat)) (final : List Nat) (rs : List LRec) (fuel : Nat)
    (s : LState) (rem : List Nat) (i : Nat) (dead : Dead) : Bool × Dead :=
  if minimalIn rs rem i then
    match rs[i]? with
    | none => (false, dead)
    | some r =>
        match lApply tags s r.op with
        | none => (false, dead)
        | some s' => linSearch tags final rs fuel s' (rem.filter (· != i)) dead
  else (false, dead)

theorem linTry_cons (tags : List (Nat × List Nat)) (final : List Nat) (rs : List LRec) (fuel : Nat)
    (s : LState) (rem : List Nat) (i : Nat) (cands : List Nat) (dead : Dead) :
    linTry tags final rs fuel s rem (i :: cands) dead =
      if (tryOne tags final rs fuel s rem i dead).1 then tryOne tags final rs fuel s rem i dead
      else linTry tags final rs fuel s rem cands (tryOne tags final rs fuel s rem i dead).2 := by
  cases fuel <;> (simp only [linTry, tryOne]; rfl)

end SV

namespace SV

/-! ### soundness: a successful search exhibits a linearization -/

theorem tryOne_sound (tags : List (Nat × List Nat)) (final : List Nat) (rs : List LRec) (fuel : Nat)
    (hS : ∀ s rem dead, (linSearch tags final rs fuel s rem dead).1 = true → Lin tags final rs s rem)
    (s : LState) (rem : List Nat) (i : Nat) (hi : i ∈ rem) (dead : Dead)
    (h : (tryOne tags final rs fuel s rem i dead).1 = true) : Lin tags final rs s rem := by
  unfold tryOne at h
  by_cases hm : minimalIn rs rem i = true
  · simp only [hm, if_true] at h
    cases hr : rs[i]? with
    | none => simp [hr] at h
    | some r =>
        simp only [hr] at h
        cases ha : lApply tags s r.op with
        | none => simp [ha] at h
        | some s' =>
            simp only [ha] at h
            exact Lin.step s s' rem i r hi hm hr ha (hS _ _ _ h)
  · simp [hm] at h

theorem linTry_sound (tags : List (Nat × List Nat)) (final : List Nat) (rs : List LRec) (fuel : Nat)
    (hS : ∀ s rem dead, (linSearch tags final rs fuel s rem dead).1 = true → Lin tags final rs s rem)
    (s : LState) (rem : List Nat) :
    ∀ (cands : List Nat) (dead : Dead), (∀ i ∈ cands, i ∈ rem) →
      (linTry tags final rs fuel s rem cands dead).1 = true → Lin tags final rs s rem := by
  intro cands
  induction cands with
  | nil => intro dead _ h; simp [linTry_nil] at h
  | cons i cs ih =>
      intro dead hc h
      rw [linTry_cons] at h
      by_cases h1 : (tryOne tags final rs fuel s rem i dead).1 = true
      · exact tryOne_sound tags final rs fuel hS s rem i (hc i (by simp)) dead h1
      · simp only [h1, Bool.false_eq_true, if_false] at h
        exact ih _ (fun j hj => hc j (by simp [hj])) h

theorem linSearch_sound (tags : List (Nat × List Nat)) (final : List Nat) (rs : List LRec) :
    ∀ (fuel : Nat) (s : LState) (rem : List Nat) (dead : Dead),
      (linSearch tags final rs fuel s rem dead).1 = true → Lin tags final rs s rem := by
  intro fuel
  induction fuel with
  | zero =>
      intro s rem dead h
      cases rem with
      | nil => rw [linSearch_nil] at h; exact Lin.done s (by simpa using h)
      | cons a as => simp [linSearch_zero_cons] at h
  | succ f ih =>
      intro s rem dead h
      cases rem with
      | nil => rw [linSearch_nil] at h; exact Lin.done s (by simpa using h)
      | cons a as =>
          rw [linSearch_succ_cons] at h
          by_cases hd : (s.reg, s.selected, a :: as) ∈ dead
          · simp [hd] at h
          · by_cases hr : (linTry tags final rs f s (a :: as) (a :: as) dead).1 = true
            · exact linTry_sound tags final rs f ih s (a :: as) (a :: as) dead (fun _ hi => hi) hr
            · simp [hd, hr] at h

/-! ### completeness: a failed search means there is no linearization -/

theorem filter_ne_length_lt (rem : List Nat) (i : Nat) (hi : i ∈ rem) :
    (rem.filter (· != i)).length < rem.length := by
  induction rem with
  | nil => cases hi
  | cons x xs ih =>
      simp only [List.filter_cons]
      by_cases hx : x = i
      · subst hx
        simp only [bne_self_eq_false, Bool.false_eq_true, if_false, List.length_cons]
        have := List.length_filter_le (fun y => y != x) xs
        omega
      · have hx' : (x != i) = true := by simpa using hx
        simp only [hx', if_true, List.length_cons]
        have : i ∈ xs := by
          rcases List.mem_cons.mp hi with h | h
          · exact absurd h.symm hx
          · exact h
        have := ih this
        omega

/-- what a failed attempt on candidate `i` means -/
def NoStep (tags : List (Nat × List Nat)) (final : List Nat) (rs : List LRec) (s : LState)
    (rem : List Nat) (i : Nat) : Prop :=
  ¬ (minimalIn rs rem i = true ∧ ∃ r s', rs[i]? = some r ∧ lApply tags s r.op = some s' ∧
      Lin tags final rs s' (rem.filter (· != i)))

theorem tryOne_complete (tags : List (Nat × List Nat)) (final : List Nat) (rs : List LRec) (fuel : Nat)
    (hS : ∀ s rem dead, rem.length ≤ fuel → DeadOK tags final rs dead →
      DeadOK tags final rs (linSearch tags final rs fuel s rem dead).2 ∧
      ((linSearch tags final rs fuel s rem dead).1 = false → ¬ Lin tags final rs s rem))
    (s : LState) (rem : List Nat) (hl : rem.length ≤ fuel + 1) (i : Nat) (hi : i ∈ rem) (dead : Dead)
    (hd : DeadOK tags final rs dead) :
    DeadOK tags final rs (tryOne tags final rs fuel s rem i dead).2 ∧
    ((tryOne tags final rs fuel s rem i dead).1 = false → NoStep tags final rs s rem i) := by
  unfold tryOne NoStep
  by_cases hm : minimalIn rs rem i = true
  · simp only [hm, if_true]
    cases hr : rs[i]? with
    | none => exact ⟨hd, fun _ ⟨_, r, s', h1, _⟩ => by simp at h1⟩
    | some r =>
        simp only []
        cases ha : lApply tags s r.op with
        | none =>
            refine ⟨hd, fun _ ⟨_, r', s', h1, h2, _⟩ => ?_⟩
            have : r' = r := by simpa using h1.symm
            subst this
            rw [ha] at h2; cases h2
        | some s' =>
            simp only []
            have hlen := filter_ne_length_lt rem i hi
            obtain ⟨d2, c2⟩ := hS s' (rem.filter (· != i)) dead (by omega) hd
            refine ⟨d2, fun hf ⟨_, r', s'', h1, h2, h3⟩ => ?_⟩
            have : r' = r := by simpa using h1.symm
            subst this
            rw [ha] at h2
            have : s'' = s' := by simpa using h2.symm
            subst this
            exact c2 hf h3
  · simp only [hm, Bool.false_eq_true, if_false]
    exact ⟨hd, fun _ ⟨h, _⟩ => h.elim⟩

theorem linTry_complete (tags : List (Nat × List Nat)) (final : List Nat) (rs : List LRec) (fuel : Nat)
    (hS : ∀ s rem dead, rem.length ≤ fuel → DeadOK tags final rs dead →
      DeadOK tags final rs (linSearch tags final rs fuel s rem dead).2 ∧
      ((linSearch tags final rs fuel s rem dead).1 = false → ¬ Lin tags final rs s rem))
    (s : LState) (rem : List Nat) (hl : rem.length ≤ fuel + 1) :
    ∀ (cands : List Nat) (dead : Dead), (∀ i ∈ cands, i ∈ rem) → DeadOK tags final rs dead →
      DeadOK tags final rs (linTry tags final rs fuel s rem cands dead).2 ∧
      ((linTry tags final rs fuel s rem cands dead).1 = false → ∀ i ∈ cands, NoStep tags final rs s rem i) := by
  intro cands
  induction cands with
  | nil => intro dead _ hd; rw [linTry_nil]; exact ⟨hd, fun _ i hi => by cases hi⟩
  | cons i cs ih =>
      intro dead hc hd
      rw [linTry_cons]
      obtain ⟨d1, c1⟩ := tryOne_complete tags final rs fuel hS s rem hl i (hc i (by simp)) dead hd
      by_cases h1 : (tryOne tags final rs fuel s rem i dead).1 = true
      · simp only [h1, if_true]
        exact ⟨d1, fun hf => Bool.noConfusion hf⟩
      · simp only [h1, Bool.false_eq_true, if_false]
        obtain ⟨d2, c2⟩ := ih _ (fun j hj => hc j (by simp [hj])) d1
        refine ⟨d2, fun hf j hj => ?_⟩
        rcases List.mem_cons.mp hj with e | e
        · subst e; exact c1 (by simpa using h1)
        · exact c2 hf j e

theorem Lin.cons_inv (tags : List (Nat × List Nat)) (final : List Nat) (rs : List LRec) (s : LState)
    (a : Nat) (as : List Nat) (h : Lin tags final rs s (a :: as)) :
    ∃ i ∈ a :: as, ¬ NoStep tags final rs s (a :: as) i := by
  cases h with
  | step _ s' _ i r hi hm hr ha hl =>
      exact ⟨i, hi, fun hn => hn ⟨hm, r, s', hr, ha, hl⟩⟩

theorem linSearch_complete (tags : List (Nat × List Nat)) (final : List Nat) (rs : List LRec) :
    ∀ (fuel : Nat) (s : LState) (rem : List Nat) (dead : Dead), rem.length ≤ fuel →
      DeadOK tags final rs dead →
      DeadOK tags final rs (linSearch tags final rs fuel s rem dead).2 ∧
      ((linSearch tags final rs fuel s rem dead).1 = false → ¬ Lin tags final rs s rem) := by
  intro fuel
  induction fuel with
  | zero =>
      intro s rem dead hl hd
      cases rem with
      | nil =>
          rw [linSearch_nil]
          refine ⟨hd, fun hf hlin => ?_⟩
          cases hlin with
          | done _ h => simp [h] at hf
          | step _ _ _ i _ hi => cases hi
      | cons a as => simp at hl
  | succ f ih =>
      intro s rem dead hl hd
      cases rem with
      | nil =>
          rw [linSearch_nil]
          refine ⟨hd, fun hf hlin => ?_⟩
          cases hlin with
          | done _ h => simp [h] at hf
          | step _ _ _ i _ hi => cases hi
      | cons a as =>
          rw [linSearch_succ_cons]
          by_cases hdc : dead.contains (s.reg, s.selected, a :: as) = true
          · simp only [hdc, if_true]
            refine ⟨hd, fun _ => ?_⟩
            have hmem : (s.reg, s.selected, a :: as) ∈ dead := by simpa using hdc
            exact hd _ _ _ hmem
          · simp only [hdc, Bool.false_eq_true, if_false]
            obtain ⟨d1, c1⟩ := linTry_complete tags final rs f ih s (a :: as) hl (a :: as) dead (fun _ h => h) hd
            by_cases hr : (linTry tags final rs f s (a :: as) (a :: as) dead).1 = true
            · simp only [hr, if_true]
              exact ⟨d1, fun hf => Bool.noConfusion hf⟩
            · simp only [hr, Bool.false_eq_true, if_false]
              have hno : ¬ Lin tags final rs s (a :: as) := by
                intro hlin
                obtain ⟨i, hi, hn⟩ := Lin.cons_inv tags final rs s a as hlin
                exact hn (c1 (by simpa using hr) i hi)
              refine ⟨?_, fun _ => hno⟩
              intro reg sel rem hmem
              rcases List.mem_cons.mp hmem with e | e
              · have e1 : reg = s.reg := by injection e
                have e2 : sel = s.selected ∧ rem = a :: as := by
                  have : (sel, rem) = (s.selected, a :: as) := by injection e
                  exact ⟨by injection this, by injection this⟩
                obtain ⟨e2, e3⟩ := e2
                subst e1 e2 e3
                exact hno
              · exact d1 _ _ _ e

/-- **the memoised search decides exactly the existence of a linearization** -/
theorem linearizableB_iff_Lin (tags : List (Nat × List Nat)) (init final : List Nat) (rs : List LRec) :
    linearizableB tags init final rs = true ↔
      Lin tags final rs { reg := sortKeys init, selected := [] } (List.range rs.length) := by
  unfold linearizableB
  constructor
  · exact linSearch_sound tags final rs _ _ _ _
  · intro h
    have := (linSearch_complete tags final rs (rs.length + 1) { reg := sortKeys init, selected := [] }
      (List.range rs.length) [] (by simp) (fun _ _ _ hm => by cases hm)).2
    cases hb : (linSearch tags final rs (rs.length + 1) { reg := sortKeys init, selected := [] }
      (List.range rs.length) []).1 with
    | true => rfl
    | false => exact absurd h (this hb)

end SV

namespace SV

/-! ### `Lin` is the textbook definition -/

/-- sequential replay of the calls in the order `ord`: every observed result is the machine's -/
def Replay (tags : List (Nat × List Nat)) (final : List Nat) (rs : List LRec) : LState → List Nat → Prop
  | s, [] => s.reg = final
  | s, i :: rest => ∃ r s', rs[i]? = some r ∧ lApply tags s r.op = some s' ∧ Replay tags final rs s' rest

/-- `ord` respects real-time precedence: no point is placed before a point of a call that had
    already returned when the former's call was invoked -/
def RespectsRT (rs : List LRec) (ord : List Nat) : Prop :=
  ord.Pairwise (fun i j => ∀ ri rj, rs[i]? = some ri → rs[j]? = some rj → ¬ rj.res < ri.inv)

theorem minimalIn_iff (rs : List LRec) (rem : List Nat) (i : Nat) :
    minimalIn rs rem i = true ↔
      ∃ r, rs[i]? = some r ∧ ∀ j ∈ rem, ∀ r', rs[j]? = some r' → ¬ r'.res < r.inv := by
  unfold minimalIn
  cases hr : rs[i]? with
  | none => simp
  | some r =>
      simp only [List.all_eq_true, Option.some.injEq, exists_eq_left']
      constructor
      · intro h j hj r' hr'
        have := h j hj
        simp only [hr'] at this
        simpa using this
      · intro h j hj
        cases hr' : rs[j]? with
        | none => rfl
        | some r' => simpa using h j hj r' hr'

theorem filter_ne_eq_erase (rem : List Nat) (i : Nat) (hn : rem.Nodup) :
    rem.filter (· != i) = rem.erase i := (List.Nodup.erase_eq_filter hn i).symm

theorem Lin_iff (tags : List (Nat × List Nat)) (final : List Nat) (rs : List LRec)
    (hwf : ∀ r ∈ rs, r.inv ≤ r.res) (s : LState) (rem : List Nat) (hn : rem.Nodup) :
    Lin tags final rs s rem ↔
      ∃ ord, ord.Perm rem ∧ RespectsRT rs ord ∧ Replay tags final rs s ord := by
  constructor
  · intro h
    induction h with
    | done s h => exact ⟨[], List.Perm.refl _, List.Pairwise.nil, h⟩
    | step s s' rem i r hi hm hr ha _ ih =>
        have hn' : (rem.filter (· != i)).Nodup := hn.sublist List.filter_sublist
        obtain ⟨ord, hp, hrt, hrep⟩ := ih hn'
        refine ⟨i :: ord, ?_, ?_, r, s', hr, ha, hrep⟩
        · rw [filter_ne_eq_erase rem i hn] at hp
          exact (List.Perm.cons i hp).trans (List.perm_cons_erase hi).symm
        · refine List.Pairwise.cons ?_ hrt
          intro j hj ri rj hri hrj
          obtain ⟨r0, hr0, hmin⟩ := (minimalIn_iff rs rem i).mp hm
          have : ri = r0 := by rw [hri] at hr0; exact Option.some.inj hr0
          subst this
          have hjrem : j ∈ rem := (List.mem_filter.mp (hp.mem_iff.mp hj)).1
          exact hmin j hjrem rj hrj
  · rintro ⟨ord, hp, hrt, hrep⟩
    induction ord generalizing s rem with
    | nil =>
        have : rem = [] := List.Perm.eq_nil hp.symm
        subst this
        exact Lin.done s hrep
    | cons i ord ih =>
        obtain ⟨r, s', hr, ha, hrep'⟩ := hrep
        have hi : i ∈ rem := hp.mem_iff.mp (by simp)
        have hpw := List.pairwise_cons.mp hrt
        have hp' : ord.Perm (rem.filter (· != i)) := by
          rw [filter_ne_eq_erase rem i hn]
          have := hp.erase i
          simpa using this
        have hn' : (rem.filter (· != i)).Nodup := hn.sublist List.filter_sublist
        refine Lin.step s s' rem i r hi ?_ hr ha (ih s' _ hn' hp' hpw.2 hrep')
        rw [minimalIn_iff]
        refine ⟨r, hr, ?_⟩
        intro j hj r' hr'
        by_cases hji : j = i
        · subst hji
          have : r' = r := by rw [hr] at hr'; exact (Option.some.inj hr').symm
          subst this
          have := hwf r' (List.mem_of_getElem? hr)
          omega
        · have hjo : j ∈ ord := by
            have : j ∈ rem.filter (· != i) := List.mem_filter.mpr ⟨hj, by simpa using hji⟩
            exact hp'.mem_iff.mpr this
          exact hpw.1 j hjo r r' hr hr'

/-- a concurrent history is linearizable: some total order of the atomic points that is a
    rearrangement of all of them, respects real-time precedence and replays on the sequential
    registry machine with exactly the observed results, ending in the observed registry -/
def Linearizable (tags : List (Nat × List Nat)) (init final : List Nat) (rs : List LRec) : Prop :=
  ∃ ord : List Nat, ord.Perm (List.range rs.length) ∧ RespectsRT rs ord ∧
    Replay tags final rs { reg := sortKeys init, selected := [] } ord

end SV
