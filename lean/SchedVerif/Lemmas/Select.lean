/-
  Lemmas/Select.lean — facts about the stable descending sort and the cut (helper lemmas only).
-/
import SchedVerif.Model.Prio
namespace SV

variable {α : Type}

def pos (p : α × Rat) : Bool := decide (0 < p.2)

theorem cut_zipIdx_aux (k : Nat) (l : List (α × Rat)) (n : Nat) :
    ((l.zipIdx n).filter (fun p => (decide (p.2 < n + k)) && pos p.1)).map (·.1)
      = (l.take k).filter pos := by
  induction l generalizing n k with
  | nil => simp
  | cons x xs ih =>
      cases k with
      | zero =>
          simp only [Nat.add_zero, List.take_zero, List.filter_nil]
          have : ∀ (m : Nat) (ys : List (α × Rat)),
              ((ys.zipIdx m).filter (fun p => decide (p.2 < n) && pos p.1)) = [] ∨ m < n := by
            intro m ys
            induction ys generalizing m with
            | nil => left; simp
            | cons y ys ih2 =>
                by_cases hm : m < n
                · right; exact hm
                · left
                  simp only [List.zipIdx_cons, List.filter_cons, hm, decide_false, Bool.false_and]
                  rcases ih2 (m + 1) with h | h
                  · simpa using h
                  · omega
          rcases this n (x :: xs) with h | h
          · rw [h]; rfl
          · omega
      | succ k =>
          simp only [List.zipIdx_cons, List.take_succ_cons, List.filter_cons]
          have hlt : n < n + (k + 1) := by omega
          have e : ∀ (p : (α × Rat) × Nat), decide (p.2 < n + (k + 1)) = decide (p.2 < (n + 1) + k) := by
            intro p; congr 1; apply propext; omega
          simp only [hlt, decide_true, Bool.true_and]
          have ih' := ih k (n + 1)
          simp only [e]
          split <;> simp [ih']

/-- the comprehension of `exec_jobs` is "the positives among the first k" -/
theorem cut_eq_take (k : Nat) (hk : 0 < k) (l : List (α × Rat)) :
    cut k l = (l.take k).filter pos := by
  unfold cut
  have := cut_zipIdx_aux k l 0
  simp only [Nat.zero_add] at this
  rw [← this]
  congr 1
  apply List.filter_congr
  intro p _
  have : (k == 0) = false := by simp; omega
  simp [this, pos]

theorem cut_zero (l : List (α × Rat)) : cut 0 l = l.filter pos := by
  unfold cut
  have : ∀ n, ((l.zipIdx n).filter (fun p => ((0 : Nat) == 0 || decide (p.2 < 0)) && decide (0 < p.1.2))).map (·.1)
      = l.filter pos := by
    induction l with
    | nil => simp
    | cons x xs ih =>
        intro n
        simp only [List.zipIdx_cons, List.filter_cons, BEq.rfl, Bool.true_or, Bool.true_and, pos]
        split <;> simp_all
  exact this 0

theorem sortDesc_perm (l : List (α × Rat)) : (sortDesc l).Perm l :=
  List.mergeSort_perm _ _

theorem sortDesc_sorted (l : List (α × Rat)) :
    (sortDesc l).Pairwise (fun a b => b.2 ≤ a.2) := by
  have := List.pairwise_mergeSort (le := fun (a b : α × Rat) => decide (b.2 ≤ a.2))
    (by intro a b c h1 h2; simp only [decide_eq_true_eq] at *; exact Rat.le_trans h2 h1)
    (by intro a b; simp only [Bool.or_eq_true, decide_eq_true_eq]; exact Rat.le_total) l
  simpa [sortDesc] using this

theorem cut_sublist (k : Nat) (l : List (α × Rat)) : (cut k l).Sublist l := by
  by_cases hk : k = 0
  · subst hk; rw [cut_zero]; exact List.filter_sublist
  · rw [cut_eq_take k (by omega)]
    exact (List.filter_sublist).trans (List.take_sublist _ _)

/-- in a descending list the positives are a prefix, so "positives among the first k" is
    "the first k positives" -/
theorem take_filter_sorted (k : Nat) (l : List (α × Rat)) (hs : l.Pairwise (fun a b => b.2 ≤ a.2)) :
    (l.take k).filter pos = (l.filter pos).take k := by
  induction l generalizing k with
  | nil => simp
  | cons x xs ih =>
      cases k with
      | zero => simp
      | succ k =>
          rw [List.pairwise_cons] at hs
          by_cases hx : pos x = true
          · simp [List.take_succ_cons, List.filter_cons, hx, ih k hs.2]
          · -- x is not positive, hence nothing after it is
            have hall : ∀ y ∈ xs, pos y = false := by
              intro y hy
              have h1 := hs.1 y hy
              simp only [pos, decide_eq_true_eq, Bool.not_eq_true, decide_eq_false_iff_not] at hx ⊢
              intro h0
              exact hx (by grind)
            have e1 : xs.filter pos = [] := by
              rw [List.filter_eq_nil_iff]; intro y hy; simp [hall y hy]
            have e2 : (xs.take k).filter pos = [] := by
              rw [List.filter_eq_nil_iff]; intro y hy; simp [hall y (List.mem_of_mem_take hy)]
            simp [List.take_succ_cons, List.filter_cons, hx, e1, e2]

end SV
