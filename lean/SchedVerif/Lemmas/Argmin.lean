/-
  Lemmas/Argmin.lean — the pending timer is a first minimum (helper lemmas only).
-/
import SchedVerif.Model.Job
namespace SV

theorem argmin_lt_length (f : α → Int) (l : List α) (h : l ≠ []) : argmin f l < l.length := by
  induction l with
  | nil => exact absurd rfl h
  | cons x xs ih =>
      unfold argmin
      cases hx : xs[argmin f xs]? with
      | none => simp
      | some y =>
          have hlt : argmin f xs < xs.length := by
            have := List.getElem?_eq_some_iff.mp hx
            exact this.1
          simp only []
          split <;> simp <;> omega

/-- the element at `argmin` is ≤ every element -/
theorem argmin_le (f : α → Int) (l : List α) (d : α) :
    ∀ x ∈ l, f (l.getD (argmin f l) d) ≤ f x := by
  induction l with
  | nil => intro x hx; cases hx
  | cons a as ih =>
      intro x hx
      unfold argmin
      cases hy : as[argmin f as]? with
      | none =>
          -- `as` must be empty
          have has : as = [] := by
            cases as with
            | nil => rfl
            | cons b bs =>
                have := argmin_lt_length f (b :: bs) (by simp)
                have : (b :: bs)[argmin f (b :: bs)]? ≠ none := by
                  simp [List.getElem?_eq_none_iff]; omega
                exact absurd hy this
          subst has
          simp at hx; subst hx; simp
      | some y =>
          have hy' : as.getD (argmin f as) d = y := by simp [List.getD, hy]
          simp only []
          by_cases hlt : f y < f a
          · simp only [hlt, if_true, List.getD_cons_succ]
            rw [hy']
            rcases List.mem_cons.mp hx with rfl | hm
            · omega
            · have := ih x hm; rw [hy'] at this; exact this
          · simp only [hlt, if_false, List.getD_cons_zero]
            rcases List.mem_cons.mp hx with rfl | hm
            · omega
            · have := ih x hm; rw [hy'] at this; omega

/-- the element at `argmin` is an element of the list -/
theorem argmin_mem (f : α → Int) (l : List α) (d : α) (h : l ≠ []) : l.getD (argmin f l) d ∈ l := by
  have := argmin_lt_length f l h
  simp [List.getD, List.getElem?_eq_getElem this]

end SV
