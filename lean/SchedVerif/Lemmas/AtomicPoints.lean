/-
  Lemmas/AtomicPoints.lean — every interleaving of calls whose effects happen at atomic points
  between invocation and return is linearizable (helper lemmas; the property-level statement is
  `C14.atomic_points_linearizable`).

  A global trace lists, in the order in which they happened, the invocation of a call, its atomic
  points (the critical sections under the registry lock, each producing one record of the history)
  and its return.  Time stamps of the history are positions in that trace.
-/
import SchedVerif.Lemmas.Linearize
namespace SV

inductive Ev where
  | inv (c : Nat)          -- call `c` is invoked
  | pt (c i : Nat)         -- an atomic point of call `c`; it produces record `i` of the history
  | ret (c : Nat)          -- call `c` returns
deriving Repr, DecidableEq, Inhabited

/-- (position, record) of the atomic points of a trace whose first event has position `off` -/
def ptPos : List Ev → Nat → List (Nat × Nat)
  | [], _ => []
  | .pt _ i :: t, off => (off, i) :: ptPos t (off + 1)
  | .inv _ :: t, off => ptPos t (off + 1)
  | .ret _ :: t, off => ptPos t (off + 1)

/-- the records in the order of their atomic points -/
def ptOrder (tr : List Ev) : List Nat := (ptPos tr 0).map (·.2)

/-- the history `rs` was produced by the trace `tr`: every record comes from exactly one atomic
    point, which lies between the invocation and the return of its call, and the record's stamps are
    the positions of that invocation and that return -/
structure Generated (rs : List LRec) (tr : List Ev) : Prop where
  perm : (ptOrder tr).Perm (List.range rs.length)
  inside : ∀ p c i, tr[p]? = some (Ev.pt c i) →
    ∃ (r : LRec) (a b : Nat), rs[i]? = some r ∧ a < p ∧ p < b ∧ tr[a]? = some (Ev.inv c) ∧
      tr[b]? = some (Ev.ret c) ∧ r.inv = a ∧ r.res = b

theorem ptPos_mem (tr : List Ev) (off p i : Nat) (h : (p, i) ∈ ptPos tr off) :
    off ≤ p ∧ ∃ c, tr[p - off]? = some (.pt c i) := by
  induction tr generalizing off with
  | nil => simp [ptPos] at h
  | cons e t ih =>
      cases e with
      | pt c j =>
          simp only [ptPos, List.mem_cons, Prod.mk.injEq] at h
          rcases h with ⟨rfl, rfl⟩ | h
          · exact ⟨Nat.le_refl _, c, by simp⟩
          · obtain ⟨hle, c', hc'⟩ := ih (off + 1) h
            refine ⟨by omega, c', ?_⟩
            have : p - off = (p - (off + 1)) + 1 := by omega
            rw [this]; simpa using hc'
      | inv c =>
          simp only [ptPos] at h
          obtain ⟨hle, c', hc'⟩ := ih (off + 1) h
          refine ⟨by omega, c', ?_⟩
          have : p - off = (p - (off + 1)) + 1 := by omega
          rw [this]; simpa using hc'
      | ret c =>
          simp only [ptPos] at h
          obtain ⟨hle, c', hc'⟩ := ih (off + 1) h
          refine ⟨by omega, c', ?_⟩
          have : p - off = (p - (off + 1)) + 1 := by omega
          rw [this]; simpa using hc'

theorem ptPos_sorted (tr : List Ev) (off : Nat) : (ptPos tr off).Pairwise (fun a b => a.1 < b.1) := by
  induction tr generalizing off with
  | nil => exact List.Pairwise.nil
  | cons e t ih =>
      cases e with
      | pt c j =>
          simp only [ptPos]
          refine List.Pairwise.cons ?_ (ih (off + 1))
          intro b hb
          have := (ptPos_mem t (off + 1) b.1 b.2 hb).1
          show off < b.1
          omega
      | inv c => simpa [ptPos] using ih (off + 1)
      | ret c => simpa [ptPos] using ih (off + 1)

/-- the order of the atomic points respects real-time precedence of the calls -/
theorem ptOrder_respectsRT (rs : List LRec) (tr : List Ev) (hg : Generated rs tr) :
    RespectsRT rs (ptOrder tr) := by
  unfold RespectsRT ptOrder
  rw [List.pairwise_map]
  refine List.Pairwise.imp_of_mem ?_ (ptPos_sorted tr 0)
  intro a b ha hb hlt ri rj hri hrj
  obtain ⟨_, ca, hca⟩ := ptPos_mem tr 0 a.1 a.2 ha
  obtain ⟨_, cb, hcb⟩ := ptPos_mem tr 0 b.1 b.2 hb
  simp only [Nat.sub_zero] at hca hcb
  obtain ⟨ra, a1, a2, hra, ha1, _, _, _, hia, _⟩ := hg.inside a.1 ca a.2 hca
  obtain ⟨rb, b1, b2, hrb, _, hb2, _, _, _, hrb'⟩ := hg.inside b.1 cb b.2 hcb
  have e1 : ri = ra := by rw [hri] at hra; exact Option.some.inj hra
  have e2 : rj = rb := by rw [hrj] at hrb; exact Option.some.inj hrb
  subst e1 e2
  omega

end SV
