/-
  Lemmas/AsyncAtt.lean — asyncio machine: a job's attempts counter equals the number of its
  invocations that have ended (normally or by raising) in the event log, in every reachable state
  (helper lemmas; the property-level statement is `C06.aio_attempts_count_completed_runs`).
-/
import SchedVerif.Lemmas.AsyncBudget
namespace SV

def isEnd (k : AEvKind) : Bool := k == .endOk || k == .endRaise

/-- number of ended invocations of job `j` in the log -/
def endCount (j : Nat) (l : List AEvent) : Nat := (l.filter (fun e => e.key == j && isEnd e.kind)).length

theorem endCount_append (j : Nat) (l : List AEvent) (e : AEvent) :
    endCount j (l ++ [e]) = endCount j l + (if e.key == j && isEnd e.kind then 1 else 0) := by
  unfold endCount
  rw [List.filter_append, List.length_append]
  by_cases h : (e.key == j && isEnd e.kind) = true <;> simp [List.filter, h]

structure AttInv (s : AState) : Prop where
  att : ∀ j t, s.task? j = some t → t.job.attempts = endCount j s.log
  keys : ∀ e ∈ s.log, e.key < s.tasks.length

theorem AState.setTask_len (s : AState) (k : Nat) (f : ATask → ATask) : (s.setTask k f).tasks.length = s.tasks.length := by
  simp [AState.setTask]

theorem task?_lt (s : AState) (k : Nat) (t : ATask) (h : s.task? k = some t) : k < s.tasks.length :=
  (List.getElem?_eq_some_iff.mp (show s.tasks[k]? = some t from h)).1

/-- changing one task without touching its job's attempts -/
theorem AttInv.setTask (s : AState) (h : AttInv s) (k : Nat) (f : ATask → ATask)
    (hj : ∀ b, (f b).job.attempts = b.job.attempts) : AttInv (s.setTask k f) := by
  constructor
  · intro j t ht
    rw [AState.task?_setTask] at ht
    by_cases hkj : k = j
    · subst hkj
      simp only [if_true] at ht
      cases hb : s.task? k with
      | none => rw [hb] at ht; cases ht
      | some b =>
          rw [hb] at ht
          simp only [Option.map_some, Option.some.injEq] at ht
          subst ht
          rw [hj b]; exact h.att k b hb
    · simp only [hkj, if_false] at ht; exact h.att j t ht
  · intro e he; rw [AState.setTask_len]; exact h.keys e he

theorem AttInv.withReg (s : AState) (h : AttInv s) (r : List Nat) : AttInv { s with reg := r } := ⟨h.att, h.keys⟩
theorem AttInv.withNow (s : AState) (h : AttInv s) (n : Int) : AttInv { s with now := n } := ⟨h.att, h.keys⟩

/-- logging an event that is not the end of an invocation -/
theorem AttInv.withLog (s : AState) (h : AttInv s) (e : AEvent) (he : isEnd e.kind = false) (hk : e.key < s.tasks.length) :
    AttInv { s with log := s.log ++ [e] } := by
  constructor
  · intro j t ht
    have := h.att j t ht
    show t.job.attempts = endCount j (s.log ++ [e])
    rw [endCount_append, he]; simpa using this
  · intro e' he'
    rcases List.mem_append.mp he' with h1 | h1
    · exact h.keys e' h1
    · simp at h1; subst h1; exact hk

theorem AttInv.cancel (s : AState) (h : AttInv s) (k : Nat) (cur : Option Nat) : AttInv (s.cancel k cur) := by
  unfold AState.cancel
  apply AttInv.setTask s h k
  intro b
  cases b.phase <;> simp only [] <;> split <;> rfl

theorem AttInv.logCancel (s : AState) (h : AttInv s) (k : Nat) (cur : Option Nat) : AttInv (s.logCancel k cur) := by
  unfold AState.logCancel
  cases ht : s.task? k with
  | none => exact h
  | some t =>
      simp only []
      cases t.phase with
      | running r v =>
          simp only []
          split
          · exact h
          · exact AttInv.withLog s h _ (by simp [isEnd]) (task?_lt s k t ht)
      | init => exact h
      | sleeping => exact h
      | cancelled => exact h
      | finished => exact h

theorem AttInv.deleteJob (s : AState) (h : AttInv s) (k : Nat) (cur : Option Nat) : AttInv (s.deleteJob k cur).1 := by
  unfold AState.deleteJob
  split
  · exact AttInv.cancel _ (AttInv.logCancel _ (AttInv.withReg s h _) k cur) k cur
  · exact h

theorem AttInv.deleteJobs (s : AState) (h : AttInv s) (q : List Nat) (any : Bool) (cur : Option Nat) :
    AttInv (s.deleteJobs q any cur).1 := by
  unfold AState.deleteJobs
  simp only []
  generalize s.selectKeys q any = sel
  induction sel generalizing s with
  | nil => exact h
  | cons y ys ih => simp only [List.foldl_cons]; exact ih _ (AttInv.deleteJob s h y cur)

theorem create_attempts (tz : Option Int) (ts : List Timing) (start stop : Option DT) (delay skip : Bool)
    (m : Int) (clock : Int) (j : Job) (h : Job.create tz ts start stop delay skip m clock = .ok j) : j.attempts = 0 := by
  obtain ⟨s, _, hj, _⟩ := Job.create_ok _ _ _ _ _ _ _ _ _ h
  subst hj; rfl

theorem createJob_attempts (tz : Option Int) (sp : RawSpec) (clock : Int) (j : Job)
    (h : createJob tz sp clock = .ok j) : j.attempts = 0 := by
  simp only [SV.createJob] at h
  split at h
  · exact create_attempts _ _ _ _ _ _ _ _ _ h
  · split at h
    · cases h
    · exact create_attempts _ _ _ _ _ _ _ _ _ h
  · split at h
    · cases h
    · exact create_attempts _ _ _ _ _ _ _ _ _ h

theorem endCount_fresh (l : List AEvent) (n : Nat) (h : ∀ e ∈ l, e.key < n) : endCount n l = 0 := by
  unfold endCount
  rw [List.length_eq_zero_iff, List.filter_eq_nil_iff]
  intro e he
  have := h e he
  have hne : (e.key == n) = false := by simp; omega
  simp [hne]

theorem AttInv.schedule (s : AState) (h : AttInv s) (sp : RawSpec) (runs : List RunScript) :
    AttInv (s.schedule sp runs).1 := by
  unfold AState.schedule
  cases hc : createJob s.tz sp s.now with
  | error e => exact h
  | ok j =>
      simp only []
      constructor
      · intro i t ht
        rcases AState.task?_append s _ t i ht with h1 | ⟨hi, h1⟩
        · exact h.att i t h1
        · subst h1 hi
          show j.attempts = endCount s.tasks.length s.log
          rw [createJob_attempts _ _ _ _ hc, endCount_fresh _ _ h.keys]
      · intro e he
        have := h.keys e he
        show e.key < (s.tasks ++ [_]).length
        simp; omega

theorem AttInv.loopHead (s : AState) (h : AttInv s) (k : Nat) : AttInv (loopHead s k) := by
  unfold SV.loopHead
  cases ht : s.task? k with
  | none => exact h
  | some t =>
      simp only []
      split
      · exact AttInv.setTask s h k _ (by intro _; rfl)
      · split
        · exact AttInv.withReg _ (AttInv.setTask s h k _ (by intro _; rfl)) _
        · exact AttInv.setTask s h k _ (by intro _; rfl)

theorem deleteJob_len' (s : AState) (k : Nat) (cur : Option Nat) : (s.deleteJob k cur).1.tasks.length = s.tasks.length :=
  deleteJob_len s k cur

theorem AttInv.runActs (fuel : Nat) :
    ∀ (s : AState) (k : Nat) (acts : List Act) (raises : Bool), AttInv s → AttInv (runActs fuel s k acts raises) := by
  induction fuel with
  | zero => intro s k acts raises h; unfold SV.runActs; exact h
  | succ n ih =>
      intro s k acts raises h
      unfold SV.runActs
      cases acts with
      | nil =>
          simp only []
          cases ht : s.task? k with
          | none => exact h
          | some t =>
              simp only []
              apply AttInv.loopHead
              have hk := task?_lt s k t ht
              constructor
              · intro j b hb
                have hb' : (s.setTask k (fun t => { t with job := (t.job.exec1 raises).calcNext (nowDT s.tz s.now), nrun := t.nrun + 1 })).task? j = some b := hb
                rw [AState.task?_setTask] at hb'
                show b.job.attempts = endCount j (s.log ++ [_])
                rw [endCount_append]
                by_cases hkj : k = j
                · subst hkj
                  simp only [if_true, ht, Option.map_some, Option.some.injEq] at hb'
                  subst hb'
                  have h0 := h.att k t ht
                  have hend : isEnd (if raises = true then AEvKind.endRaise else AEvKind.endOk) = true := by
                    cases raises <;> simp [isEnd]
                  simp only [BEq.rfl, Bool.true_and, hend, if_true]
                  show ((t.job.exec1 raises).calcNext (nowDT s.tz s.now)).attempts = endCount k s.log + 1
                  rw [← h0]; rfl
                · simp only [hkj, if_false] at hb'
                  have hne : (k == j) = false := by simpa using hkj
                  simp only [hne, Bool.false_and]
                  simpa using h.att j b hb'
              · intro e he
                have he' : e ∈ s.log ++ [({ time := s.now, key := k, kind := if raises then .endRaise else .endOk, due := t.job.due.inst } : AEvent)] := he
                show e.key < (s.setTask k _).tasks.length
                rw [AState.setTask_len]
                rcases List.mem_append.mp he' with h1 | h1
                · exact h.keys e h1
                · simp at h1; subst h1; exact hk
      | cons a rest =>
          simp only []
          cases a with
          | sleep d =>
              simp only []
              cases ht : s.task? k with
              | none => exact h
              | some t =>
                  simp only []
                  split
                  · have h1 := AttInv.setTask s h k (fun t => { t with phase := Phase.cancelled }) (by intro _; rfl)
                    exact AttInv.withLog _ h1 _ (by simp [isEnd]) (by rw [AState.setTask_len]; exact task?_lt s k t ht)
                  · exact AttInv.setTask s h k _ (by intro _; rfl)
          | del k' => exact ih _ _ _ _ (AttInv.deleteJob s h k' _)
          | delTags q any => exact ih _ _ _ _ (AttInv.deleteJobs s h q any _)
          | sched sp => exact ih _ _ _ _ (AttInv.schedule s h sp _)

theorem AttInv.stepTask (s : AState) (h : AttInv s) (k : Nat) : AttInv (stepTask s k) := by
  unfold SV.stepTask
  cases ht : s.task? k with
  | none => exact h
  | some t =>
      simp only []
      have hk := task?_lt s k t ht
      split
      · exact AttInv.loopHead s h k
      · generalize (t.runs[t.nrun]?).getD (t.runs.getLast?.getD {}) = script
        apply AttInv.runActs
        have h1 := AttInv.setTask s h k (fun t' => { t' with phase := Phase.running script.acts script.raises }) (by intro _; rfl)
        exact AttInv.withLog _ h1 _ (by simp [isEnd]) (by rw [AState.setTask_len]; exact hk)
      · exact AttInv.runActs _ _ _ _ _ h
      · exact h
      · exact h

theorem AttInv.runUntil (fuel : Nat) : ∀ (s : AState) (limit : Int), AttInv s → AttInv (runUntil fuel s limit) := by
  induction fuel with
  | zero => intro s limit h; exact h
  | succ n ih =>
      intro s limit h
      unfold SV.runUntil
      split
      · exact AttInv.withNow s h _
      · split
        · exact h
        · exact ih _ _ (AttInv.stepTask _ (AttInv.withNow s h _) _)

theorem AttInv.astepOp (s : AState) (h : AttInv s) (o : AOp) : AttInv (astepOp s o).1 := by
  cases o with
  | sched sp runs => exact AttInv.schedule s h sp runs
  | run limit fuel => exact AttInv.runUntil fuel s limit h
  | del k => exact AttInv.deleteJob s h k none
  | delTags q any => exact AttInv.deleteJobs s h q any none
  | get q any => exact h
  | jobs => exact h

theorem AttInv.arun (fuel : Nat) (ops : List AOp) : ∀ (s : AState), AttInv s → AttInv (arun fuel s ops) := by
  induction ops with
  | nil => intro s h; exact h
  | cons o os ih =>
      intro s h
      simp only [SV.arun, List.foldl_cons]
      exact ih _ (AttInv.runUntil fuel _ _ (AttInv.astepOp s h o))

theorem AttInv.init (tz : Option Int) (t0 : Int) : AttInv ({ tz := tz, now := t0 } : AState) :=
  ⟨by intro j t ht; simp [AState.task?] at ht, by intro e he; simp at he⟩

end SV
