/-
  Lemmas/Frame.lean — what no operation ever changes: the static part of an existing job
  (key, tags, weight, payload), and the registry outside the post-run loop (helper lemmas only).
-/
import SchedVerif.Lemmas.Inv
namespace SV

/-- the fields of a job that are fixed at creation -/
def staticOf (s : State) (k : Nat) : Option (List Nat × Rat × Nat) :=
  (s.find k).map (fun sj => (sj.tags, sj.weight, sj.payload))

/-- `s'` extends `s`: the heap only grows and existing jobs keep their static fields -/
structure Ext (s s' : State) : Prop where
  len : s.heap.length ≤ s'.heap.length
  static : ∀ k, k < s.heap.length → staticOf s' k = staticOf s k

theorem Ext.refl (s : State) : Ext s s := ⟨Nat.le_refl _, fun _ _ => rfl⟩

theorem Ext.trans {a b c : State} (h1 : Ext a b) (h2 : Ext b c) : Ext a c :=
  ⟨Nat.le_trans h1.len h2.len, fun k hk => by rw [h2.static k (Nat.lt_of_lt_of_le hk h1.len), h1.static k hk]⟩

theorem Ext.setJob (s : State) (k : Nat) (f : Job → Job) : Ext s (s.setJob k f) := by
  refine ⟨by simp, ?_⟩
  intro k' _
  simp only [staticOf]
  by_cases hkk : k = k'
  · subst hkk
    rw [State.setJob_find_eq]
    cases s.find k <;> simp
  · rw [State.setJob_find_ne _ k k' _ hkk]

theorem Ext.withLogs (s : State) (n : Nat) : Ext s { s with logs := n } := ⟨Nat.le_refl _, fun _ _ => rfl⟩

theorem Ext.withReg (s : State) (r : List Nat) : Ext s { s with reg := r } := ⟨Nat.le_refl _, fun _ _ => rfl⟩

theorem Ext.append (s : State) (sj : SJob) : Ext s { s with heap := s.heap ++ [sj] } := by
  refine ⟨by simp, ?_⟩
  intro k hk
  simp [staticOf, State.find, List.getElem?_append_left hk]

theorem Ext.schedule (s : State) (sp : RawSpec) (clock : Int) (direct : Bool) :
    Ext s (schedule s sp clock direct).1 := by
  unfold SV.schedule
  split
  · exact Ext.refl s
  · split
    · exact (Ext.append s _).trans (Ext.withReg _ _)
    · exact Ext.append s _

theorem Ext.runCOp (s : State) (clock : Int) (c : COp) : Ext s (runCOp s clock c) := by
  cases c with
  | sched sp => exact Ext.schedule s sp clock false
  | del k => simp only [SV.runCOp, SV.deleteJob]; split <;> first | exact Ext.withReg _ _ | exact Ext.refl _
  | delTags q any => exact Ext.withReg _ _
  | get _ _ => exact Ext.refl _
  | str => exact Ext.refl _

theorem Ext.scripts (clock : Int) (ops : List COp) (s : State) :
    Ext s (ops.foldl (fun st op => SV.runCOp st clock op) s) := by
  induction ops generalizing s with
  | nil => exact Ext.refl s
  | cons c cs ih => simp only [List.foldl_cons]; exact (Ext.runCOp s clock c).trans (ih _)

theorem Ext.runOne (clock : Int) (raises : List Nat) (scripts : List (Nat × List COp)) (s : State)
    (inv : List Invoc) (k : Nat) : Ext s (SV.runOne clock raises scripts (s, inv) k).1 := by
  unfold SV.runOne
  simp only []
  split
  · exact Ext.refl s
  · exact ((Ext.scripts clock _ s).trans (Ext.setJob _ k _)).trans (Ext.withLogs _ _)

theorem Ext.postOne (ref : DT) (s : State) (k : Nat) : Ext s (SV.postOne ref s k) := by
  unfold SV.postOne
  simp only []
  split
  · exact Ext.setJob s k _
  · split
    · exact Ext.setJob s k _
    · exact (Ext.setJob s k _).trans (Ext.withReg _ _)

theorem Ext.runFold (clock : Int) (raises : List Nat) (scripts : List (Nat × List COp)) (B : List Nat) :
    ∀ (s : State) (inv : List Invoc), Ext s (B.foldl (SV.runOne clock raises scripts) (s, inv)).1 := by
  induction B with
  | nil => intro s inv; exact Ext.refl s
  | cons b bs ih =>
      intro s inv
      simp only [List.foldl_cons]
      have hp : SV.runOne clock raises scripts (s, inv) b =
          ((SV.runOne clock raises scripts (s, inv) b).1, (SV.runOne clock raises scripts (s, inv) b).2) := rfl
      rw [hp]
      exact (Ext.runOne clock raises scripts s inv b).trans (ih _ _)

theorem Ext.postFold (ref : DT) (B : List Nat) (s : State) : Ext s (B.foldl (SV.postOne ref) s) := by
  induction B generalizing s with
  | nil => exact Ext.refl s
  | cons b bs ih => simp only [List.foldl_cons]; exact (Ext.postOne ref s b).trans (ih _)

theorem Ext.execJobs (s : State) (clock : Int) (force : Bool) (order raises : List Nat)
    (scripts : List (Nat × List COp)) : Ext s (execJobs s clock force order raises scripts).1 := by
  simp only [SV.execJobs]
  generalize (if force = true then (if isPermOf order s.reg = true then order else s.reg)
      else List.map (fun x => x.fst) (selectBatch s.maxExec (List.map (fun k => (k, prioOf s.prio (lateness s (nowDT s.tz clock) k) (weightOf s k)))
        (if isPermOf order s.reg = true then order else s.reg)))) = batch
  have hp : batch.foldl (SV.runOne clock raises scripts) (s, []) =
      ((batch.foldl (SV.runOne clock raises scripts) (s, [])).1, (batch.foldl (SV.runOne clock raises scripts) (s, [])).2) := rfl
  rw [hp]
  exact (Ext.runFold clock raises scripts batch s []).trans (Ext.postFold _ batch _)

theorem Ext.step (s : State) (op : Op) : Ext s (step s op).1 := by
  cases op with
  | sched sp clock => exact Ext.schedule s sp clock false
  | ctor sp clock jtz =>
      simp only [SV.step]
      split
      · exact Ext.schedule s sp clock true
      · split
        · exact Ext.refl s
        · exact Ext.append s _
  | exec clock force order raises scripts => exact Ext.execJobs s clock force order raises scripts
  | del k => simp only [SV.step, SV.deleteJob]; split <;> first | exact Ext.withReg _ _ | exact Ext.refl _
  | delTags q any => exact Ext.withReg _ _
  | get q any => exact Ext.refl s
  | jobs => exact Ext.refl s

theorem Ext.run (s : State) (ops : List Op) : Ext s (run s ops).1 := by
  unfold SV.run
  rw [run_fst]
  induction ops generalizing s with
  | nil => exact Ext.refl s
  | cons o os ih => simp only [List.foldl_cons]; exact (Ext.step s o).trans (ih _)

/-- every invocation record produced while the workers run carries the payload stored for its job -/
theorem payload_runFold (clock : Int) (raises : List Nat) (scripts : List (Nat × List COp)) (B : List Nat) :
    ∀ (s0 s : State) (inv : List Invoc), Ext s0 s →
      (∀ r ∈ inv, r.key < s0.heap.length → staticOf s0 r.key = (staticOf s0 r.key).map (fun t => (t.1, t.2.1, r.payload))) →
      ∀ r ∈ (B.foldl (SV.runOne clock raises scripts) (s, inv)).2, r.key < s0.heap.length →
        staticOf s0 r.key = (staticOf s0 r.key).map (fun t => (t.1, t.2.1, r.payload)) := by
  induction B with
  | nil => intro s0 s inv _ h; exact h
  | cons b bs ih =>
      intro s0 s inv he h
      simp only [List.foldl_cons]
      have hp : SV.runOne clock raises scripts (s, inv) b =
          ((SV.runOne clock raises scripts (s, inv) b).1, (SV.runOne clock raises scripts (s, inv) b).2) := rfl
      rw [hp]
      apply ih s0 _ _ (he.trans (Ext.runOne clock raises scripts s inv b))
      intro r hr hk
      unfold SV.runOne at hr
      simp only [] at hr
      split at hr
      · exact h r hr hk
      · rename_i sj hsj
        rcases List.mem_append.mp hr with h1 | h1
        · exact h r h1 hk
        · simp at h1
          subst h1
          simp only [] at hk ⊢
          have := he.static b hk
          simp only [staticOf, hsj] at this
          simp only [staticOf] at *
          rw [← this]
          simp

end SV
