/-
  Lemmas/AsyncReg.lean — the registry of the asyncio machine is exactly the set of jobs whose
  supervising task is alive (helper lemmas; the property statement is `C11.aio_registry`).
-/
import SchedVerif.Lemmas.AsyncDead
namespace SV

/-- the supervising task is alive: not cancelled, not finished, no cancellation pending -/
def aliveT (t : ATask) : Bool :=
  (match t.phase with
   | .cancelled | .finished => false
   | _ => true) && !t.pendingCancel

structure RegInv (s : AState) : Prop where
  nodup : s.reg.Nodup
  bound : ∀ k ∈ s.reg, k < s.tasks.length
  iff : ∀ k t, s.task? k = some t → (k ∈ s.reg ↔ aliveT t = true)

theorem RegInv.init (tz : Option Int) (t0 : Int) : RegInv ({ tz := tz, now := t0 } : AState) :=
  ⟨by simp, by simp, by intro k t ht; simp [AState.task?] at ht⟩

/-- change task `k'` without changing whether it is alive -/
theorem RegInv.setTask (s : AState) (h : RegInv s) (k' : Nat) (f : ATask → ATask)
    (hf : ∀ b, s.task? k' = some b → aliveT (f b) = aliveT b) : RegInv (s.setTask k' f) := by
  refine ⟨h.nodup, ?_, ?_⟩
  · intro k hk; simp only [AState.setTask, List.length_modify]; exact h.bound k hk
  · intro k t ht
    rw [AState.task?_setTask] at ht
    by_cases hk : k' = k
    · subst hk
      simp only [if_true] at ht
      cases hb : s.task? k' with
      | none => rw [hb] at ht; simp at ht
      | some b =>
          rw [hb] at ht
          simp only [Option.map_some, Option.some.injEq] at ht
          subst ht
          rw [hf b hb]; exact h.iff k' b hb
    · simp only [hk, if_false] at ht; exact h.iff k t ht

/-- kill task `k'` (make it not alive) and take it out of the registry -/
theorem RegInv.kill (s : AState) (h : RegInv s) (k' : Nat) (f : ATask → ATask)
    (hf : ∀ b, s.task? k' = some b → aliveT (f b) = false) :
    RegInv ({ (s.setTask k' f) with reg := s.reg.erase k' } : AState) := by
  refine ⟨h.nodup.erase k', ?_, ?_⟩
  · intro k hk
    simp only [AState.setTask, List.length_modify]
    exact h.bound k (List.mem_of_mem_erase hk)
  · intro k t ht
    have ht' : (s.setTask k' f).task? k = some t := ht
    rw [AState.task?_setTask] at ht'
    by_cases hk : k' = k
    · subst hk
      simp only [if_true] at ht'
      cases hb : s.task? k' with
      | none => rw [hb] at ht'; simp at ht'
      | some b =>
          rw [hb] at ht'
          simp only [Option.map_some, Option.some.injEq] at ht'
          subst ht'
          rw [hf b hb]
          simp only [Bool.false_eq_true, iff_false]
          exact fun hc => ((List.Nodup.mem_erase_iff h.nodup).mp hc).1 rfl
    · simp only [hk, if_false] at ht'
      rw [← h.iff k t ht']
      constructor
      · exact fun hc => List.mem_of_mem_erase hc
      · exact fun hc => (List.mem_erase_of_ne (fun e => hk e.symm)).mpr hc

theorem RegInv.withLog (s : AState) (h : RegInv s) (l : List AEvent) (n : Nat) : RegInv { s with log := l, logs := n } :=
  ⟨h.nodup, h.bound, h.iff⟩

theorem RegInv.withNow (s : AState) (h : RegInv s) (n : Int) : RegInv { s with now := n } :=
  ⟨h.nodup, h.bound, h.iff⟩

/-- the invariant with a hole at key `x`, which is already out of the registry -/
structure RegInvX (s : AState) (x : Nat) : Prop where
  nodup : s.reg.Nodup
  bound : ∀ k ∈ s.reg, k < s.tasks.length
  iff : ∀ k t, k ≠ x → s.task? k = some t → (k ∈ s.reg ↔ aliveT t = true)
  out : x ∉ s.reg

theorem RegInvX.ofErase (s : AState) (h : RegInv s) (x : Nat) : RegInvX ({ s with reg := s.reg.erase x } : AState) x := by
  refine ⟨h.nodup.erase x, fun k hk => h.bound k (List.mem_of_mem_erase hk), ?_,
    fun hc => ((List.Nodup.mem_erase_iff h.nodup).mp hc).1 rfl⟩
  intro k t hk ht
  have ht' : s.task? k = some t := ht
  rw [← h.iff k t ht']
  constructor
  · exact fun hc => List.mem_of_mem_erase hc
  · exact fun hc => (List.mem_erase_of_ne hk).mpr hc

theorem RegInvX.logCancel (s : AState) (x : Nat) (h : RegInvX s x) (k' : Nat) (cur : Option Nat) :
    RegInvX (s.logCancel k' cur) x := by
  refine ⟨by rw [AState.logCancel_reg']; exact h.nodup, ?_, ?_, by rw [AState.logCancel_reg']; exact h.out⟩
  · intro k hk; rw [AState.logCancel_reg'] at hk; rw [AState.logCancel_tasks]; exact h.bound k hk
  · intro k t hk ht; rw [AState.logCancel_task?] at ht; rw [AState.logCancel_reg']; exact h.iff k t hk ht

/-- closing the hole: the task at `x` is made not alive -/
theorem RegInvX.close (s : AState) (x : Nat) (h : RegInvX s x) (f : ATask → ATask)
    (hf : ∀ b, aliveT (f b) = false) : RegInv (s.setTask x f) := by
  refine ⟨h.nodup, ?_, ?_⟩
  · intro k hk; simp only [AState.setTask, List.length_modify]; exact h.bound k hk
  · intro k t ht
    rw [AState.task?_setTask] at ht
    by_cases hk : x = k
    · subst hk
      simp only [if_true] at ht
      cases hb : s.task? x with
      | none => rw [hb] at ht; simp at ht
      | some b =>
          rw [hb] at ht
          simp only [Option.map_some, Option.some.injEq] at ht
          subst ht
          rw [hf b]
          simp only [Bool.false_eq_true, iff_false]
          exact h.out
    · simp only [hk, if_false] at ht
      exact h.iff k t (fun e => hk e.symm) ht

theorem RegInv.deleteJob (s : AState) (h : RegInv s) (k' : Nat) (cur : Option Nat) : RegInv (s.deleteJob k' cur).1 := by
  unfold AState.deleteJob
  split
  · unfold AState.cancel
    apply RegInvX.close _ k' (RegInvX.logCancel _ k' (RegInvX.ofErase s h k') k' cur)
    intro b
    by_cases hc : (cur == some k') = true <;> cases hph : b.phase <;> simp [aliveT, hc, hph]
  · exact h

theorem RegInv.deleteJobs (s : AState) (h : RegInv s) (q : List Nat) (any : Bool) (cur : Option Nat) :
    RegInv (s.deleteJobs q any cur).1 := by
  unfold AState.deleteJobs
  simp only []
  generalize s.selectKeys q any = sel
  induction sel generalizing s with
  | nil => exact h
  | cons y ys ih => simp only [List.foldl_cons]; exact ih _ (RegInv.deleteJob s h y cur)

theorem RegInv.schedule (s : AState) (h : RegInv s) (sp : RawSpec) (runs : List RunScript) :
    RegInv (s.schedule sp runs).1 := by
  unfold AState.schedule
  split
  · exact h
  · rename_i j _
    refine ⟨?_, ?_, ?_⟩
    · rw [List.nodup_append]
      refine ⟨h.nodup, by simp, ?_⟩
      intro a ha b hb
      simp at hb; subst hb
      have := h.bound a ha; omega
    · intro k hk
      simp only [List.length_append, List.length_singleton]
      rcases List.mem_append.mp hk with h1 | h1
      · have := h.bound k h1; omega
      · simp at h1; omega
    · intro k t ht
      rcases AState.task?_append s _ t k ht with h1 | ⟨hk, h1⟩
      · have hlt : k < s.tasks.length := (List.getElem?_eq_some_iff.mp (show s.tasks[k]? = some t from h1)).1
        rw [← h.iff k t h1]
        simp only [List.mem_append, List.mem_singleton]
        constructor
        · rintro (hc | hc)
          · exact hc
          · omega
        · exact fun hc => Or.inl hc
      · subst h1; subst hk
        simp [aliveT]

/-- the loop head (reached by a non-terminal task only) -/
theorem RegInv.loopHead (s : AState) (h : RegInv s) (k' : Nat)
    (hnt : ∀ b, s.task? k' = some b → b.phase ≠ .cancelled ∧ b.phase ≠ .finished) : RegInv (SV.loopHead s k') := by
  unfold SV.loopHead
  cases ht : s.task? k' with
  | none => exact h
  | some t =>
      simp only []
      split
      · -- pending cancellation delivered: the task was not alive before either
        rename_i hpc
        apply RegInv.setTask s h k'
        intro b hb
        have : b = t := by rw [ht] at hb; exact (Option.some.inj hb).symm
        subst this
        simp [aliveT, hpc]
      · split
        · -- no attempts remaining: finished and unregistered
          exact RegInv.kill s h k' _ (by intro b _; simp [aliveT])
        · rename_i hpc _
          apply RegInv.setTask s h k'
          intro b hb
          have : b = t := by rw [ht] at hb; exact (Option.some.inj hb).symm
          subst this
          obtain ⟨n1, n2⟩ := hnt b ht
          cases hph : b.phase <;> simp_all [aliveT]

theorem RegInv.runActs (fuel : Nat) :
    ∀ (s : AState) (k' : Nat) (acts : List Act) (raises : Bool), RegInv s → IsRunning s k' → k' < s.tasks.length →
      RegInv (SV.runActs fuel s k' acts raises) := by
  induction fuel with
  | zero => intro s k' acts raises h _ _; unfold SV.runActs; exact h
  | succ n ih =>
      intro s k' acts raises h hr hk
      unfold SV.runActs
      cases acts with
      | nil =>
          simp only []
          cases ht : s.task? k' with
          | none => exact h
          | some t =>
              simp only []
              have h1 : RegInv (s.setTask k' (fun t => { t with job := (t.job.exec1 raises).calcNext (nowDT s.tz s.now), nrun := t.nrun + 1 })) :=
                RegInv.setTask s h k' _ (fun _ _ => rfl)
              have hr1 : IsRunning (s.setTask k' (fun t => { t with job := (t.job.exec1 raises).calcNext (nowDT s.tz s.now), nrun := t.nrun + 1 })) k' :=
                IsRunning.setTask_keep s k' hr _ (fun _ => rfl)
              apply RegInv.loopHead
              · exact RegInv.withLog _ h1 _ _
              · exact IsRunning.notTerminal _ k' hr1
      | cons a rest =>
          simp only []
          cases a with
          | sleep d =>
              simp only []
              cases ht : s.task? k' with
              | none => exact h
              | some t =>
                  simp only []
                  obtain ⟨r, v, hph⟩ := hr t ht
                  split
                  · rename_i hpc
                    have h1 : RegInv (s.setTask k' (fun t => { t with phase := Phase.cancelled })) := by
                      apply RegInv.setTask s h k'
                      intro b hb
                      have : b = t := by rw [ht] at hb; exact (Option.some.inj hb).symm
                      subst this
                      simp [aliveT, hpc]
                    exact ⟨h1.nodup, h1.bound, h1.iff⟩
                  · apply RegInv.setTask s h k'
                    intro b hb
                    have : b = t := by rw [ht] at hb; exact (Option.some.inj hb).symm
                    subst this
                    simp [aliveT, hph]
          | del k'' => exact ih _ _ _ _ (RegInv.deleteJob s h k'' _) (IsRunning.deleteJob s k' hr k'') (by rw [deleteJob_len]; exact hk)
          | delTags q any => exact ih _ _ _ _ (RegInv.deleteJobs s h q any _) (IsRunning.deleteJobs s k' hr q any) (by rw [deleteJobs_len]; exact hk)
          | sched sp =>
              have hr' := IsRunning.schedule s k' hr hk sp [s.dflt]
              exact ih _ _ _ _ (RegInv.schedule s h sp _) hr'.1 hr'.2

theorem RegInv.stepTask (s : AState) (h : RegInv s) (k' : Nat) : RegInv (SV.stepTask s k') := by
  unfold SV.stepTask
  cases ht : s.task? k' with
  | none => exact h
  | some t =>
      simp only []
      have hk : k' < s.tasks.length := (List.getElem?_eq_some_iff.mp (show s.tasks[k']? = some t from ht)).1
      split
      · rename_i hph
        exact RegInv.loopHead s h k' (by intro b hb; rw [ht] at hb; cases hb; rw [hph]; exact ⟨by simp, by simp⟩)
      · rename_i hph
        generalize (t.runs[t.nrun]?).getD (t.runs.getLast?.getD {}) = script
        have h1 : RegInv (s.setTask k' (fun t' => { t' with phase := Phase.running script.acts script.raises })) := by
          apply RegInv.setTask s h k'
          intro b hb
          have : b = t := by rw [ht] at hb; exact (Option.some.inj hb).symm
          subst this
          simp [aliveT, hph]
        apply RegInv.runActs
        · exact ⟨h1.nodup, h1.bound, h1.iff⟩
        · intro b hb
          have hb' : (s.setTask k' (fun t' => { t' with phase := Phase.running script.acts script.raises })).task? k' = some b := hb
          rw [AState.task?_setTask] at hb'
          simp only [if_true, ht, Option.map_some, Option.some.injEq] at hb'
          subst hb'; exact ⟨_, _, rfl⟩
        · simpa [AState.setTask] using hk
      · rename_i rest raises hph
        exact RegInv.runActs _ s k' _ _ h (by intro b hb; rw [ht] at hb; cases hb; exact ⟨_, _, hph⟩) hk
      · exact h
      · exact h

theorem RegInv.runUntil (fuel : Nat) : ∀ (s : AState) (limit : Int), RegInv s → RegInv (SV.runUntil fuel s limit) := by
  induction fuel with
  | zero => intro s limit h; exact h
  | succ n ih =>
      intro s limit h
      unfold SV.runUntil
      split
      · exact RegInv.withNow s h _
      · split
        · exact h
        · exact ih _ _ (RegInv.stepTask _ (RegInv.withNow s h _) _)

theorem RegInv.astepOp (s : AState) (h : RegInv s) (o : AOp) : RegInv (SV.astepOp s o).1 := by
  cases o with
  | sched sp runs => exact RegInv.schedule s h sp runs
  | run limit fuel => exact RegInv.runUntil fuel s limit h
  | del k' => exact RegInv.deleteJob s h k' none
  | delTags q any => exact RegInv.deleteJobs s h q any none
  | get q any => exact h
  | jobs => exact h

theorem RegInv.arun (fuel : Nat) (ops : List AOp) : ∀ (s : AState), RegInv s → RegInv (SV.arun fuel s ops) := by
  induction ops with
  | nil => intro s h; exact h
  | cons o os ih =>
      intro s h
      simp only [SV.arun, List.foldl_cons]
      exact ih _ (RegInv.runUntil fuel _ _ (RegInv.astepOp s h o))

end SV
