/-
  Lemmas/Twins.lean — the Bool twins evaluated by the driver are the Prop statements (helper lemmas).
-/
import SchedVerif.Lemmas.Phase
namespace SV

/-- an instant is an occurrence of one of the listed timings -/
def UnionOcc (tms : List Timing) (U : Int) : Prop := ∃ tm ∈ tms, Occ tm U

theorem minList_le (l : List Int) : ∀ x ∈ l, minList l ≤ x := by
  induction l with
  | nil => intro x hx; cases hx
  | cons a as ih =>
      intro x hx
      cases as with
      | nil => simp at hx; subst hx; simp [minList]
      | cons b bs =>
          have e : minList (a :: b :: bs) = min a (minList (b :: bs)) := rfl
          rw [e]
          rcases List.mem_cons.mp hx with rfl | h
          · exact Int.min_le_left _ _
          · exact Int.le_trans (Int.min_le_right _ _) (ih x h)

theorem minList_mem (l : List Int) (h : l ≠ []) : minList l ∈ l := by
  induction l with
  | nil => exact absurd rfl h
  | cons a as ih =>
      cases as with
      | nil => simp [minList]
      | cons b bs =>
          have e : minList (a :: b :: bs) = min a (minList (b :: bs)) := rfl
          rw [e]
          have := ih (by simp)
          by_cases hc : a ≤ minList (b :: bs)
          · rw [Int.min_eq_left hc]; simp
          · rw [Int.min_eq_right (by omega)]; exact List.mem_cons_of_mem _ this

/-- the closed form `unionNext` is the least occurrence of the union strictly after `r` -/
theorem unionNext_least (tms : List Timing) (hne : tms ≠ [])
    (hv : ∀ tm ∈ tms, tm.valid ∧ tm.isCyclic = false) (r : Int) :
    IsLeastAfter (UnionOcc tms) r (unionNext tms r) := by
  unfold unionNext
  have hne' : tms.map (fun tm => nextOcc tm r) ≠ [] := by simpa using hne
  obtain ⟨tm0, h0, e0⟩ := List.mem_map.mp (minList_mem _ hne')
  have l0 := nextOcc_least tm0 (hv tm0 h0).1 (hv tm0 h0).2 r
  refine ⟨by rw [← e0]; exact l0.1, ⟨tm0, h0, by rw [← e0]; exact l0.2.1⟩, ?_⟩
  intro v hv1 ⟨tm, htm, ho⟩
  have l1 := nextOcc_least tm (hv tm htm).1 (hv tm htm).2 r
  have h1 := l1.2.2 v hv1 ho
  have h2 := minList_le (tms.map (fun tm => nextOcc tm r)) (nextOcc tm r) (List.mem_map_of_mem htm)
  omega

/-- "ascending enumeration, without omission or repetition, of the union after `r`" -/
def EnumSpec (tms : List Timing) : Int → List Int → Prop
  | _, [] => True
  | r, d :: ds => IsLeastAfter (UnionOcc tms) r d ∧ EnumSpec tms d ds

theorem isLeast_eq (O : Int → Prop) (r u u' : Int) (h1 : IsLeastAfter O r u) (h2 : IsLeastAfter O r u') : u = u' := by
  have a := h1.2.2 u' h2.1 h2.2.1
  have b := h2.2.2 u h1.1 h1.2.1
  omega

theorem enumB_iff (tms : List Timing) (hne : tms ≠ []) (hv : ∀ tm ∈ tms, tm.valid ∧ tm.isCyclic = false)
    (r : Int) (dues : List Int) : enumB tms r dues = true ↔ EnumSpec tms r dues := by
  induction dues generalizing r with
  | nil => simp [enumB, EnumSpec]
  | cons d ds ih =>
      simp only [enumB, EnumSpec, Bool.and_eq_true, beq_iff_eq]
      rw [ih d]
      constructor
      · rintro ⟨h1, h2⟩
        exact ⟨h1 ▸ unionNext_least tms hne hv r, h2⟩
      · rintro ⟨h1, h2⟩
        exact ⟨isLeast_eq _ _ _ _ h1 (unionNext_least tms hne hv r), h2⟩

/-- the skip Spec twin: due ≥ t, an occurrence of one of the times, and no occurrence of any of
    them strictly between `g` and `due` -/
theorem skipDueB_iff (tms : List Timing) (hv : ∀ tm ∈ tms, tm.valid ∧ tm.isCyclic = false) (t g due : Int) :
    skipDueB tms t g due = true ↔
      (t ≤ due ∧ UnionOcc tms due ∧ ∀ tm ∈ tms, ∀ v, g < v → v < due → ¬ Occ tm v) := by
  unfold skipDueB UnionOcc
  simp only [Bool.and_eq_true, decide_eq_true_eq, List.any_eq_true, List.all_eq_true]
  constructor
  · rintro ⟨⟨h1, ⟨tm, htm, ho⟩⟩, h3⟩
    refine ⟨h1, ⟨tm, htm, ho⟩, ?_⟩
    intro tm' htm' v hv1 hv2 hov
    have l := nextOcc_least tm' (hv tm' htm').1 (hv tm' htm').2 g
    have := l.2.2 v hv1 hov
    have := h3 tm' htm'
    omega
  · rintro ⟨h1, ⟨tm, htm, ho⟩, h3⟩
    refine ⟨⟨h1, ⟨tm, htm, ho⟩⟩, ?_⟩
    intro tm' htm'
    apply Classical.byContradiction
    intro hc
    have l := nextOcc_least tm' (hv tm' htm').1 (hv tm' htm').2 g
    exact h3 tm' htm' (nextOcc tm' g) l.1 (by omega) l.2.1

theorem uniqueB_iff (tms : List Timing) : uniqueB tms = true ↔ (tms.map utcPhase).Nodup := by
  unfold uniqueB
  exact nodupInt'_iff _

end SV
