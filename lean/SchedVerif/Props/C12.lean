/-
  Props/C12.lean — tag selection returns and deletes exactly the matching jobs.
-/
import SchedVerif.Lemmas.Frame
import SchedVerif.Model.Async
namespace SV

/-- **selection rule**: a job is selected iff it is registered and the query is empty, or (any_tag)
    shares a tag with the query, or (all tags) carries every queried tag -/
theorem C12.select_iff (s : State) (q : List Nat) (any : Bool) (k : Nat) :
    k ∈ selectKeys s q any ↔
      k ∈ s.reg ∧ (q = [] ∨ ∃ sj, s.find k = some sj ∧
        ((any = true ∧ ∃ t ∈ q, t ∈ sj.tags) ∨ (any = false ∧ ∀ t ∈ q, t ∈ sj.tags))) := by
  unfold selectKeys
  by_cases hq : q = []
  · subst hq; simp
  · have hne : q.isEmpty = false := by cases q <;> simp_all
    simp only [hne, Bool.false_eq_true, if_false, List.mem_filter, hq, false_or]
    constructor
    · rintro ⟨hk, hm⟩
      refine ⟨hk, ?_⟩
      cases hf : s.find k with
      | none => simp [hf] at hm
      | some sj =>
          simp only [hf, tagMatch] at hm
          refine ⟨sj, rfl, ?_⟩
          cases any with
          | true => left; simpa using hm
          | false => right; simpa using hm
    · rintro ⟨hk, sj, hf, hm⟩
      refine ⟨hk, ?_⟩
      simp only [hf, tagMatch]
      rcases hm with ⟨ha, t, ht, hts⟩ | ⟨ha, hall⟩
      · subst ha; simpa using ⟨t, ht, hts⟩
      · subst ha; simpa using hall

/-- `get_jobs` returns exactly that selection and changes nothing -/
theorem C12.get_returns_selection (s : State) (q : List Nat) (any : Bool) :
    (step s (.get q any)).1 = s ∧
    ∃ l, (step s (.get q any)).2.res = .set l ∧ ∀ k, k ∈ l ↔ k ∈ selectKeys s q any := by
  refine ⟨rfl, sortKeys (selectKeys s q any), rfl, fun k => (sortKeys_perm _).mem_iff⟩

/-- `delete_jobs` removes exactly that selection and nothing else, and returns its size -/
theorem C12.delete_exactly (s : State) (q : List Nat) (any : Bool) :
    (∀ k, k ∈ (deleteJobs s q any).1.reg ↔ (k ∈ s.reg ∧ k ∉ selectKeys s q any)) ∧
    (deleteJobs s q any).2 = .count (selectKeys s q any).length ∧
    (deleteJobs s q any).1.heap = s.heap := by
  refine ⟨?_, rfl, rfl⟩
  intro k
  simp [deleteJobs, List.mem_filter]

theorem mem_dedup (l : List Nat) (t : Nat) : t ∈ dedup l ↔ t ∈ l := by
  induction l with
  | nil => simp [dedup]
  | cons x xs ih =>
      simp only [dedup]
      split
      · rename_i hc
        have hx : x ∈ dedup xs := by simpa using hc
        simp only [ih, List.mem_cons]
        constructor
        · intro h; exact Or.inr h
        · rintro (rfl | h)
          · exact ih.mp hx
          · exact h
      · simp [ih]

theorem nodup_dedup (l : List Nat) : (dedup l).Nodup := by
  induction l with
  | nil => simp [dedup]
  | cons x xs ih =>
      simp only [dedup]
      split
      · exact ih
      · rename_i hc
        exact List.nodup_cons.mpr ⟨by simpa using hc, ih⟩

/-- **whatever iterable of tags is given** (elements `sp.tags`, possibly repeated), on every
    scheduling path incl. all four `once()` timings, the job's tag SET is the set of its elements -/
theorem C12.once_normalises (s : State) (sp : RawSpec) (clock : Int) (direct : Bool) (k : Nat)
    (h : (schedule s sp clock direct).2 = .job k) :
    ∃ sj, (schedule s sp clock direct).1.find k = some sj ∧ sj.tags.Nodup ∧ ∀ t, t ∈ sj.tags ↔ t ∈ sp.tags := by
  unfold SV.schedule at h ⊢
  cases hj : (if direct = true then createJobDirect s.tz sp clock else createJob s.tz sp clock) with
  | error e => rw [hj] at h; simp at h
  | ok j =>
      rw [hj] at h
      simp only [] at h ⊢
      have hk : k = s.heap.length := by
        cases h; rfl
      subst hk
      by_cases ha : j.hasAttempts = true
      · simp only [ha, if_true]
        exact ⟨{ key := s.heap.length, job := j, tags := dedup sp.tags, weight := sp.weight, payload := sp.payload },
          by simp [State.find], nodup_dedup _, fun t => mem_dedup _ t⟩
      · simp only [ha, Bool.false_eq_true, if_false]
        exact ⟨{ key := s.heap.length, job := j, tags := dedup sp.tags, weight := sp.weight, payload := sp.payload },
          by simp [State.find], nodup_dedup _, fun t => mem_dedup _ t⟩

/-- **tags are the scheduler's own copy**: no operation of any history changes the tags of an
    existing job (mutating the caller's set or the set returned by `job.tags` cannot either — the
    model stores values; the harness checks the aliasing on the real objects) -/
theorem C12.tags_copy (s : State) (ops : List Op) (k : Nat) (hk : k < s.heap.length) :
    ((run s ops).1.find k).map (·.tags) = (s.find k).map (·.tags) := by
  have := (Ext.run s ops).static k hk
  simp only [staticOf] at this
  cases h1 : (run s ops).1.find k <;> cases h2 : s.find k <;> simp_all

/-! non-vacuity -/
example : dedup [3, 1, 3, 2, 1] = [3, 2, 1] := by decide


/-! ### the asyncio front end ("in both front ends") -/

/-- **asyncio: the same selection rule** — a registered job is selected iff the query is empty or
    its tags contain all (any_tag false) / at least one (any_tag true) of the given tags -/
theorem C12.aio_select_iff (s : AState) (q : List Nat) (any : Bool) (k : Nat) :
    k ∈ s.selectKeys q any ↔
      k ∈ s.reg ∧ (q = [] ∨ ∃ t, s.task? k = some t ∧
        ((any = true ∧ ∃ x ∈ q, x ∈ t.tags) ∨ (any = false ∧ ∀ x ∈ q, x ∈ t.tags))) := by
  unfold AState.selectKeys
  by_cases hq : q = []
  · subst hq; simp
  · have hne : q.isEmpty = false := by cases q <;> simp_all
    simp only [hne, Bool.false_eq_true, if_false, List.mem_filter, hq, false_or]
    constructor
    · rintro ⟨hk, hm⟩
      refine ⟨hk, ?_⟩
      cases hf : s.task? k with
      | none => simp [hf] at hm
      | some t =>
          simp only [hf, tagMatch] at hm
          refine ⟨t, rfl, ?_⟩
          cases any with
          | true => left; simpa using hm
          | false => right; simpa using hm
    · rintro ⟨hk, t, hf, hm⟩
      refine ⟨hk, ?_⟩
      simp only [hf, tagMatch]
      rcases hm with ⟨ha, x, hx, hxs⟩ | ⟨ha, hall⟩
      · subst ha; simpa using ⟨x, hx, hxs⟩
      · subst ha; simpa using hall

/-- asyncio `get_jobs` returns exactly that selection and changes nothing; `delete_jobs` reports
    the size of the selection -/
theorem C12.aio_get_and_count (s : AState) (q : List Nat) (any : Bool) :
    (astepOp s (.get q any)).1 = s ∧
    (∃ l, (astepOp s (.get q any)).2 = .set l ∧ ∀ k, k ∈ l ↔ k ∈ s.selectKeys q any) ∧
    (astepOp s (.delTags q any)).2 = .count (s.selectKeys q any).length := by
  refine ⟨rfl, ⟨sortKeys (s.selectKeys q any), rfl, fun k => (sortKeys_perm _).mem_iff⟩, rfl⟩

/-! ### asyncio: `delete_jobs` removes exactly its selection - also when a coroutine calls it on its own job -/

theorem logCancel_reg (s : AState) (k : Nat) (cur : Option Nat) : (s.logCancel k cur).reg = s.reg := by
  unfold AState.logCancel
  cases s.task? k with
  | none => rfl
  | some t =>
      simp only []
      cases t.phase <;> simp only []
      split <;> rfl

theorem cancel_reg (s : AState) (k : Nat) (cur : Option Nat) : (s.cancel k cur).reg = s.reg := rfl

theorem deleteJob_reg (s : AState) (k : Nat) (cur : Option Nat) : (s.deleteJob k cur).1.reg = s.reg.erase k := by
  unfold AState.deleteJob
  by_cases hc : s.reg.contains k = true
  · simp only [hc, if_true, cancel_reg, logCancel_reg]
  · simp only [hc]
    have : k ∉ s.reg := by simpa using hc
    exact (List.erase_of_not_mem this).symm

theorem deleteJobs_fold_reg (cur : Option Nat) (sel : List Nat) :
    ∀ s : AState, (sel.foldl (fun st k => (st.deleteJob k cur).1) s).reg = sel.foldl List.erase s.reg := by
  induction sel with
  | nil => intro s; rfl
  | cons y ys ih => intro s; simp only [List.foldl_cons]; rw [ih, deleteJob_reg]

theorem mem_foldl_erase (sel : List Nat) : ∀ (l : List Nat), l.Nodup → ∀ x, x ∈ sel.foldl List.erase l ↔ x ∈ l ∧ x ∉ sel := by
  induction sel with
  | nil => intro l _ x; simp
  | cons y ys ih =>
      intro l hn x
      simp only [List.foldl_cons]
      rw [ih (l.erase y) (hn.erase y) x, hn.mem_erase_iff]
      simp only [List.mem_cons, not_or]
      constructor
      · rintro ⟨⟨h1, h2⟩, h3⟩; exact ⟨h2, h1, h3⟩
      · rintro ⟨h2, h1, h3⟩; exact ⟨⟨h1, h2⟩, h3⟩

/-- **asyncio `delete_jobs` removes exactly that selection and nothing else** - whoever calls it:
    the program that owns the loop (`cur = none`) or the coroutine of job `c` (`cur = some c`), whose
    own job is removed like any other selected job -/
theorem C12.aio_delete_exactly (s : AState) (q : List Nat) (any : Bool) (cur : Option Nat) (hn : s.reg.Nodup) (k : Nat) :
    k ∈ (s.deleteJobs q any cur).1.reg ↔ (k ∈ s.reg ∧ k ∉ s.selectKeys q any) := by
  unfold AState.deleteJobs
  simp only []
  rw [deleteJobs_fold_reg, mem_foldl_erase _ _ hn]

end SV
