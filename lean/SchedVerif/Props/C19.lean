/-
  Props/C19.lean — callbacks receive exactly the arguments given, insulated from later mutation.
  In the model the arguments of a job are an opaque payload identity stored at creation; the
  harness maps "exactly the original args/kwargs arrived" to that identity on the real objects
  (and performs the caller-side mutations there).
-/
import SchedVerif.Lemmas.Frame
namespace SV

/-- payload stored for job `k` -/
def payloadOf (s : State) (k : Nat) : Option Nat := (s.find k).map (·.payload)

/-- scheduling stores exactly the payload given -/
theorem C19.stored_at_creation (s : State) (sp : RawSpec) (clock : Int) (direct : Bool) (k : Nat)
    (h : (schedule s sp clock direct).2 = .job k) :
    payloadOf (schedule s sp clock direct).1 k = some sp.payload := by
  unfold SV.schedule at h ⊢
  cases hj : (if direct = true then createJobDirect s.tz sp clock else createJob s.tz sp clock) with
  | error e => rw [hj] at h; simp at h
  | ok j =>
      rw [hj] at h
      simp only [] at h ⊢
      have hk : k = s.heap.length := by cases h; rfl
      subst hk
      by_cases ha : j.hasAttempts = true <;> simp [ha, payloadOf, State.find]

/-- **the stored payload never changes**, whatever happens later in any history (executions,
    failures, deletions, other scheduling calls, callbacks using the scheduler) -/
theorem C19.payload_constant (s : State) (ops : List Op) (k : Nat) (hk : k < s.heap.length) :
    payloadOf (run s ops).1 k = payloadOf s k := by
  have := (Ext.run s ops).static k hk
  simp only [staticOf, payloadOf] at *
  cases h1 : (run s ops).1.find k <;> cases h2 : s.find k <;> simp_all

/-- **every invocation receives exactly the stored payload**: each record produced by an
    `exec_jobs` call (forced or not, any outcomes, any scripts) for a job that existed before the
    call carries that job's payload -/
theorem C19.invocation_payload (s : State) (clock : Int) (force : Bool) (order raises : List Nat)
    (scripts : List (Nat × List COp)) :
    ∀ r ∈ (execJobs s clock force order raises scripts).2.invoked, r.key < s.heap.length →
      payloadOf s r.key = some r.payload := by
  simp only [SV.execJobs]
  generalize (if force = true then (if isPermOf order s.reg = true then order else s.reg)
      else List.map (fun x => x.fst) (selectBatch s.maxExec (List.map (fun k => (k, prioOf s.prio (lateness s (nowDT s.tz clock) k) (weightOf s k)))
        (if isPermOf order s.reg = true then order else s.reg)))) = batch
  have hp : batch.foldl (SV.runOne clock raises scripts) (s, []) =
      ((batch.foldl (SV.runOne clock raises scripts) (s, [])).1, (batch.foldl (SV.runOne clock raises scripts) (s, [])).2) := rfl
  rw [hp]
  simp only []
  intro r hr hk
  have := payload_runFold clock raises scripts batch s s [] (Ext.refl s) (by simp) r hr hk
  obtain ⟨sj, hsj⟩ := s.find_some r.key hk
  simp only [staticOf, hsj, Option.map_some, Option.some.injEq, Prod.mk.injEq, true_and] at this
  simp [payloadOf, hsj, this]

/-- the tag set used by tag queries is the one stored at creation, for ever (see C12.tags_copy) -/
theorem C19.tags_constant (s : State) (ops : List Op) (k : Nat) (hk : k < s.heap.length) :
    ((run s ops).1.find k).map (·.tags) = (s.find k).map (·.tags) := by
  have := (Ext.run s ops).static k hk
  simp only [staticOf] at this
  cases h1 : (run s ops).1.find k <;> cases h2 : s.find k <;> simp_all

/-! non-vacuity -/
example : payloadOf (run (State.init none 0 .linear)
    [.sched { call := .cyclic, timings := [.td 10], isList := false, payload := 42 } 100,
     .exec 200 true [0] [] []]).1 0 = some 42 := by decide

end SV
