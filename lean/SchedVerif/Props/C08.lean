/-
  Props/C08.lean — missed occurrences are caught up one per call, or collapsed with skip_missing.
-/
import SchedVerif.Lemmas.Argmin
import SchedVerif.Props.C03
import SchedVerif.Props.C01
import SchedVerif.Lemmas.Twins
namespace SV

theorem Timer.calcNext_skip_nc (tm : Timer) (hc : tm.timing.isCyclic = false) (hs : tm.skip = true) (r : DT) :
    tm.calcNext (some r) =
      if (advance tm.timing tm.next).inst < r.inst then { tm with next := advance tm.timing r }
      else { tm with next := advance tm.timing tm.next } := by
  unfold Timer.calcNext
  cases h : tm.timing <;> simp_all [Timing.isCyclic]

/-- **skip_missing, one timer that is due at the poll instant `t`** (its stored instant ≤ t):
    the new due instant is an occurrence, is never earlier than `t`, and no occurrence lies strictly
    between `t` and it. -/
theorem C08.skip_timer (tm : Timer) (h : tm.WF) (hs : tm.skip = true) (ref : DT)
    (ha : ref.off.isSome = tm.timing.off.isSome) (hdue : tm.next.inst ≤ ref.inst) :
    Occ tm.timing (tm.calcNext (some ref)).next.inst ∧ ref.inst ≤ (tm.calcNext (some ref)).next.inst ∧
    (∀ v, ref.inst < v → v < (tm.calcNext (some ref)).next.inst → ¬ Occ tm.timing v) ∧
    (tm.calcNext (some ref)).WF ∧ (tm.calcNext (some ref)).timing = tm.timing ∧
    (tm.calcNext (some ref)).skip = true := by
  rw [Timer.calcNext_skip_nc tm h.nc hs ref]
  obtain ⟨w1, w2, w3, w4⟩ := advance_window tm.timing h.valid h.nc tm.next h.aw
  obtain ⟨x1, x2, x3, x4⟩ := advance_window tm.timing h.valid h.nc ref ha
  have l1 := advance_least tm.timing h.valid h.nc tm.next h.aw
  have l2 := advance_least tm.timing h.valid h.nc ref ha
  by_cases hc : (advance tm.timing tm.next).inst < ref.inst
  · simp only [hc, if_true]
    refine ⟨x3, Int.le_of_lt x1, ?_, ⟨h.valid, h.nc, by simp [x4]⟩, trivial, hs⟩
    intro v hv1 hv2 ho
    have := l2.2.2 v hv1 ho
    omega
  · simp only [hc, if_false]
    refine ⟨w3, by omega, ?_, ⟨h.valid, h.nc, by simp [w4]⟩, trivial, hs⟩
    intro v hv1 hv2 ho
    have := l1.2.2 v (by omega) ho
    omega

/-- for cyclic jobs the next due time is exactly `t + interval` -/
theorem C08.skip_cyclic_exact (tm : Timer) (T : Int) (ht : tm.timing = .cyclic T) (hs : tm.skip = true)
    (ref : DT) : (tm.calcNext (some ref)).next.inst = ref.inst + T := by
  unfold Timer.calcNext
  simp [ht, hs, DT.add, DT.inst]; omega

/-- the `skip_missing` branch of `_calc_next_exec` touches exactly the timers that are due -/
theorem C08.skip_only_due (j : Job) (hs : j.skip = true) (ref : DT) :
    (j.calcNext ref).timers =
      j.timers.map (fun t => if t.next.inst - ref.inst ≤ 0 then t.calcNext (some ref) else t) := by
  simp [Job.calcNext, hs]

/-- freshness of a timer relative to an anchor instant `a`: its stored instant is an occurrence
    not earlier than `a`, with no occurrence strictly between `a` and it -/
def Timer.Fresh (tm : Timer) (a : Int) : Prop :=
  Occ tm.timing tm.next.inst ∧ a ≤ tm.next.inst ∧ ∀ v, a < v → v < tm.next.inst → ¬ Occ tm.timing v

/-- **skip_missing, whole job (batched or not)**: if every timer is fresh relative to an earlier
    anchor `a ≤ t` (the start, or the previous poll), then after an invocation at `t` every timer is
    fresh relative to `t` — so the job's due time (the minimum) is an occurrence of one of its
    times, is never earlier than `t`, and no occurrence of ANY of its times lies strictly between
    `t` and it. Holds for forced runs of jobs that are not due as well. -/
theorem C08.skip_job (j : Job) (hs : j.skip = true) (ref : DT) (a : Int) (hat : a ≤ ref.inst)
    (hwf : ∀ tm ∈ j.timers, tm.WF ∧ tm.skip = true ∧ ref.off.isSome = tm.timing.off.isSome)
    (hfresh : ∀ tm ∈ j.timers, tm.Fresh a) (raises : Bool) :
    (∀ tm ∈ (j.run ref raises).timers, tm.WF ∧ tm.skip = true ∧ tm.Fresh ref.inst) := by
  intro tm htm
  have ht : (j.run ref raises).timers =
      j.timers.map (fun t => if t.next.inst - ref.inst ≤ 0 then t.calcNext (some ref) else t) := by
    simp [Job.run, Job.calcNext, Job.exec1, hs]
  rw [ht] at htm
  obtain ⟨t0, h0, rfl⟩ := List.mem_map.mp htm
  obtain ⟨wf, sk, aw⟩ := hwf t0 h0
  obtain ⟨f1, f2, f3⟩ := hfresh t0 h0
  by_cases hd : t0.next.inst - ref.inst ≤ 0
  · simp only [hd, if_true]
    obtain ⟨r1, r2, r3, r4, r5, r6⟩ := C08.skip_timer t0 wf sk ref aw (by omega)
    refine ⟨r4, r6, ?_, r2, ?_⟩
    · rw [r5]; exact r1
    · intro v hv1 hv2; rw [r5]; exact r3 v hv1 hv2
  · simp only [hd, if_false]
    refine ⟨wf, sk, f1, by omega, ?_⟩
    intro v hv1 hv2
    exact f3 v (by omega) hv2

/-- the due time of a job is the stored instant of one of its timers and is ≤ all of them -/
theorem due_is_min (j : Job) (hne : j.timers ≠ []) (hp : j.pending = argmin (fun (t : Timer) => t.next.inst) j.timers)
    (hd : (!j.delay && j.attempts == 0) = false) :
    (∃ tm ∈ j.timers, j.due = tm.next) ∧ ∀ tm ∈ j.timers, j.due.inst ≤ tm.next.inst := by
  unfold Job.due Job.pendingTimer
  simp only [hd, Bool.false_eq_true, if_false]
  rw [hp]
  exact ⟨⟨_, argmin_mem _ _ _ hne, rfl⟩, fun tm htm => argmin_le (fun (t : Timer) => t.next.inst) j.timers default tm htm⟩

/-- corollary, as the property states it: after an invocation at `t` the due time is an occurrence
    of one of the job's times, not earlier than `t`, and skips no occurrence of any of them -/
theorem C08.skip_due (j : Job) (hs : j.skip = true) (ref : DT) (a : Int) (hat : a ≤ ref.inst)
    (hne : j.timers ≠ [])
    (hwf : ∀ tm ∈ j.timers, tm.WF ∧ tm.skip = true ∧ ref.off.isSome = tm.timing.off.isSome)
    (hfresh : ∀ tm ∈ j.timers, tm.Fresh a) (raises : Bool) :
    let j' := j.run ref raises
    (∃ tm ∈ j'.timers, Occ tm.timing j'.due.inst) ∧ ref.inst ≤ j'.due.inst ∧
    ∀ tm ∈ j'.timers, ∀ v, ref.inst < v → v < j'.due.inst → ¬ Occ tm.timing v := by
  intro j'
  have hall := C08.skip_job j hs ref a hat hwf hfresh raises
  have hne' : j'.timers ≠ [] := by
    simp only [j', Job.run, Job.calcNext, Job.exec1, hs, if_true]
    simpa using hne
  have hp : j'.pending = argmin (fun (t : Timer) => t.next.inst) j'.timers := by
    simp [j', Job.run, Job.calcNext]
  have hd : (!j'.delay && j'.attempts == 0) = false := by
    simp [j', Job.run, Job.calcNext, Job.exec1]
  obtain ⟨⟨tm, htm, hdue⟩, hmin⟩ := due_is_min j' hne' hp hd
  obtain ⟨_, _, f1, f2, _⟩ := hall tm htm
  refine ⟨⟨tm, htm, by rw [hdue]; exact f1⟩, by rw [hdue]; exact f2, ?_⟩
  intro tm' htm' v hv1 hv2
  obtain ⟨_, _, _, _, g3⟩ := hall tm' htm'
  exact g3 v hv1 (by have := hmin tm' htm'; omega)

/-- freshness at creation: every timer starts fresh relative to the start instant -/
theorem C08.fresh_at_creation (tm : Timing) (hv : tm.valid) (hc : tm.isCyclic = false) (start : DT)
    (ha : start.off.isSome = tm.off.isSome) (skip : Bool) :
    (Timer.init tm start skip).Fresh start.inst := by
  have hl := C01_first_due_aux tm hc hv start ha skip
  have ht : (Timer.init tm start skip).timing = tm := by
    unfold Timer.init; rw [Timer.calcNext_none _ hc]
  unfold Timer.Fresh
  rw [ht]
  refine ⟨hl.2.1, Int.le_of_lt hl.1, ?_⟩
  intro v hv1 hv2 ho
  have := hl.2.2 v hv1 ho
  omega

/-! ### without skip_missing: nothing is lost -/

/-- shape of a single-timing, non-skipping recurring job after `n` executions -/
structure SingleShape (j : Job) (tm0 : Timing) (first : Int) (n : Nat) : Prop where
  timers : ∃ tm : Timer, j.timers = [tm] ∧ tm.timing = tm0 ∧ tm.skip = false ∧ tm.WF ∧
      tm.next.inst = first + n * tm0.period ∧ Occ tm0 tm.next.inst
  pending : j.pending = 0
  skip : j.skip = false
  delay : j.delay = true

theorem SingleShape.run (j : Job) (tm0 : Timing) (first : Int) (n : Nat) (h : SingleShape j tm0 first n)
    (ref : DT) (r : Bool) : SingleShape (j.run ref r) tm0 first (n + 1) := by
  obtain ⟨⟨tm, h1, h2, h3, h4, h5, h6⟩, hp, hs, hd⟩ := h
  have hcn : tm.calcNext (some ref) = { tm with next := advance tm.timing tm.next } :=
    Timer.calcNext_noskip tm h3 _
  have hadv := C01.advance tm h4 (h2 ▸ h6)
  rw [Timer.calcNext_none _ h4.nc] at hadv
  refine ⟨⟨{ tm with next := advance tm.timing tm.next }, ?_, h2, h3, hadv.2.2, ?_, ?_⟩, ?_, hs, hd⟩
  · simp [Job.run, Job.calcNext, Job.exec1, hs, hd, h1, hp, List.modify, hcn]
  · rw [hadv.1, h5, h2, Int.natCast_add, Int.add_mul]; omega
  · have := hadv.2.1; rw [h2] at this; simpa [h2] using this
  · simp [Job.run, Job.calcNext, Job.exec1, hs, hd, h1, hp, List.modify, argmin]

/-- **no planned occurrence is ever lost** (single recurring timing, no skip): whatever the poll
    instants, the k-th invocation consumes exactly `first + k·P` — each call works off the oldest
    outstanding occurrence -/
theorem C08.none_lost_single (tm0 : Timing) (hv : tm0.valid) (hc : tm0.isCyclic = false) (start : DT)
    (ha : start.off.isSome = tm0.off.isSome) (stop : Option DT) (m : Int) (refs : List DT) :
    let j0 := Job.build [tm0] start stop true false m
    let first := (Timer.init tm0 start false).next.inst
    ∀ k, k < refs.length → ((j0.runs refs).2[k]?) = some (first + (k : Int) * tm0.period) := by
  intro j0 first
  have key : ∀ (refs : List DT) (j : Job) (n : Nat), SingleShape j tm0 first n →
      ∀ k, k < refs.length → ((j.runs refs).2[k]?) = some (first + ((n : Int) + k) * tm0.period) := by
    intro refs
    induction refs with
    | nil => intro j n h k hk; simp at hk
    | cons r rs ih =>
        intro j n h k hk
        have h' := SingleShape.run j tm0 first n h r false
        obtain ⟨⟨tm, h1, h2, h3, h4, h5, h6⟩, hp, hs, hd⟩ := h
        cases k with
        | zero =>
            simp only [Job.runs, List.getElem?_cons_zero]
            simp [Job.due, Job.pendingTimer, hd, h1, hp, h5]
        | succ k =>
            have := ih (j.run r) (n + 1) h' k (by simpa using hk)
            simp only [Job.runs, List.getElem?_cons_succ]
            rw [this]; congr 1
            have e : ((n : Int) + 1 + k) = ((n : Int) + ((k : Int) + 1)) := by omega
            push_cast; rw [e]
  have hinit : (Timer.init tm0 start false) = { timing := tm0, next := advance tm0 start, skip := false } := by
    unfold Timer.init; rw [Timer.calcNext_none _ hc]
  have hw := advance_window tm0 hv hc start ha
  have h0 : SingleShape j0 tm0 first 0 := by
    refine ⟨⟨Timer.init tm0 start false, rfl, by rw [hinit], by rw [hinit], ?_, by simp [first], ?_⟩, by simp [j0, Job.build, argmin], rfl, rfl⟩
    · rw [hinit]; exact ⟨hv, hc, by simp [hw.2.2.2]⟩
    · rw [hinit]; exact hw.2.2.1
  intro k hk
  have := key refs j0 0 h0 k hk
  simpa using this

/-- every occurrence after the start is `first + k·P` for some k — so when a poll at `t` leaves the
    job not due (`t < first + n·P` after `n` invocations), the `n` invocations consumed ALL
    occurrences up to `t` -/
theorem C08.caught_up (tm0 : Timing) (hv : tm0.valid) (hc : tm0.isCyclic = false) (start : DT)
    (ha : start.off.isSome = tm0.off.isSome) (n : Nat) (t v : Int)
    (hnd : t < (Timer.init tm0 start false).next.inst + n * tm0.period)
    (hv1 : start.inst < v) (hv2 : v ≤ t) (ho : Occ tm0 v) :
    ∃ k : Nat, k < n ∧ v = (Timer.init tm0 start false).next.inst + k * tm0.period := by
  have hl := C01_first_due_aux tm0 hc hv start ha false
  have hp := tm0.period_pos hc
  have hge := hl.2.2 v hv1 ho
  have ho1 := hl.2.1
  unfold Occ at ho ho1
  have e1 : (v - (Timer.init tm0 start false).next.inst) % tm0.period = 0 := by
    have : v - (Timer.init tm0 start false).next.inst
        = (v + tm0.off.getD 0) - ((Timer.init tm0 start false).next.inst + tm0.off.getD 0) := by omega
    rw [this, Int.sub_emod, ho, ho1]; simp
  obtain ⟨q, hq⟩ := Int.dvd_of_emod_eq_zero e1
  have hq0 : 0 ≤ q := by
    apply Classical.byContradiction; intro hneg
    have : q ≤ -1 := by omega
    have := Int.mul_le_mul_of_nonneg_left this (Int.le_of_lt hp)
    omega
  refine ⟨q.toNat, ?_, ?_⟩
  · apply Classical.byContradiction; intro hneg
    have hqn : (n : Int) ≤ q := by omega
    have := Int.mul_le_mul_of_nonneg_left hqn (Int.le_of_lt hp)
    have e2 : tm0.period * (n : Int) = (n : Int) * tm0.period := Int.mul_comm _ _
    omega
  · have : ((q.toNat : Nat) : Int) = q := Int.toNat_of_nonneg hq0
    rw [this, Int.mul_comm]; omega

/-! ### `delay=False`: the first run belongs to `start`, afterwards nothing is lost either -/

/-! ### skip_missing over every polling history -/

/-- timers of a skipping job that are fresh w.r.t. the last poll `a`, well-formed, and whose timings
    all have the awareness `aw` (that of the scheduler's clock readings) -/
def SkipInv (j : Job) (a : Int) (aw : Bool) : Prop :=
  j.skip = true ∧ j.timers ≠ [] ∧
  ∀ tm ∈ j.timers, tm.WF ∧ tm.skip = true ∧ tm.timing.off.isSome = aw ∧ tm.Fresh a

theorem SkipInv.run (j : Job) (a : Int) (aw : Bool) (h : SkipInv j a aw) (ref : DT) (hat : a ≤ ref.inst)
    (hr : ref.off.isSome = aw) (raises : Bool) : SkipInv (j.run ref raises) ref.inst aw := by
  obtain ⟨hs, hne, hall⟩ := h
  have hwf : ∀ tm ∈ j.timers, tm.WF ∧ tm.skip = true ∧ ref.off.isSome = tm.timing.off.isSome :=
    fun tm htm => ⟨(hall tm htm).1, (hall tm htm).2.1, by rw [hr, (hall tm htm).2.2.1]⟩
  have hfresh : ∀ tm ∈ j.timers, tm.Fresh a := fun tm htm => (hall tm htm).2.2.2
  have key := C08.skip_job j hs ref a hat hwf hfresh raises
  have ht : (j.run ref raises).timers =
      j.timers.map (fun t => if t.next.inst - ref.inst ≤ 0 then t.calcNext (some ref) else t) := by
    simp [Job.run, Job.calcNext, Job.exec1, hs]
  refine ⟨by simp [Job.run, Job.calcNext, Job.exec1, hs], by rw [ht]; simpa using hne, ?_⟩
  intro tm htm
  obtain ⟨k1, k2, k3⟩ := key tm htm
  refine ⟨k1, k2, ?_, k3⟩
  rw [ht] at htm
  obtain ⟨t0, h0, rfl⟩ := List.mem_map.mp htm
  obtain ⟨wf, sk, awt, _⟩ := hall t0 h0
  by_cases hd : t0.next.inst - ref.inst ≤ 0
  · simp only [hd, if_true]
    have := (C08.skip_timer t0 wf sk ref (by rw [hr, awt]) (by omega)).2.2.2.2.1
    rw [this]; exact awt
  · simp only [hd, if_false]; exact awt

/-- polls happen at non-decreasing instants, none before `a` -/
def PollsFrom (a : Int) : List DT → Prop
  | [] => True
  | r :: rs => a ≤ r.inst ∧ PollsFrom r.inst rs

/-- **skip_missing, every polling history** — for every job type with clock-time / weekday timings
    (batched or not), every start, every offsets, and every sequence of polls at non-decreasing
    instants (however long the gaps, forced or not): after each invocation at `t` the due time is an
    occurrence of one of the job's times, is not earlier than `t`, and no occurrence of any of its
    times lies strictly between `t` and it — so any backlog collapses into that one invocation -/
theorem C08.skip_all_histories (tms : List Timing) (hne : tms ≠ [])
    (hv : ∀ tm ∈ tms, tm.valid ∧ tm.isCyclic = false) (start : DT)
    (ha : ∀ tm ∈ tms, start.off.isSome = tm.off.isSome) (stop : Option DT) (m : Int)
    (refs : List DT) (last : DT) (hp : PollsFrom start.inst (refs ++ [last]))
    (haw : ∀ r ∈ refs ++ [last], r.off.isSome = start.off.isSome) :
    let j' := (refs ++ [last]).foldl (fun j r => j.run r false) (Job.build tms start stop true true m)
    (∃ tm ∈ j'.timers, Occ tm.timing j'.due.inst) ∧ last.inst ≤ j'.due.inst ∧
    ∀ tm ∈ j'.timers, ∀ v, last.inst < v → v < j'.due.inst → ¬ Occ tm.timing v := by
  intro j'
  -- the invariant holds at creation …
  have h0 : SkipInv (Job.build tms start stop true true m) start.inst start.off.isSome := by
    refine ⟨rfl, by simpa [Job.build] using hne, ?_⟩
    intro tm htm
    simp only [Job.build, List.mem_map] at htm
    obtain ⟨t0, ht0, rfl⟩ := htm
    obtain ⟨v0, c0⟩ := hv t0 ht0
    have hinit : Timer.init t0 start true = { timing := t0, next := advance t0 start, skip := true } := by
      unfold Timer.init; rw [Timer.calcNext_none _ c0]
    have hw := advance_window t0 v0 c0 start (ha t0 ht0)
    refine ⟨?_, by rw [hinit], by rw [hinit]; exact (ha t0 ht0).symm, C08.fresh_at_creation t0 v0 c0 start (ha t0 ht0) true⟩
    rw [hinit]; exact ⟨v0, c0, by simp [hw.2.2.2]⟩
  -- … and along every history of polls
  have key : ∀ (rs : List DT) (j : Job) (a : Int), SkipInv j a start.off.isSome → PollsFrom a rs →
      (∀ r ∈ rs, r.off.isSome = start.off.isSome) →
      ∀ (l : DT), rs.getLast? = some l → SkipInv (rs.foldl (fun j r => j.run r false) j) l.inst start.off.isSome := by
    intro rs
    induction rs with
    | nil => intro j a _ _ _ l hl; simp at hl
    | cons r rs ih =>
        intro j a hj hpo hawr l hl
        obtain ⟨p1, p2⟩ := hpo
        have hj' := SkipInv.run j a _ hj r p1 (hawr r (by simp)) false
        simp only [List.foldl_cons]
        cases rs with
        | nil =>
            simp at hl; subst hl
            simpa using hj'
        | cons r2 rs2 =>
            exact ih (j.run r false) r.inst hj' p2 (fun x hx => hawr x (by simp [hx])) l (by simpa using hl)
  have hfin := key (refs ++ [last]) _ start.inst h0 hp haw last (by simp)
  -- read the statement off the invariant (as in `skip_due`)
  obtain ⟨hs, hne', hall⟩ := hfin
  have hpd : j'.pending = argmin (fun (t : Timer) => t.next.inst) j'.timers ∧ (!j'.delay && j'.attempts == 0) = false := by
    have : ∃ j0 r0, j' = Job.run j0 r0 false := by
      refine ⟨refs.foldl (fun j r => j.run r false) (Job.build tms start stop true true m), last, ?_⟩
      simp [j', List.foldl_append]
    obtain ⟨j0, r0, e⟩ := this
    rw [e]
    exact ⟨by simp [Job.run, Job.calcNext], by simp [Job.run, Job.calcNext, Job.exec1]⟩
  obtain ⟨⟨tm, htm, hdue⟩, hmin⟩ := due_is_min j' hne' hpd.1 hpd.2
  obtain ⟨_, _, _, f1, f2, _⟩ := hall tm htm
  refine ⟨⟨tm, htm, by rw [hdue]; exact f1⟩, by rw [hdue]; exact f2, ?_⟩
  intro tm' htm' v hv1 hv2
  obtain ⟨_, _, _, _, _, g3⟩ := hall tm' htm'
  exact g3 v hv1 (by have := hmin tm' htm'; omega)

/-- a `delay=False` job past its first run and a `delay=True` job with the same timers plan alike -/
structure SamePlan (j j' : Job) : Prop where
  timers : j.timers = j'.timers
  pending : j.pending = j'.pending
  stop : j.stop = j'.stop
  skip : j.skip = false ∧ j'.skip = false
  delay : j.delay = false ∧ j'.delay = true
  att : 1 ≤ j.attempts

theorem SamePlan.due (j j' : Job) (h : SamePlan j j') : j.due = j'.due := by
  obtain ⟨h1, h2, _, _, ⟨hd, hd'⟩, ha⟩ := h
  have : (j.attempts == 0) = false := by simp; omega
  simp [Job.due, Job.pendingTimer, hd, hd', this, h1, h2]

theorem SamePlan.run (j j' : Job) (h : SamePlan j j') (r : DT) (b b' : Bool) :
    SamePlan (j.run r b) (j'.run r b') := by
  obtain ⟨h1, h2, h3, ⟨hs, hs'⟩, ⟨hd, hd'⟩, ha⟩ := h
  have hne : (j.attempts + 1 == 1) = false := by simp; omega
  refine ⟨?_, ?_, h3, ⟨hs, hs'⟩, ⟨hd, hd'⟩, ?_⟩
  · simp [Job.run, Job.calcNext, Job.exec1, hs, hs', hd, hd', hne, h1, h2]
  · simp [Job.run, Job.calcNext, Job.exec1, hs, hs', hd, hd', hne, h1, h2]
  · simp [Job.run, Job.calcNext, Job.exec1]

theorem SamePlan.runs (refs : List DT) : ∀ (j j' : Job), SamePlan j j' → (j.runs refs).2 = (j'.runs refs).2 := by
  induction refs with
  | nil => intro j j' _; rfl
  | cons r rs ih =>
      intro j j' h
      simp only [Job.runs]
      rw [SamePlan.due j j' h, ih _ _ (SamePlan.run j j' h r false false)]

/-- **`delay=False` loses nothing**: for every job type (batched or not) and whatever the poll
    instants - in particular however late the first poll comes - the first invocation belongs to
    `start` itself and the following ones consume exactly the due instants of the same job created
    with `delay=True` (for which `none_lost_single` / `C09.union_enumeration` apply). Holds after
    the fix: commit for defect D1; the seeded change that re-introduces a time test instead of the
    first-run test falsifies it. -/
theorem C08.none_lost_nodelay (tms : List Timing) (start : DT) (stop : Option DT) (m : Int)
    (r : DT) (refs : List DT) :
    ((Job.build tms start stop false false m).runs (r :: refs)).2 =
      start.inst :: ((Job.build tms start stop true false m).runs refs).2 := by
  have h0 : SamePlan ((Job.build tms start stop false false m).run r) (Job.build tms start stop true false m) := by
    refine ⟨?_, ?_, rfl, ⟨rfl, rfl⟩, ⟨rfl, rfl⟩, ?_⟩
    · simp [Job.run, Job.calcNext, Job.exec1, Job.build]
    · simp [Job.run, Job.calcNext, Job.exec1, Job.build]
    · simp [Job.run, Job.calcNext, Job.exec1, Job.build]
  simp only [Job.runs]
  rw [SamePlan.runs refs _ _ h0]
  simp [Job.due, Job.build]


/-- the Bool twin `skipDueB` evaluated by the driver on the implementation's due times IS the
    skip_missing statement (occurrence of one of the times, not earlier than `t`, nothing skipped) -/
theorem C08.skipDueB_iff (tms : List Timing) (hv : ∀ tm ∈ tms, tm.valid ∧ tm.isCyclic = false) (t g due : Int) :
    skipDueB tms t g due = true ↔
      (t ≤ due ∧ UnionOcc tms due ∧ ∀ tm ∈ tms, ∀ v, g < v → v < due → ¬ Occ tm v) :=
  SV.skipDueB_iff tms hv t g due

/-- the Bool twin `enumB` IS "the consumed due instants enumerate, in ascending order and without
    omission or repetition, the union of the occurrences after the start" -/
theorem C08.enumB_iff (tms : List Timing) (hne : tms ≠ []) (hv : ∀ tm ∈ tms, tm.valid ∧ tm.isCyclic = false)
    (r : Int) (dues : List Int) : enumB tms r dues = true ↔ EnumSpec tms r dues :=
  SV.enumB_iff tms hne hv r dues

/-! non-vacuity: a fresh daily timer exists -/
example : (Timer.init (.daily { h := 10, m := 0, s := 0, us := 0, off := none })
    { loc := 63757598100000000, off := none } true).Fresh 63757598100000000 :=
  C08.fresh_at_creation _ (by simp [Timing.valid, Tod.valid]) rfl _ rfl true

end SV
