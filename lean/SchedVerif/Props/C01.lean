/-
  Props/C01.lean — minutely/hourly/daily jobs are due exactly at the matching clock instants.
  Property theorems only; helper lemmas live in Lemmas/.
-/
import SchedVerif.Lemmas.Job
namespace SV

def Timing.isDaylike : Timing → Bool
  | .minutely _ | .hourly _ | .daily _ => true
  | _ => false

theorem Timing.isDaylike_nc (tm : Timing) (h : tm.isDaylike = true) : tm.isCyclic = false := by
  cases tm <;> simp_all [Timing.isDaylike, Timing.isCyclic]

/-- **first due time**: for every valid clock time, every reference (any reading, any offset, naive
    iff the timing is naive) the timer's first due instant is the least occurrence strictly after the
    reference, and the stored datetime carries the timing's offset. -/
theorem C01.first_due (tm : Timing) (hd : tm.isDaylike = true) (hv : tm.valid) (start : DT)
    (ha : start.off.isSome = tm.off.isSome) (skip : Bool) :
    IsLeastAfter (Occ tm) start.inst (Timer.init tm start skip).next.inst := by
  have hc := tm.isDaylike_nc hd
  unfold Timer.init
  rw [Timer.calcNext_none _ hc]
  exact advance_least tm hv hc start ha

/-- the occurrence predicate is exactly "the wall-clock fields, read in the timing's offset, are the
    requested ones" (daily: hour, minute, second, microsecond) -/
theorem C01.fields_daily (t : Tod) (hv : t.valid) (U : Int) :
    Occ (.daily t) U ↔
      ((U + t.off.getD 0) % DAY / HOUR = t.h ∧ (U + t.off.getD 0) % HOUR / MIN = t.m ∧
       (U + t.off.getD 0) % MIN / US = t.s ∧ (U + t.off.getD 0) % US = t.us) := by
  obtain ⟨h1, h2, h3, h4, _⟩ := hv
  simp only [Occ, Timing.off, Timing.period, Timing.phase, Tod.tod, DAY, HOUR, MIN, US]
  omega

theorem C01.fields_hourly (t : Tod) (hv : t.valid) (U : Int) :
    Occ (.hourly t) U ↔
      ((U + t.off.getD 0) % HOUR / MIN = t.m ∧ (U + t.off.getD 0) % MIN / US = t.s ∧
       (U + t.off.getD 0) % US = t.us) := by
  obtain ⟨h1, h2, h3, h4, _⟩ := hv
  simp only [Occ, Timing.off, Timing.period, Timing.phase, Tod.mtod, HOUR, MIN, US]
  omega

theorem C01.fields_minutely (t : Tod) (hv : t.valid) (U : Int) :
    Occ (.minutely t) U ↔
      ((U + t.off.getD 0) % MIN / US = t.s ∧ (U + t.off.getD 0) % US = t.us) := by
  obtain ⟨h1, h2, h3, h4, _⟩ := hv
  simp only [Occ, Timing.off, Timing.period, Timing.phase, Tod.stod, MIN, US]
  omega

/-- the hour/minute fields a minutely/hourly job ignores do not matter -/
theorem C01.ignored_fields (tm : Timing) (d : DT) : advance (standardize tm) d = advance tm d := by
  cases tm <;> rfl

/-- **each execution moves the due time to the next such instant, exactly one period later** -/
theorem C01.advance (tm : Timer) (h : tm.WF) (ho : Occ tm.timing tm.next.inst) :
    (tm.calcNext none).next.inst = tm.next.inst + tm.timing.period ∧
    Occ tm.timing (tm.calcNext none).next.inst ∧ (tm.calcNext none).WF := by
  rw [Timer.calcNext_none _ h.nc]
  refine ⟨advance_on_occ _ h.valid h.nc _ h.aw ho, ?_, Timer.WF_advance tm h⟩
  exact (advance_window _ h.valid h.nc _ h.aw).2.2.1

/-- `k` successive executions of a timer -/
def Timer.execs : Nat → Timer → Timer
  | 0, tm => tm
  | k+1, tm => Timer.execs k (tm.calcNext none)

/-- after any number `k` of executions the due instant is `first + k·P` -/
theorem C01.kth (tm : Timer) (h : tm.WF) (ho : Occ tm.timing tm.next.inst) (k : Nat) :
    (tm.execs k).next.inst = tm.next.inst + k * tm.timing.period ∧
    (tm.execs k).timing = tm.timing := by
  induction k generalizing tm with
  | zero => simp [Timer.execs]
  | succ k ih =>
      obtain ⟨h1, h2, h3⟩ := C01.advance tm h ho
      have ht : (tm.calcNext none).timing = tm.timing := by
        rw [Timer.calcNext_none _ h.nc]
      have := ih (tm.calcNext none) h3 (ht ▸ h2)
      simp only [Timer.execs]
      rw [this.1, this.2, h1, ht]
      refine ⟨?_, rfl⟩
      rw [Int.natCast_add, Int.add_mul]; omega

/-- the reported timedelta is the distance to the due instant, for any probe instant -/
theorem C01.timedelta (j : Job) (x : DT) : j.timedelta x = j.due.inst - x.inst := rfl

/-- after an execution the due time is strictly later than the occurrence just consumed
    (for any state of the timer, on an occurrence or not) -/
theorem C01.strictly_later (tm : Timer) (h : tm.WF) :
    tm.next.inst < (tm.calcNext none).next.inst := by
  rw [Timer.calcNext_none _ h.nc]
  exact (advance_window _ h.valid h.nc _ h.aw).1

/-! non-vacuity: a concrete timing and reference satisfy the hypotheses -/
example : (Timing.daily { h := 23, m := 59, s := 59, us := 999999, off := some 19800000000 }).valid := by
  simp [Timing.valid, Tod.valid, DAY]
example : (Timer.init (.daily { h := 23, m := 59, s := 59, us := 999999, off := some 19800000000 })
    { loc := 63757598100000000, off := some (-3600000000) } false).WF := by
  refine ⟨by simp [Timer.init, Timer.calcNext, Timing.valid, Tod.valid, DAY], rfl, rfl⟩

end SV
