/-
  Props/C07.lean — no execution is planned outside a job's start..stop window.
  Invariant statements hold after every finite history from a fresh scheduler (see Props/C06.lean);
  jobs may come from the scheduling calls or from the constructor (`Op.ctor`).
-/
import SchedVerif.Props.C06
import SchedVerif.Props.C08
namespace SV

/-- **a registered job's due time never exceeds its stop** -/
theorem C07.registered_within_stop (tz : Option Int) (maxExec : Nat) (prio : PrioKind) (ops : List Op)
    (k : Nat) (sj : SJob) (hk : k ∈ (reach tz maxExec prio ops).reg)
    (hf : (reach tz maxExec prio ops).find k = some sj) (st : DT) (hs : sj.job.stop = some st) :
    sj.job.due.inst ≤ st.inst := by
  have hI := reach_inv tz maxExec prio ops
  have ha := hI.hasAtt k hk (by simp) sj hf
  have hmem : sj ∈ (reach tz maxExec prio ops).heap := List.mem_of_getElem? hf
  exact hI.settled k (by simp) sj hf (hasAttempts_markDelete _ ha) st hs

/-- **every invocation belongs to a due time ≤ stop** (also for forced calls): whenever a worker
    starts a queued job during any `exec_jobs` call, the due time recorded for that invocation does
    not exceed the job's stop -/
theorem C07.invocations_within_stop (s : State) (D B : List Nat) (k : Nat) (h : RunInv s D (k :: B))
    (sj : SJob) (hf : s.find k = some sj) (st : DT) (hs : sj.job.stop = some st) :
    sj.job.due.inst ≤ st.inst := by
  obtain ⟨_, hatt⟩ := h.bOK k (by simp)
  exact h.mid.settled k (h.disj k (by simp)) sj hf (hasAttempts_markDelete _ (hatt sj hf)) st hs

/-- **removed by the call after which the next due time would exceed stop**: after any operation a
    job whose next due time lies past its stop is not registered -/
theorem C07.removed_when_past (tz : Option Int) (maxExec : Nat) (prio : PrioKind) (ops : List Op)
    (k : Nat) (sj : SJob) (hf : (reach tz maxExec prio ops).find k = some sj) (st : DT)
    (hs : sj.job.stop = some st) (hp : st.inst < sj.job.due.inst) :
    k ∉ (reach tz maxExec prio ops).reg := by
  intro hk
  have := C07.registered_within_stop tz maxExec prio ops k sj hk hf st hs
  omega

/-- … and not earlier: the rescheduling step of `exec_jobs` (and nothing else) sets the retirement
    flag, and it sets it exactly when the new due time exceeds stop -/
theorem C07.retired_only_when_past (j : Job) (ref : DT) (hm : j.markDelete = false)
    (ha : 0 < j.attempts) :
    (j.calcNext ref).markDelete = Job.pastStop (j.calcNext ref).stop (j.calcNext ref).due := by
  have hd : (j.calcNext ref).due = (j.calcNext ref).pendingTimer.next := by
    have : (j.calcNext ref).attempts = j.attempts := rfl
    unfold Job.due
    rw [this]
    have : (j.attempts == 0) = false := by simp; omega
    simp [this]
  rw [hd]
  simp [Job.calcNext, hm, Job.pendingTimer]

/-- **a job whose first due time already exceeds stop is never registered** — by a scheduling
    call or by the constructor; one whose first due time (`start` itself with `delay=False`) lies
    within the window is registered (unless it has no attempts at all) -/
theorem C07.first_past_stop_never_registered (s : State) (sp : RawSpec) (clock : Int) (direct : Bool)
    (j : Job) (hc : (if direct then createJobDirect s.tz sp clock else createJob s.tz sp clock) = .ok j)
    (st : DT) (hs : j.stop = some st) (hp : st.inst < j.due.inst)
    (hm : j.markDelete = Job.pastStop j.stop j.due) :
    (schedule s sp clock direct).1.reg = s.reg := by
  unfold SV.schedule
  rw [hc]
  have : j.hasAttempts = false := by
    simp [Job.hasAttempts, hm, hs, Job.pastStop, hp]
  simp [this]

/-- the flag used above is how `BaseJob.__init__` computes it: from the first due time -/
theorem C07.build_markDelete (ts : List Timing) (s : DT) (stop : Option DT) (delay skip : Bool) (m : Int) :
    (Job.build ts s stop delay skip m).markDelete =
      Job.pastStop (Job.build ts s stop delay skip m).stop (Job.build ts s stop delay skip m).due := by
  cases delay <;> simp [Job.build, Job.due, Job.pendingTimer]

/-- a fresh job whose first due time is within the window is kept -/
theorem C07.first_within_stop_registered (ts : List Timing) (s : DT) (stop : Option DT) (delay skip : Bool)
    (m : Int) (hmx : m = 0 ∨ 0 < m)
    (hw : ∀ st, stop = some st → (Job.build ts s stop delay skip m).due.inst ≤ st.inst) :
    (Job.build ts s stop delay skip m).hasAttempts = true := by
  have hm : (Job.build ts s stop delay skip m).markDelete = false := by
    rw [C07.build_markDelete]
    cases stop with
    | none => rfl
    | some st =>
        have := hw st rfl
        simp only [Job.pastStop]
        have e : (Job.build ts s (some st) delay skip m).stop = some st := rfl
        rw [e]
        simp only [decide_eq_false_iff_not]
        omega
  have ha : (Job.build ts s stop delay skip m).attempts = 0 := rfl
  have hmm : (Job.build ts s stop delay skip m).maxAtt = m := rfl
  unfold Job.hasAttempts
  rw [hm, ha, hmm]
  rcases hmx with h | h
  · simp [h]
  · have : (m == 0) = false := by simp; omega
    simp [this]; omega

/-- **a stop that is not later than start (or than the creation time when no start is given) is
    rejected with SchedulerError** -/
theorem C07.stop_validation (tz : Option Int) (start : Option DT) (stop : DT) (clock : Int)
    (h : stop.inst ≤ (match start with | some s => s.inst | none => clock)) :
    ∃ e, startStop tz start (some stop) clock = .error e ∧ e = .schedulerError := by
  unfold startStop
  have hi := nowDT_inst tz clock
  cases start with
  | some s =>
      simp only [] at h ⊢
      repeat (first | exact ⟨_, rfl, rfl⟩ | split | omega)
  | none =>
      simp only [] at h ⊢
      repeat (first | exact ⟨_, rfl, rfl⟩ | split | omega)

/-- a rejected scheduling call registers nothing -/
theorem C07.rejected_registers_nothing (s : State) (sp : RawSpec) (clock : Int) (direct : Bool) (e : Err)
    (h : (schedule s sp clock direct).2 = .err e) : (schedule s sp clock direct).1 = s := by
  unfold SV.schedule at h ⊢
  split
  · rfl
  · rename_i j hj
    rw [hj] at h
    simp at h

/-- **no due time precedes start**: the first due instant of a recurring timer is strictly after
    the start, of a cyclic one it is `start + T` -/
theorem C07.not_before_start (tm : Timing) (hv : tm.valid) (hc : tm.isCyclic = false) (start : DT)
    (ha : start.off.isSome = tm.off.isSome) (skip : Bool) :
    start.inst < (Timer.init tm start skip).next.inst :=
  (C01_first_due_aux tm hc hv start ha skip).1

theorem C07.not_before_start_cyclic (T : Int) (hT : 0 ≤ T) (start : DT) (skip : Bool) :
    start.inst ≤ (Timer.init (.cyclic T) start skip).next.inst := by
  simp [Timer.init, Timer.calcNext, DT.add, DT.inst]; omega

/-! non-vacuity: a window job exists in a reachable state -/
example : ∃ sj, (reach none 0 .linear
    [.sched { call := .cyclic, timings := [.td 10], isList := false,
              stop := some { loc := 125, off := none } } 100]).find 0 = some sj ∧ sj.job.stop ≠ none :=
  ⟨_, rfl, by decide⟩

/-! a `delay=False` job whose `start` lies inside the window but `start + T` past it is registered,
    runs once at `start` and is retired by that call (defect D11 before the repair) -/
example : (reach none 0 .linear
    [.sched { call := .cyclic, timings := [.td 100], isList := false, delay := false,
              stop := some { loc := 150, off := none } } 100]).reg = [0] := by decide
example : (reach none 0 .linear
    [.sched { call := .cyclic, timings := [.td 100], isList := false, delay := false,
              stop := some { loc := 150, off := none } } 100,
     .exec 100 true [] [] []]).reg = [] := by decide

end SV
