/-
  Props/C14.lean — concurrent use: mutual exclusion, deadlock freedom under the lock discipline.
  (Linearizability of the registry is decided by the Spec `linearizableB` on real histories; the
  atomic-action machine it is stated over is `lApply` in Spec/Linearize.lean.  That *every*
  interleaving of calls whose effects happen at atomic points inside the call is linearizable is
  `C14.atomic_points_linearizable`.)
-/
import SchedVerif.Model.Conc.Locks
import SchedVerif.Spec.Linearize
import SchedVerif.Lemmas.Linearize
import SchedVerif.Lemmas.AtomicPoints
import SchedVerif.Lemmas.Reduction
namespace SV
open SV.L2

theorem heldByOther_false (s : Sys) (i l : Nat) (h : heldByOther s i l = false) :
    ∀ j (tj : Thread), s[j]? = some tj → l ∈ tj.held → j = i := by
  intro j tj hj hl
  apply Classical.byContradiction
  intro hne
  have : heldByOther s i l = true := by
    unfold heldByOther
    rw [List.any_eq_true]
    refine ⟨(tj, j), ?_, by simp [hne, hl]⟩
    have hlt : j < s.length := by
      have := List.getElem?_eq_some_iff.mp hj; exact this.1
    rw [List.mem_iff_getElem]
    refine ⟨j, by simpa using hlt, ?_⟩
    have := List.getElem?_eq_some_iff.mp hj
    simp [List.getElem_zipIdx, this.2]
  rw [this] at h; cases h

/-- **mutual exclusion is preserved by every enabled step** (at most one owner per lock) -/
theorem C14.mutex (s : Sys) (hm : Mutex s) (i : Nat) (he : enabled s i = true) : Mutex (L2.step s i) := by
  unfold enabled at he
  cases hi : s[i]? with
  | none => rw [hi] at he; cases he
  | some th =>
      rw [hi] at he
      simp only [] at he
      have hget : ∀ j, (L2.step s i)[j]? = if i = j then some (stepThread th) else s[j]? := by
        intro j
        simp only [L2.step, List.getElem?_modify]
        by_cases hij : i = j
        · subst hij; simp [hi]
        · simp [hij]
      -- locks held after the step by thread i: either already held, or the lock just acquired
      have hheld : ∀ l, l ∈ (stepThread th).held → l ∈ th.held ∨ (∃ p, th.prog = .acq l :: p) := by
        intro l hl
        unfold stepThread at hl
        cases hp : th.prog with
        | nil => rw [hp] at hl; exact Or.inl hl
        | cons st p =>
            rw [hp] at hl
            cases st with
            | acq l' =>
                simp only [List.mem_cons] at hl
                rcases hl with rfl | h
                · exact Or.inr ⟨p, rfl⟩
                · exact Or.inl h
            | rel l' => exact Or.inl (List.mem_of_mem_erase hl)
            | wait t => exact Or.inl hl
      intro a b ta tb l ha hb hla hlb
      rw [hget] at ha hb
      by_cases hia : i = a
      · by_cases hib : i = b
        · omega
        · simp only [hia, if_true, Option.some.injEq] at ha
          simp only [hib, if_false] at hb
          subst ha
          rcases hheld l hla with h1 | ⟨p, hp⟩
          · exact hm a b th tb l (hia ▸ hi) hb h1 hlb
          · simp only [hp, Bool.not_eq_true'] at he
            have := heldByOther_false s i l he b tb hb hlb
            omega
      · by_cases hib : i = b
        · simp only [hia, if_false] at ha
          simp only [hib, if_true, Option.some.injEq] at hb
          subst hb
          rcases hheld l hlb with h1 | ⟨p, hp⟩
          · exact hm a b ta th l ha (hib ▸ hi) hla h1
          · simp only [hp, Bool.not_eq_true'] at he
            have := heldByOther_false s i l he a ta ha hla
            omega
        · simp only [hia, if_false] at ha
          simp only [hib, if_false] at hb
          exact hm a b ta tb l ha hb hla hlb

/-- the discipline is preserved by every step -/
theorem C14.discipline_preserved (rank : Nat → Nat) (s : Sys) (hd : Disciplined rank s) (i : Nat) :
    Disciplined rank (L2.step s i) := by
  intro j th hj
  simp only [L2.step, List.getElem?_modify] at hj
  by_cases hij : i = j
  · subst hij
    cases hi : s[i]? with
    | none => rw [hi] at hj; simp at hj
    | some t0 =>
        rw [hi] at hj
        simp only [if_true, Option.map_eq_map, Option.map_some, Option.some.injEq] at hj
        subst hj
        have h0 := hd i t0 hi
        unfold stepThread
        cases hp : t0.prog with
        | nil => rw [hp] at h0; simpa [hp] using h0
        | cons st p =>
            rw [hp] at h0
            cases st with
            | acq l => exact h0.2
            | rel l => exact h0.2
            | wait t => exact h0.2.2
  · simp only [hij, if_false] at hj
    cases hs : s[j]? with
    | none => rw [hs] at hj; simp at hj
    | some t0 => rw [hs] at hj; simp at hj; subst hj; exact hd j t0 hs

theorem heldByOther_true (s : Sys) (i l : Nat) (h : heldByOther s i l = true) :
    ∃ j tj, s[j]? = some tj ∧ j ≠ i ∧ l ∈ tj.held := by
  unfold heldByOther at h
  rw [List.any_eq_true] at h
  obtain ⟨⟨tj, j⟩, hmem, hp⟩ := h
  simp only [Bool.and_eq_true, bne_iff_ne, ne_eq, List.contains_eq_mem, decide_eq_true_eq] at hp
  obtain ⟨k, hk, hk2⟩ := List.mem_iff_getElem.mp hmem
  have hk' : k < s.length := by simpa using hk
  simp only [List.getElem_zipIdx, Nat.zero_add] at hk2
  have e1 : s[k] = tj := congrArg Prod.fst hk2
  have e2 : k = j := congrArg Prod.snd hk2
  subst e2
  exact ⟨k, tj, by simp [List.getElem?_eq_getElem hk', e1], hp.1, hp.2⟩

theorem exists_max (P : Nat → Prop) (f : Nat → Nat) :
    ∀ n, (∃ i, i < n ∧ P i) → ∃ i, i < n ∧ P i ∧ ∀ j, j < n → P j → f j ≤ f i := by
  intro n
  induction n with
  | zero => intro ⟨i, hi, _⟩; omega
  | succ n ih =>
      intro ⟨i, hi, hp⟩
      by_cases hex : ∃ i, i < n ∧ P i
      · obtain ⟨m, hm1, hm2, hm3⟩ := ih hex
        by_cases hpn : P n
        · by_cases hc : f m ≤ f n
          · refine ⟨n, by omega, hpn, ?_⟩
            intro j hj hpj
            by_cases hjn : j = n
            · subst hjn; exact Nat.le_refl _
            · have := hm3 j (by omega) hpj; omega
          · refine ⟨m, by omega, hm2, ?_⟩
            intro j hj hpj
            by_cases hjn : j = n
            · subst hjn; omega
            · exact hm3 j (by omega) hpj
        · refine ⟨m, by omega, hm2, ?_⟩
          intro j hj hpj
          by_cases hjn : j = n
          · subst hjn; exact absurd hpj hpn
          · exact hm3 j (by omega) hpj
      · have hin : i = n := by
          apply Classical.byContradiction; intro hne
          exact hex ⟨i, by omega, hp⟩
        subst hin
        refine ⟨i, by omega, hp, ?_⟩
        intro j hj hpj
        by_cases hji : j = i
        · subst hji; exact Nat.le_refl _
        · exact absurd ⟨j, by omega, hpj⟩ hex

/-- **deadlock freedom under the rank discipline**: in every state in which locks are mutually
    exclusive and every thread follows the discipline (new locks only in increasing rank, waiting
    for other threads only while holding nothing, everything released at the end), some unfinished
    thread can take a step — for any number of threads, any programs, any interleaving reaching
    that state. -/
theorem C14.rank_deadlock_free (rank : Nat → Nat) (s : Sys) (hm : Mutex s) (hd : Disciplined rank s)
    (hu : ∃ (i : Nat) (th : Thread), s[i]? = some th ∧ th.prog ≠ []) : ∃ i, enabled s i = true := by
  apply Classical.byContradiction
  intro hno
  have hdis : ∀ i, enabled s i = false := by
    intro i
    cases h : enabled s i with
    | false => rfl
    | true => exact absurd ⟨i, h⟩ hno
  -- (1) nobody is blocked on a lock
  have hB : ¬ ∃ i, i < s.length ∧ (∃ th l p, s[i]? = some th ∧ th.prog = .acq l :: p) := by
    intro hex
    let f : Nat → Nat := fun i => match s[i]? with
      | some th => (match th.prog with | .acq l :: _ => rank l | _ => 0)
      | none => 0
    obtain ⟨i, hi, ⟨th, l, p, hth, hp⟩, hmax⟩ := exists_max (fun i => ∃ th l p, s[i]? = some th ∧ th.prog = .acq l :: p) f s.length hex
    have hfi : f i = rank l := by simp [f, hth, hp]
    have hen := hdis i
    unfold enabled at hen
    simp only [hth, hp, Bool.not_eq_false'] at hen
    obtain ⟨j, tj, hj, hji, hlj⟩ := heldByOther_true s i l hen
    have hjlt : j < s.length := (List.getElem?_eq_some_iff.mp hj).1
    have hdj := hd j tj hj
    cases hpj : tj.prog with
    | nil =>
        rw [hpj] at hdj
        simp only [progOK] at hdj
        rw [hdj] at hlj; cases hlj
    | cons st q =>
        rw [hpj] at hdj
        cases st with
        | acq l' =>
            rcases hdj.1 with hin | hrk
            · -- re-entrant: j already holds l', nobody else can, so j is enabled
              have hej := hdis j
              unfold enabled at hej
              simp only [hj, hpj, Bool.not_eq_false'] at hej
              obtain ⟨k, tk, hk, hkj, hlk⟩ := heldByOther_true s j l' hej
              exact hkj (hm k j tk tj l' hk hj hlk hin)
            · have h1 := hrk l hlj
              have h2 := hmax j hjlt ⟨tj, l', q, hj, hpj⟩
              have hfj : f j = rank l' := by simp [f, hj, hpj]
              omega
        | rel l' =>
            have hej := hdis j
            unfold enabled at hej
            simp [hj, hpj] at hej
        | wait t =>
            have := hdj.1
            rw [this] at hlj; cases hlj
  -- (2) so every unfinished thread waits for another thread; take the youngest
  obtain ⟨i0, th0, h0, hne0⟩ := hu
  have hi0 : i0 < s.length := (List.getElem?_eq_some_iff.mp h0).1
  obtain ⟨i, hi, ⟨th, hth, hne⟩, hmax⟩ :=
    exists_max (fun i => ∃ th, s[i]? = some th ∧ th.prog ≠ []) (fun i => i) s.length ⟨i0, hi0, th0, h0, hne0⟩
  have hdi := hd i th hth
  cases hp : th.prog with
  | nil => exact hne hp
  | cons st q =>
      cases st with
      | acq l => exact hB ⟨i, hi, th, l, q, hth, hp⟩
      | rel l =>
          have hen := hdis i
          unfold enabled at hen
          simp [hth, hp] at hen
      | wait t =>
          rw [hp] at hdi
          have hit := hdi.2.1
          have hen := hdis i
          unfold enabled at hen
          simp only [hth, hp] at hen
          unfold finished at hen
          cases ht : s[t]? with
          | none => simp [ht] at hen
          | some tt =>
              simp only [ht] at hen
              have hne' : tt.prog ≠ [] := by
                intro e; simp [e] at hen
              have htlt : t < s.length := (List.getElem?_eq_some_iff.mp ht).1
              have := hmax t htlt ⟨tt, ht, hne'⟩
              omega

/-! the lock classes of the threading scheduler (after the execution-lock / state-lock split):
    rank(exec lock of a job) < rank(registry lock) < rank(state lock of a job) < rank(timer lock) -/

/-- lock numbering: 0 = registry lock; for job k: 4k+1 = exec lock, 4k+2 = state lock, 4k+3 = timer locks -/
def lockRank (l : Nat) : Nat :=
  if l = 0 then 1 else match l % 4 with
    | 1 => 0      -- exec lock
    | 2 => 2      -- state lock
    | 3 => 3      -- timer lock
    | _ => 1

/-- a worker running job `k` whose callback calls `get_jobs` and prints the scheduler with jobs
    `a`, `b` registered: exec lock, then registry lock, then state and timer locks -/
example : progOK lockRank 1 [] [.acq 5, .acq 6, .rel 6, .acq 0, .rel 0, .acq 0, .acq 2, .acq 3, .rel 3, .rel 2, .acq 6, .rel 6, .rel 0, .rel 5] := by
  simp [progOK, lockRank]

/-- the caller of `exec_jobs`: registry lock around the priority collection (state + timer locks
    inside), nothing held while waiting for the workers (threads 1 and 2), then per job state lock and
    the registry lock one after the other -/
example : progOK lockRank 0 [] [.acq 0, .acq 2, .acq 3, .rel 3, .rel 2, .rel 0, .wait 1, .wait 2, .acq 2, .rel 2, .acq 0, .rel 0] := by
  simp [progOK, lockRank]


/-! ### linearizability: the decided Spec is the textbook statement, and what it implies -/

/-- **the Bool twin evaluated by the driver on every explored history is linearizability**: the
    memoised depth-first search answers `true` exactly when some total order of all atomic points
    respects real-time precedence and replays on the sequential registry machine `lApply` with the
    observed results and final registry (records are well-formed: a call returns after it was invoked) -/
theorem C14.linearizableB_iff (tags : List (Nat × List Nat)) (init final : List Nat) (rs : List LRec)
    (hwf : ∀ r ∈ rs, r.inv ≤ r.res) :
    linearizableB tags init final rs = true ↔ Linearizable tags init final rs := by
  rw [linearizableB_iff_Lin]
  exact Lin_iff tags final rs hwf _ _ List.nodup_range

theorem mem_insertSorted (x k : Nat) (l : List Nat) : k ∈ insertSorted x l ↔ k = x ∨ k ∈ l := by
  induction l with
  | nil => simp [insertSorted]
  | cons y ys ih =>
      simp only [insertSorted]
      split
      · simp
      · simp only [List.mem_cons, ih]
        constructor
        · rintro (h | h | h)
          · exact Or.inr (Or.inl h)
          · exact Or.inl h
          · exact Or.inr (Or.inr h)
        · rintro (h | h | h)
          · exact Or.inr (Or.inl h)
          · exact Or.inl h
          · exact Or.inr (Or.inr h)

theorem nodup_insertSorted (x : Nat) (l : List Nat) (hn : l.Nodup) (hx : x ∉ l) : (insertSorted x l).Nodup := by
  induction l with
  | nil => simp [insertSorted]
  | cons y ys ih =>
      simp only [insertSorted]
      split
      · exact List.nodup_cons.mpr ⟨hx, hn⟩
      · have hn' := List.nodup_cons.mp hn
        refine List.nodup_cons.mpr ⟨?_, ih hn'.2 (fun h => hx (by simp [h]))⟩
        rw [mem_insertSorted]
        rintro (h | h)
        · exact hx (by simp [h])
        · exact hn'.1 h

/-- a point of the sequential machine keeps the registry duplicate-free -/
theorem lApply_nodup (tags : List (Nat × List Nat)) (s s' : LState) (op : LOp)
    (h : lApply tags s op = some s') (hn : s.reg.Nodup) : s'.reg.Nodup := by
  cases op with
  | sched k registered =>
      simp only [lApply] at h
      split at h
      · cases h
      · rename_i hc
        cases registered with
        | true => simp only [if_true] at h; cases h; exact nodup_insertSorted k _ hn (by simpa using hc)
        | false => simp only [Bool.false_eq_true, if_false] at h; cases h; exact hn
  | del k ok =>
      simp only [lApply] at h
      split at h
      · split at h
        · cases h; exact hn.erase k
        · cases h
      · split at h
        · cases h
        · cases h; exact hn
  | dtags q any n =>
      simp only [lApply] at h
      split at h
      · cases h; exact hn.sublist List.filter_sublist
      · cases h
  | get q any res => simp only [lApply] at h; split at h <;> cases h; exact hn
  | jobs res => simp only [lApply] at h; split at h <;> cases h; exact hn
  | str n => simp only [lApply] at h; split at h <;> cases h; exact hn
  | execSel id batch force =>
      simp only [lApply] at h
      split at h
      · cases h
      · split at h
        · cases h; exact hn
        · cases h
  | execFin id retire =>
      simp only [lApply] at h
      split at h
      · cases h; exact hn.sublist List.filter_sublist
      · cases h

/-- only a scheduling call of `k` itself can put `k` into the registry -/
theorem lApply_not_mem (tags : List (Nat × List Nat)) (s s' : LState) (op : LOp)
    (h : lApply tags s op = some s') (k : Nat) (hk : k ∉ s.reg) (hop : ∀ b, op ≠ .sched k b) :
    k ∉ s'.reg := by
  cases op with
  | sched k' registered =>
      simp only [lApply] at h
      split at h
      · cases h
      · cases registered with
        | true =>
            simp only [if_true] at h; cases h
            simp only [mem_insertSorted]
            rintro (e | e)
            · exact hop true (by rw [e])
            · exact hk e
        | false => simp only [Bool.false_eq_true, if_false] at h; cases h; exact hk
  | del k' ok =>
      simp only [lApply] at h
      split at h
      · split at h
        · cases h; exact fun hc => hk (List.mem_of_mem_erase hc)
        · cases h
      · split at h
        · cases h
        · cases h; exact hk
  | dtags q any n =>
      simp only [lApply] at h
      split at h
      · cases h; exact fun hc => hk (List.mem_filter.mp hc).1
      · cases h
  | get q any res => simp only [lApply] at h; split at h <;> cases h; exact hk
  | jobs res => simp only [lApply] at h; split at h <;> cases h; exact hk
  | str n => simp only [lApply] at h; split at h <;> cases h; exact hk
  | execSel id batch force =>
      simp only [lApply] at h
      split at h
      · cases h
      · split at h
        · cases h; exact hk
        · cases h
  | execFin id retire =>
      simp only [lApply] at h
      split at h
      · cases h; exact fun hc => hk (List.mem_filter.mp hc).1
      · cases h

/-- while `k` is out of the registry and is not scheduled again, no `exec_jobs` call chooses it -/
theorem replay_absent_not_chosen (tags : List (Nat × List Nat)) (final : List Nat) (rs : List LRec) (k : Nat) :
    ∀ (ord : List Nat) (s : LState), k ∉ s.reg → Replay tags final rs s ord →
      (∀ i ∈ ord, ∀ r, rs[i]? = some r → ∀ b, r.op ≠ .sched k b) →
      ∀ e ∈ ord, ∀ re, rs[e]? = some re → ∀ id batch force, re.op = .execSel id batch force → k ∉ batch := by
  intro ord
  induction ord with
  | nil => intro s _ _ _ e he; cases he
  | cons i ord ih =>
      intro s hk hrep hns e he re hre id batch force hop
      obtain ⟨r, s', hr, ha, hrep'⟩ := hrep
      rcases List.mem_cons.mp he with e1 | e1
      · subst e1
        have : re = r := by rw [hr] at hre; exact (Option.some.inj hre).symm
        subst this
        rw [hop] at ha
        simp only [lApply] at ha
        split at ha
        · cases ha
        · split at ha
          · rename_i hb
            intro hkb
            have hb1 := (Bool.and_eq_true _ _).mp hb |>.1
            have := List.all_eq_true.mp hb1 k hkb
            exact hk (by simpa using this)
          · cases ha
      · have hk' := lApply_not_mem tags s s' r.op ha k hk (hns i (by simp) r hr)
        exact ih s' hk' hrep' (fun j hj => hns j (by simp [hj])) e e1 re hre id batch force hop

/-- **a deleted job is never chosen by an `exec_jobs` call that started after the deletion returned**
    (and, not being scheduled again, never resurrected): in every linearizable history, if
    `delete_job(k)` returned before `exec_jobs` call `e` was invoked, then `k` is not in `e`'s batch -/
theorem C14.deleted_not_chosen (tags : List (Nat × List Nat)) (init final : List Nat) (rs : List LRec)
    (hinit : (sortKeys init).Nodup)
    (hlin : Linearizable tags init final rs) (k d e : Nat) (rd re : LRec)
    (hd : rs[d]? = some rd) (he : rs[e]? = some re) (hdel : rd.op = .del k true)
    (id : Nat) (batch : List Nat) (force : Bool) (hsel : re.op = .execSel id batch force)
    (hrt : rd.res < re.inv)
    (hns : ∀ (i : Nat) (r : LRec), rs[i]? = some r → ∀ b, r.op ≠ LOp.sched k b) : k ∉ batch := by
  obtain ⟨ord, hp, hrtp, hrep⟩ := hlin
  have hdm : d ∈ ord := hp.mem_iff.mpr (List.mem_range.mpr (by
    have := List.getElem?_eq_some_iff.mp hd; exact this.1))
  have hem : e ∈ ord := hp.mem_iff.mpr (List.mem_range.mpr (by
    have := List.getElem?_eq_some_iff.mp he; exact this.1))
  -- generalise over the replay
  have key : ∀ (ord : List Nat) (s : LState), s.reg.Nodup → RespectsRT rs ord → Replay tags final rs s ord →
      d ∈ ord → e ∈ ord → k ∉ batch := by
    intro ord
    induction ord with
    | nil => intro s _ _ _ hd' _; cases hd'
    | cons i ord ih =>
        intro s hn hrt' hrep hd' he'
        obtain ⟨r, s', hr, ha, hrep'⟩ := hrep
        have hpw := List.pairwise_cons.mp hrt'
        by_cases hid : i = d
        · subst hid
          have : r = rd := by rw [hd] at hr; exact (Option.some.inj hr).symm
          subst this
          have hne : e ≠ i := by
            intro hee; subst hee
            rw [hd] at he
            have : r = re := Option.some.inj he
            subst this
            rw [hdel] at hsel; cases hsel
          have heo : e ∈ ord := by
            rcases List.mem_cons.mp he' with h | h
            · exact absurd h hne
            · exact h
          -- after the deletion `k` is out
          have hk' : k ∉ s'.reg := by
            rw [hdel] at ha
            simp only [lApply, if_true] at ha
            split at ha
            · cases ha
              exact fun hc => (List.Nodup.mem_erase_iff hn).mp hc |>.1 rfl
            · cases ha
          exact replay_absent_not_chosen tags final rs k ord s' hk' hrep'
            (fun j _ r' hr' => hns j r' hr') e heo re he id batch force hsel
        · by_cases hie : i = e
          · subst hie
            have hdo : d ∈ ord := by
              rcases List.mem_cons.mp hd' with h | h
              · exact absurd h.symm hid
              · exact h
            exact absurd hrt (hpw.1 d hdo re rd he hd)
          · have hdo : d ∈ ord := by
              rcases List.mem_cons.mp hd' with h | h
              · exact absurd h.symm hid
              · exact h
            have heo : e ∈ ord := by
              rcases List.mem_cons.mp he' with h | h
              · exact absurd h.symm hie
              · exact h
            exact ih s' (lApply_nodup tags s s' r.op ha hn) hpw.2 hrep' hdo heo
  exact key ord _ hinit hrtp hrep hdm hem


/-- the atomic points that can take `k` out of the registry -/
def removesKey (tags : List (Nat × List Nat)) (k : Nat) : LOp → Bool
  | .del k' ok => ok && k' == k
  | .dtags q any _ => q.isEmpty || tagMatch q ((tags.lookup k).getD []) any
  | .execFin _ retire => retire.contains k
  | _ => false

theorem lApply_keeps (tags : List (Nat × List Nat)) (s s' : LState) (op : LOp)
    (h : lApply tags s op = some s') (k : Nat) (hk : k ∈ s.reg) (hop : removesKey tags k op = false) :
    k ∈ s'.reg := by
  cases op with
  | sched k' registered =>
      simp only [lApply] at h
      split at h
      · cases h
      · cases registered with
        | true => simp only [if_true] at h; cases h; exact (mem_insertSorted k' k _).mpr (Or.inr hk)
        | false => simp only [Bool.false_eq_true, if_false] at h; cases h; exact hk
  | del k' ok =>
      simp only [lApply] at h
      split at h
      · rename_i hok
        split at h
        · cases h
          have hne : k ≠ k' := by
            intro e
            simp [removesKey, hok, e] at hop
          exact (List.mem_erase_of_ne hne).mpr hk
        · cases h
      · split at h
        · cases h
        · cases h; exact hk
  | dtags q any n =>
      simp only [lApply] at h
      split at h
      · cases h
        simp only [removesKey, Bool.or_eq_false_iff] at hop
        refine List.mem_filter.mpr ⟨hk, ?_⟩
        simp only [lSelect, hop.1, Bool.false_eq_true, if_false, Bool.not_eq_true', List.contains_eq_mem,
          decide_eq_false_iff_not, List.mem_filter, not_and]
        intro _
        simp [hop.2]
      · cases h
  | get q any res => simp only [lApply] at h; split at h <;> cases h; exact hk
  | jobs res => simp only [lApply] at h; split at h <;> cases h; exact hk
  | str n => simp only [lApply] at h; split at h <;> cases h; exact hk
  | execSel id batch force =>
      simp only [lApply] at h
      split at h
      · cases h
      · split at h
        · cases h; exact hk
        · cases h
  | execFin id retire =>
      simp only [lApply] at h
      split at h
      · cases h
        refine List.mem_filter.mpr ⟨hk, ?_⟩
        simpa [removesKey] using hop
      · cases h

/-- **a registered job is never lost**: in every linearizable history a job that was registered
    at the beginning and that no completed call removed (no successful `delete_job` of it, no
    `delete_jobs` whose tags select it, no `exec_jobs` finish point retiring it) is in the final
    registry -/
theorem C14.registered_not_lost (tags : List (Nat × List Nat)) (init final : List Nat) (rs : List LRec)
    (hlin : Linearizable tags init final rs) (k : Nat) (hk : k ∈ sortKeys init)
    (hkeep : ∀ r ∈ rs, removesKey tags k r.op = false) : k ∈ final := by
  obtain ⟨ord, _, _, hrep⟩ := hlin
  have key : ∀ (ord : List Nat) (s : LState), k ∈ s.reg → Replay tags final rs s ord → k ∈ final := by
    intro ord
    induction ord with
    | nil => intro s hk h; exact h ▸ hk
    | cons i ord ih =>
        intro s hk hrep
        obtain ⟨r, s', hr, ha, hrep'⟩ := hrep
        exact ih s' (lApply_keeps tags s s' r.op ha k hk (hkeep r (List.mem_of_getElem? hr))) hrep'
  exact key ord _ hk hrep

/-! ### every interleaving of atomic points is linearizable -/

/-- **all interleavings**: take any global trace of invocations, atomic points and returns in which
    every record of the history comes from exactly one atomic point lying between the invocation and
    the return of its call (`Generated`; `exec_jobs` has several points: choosing the batch, then one
    per job it ran), and in which every point computes its result from the registry the previous
    point left behind (`Replay` along the trace - this is what holding the registry lock for the whole
    point gives, `C14.mutex`).  Then the history is linearizable, whatever the interleaving, the
    number of threads or of calls: the order of the atomic points is a witness. -/
theorem C14.atomic_points_linearizable (tags : List (Nat × List Nat)) (init final : List Nat)
    (rs : List LRec) (tr : List Ev) (hg : Generated rs tr)
    (hrun : Replay tags final rs { reg := sortKeys init, selected := [] } (ptOrder tr)) :
    Linearizable tags init final rs :=
  ⟨ptOrder tr, hg.perm, ptOrder_respectsRT rs tr hg, hrun⟩

/-- and is therefore accepted by the search the driver runs on the observed histories -/
theorem C14.atomic_points_accepted (tags : List (Nat × List Nat)) (init final : List Nat)
    (rs : List LRec) (tr : List Ev) (hg : Generated rs tr)
    (hrun : Replay tags final rs { reg := sortKeys init, selected := [] } (ptOrder tr)) :
    linearizableB tags init final rs = true := by
  rw [C14.linearizableB_iff]
  · exact C14.atomic_points_linearizable tags init final rs tr hg hrun
  · intro r hr
    obtain ⟨i, hi, rfl⟩ := List.getElem_of_mem hr
    have hmem : i ∈ ptOrder tr := hg.perm.mem_iff.mpr (List.mem_range.mpr hi)
    obtain ⟨⟨p, i'⟩, hp, rfl⟩ := List.mem_map.mp hmem
    obtain ⟨_, c, hc⟩ := ptPos_mem tr 0 p i' hp
    simp only [Nat.sub_zero] at hc
    obtain ⟨r', a, b, hr', ha, hb, _, _, hia, hib⟩ := hg.inside p c i' hc
    have : rs[i'] = r' := by
      have := List.getElem?_eq_getElem hi
      rw [this] at hr'; exact Option.some.inj hr'
    rw [this]; omega

/-! non-vacuity: thread A deletes job 0 while thread B reads the job list; B's point comes second -/
example : Generated
    [{ op := .del 0 true, inv := 0, res := 5 }, { op := .jobs [1], inv := 1, res := 4 }]
    [.inv 0, .inv 1, .pt 0 0, .pt 1 1, .ret 1, .ret 0] := by
  refine ⟨by decide, ?_⟩
  intro p c i h
  match p, h with
  | 2, h => cases h; exact ⟨_, 0, 5, rfl, by omega, by omega, rfl, rfl, rfl, rfl⟩
  | 3, h => cases h; exact ⟨_, 1, 4, rfl, by omega, by omega, rfl, rfl, rfl, rfl⟩
  | 0, h => cases h
  | 1, h => cases h
  | 4, h => cases h
  | 5, h => cases h
  | n+6, h => simp at h

/-! non-vacuity: two overlapping calls, `delete_job(0)` succeeded and `jobs` returned `[1]`; the
    history is linearizable (delete first), hence accepted by the search -/
example : Linearizable [] [0, 1] [1]
    [{ op := .del 0 true, inv := 0, res := 5 }, { op := .jobs [1], inv := 1, res := 4 }] := by
  refine ⟨[0, 1], List.Perm.refl _, ?_, ?_⟩
  · simp [RespectsRT]
  · exact ⟨_, _, rfl, rfl, _, _, rfl, rfl, rfl⟩

example : linearizableB [] [0, 1] [1]
    [{ op := .del 0 true, inv := 0, res := 5 }, { op := .jobs [1], inv := 1, res := 4 }] = true := by
  rw [C14.linearizableB_iff _ _ _ _ (by simp)]
  refine ⟨[0, 1], List.Perm.refl _, ?_, ?_⟩
  · simp [RespectsRT]
  · exact ⟨_, _, rfl, rfl, _, _, rfl, rfl, rfl⟩

/-! ### lock-protected read-compute-write sections ARE atomic points (reduction)

  `atomic_points_linearizable` assumes that every record is computed at one point from the registry
  the previous point left.  The code does not work like that: `delete_jobs` evaluates `self.__jobs`
  twice and rebinds it, `__schedule` reads and adds, a worker reads `attempts` and stores
  `attempts + 1` - several bytecodes, with thread switches possible between any two of them.  The L3
  machine (Model/Conc/Shared.lean) executes exactly that: reads into thread-local buffers, a later
  commit computed from the BUFFERED values.  The theorems below show that, for any number of threads,
  any programs and any schedule, as long as every program takes the lock around its reads-for-update
  and writes (`progOK`), the machine cannot be told apart from the one in which each commit reads the
  shared value at the moment it commits - so each section is one atomic point, and a whole run is the
  sequential execution of its points in the order of their commits. -/

open SV.L3 in
/-- a system in which nobody holds the lock and every program follows the discipline satisfies the
    invariant (the initial state of every run) -/
theorem C14.locked_initial {σ ο : Type} (x : σ) (thr : List (L3.Thread σ ο))
    (h : ∀ th ∈ thr, L3.progOK false th.prog) : L3.Inv { st := x, owner := none, thr := thr } := by
  constructor
  · intro j th hj
    have hm : th ∈ thr := List.mem_of_getElem? hj
    simpa using h th hm
  · intro i th ho; cases ho

/-- **no lost update, no torn read**: for every schedule, the machine that computes each write from
    the values it read earlier (as the code does) ends in the same state - shared value, lock, every
    thread's remaining program and outputs - as the machine in which each write is computed from the
    shared value at the instant of the write -/
theorem C14.locked_sections_atomic {σ ο : Type} (s : L3.Sys σ ο) (hI : L3.Inv s) (sched : List Nat) :
    L3.run sched s = L3.runA sched s := L3.run_eq_runA sched s hI

/-- **a run is the sequential execution of its atomic points** (whole locked sections and single
    unlocked reads) in the order in which they were committed: final shared value and, thread by
    thread, every result returned -/
theorem C14.locked_sections_sequential {σ ο : Type} (s : L3.Sys σ ο) (hI : L3.Inv s) (sched : List Nat) :
    (L3.run sched s).st = (L3.seqRun s.st (L3.events sched s)).1 ∧
    ∀ j, L3.outsOf (L3.run sched s) j = L3.outsOf s j ++ L3.outsFor j (L3.seqRun s.st (L3.events sched s)).2 :=
  L3.run_eq_seq sched s hI

/-- the invariant (hence both statements) holds in every reachable state -/
theorem C14.locked_invariant_reachable {σ ο : Type} (s : L3.Sys σ ο) (hI : L3.Inv s) (sched : List Nat) :
    L3.Inv (L3.run sched s) := L3.run_inv sched s hI

/-! non-vacuity, and what the discipline is needed for.  Shared value = list of job keys.
    `delLike k` = `delete_jobs`-style read-modify-write "remove k": read the set, compute set − {k}
    from what was read, rebind.  With the lock the interleaving [0,1,0,1,…] removes both keys; the
    same two programs WITHOUT acq/rel lose one update under the same schedule (thread 1 writes back
    what it read before thread 0's write). -/
def delLike (k : Nat) : L3.Step (List Nat) Nat :=
  .commit (fun bufs => ((bufs.headD []).filter (· != k), 0))

def lockedDel (k : Nat) : L3.Thread (List Nat) Nat := { prog := [.acq, .snap, delLike k, .rel], buf := [], outs := [] }
def rawDel (k : Nat) : L3.Thread (List Nat) Nat := { prog := [.snap, delLike k], buf := [], outs := [] }

example : L3.Inv ({ st := [1, 2, 3], owner := none, thr := [lockedDel 1, lockedDel 2] } : L3.Sys (List Nat) Nat) :=
  C14.locked_initial _ _ (by intro th h; simp at h; rcases h with rfl | rfl <;> simp [lockedDel, L3.progOK, delLike])

example : (L3.run [0, 1, 0, 1, 0, 1, 0, 1, 1, 1, 1] ({ st := [1, 2, 3], owner := none, thr := [lockedDel 1, lockedDel 2] } : L3.Sys (List Nat) Nat)).st = [3] := by
  decide

/-- the lost update the discipline excludes: both threads read [1,2,3]; thread 0 writes [2,3];
    thread 1 writes back [1,3] computed from its stale read -/
example : (L3.run [0, 1, 0, 1] ({ st := [1, 2, 3], owner := none, thr := [rawDel 1, rawDel 2] } : L3.Sys (List Nat) Nat)).st = [1, 3] := by
  decide

example : (L3.runA [0, 1, 0, 1] ({ st := [1, 2, 3], owner := none, thr := [rawDel 1, rawDel 2] } : L3.Sys (List Nat) Nat)).st = [3] := by
  decide

/-! ### never beyond the attempt budget, for every interleaving of overlapping callers

  `Job._exec` (after the repair of D5) runs under the job's execution lock: it reads
  `has_attempts_remaining`, and only if the budget allows runs the callback and books the run.  As an
  L3 program over the shared attempts counter: `acq; snap; commit (guardedRun M); rel`.  Any number of
  workers of any number of overlapping `exec_jobs` calls may execute such sections for the same job,
  interleaved with reads of the counter from anywhere (`peek`).  Whatever the schedule, the counter
  never exceeds the budget. -/

/-- the booked run: computed from the value READ under the lock -/
def guardedRun (M : Nat) : List Nat → Nat × Bool
  | [] => (0, false)                      -- unreachable: `noBareCommit` below (a commit always follows a read)
  | a :: _ => if a < M then (a + 1, true) else (a, false)

/-- every commit of the program is preceded, inside its section, by at least one read -/
def noBareCommit : Bool → List (L3.Step Nat Bool) → Prop
  | _, [] => True
  | _, .snap :: p => noBareCommit true p
  | b, .commit _ :: p => b = true ∧ noBareCommit false p
  | _, .acq :: p => noBareCommit false p
  | _, .rel :: p => noBareCommit false p
  | b, .peek _ :: p => noBareCommit b p

/-- all commits of the program are `guardedRun M` -/
def onlyGuarded (M : Nat) : List (L3.Step Nat Bool) → Prop
  | [] => True
  | .commit f :: p => f = guardedRun M ∧ onlyGuarded M p
  | _ :: p => onlyGuarded M p

structure BudgetInv (M : Nat) (s : L3.Sys Nat Bool) : Prop where
  bound : s.st ≤ M
  shape : ∀ (i : Nat) (th : L3.Thread Nat Bool), s.thr[i]? = some th → noBareCommit (!th.buf.isEmpty) th.prog ∧ onlyGuarded M th.prog

theorem budget_stepA (M : Nat) (s : L3.Sys Nat Bool) (hB : BudgetInv M s) (i : Nat) :
    BudgetInv M (L3.stepA s i) := by
  unfold L3.stepA
  cases hth : s.thr[i]? with
  | none => exact hB
  | some th =>
      simp only []
      obtain ⟨hnb, hog⟩ := hB.shape i th hth
      have hset : ∀ (t : L3.Thread Nat Bool) (j : Nat) (tj : L3.Thread Nat Bool),
          (s.thr.set i t)[j]? = some tj → (j = i ∧ tj = t) ∨ (j ≠ i ∧ s.thr[j]? = some tj) := by
        intro t j tj h
        rw [L3.getElem?_set_thr _ _ _ _ _ hth] at h
        by_cases hij : i = j
        · subst hij; simp only [if_true, Option.some.injEq] at h; exact Or.inl ⟨rfl, h.symm⟩
        · simp only [hij, if_false] at h; exact Or.inr ⟨fun e => hij e.symm, h⟩
      cases hp : th.prog with
      | nil => simp only [L3.step, hth, hp]; exact hB
      | cons stp p =>
          rw [hp] at hnb hog
          cases stp with
          | commit f =>
              simp only []
              obtain ⟨hb, hnb'⟩ := hnb
              obtain ⟨hf, hog'⟩ := hog
              have hlen : th.buf.length ≠ 0 := by
                intro h0
                have : th.buf = [] := List.length_eq_zero_iff.mp h0
                simp [this] at hb
              constructor
              · show (f (List.replicate th.buf.length s.st)).1 ≤ M
                obtain ⟨k, hk⟩ := Nat.exists_eq_succ_of_ne_zero hlen
                rw [hf, hk, List.replicate_succ]
                simp only [guardedRun]
                have := hB.bound
                split <;> simp <;> omega
              · intro j tj hj
                rcases hset _ j tj hj with ⟨_, rfl⟩ | ⟨_, h⟩
                · exact ⟨by simpa using hnb', hog'⟩
                · exact hB.shape j tj h
          | acq =>
              simp only [L3.step, hth, hp]
              refine ⟨hB.bound, ?_⟩
              intro j tj hj
              rcases hset _ j tj hj with ⟨_, rfl⟩ | ⟨_, h⟩
              · exact ⟨by simpa [noBareCommit] using hnb, by simpa [onlyGuarded] using hog⟩
              · exact hB.shape j tj h
          | rel =>
              simp only [L3.step, hth, hp]
              refine ⟨hB.bound, ?_⟩
              intro j tj hj
              rcases hset _ j tj hj with ⟨_, rfl⟩ | ⟨_, h⟩
              · exact ⟨by simpa [noBareCommit] using hnb, by simpa [onlyGuarded] using hog⟩
              · exact hB.shape j tj h
          | snap =>
              simp only [L3.step, hth, hp]
              refine ⟨hB.bound, ?_⟩
              intro j tj hj
              rcases hset _ j tj hj with ⟨_, rfl⟩ | ⟨_, h⟩
              · have hne : (!(th.buf ++ [s.st]).isEmpty) = true := by simp
                refine ⟨?_, by simpa [onlyGuarded] using hog⟩
                show noBareCommit (!(th.buf ++ [s.st]).isEmpty) p
                rw [hne]
                simpa [noBareCommit] using hnb
              · exact hB.shape j tj h
          | peek g =>
              simp only [L3.step, hth, hp]
              refine ⟨hB.bound, ?_⟩
              intro j tj hj
              rcases hset _ j tj hj with ⟨_, rfl⟩ | ⟨_, h⟩
              · exact ⟨by simpa [noBareCommit] using hnb, by simpa [onlyGuarded] using hog⟩
              · exact hB.shape j tj h

theorem budget_runA (M : Nat) (sched : List Nat) (s : L3.Sys Nat Bool) (hB : BudgetInv M s) :
    BudgetInv M (L3.runA sched s) := by
  induction sched generalizing s with
  | nil => exact hB
  | cons i rest ih =>
      simp only [L3.runA, List.foldl_cons]
      by_cases he : L3.enabled s i = true
      · simp only [he, if_true]; exact ih _ (budget_stepA M s hB i)
      · simp only [he]; exact ih _ hB

/-- **never beyond the attempt budget**: any number of threads, each executing any number of
    `_exec` sections (read the budget under the execution lock, run and book only if it allows) and
    unlocked reads of the counter, under ANY schedule of their individual steps - the counter the
    code computes from its buffered reads never exceeds the budget -/
theorem C14.budget_under_overlapping_callers (M : Nat) (s : L3.Sys Nat Bool) (hI : L3.Inv s)
    (hB : BudgetInv M s) (sched : List Nat) : (L3.run sched s).st ≤ M := by
  rw [C14.locked_sections_atomic s hI sched]
  exact (budget_runA M sched s hB).bound

/-! … and the counter equals the number of callbacks that actually ran: every booked run is one
    invocation and vice versa ("attempts counts invocations"), for every schedule -/

def trues (th : L3.Thread Nat Bool) : Nat := th.outs.count true
def trueCount (s : L3.Sys Nat Bool) : Nat := (s.thr.map trues).sum

theorem sum_map_set (f : L3.Thread Nat Bool → Nat) :
    ∀ (l : List (L3.Thread Nat Bool)) (i : Nat) (th t' : L3.Thread Nat Bool), l[i]? = some th →
      ((l.set i t').map f).sum + f th = (l.map f).sum + f t' := by
  intro l
  induction l with
  | nil => intro i th t' h; simp at h
  | cons x xs ih =>
      intro i th t' h
      cases i with
      | zero =>
          simp only [List.getElem?_cons_zero, Option.some.injEq] at h
          subst h
          simp only [List.set_cons_zero, List.map_cons, List.sum_cons]; omega
      | succ n =>
          simp only [List.getElem?_cons_succ] at h
          have := ih n th t' h
          simp only [List.set_cons_succ, List.map_cons, List.sum_cons]; omega

/-- no unlocked reads that would also write an output (the counting theorem is about `_exec` sections only) -/
def noPeek : List (L3.Step Nat Bool) → Prop
  | [] => True
  | .peek _ :: _ => False
  | _ :: p => noPeek p

structure CountInv (M d : Nat) (s : L3.Sys Nat Bool) : Prop where
  base : BudgetInv M s
  count : s.st = d + trueCount s
  nopeek : ∀ (i : Nat) (th : L3.Thread Nat Bool), s.thr[i]? = some th → noPeek th.prog

theorem count_stepA (M d : Nat) (s : L3.Sys Nat Bool) (h : CountInv M d s) (i : Nat) : CountInv M d (L3.stepA s i) := by
  have hbase := budget_stepA M s h.base i
  refine ⟨hbase, ?_, ?_⟩
  all_goals
    unfold L3.stepA
    cases hth : s.thr[i]? with
    | none => first | exact h.count | exact h.nopeek
    | some th =>
        simp only []
        have hnp := h.nopeek i th hth
        obtain ⟨hnb, hog⟩ := h.base.shape i th hth
        cases hp : th.prog with
        | nil => simp only [L3.step, hth, hp]; first | exact h.count | exact h.nopeek
        | cons stp p =>
            rw [hp] at hnp hnb hog
            cases stp with
            | peek g => exact absurd hnp (by simp [noPeek])
            | commit f =>
                simp only []
                obtain ⟨hb, _⟩ := hnb
                obtain ⟨hf, _⟩ := hog
                have hlen : th.buf.length ≠ 0 := by
                  intro h0
                  have : th.buf = [] := List.length_eq_zero_iff.mp h0
                  simp [this] at hb
                obtain ⟨k, hk⟩ := Nat.exists_eq_succ_of_ne_zero hlen
                first
                | -- count
                  show (f (List.replicate th.buf.length s.st)).1 = d + trueCount { s with st := _, thr := s.thr.set i _ }
                  have hs := sum_map_set trues s.thr i th { th with prog := p, buf := [], outs := th.outs ++ [(f (List.replicate th.buf.length s.st)).2] } hth
                  have hc := h.count
                  unfold trueCount at hc ⊢
                  simp only [] at hs ⊢
                  rw [hf, hk, List.replicate_succ] at hs ⊢
                  simp only [guardedRun] at hs ⊢
                  by_cases hlt : s.st < M
                  · simp only [hlt, if_true, trues, List.count_append, List.count_singleton, BEq.rfl, if_true] at hs ⊢
                    omega
                  · simp only [hlt, if_false, trues, List.count_append, List.count_singleton] at hs ⊢
                    simp at hs ⊢
                    omega
                | -- nopeek
                  intro j tj hj
                  rw [L3.getElem?_set_thr _ _ _ _ _ hth] at hj
                  by_cases hij : i = j
                  · subst hij; simp only [if_true, Option.some.injEq] at hj; subst hj
                    simpa [noPeek] using hnp
                  · simp only [hij, if_false] at hj; exact h.nopeek j tj hj
            | acq =>
                simp only [L3.step, hth, hp]
                first
                | (have hs := sum_map_set trues s.thr i th { th with prog := p, buf := [] } hth
                   have hc := h.count
                   unfold trueCount at hc ⊢
                   simp only [trues] at hs ⊢
                   omega)
                | (intro j tj hj
                   rw [L3.getElem?_set_thr _ _ _ _ _ hth] at hj
                   by_cases hij : i = j
                   · subst hij; simp only [if_true, Option.some.injEq] at hj; subst hj; simpa [noPeek] using hnp
                   · simp only [hij, if_false] at hj; exact h.nopeek j tj hj)
            | rel =>
                simp only [L3.step, hth, hp]
                first
                | (have hs := sum_map_set trues s.thr i th { th with prog := p, buf := [] } hth
                   have hc := h.count
                   unfold trueCount at hc ⊢
                   simp only [trues] at hs ⊢
                   omega)
                | (intro j tj hj
                   rw [L3.getElem?_set_thr _ _ _ _ _ hth] at hj
                   by_cases hij : i = j
                   · subst hij; simp only [if_true, Option.some.injEq] at hj; subst hj; simpa [noPeek] using hnp
                   · simp only [hij, if_false] at hj; exact h.nopeek j tj hj)
            | snap =>
                simp only [L3.step, hth, hp]
                first
                | (have hs := sum_map_set trues s.thr i th { th with prog := p, buf := th.buf ++ [s.st] } hth
                   have hc := h.count
                   unfold trueCount at hc ⊢
                   simp only [trues] at hs ⊢
                   omega)
                | (intro j tj hj
                   rw [L3.getElem?_set_thr _ _ _ _ _ hth] at hj
                   by_cases hij : i = j
                   · subst hij; simp only [if_true, Option.some.injEq] at hj; subst hj; simpa [noPeek] using hnp
                   · simp only [hij, if_false] at hj; exact h.nopeek j tj hj)

theorem count_runA (M d : Nat) (sched : List Nat) (s : L3.Sys Nat Bool) (h : CountInv M d s) :
    CountInv M d (L3.runA sched s) := by
  induction sched generalizing s with
  | nil => exact h
  | cons i rest ih =>
      simp only [L3.runA, List.foldl_cons]
      by_cases he : L3.enabled s i = true
      · simp only [he, if_true]; exact ih _ (count_stepA M d s h i)
      · simp only [he]; exact ih _ h

/-- **attempts = invocations, under every interleaving of overlapping callers**: the counter the code
    computes equals its initial offset plus the number of `_exec` sections that reported "callback
    ran" - no run is booked twice, none is lost -/
theorem C14.attempts_equal_invocations_under_overlapping_callers (M d : Nat) (s : L3.Sys Nat Bool)
    (hI : L3.Inv s) (hC : CountInv M d s) (sched : List Nat) :
    (L3.run sched s).st = d + trueCount (L3.run sched s) := by
  rw [C14.locked_sections_atomic s hI sched]
  exact (count_runA M d sched s hC).count

/-- the `_exec` section -/
def execSection (M : Nat) : List (L3.Step Nat Bool) := [.acq, .snap, .commit (guardedRun M), .rel]

/-! non-vacuity: three workers of overlapping callers run a one-shot (budget 1); and what the lock is
    for - the same read / book steps without it let two workers both run the job (defect D5) -/
example : L3.Inv ({ st := 0, owner := none, thr := [⟨execSection 1, [], []⟩, ⟨execSection 1 ++ execSection 1, [], []⟩, ⟨execSection 1, [], []⟩] } : L3.Sys Nat Bool)
    ∧ BudgetInv 1 ({ st := 0, owner := none, thr := [⟨execSection 1, [], []⟩, ⟨execSection 1 ++ execSection 1, [], []⟩, ⟨execSection 1, [], []⟩] } : L3.Sys Nat Bool) := by
  constructor
  · apply C14.locked_initial
    intro th h
    simp at h
    rcases h with rfl | rfl | rfl <;> simp [execSection, L3.progOK]
  · refine ⟨by decide, ?_⟩
    intro i th h
    match i, h with
    | 0, h => cases h; simp [execSection, noBareCommit, onlyGuarded]
    | 1, h => cases h; simp [execSection, noBareCommit, onlyGuarded]
    | 2, h => cases h; simp [execSection, noBareCommit, onlyGuarded]
    | n+3, h => simp at h

def rawExec (M : Nat) : L3.Thread Nat Bool := { prog := [.snap, .commit (guardedRun M)], buf := [], outs := [] }

example : (L3.run [0, 1, 0, 1] ({ st := 0, owner := none, thr := [rawExec 1, rawExec 1] } : L3.Sys Nat Bool)).thr.map (·.outs)
    = [[true], [true]] := by decide

end SV
