/-
  Props/C03.lean — cyclic jobs keep the drift-free cadence start + k·interval; one-shots are exact.
-/
import SchedVerif.Lemmas.Job
import SchedVerif.Model.Sched
namespace SV

/-- one execution of a job at poll reference `ref`: the callback runs (outcome `raises`), then the
    job is rescheduled — exactly what `exec_jobs` / the asyncio supervisor do to a selected job -/
def Job.run (j : Job) (ref : DT) (raises : Bool := false) : Job := (j.exec1 raises).calcNext ref

/-- execute the job once per poll, at arbitrary poll instants, collecting the due instant each
    invocation belonged to -/
def Job.runs : Job → List DT → Job × List Int
  | j, [] => (j, [])
  | j, r :: rs => let p := Job.runs (j.run r) rs; (p.1, j.due.inst :: p.2)

/-- shape of a (non-skipping) cyclic job after `n` executions -/
structure CycShape (j : Job) (T : Int) (s : DT) (n : Nat) : Prop where
  timers : ∃ tm : Timer, j.timers = [tm] ∧ tm.timing = .cyclic T ∧ tm.skip = false ∧
      tm.next.inst = s.inst + (if j.delay then (n + 1 : Int) else (if n = 0 then 1 else (n : Int))) * T
  pending : j.pending = 0
  skip : j.skip = false
  att : j.attempts = n
  start : j.start = s

theorem CycShape.build (T : Int) (s : DT) (stop : Option DT) (delay : Bool) (m : Int) :
    CycShape (Job.build [.cyclic T] s stop delay false m) T s 0 := by
  refine ⟨⟨Timer.init (.cyclic T) s false, rfl, rfl, rfl, ?_⟩, rfl, rfl, rfl, rfl⟩
  cases delay <;> simp [Timer.init, Timer.calcNext, DT.add, DT.inst, Job.build] <;> omega

theorem CycShape.due (j : Job) (T : Int) (s : DT) (n : Nat) (h : CycShape j T s n) :
    j.due.inst = if !j.delay && n == 0 then s.inst else
      s.inst + (if j.delay then (n + 1 : Int) else (if n = 0 then 1 else (n : Int))) * T := by
  obtain ⟨⟨tm, h1, _, _, h4⟩, h5, _, h7, h8⟩ := h
  unfold Job.due Job.pendingTimer
  rw [h7, h8, h1, h5]
  by_cases hc : (!j.delay && n == 0) = true <;> simp [hc, h4]

private theorem coef (a b T x : Int) (h : a = b) : x + a * T = x + b * T := by rw [h]
private theorem coef_succ (a T x : Int) : x + a * T + T = x + (a + 1) * T := by
  rw [Int.add_mul, Int.one_mul, Int.add_assoc]

theorem CycShape.run (j : Job) (T : Int) (s : DT) (n : Nat) (h : CycShape j T s n) (ref : DT) (r : Bool) :
    CycShape (j.run ref r) T s (n + 1) := by
  obtain ⟨⟨tm, h1, h2, h3, h4⟩, h5, h6, h7, h8⟩ := h
  have hd : (j.run ref r).delay = j.delay := rfl
  have hatt : (j.run ref r).attempts = n + 1 := by simp [Job.run, Job.calcNext, Job.exec1, h7]
  by_cases hc : (!j.delay && j.attempts + 1 == 1) = true
  · -- delay = False, first run: the timers are left alone
    have hdel : j.delay = false := by simp at hc; exact hc.1
    have hn : n = 0 := by rw [h7] at hc; simp at hc; omega
    subst hn
    have ht : (j.run ref r).timers = [tm] := by
      simp [Job.run, Job.calcNext, Job.exec1, h6, hdel, h7, h1]
    refine ⟨⟨tm, ht, h2, h3, ?_⟩, ?_, h6, hatt, h8⟩
    · rw [hd, hdel]; rw [hdel] at h4; simpa using h4
    · simp [Job.run, Job.calcNext, Job.exec1, h6, hdel, h7, h1, argmin]
  · have hc' : (!j.delay && j.attempts + 1 == 1) = false := by simpa using hc
    have ht : (j.run ref r).timers = [{ tm with next := tm.next.add T }] := by
      simp only [Job.run, Job.calcNext, Job.exec1, h6, hc', h1, h5]
      simp [List.modify, Timer.calcNext, h2, h3]
    refine ⟨⟨{ tm with next := tm.next.add T }, ht, h2, h3, ?_⟩, ?_, h6, hatt, h8⟩
    · rw [hd]
      have e : ({ tm with next := tm.next.add T } : Timer).next.inst = tm.next.inst + T := by
        simp [DT.add, DT.inst]; omega
      rw [e, h4]
      cases hdl : j.delay
      · have hn : n ≠ 0 := by
          intro h0; rw [h7, hdl, h0] at hc'; simp at hc'
        simp only [hn, if_false, Bool.false_eq_true]
        rw [coef_succ]
        apply coef; split <;> omega
      · simp only [if_true]
        rw [coef_succ]
        apply coef; omega
    · simp only [Job.run, Job.calcNext, Job.exec1, h6, hc', h1, h5]
      simp [List.modify, argmin]

/-- **cadence**: a cyclic job with interval `T`, reference `s`, no `skip_missing`, polled at
    arbitrary instants `refs` (any gaps, any lateness): after all of them its due instant is
    `s + (n+1)·T`, and the k-th execution (k = 1..n) belonged to exactly `s + k·T` —
    lateness never accumulates. -/
theorem C03.cadence (T : Int) (s : DT) (stop : Option DT) (m : Int) (refs : List DT) :
    let j0 := Job.build [.cyclic T] s stop true false m
    (j0.runs refs).1.due.inst = s.inst + ((refs.length : Int) + 1) * T ∧
    ∀ k, k < refs.length → ((j0.runs refs).2[k]?) = some (s.inst + ((k : Int) + 1) * T) := by
  intro j0
  have key : ∀ (refs : List DT) (j : Job) (n : Nat), CycShape j T s n → j.delay = true →
      (j.runs refs).1.due.inst = s.inst + ((n : Int) + refs.length + 1) * T ∧
      ∀ k, k < refs.length → ((j.runs refs).2[k]?) = some (s.inst + ((n : Int) + k + 1) * T) := by
    intro refs
    induction refs with
    | nil =>
        intro j n h hd
        have := CycShape.due j T s n h
        simp [hd] at this
        simp [Job.runs, this]
    | cons r rs ih =>
        intro j n h hd
        have h' := CycShape.run j T s n h r false
        have hd' : (j.run r).delay = true := hd
        obtain ⟨i1, i2⟩ := ih (j.run r) (n + 1) h' hd'
        have hdue := CycShape.due j T s n h
        simp [hd] at hdue
        constructor
        · simp only [Job.runs, List.length_cons]
          rw [i1]; apply coef; push_cast; omega
        · intro k hk
          cases k with
          | zero => simp [Job.runs, hdue]
          | succ k =>
              have := i2 k (by simpa using hk)
              simp only [Job.runs, List.getElem?_cons_succ]
              rw [this]; congr 1; apply coef; push_cast; omega
  have h0 := CycShape.build T s stop true m
  obtain ⟨a, b⟩ := key refs j0 0 h0 rfl
  refine ⟨by simpa using a, fun k hk => ?_⟩
  have := b k hk
  simpa using this

/-- **deprecated `delay=False`**: the first execution is planned for `s` itself and the cadence
    `s+T, s+2T, …` follows (dues seen by executions 0,1,2,… are `s, s+T, s+2T, …`). -/
theorem C03.no_delay_cadence (T : Int) (s : DT) (stop : Option DT) (m : Int) (refs : List DT) :
    let j0 := Job.build [.cyclic T] s stop false false m
    ∀ k, k < refs.length → ((j0.runs refs).2[k]?) = some (s.inst + (k : Int) * T) := by
  intro j0
  have key : ∀ (refs : List DT) (j : Job) (n : Nat), CycShape j T s n → j.delay = false →
      ∀ k, k < refs.length → ((j.runs refs).2[k]?) = some (s.inst + ((n : Int) + k) * T) := by
    intro refs
    induction refs with
    | nil => intro j n h hd k hk; simp at hk
    | cons r rs ih =>
        intro j n h hd k hk
        have h' := CycShape.run j T s n h r false
        have hd' : (j.run r).delay = false := hd
        have hdue := CycShape.due j T s n h
        cases k with
        | zero =>
            simp only [Job.runs, List.getElem?_cons_zero]
            rw [hdue]
            by_cases hn : n = 0
            · subst hn; simp [hd]
            · simp [hd, hn]
        | succ k =>
            have := ih (j.run r) (n + 1) h' hd' k (by simpa using hk)
            simp only [Job.runs, List.getElem?_cons_succ]
            rw [this]; congr 1; apply coef; push_cast; omega
  have h0 := CycShape.build T s stop false m
  intro k hk
  have := key refs j0 0 h0 rfl k hk
  simpa using this

/-- a one-shot given a datetime is due exactly at that datetime and has a budget of one run -/
theorem C03.once_datetime (tz : Option Int) (d : DT) (clock : Int) (j : Job)
    (h : createJob tz { call := .once, timings := [.dt d], isList := false } clock = .ok j) :
    j.due = d ∧ j.maxAtt = 1 ∧ (j.run (nowDT tz clock)).hasAttempts = false := by
  simp only [createJob] at h
  obtain ⟨s, hs, hj, _⟩ := Job.create_ok _ _ _ _ _ _ _ _ _ h
  have hs' : s = d := by
    simp only [startStop] at hs
    split at hs <;> simp_all
  subst hs' hj
  refine ⟨rfl, rfl, ?_⟩
  simp [Job.run, Job.calcNext, Job.exec1, Job.hasAttempts, Job.build]

/-- a one-shot given a timedelta is due exactly that long after its creation -/
theorem C03.once_timedelta (tz : Option Int) (td : Int) (clock : Int) (j : Job)
    (h : createJob tz { call := .once, timings := [.td td], isList := false } clock = .ok j) :
    j.due.inst = clock + td ∧ j.maxAtt = 1 := by
  simp only [createJob, mapTimings] at h
  obtain ⟨s, hs, hj, _⟩ := Job.create_ok _ _ _ _ _ _ _ _ _ h
  have hs' : s = nowDT tz clock := by
    simp only [startStop] at hs
    cases hs; rfl
  subst hs' hj
  refine ⟨?_, rfl⟩
  cases tz <;> simp [Job.due, Job.pendingTimer, Job.build, Timer.init, Timer.calcNext, nowDT, DT.add, DT.inst, argmin, standardize] <;> omega

/-- a one-shot given a clock time is due at the next such occurrence after its creation -/
theorem C03.once_clock (tz : Option Int) (t : Tod) (hv : t.valid) (clock : Int) (j : Job)
    (h : createJob tz { call := .once, timings := [.tod t], isList := false } clock = .ok j) :
    IsLeastAfter (Occ (.daily t)) clock j.due.inst ∧ j.maxAtt = 1 := by
  simp only [createJob, mapTimings] at h
  obtain ⟨s, hs, hj, htz, _⟩ := Job.create_ok _ _ _ _ _ _ _ _ _ h
  have hs' : s = nowDT tz clock := by
    simp only [startStop] at hs
    cases hs; rfl
  subst hs' hj
  refine ⟨?_, rfl⟩
  have ha : (nowDT tz clock).off.isSome = t.off.isSome := by
    simp [timingTzOk, Timing.isCyclic, Timing.off, standardize] at htz
    cases tz <;> simp_all [nowDT]
  have hi : (nowDT tz clock).inst = clock := by cases tz <;> simp [nowDT, DT.inst]
  have := C01_first_due_aux (.daily t) rfl hv (nowDT tz clock) ha false
  rw [hi] at this
  simpa [Job.due, Job.pendingTimer, Job.build, argmin, standardize] using this

/-- a one-shot given a weekday trigger (any of the seven) is due at its next occurrence -/
theorem C03.once_weekday (tz : Option Int) (wd : Int) (t : Tod) (hv : (Timing.weekly wd t).valid)
    (clock : Int) (j : Job)
    (h : createJob tz { call := .once, timings := [.wk wd t], isList := false } clock = .ok j) :
    IsLeastAfter (Occ (.weekly wd t)) clock j.due.inst ∧ j.maxAtt = 1 := by
  simp only [createJob, mapTimings] at h
  obtain ⟨s, hs, hj, htz, _⟩ := Job.create_ok _ _ _ _ _ _ _ _ _ h
  have hs' : s = nowDT tz clock := by
    simp only [startStop] at hs
    cases hs; rfl
  subst hs' hj
  refine ⟨?_, rfl⟩
  have ha : (nowDT tz clock).off.isSome = t.off.isSome := by
    simp [timingTzOk, Timing.isCyclic, Timing.off, standardize] at htz
    cases tz <;> simp_all [nowDT]
  have hi : (nowDT tz clock).inst = clock := by cases tz <;> simp [nowDT, DT.inst]
  have := C01_first_due_aux (.weekly wd t) rfl hv (nowDT tz clock) ha false
  rw [hi] at this
  simpa [Job.due, Job.pendingTimer, Job.build, argmin, standardize] using this

/-! non-vacuity: a concrete cyclic job polled late and irregularly -/
example : ((Job.build [.cyclic 10] { loc := 100, off := none } none true false 0).runs
    [{ loc := 500, off := none }, { loc := 501, off := none }, { loc := 9000, off := none }]).2 = [110, 120, 130] := by
  decide

end SV
