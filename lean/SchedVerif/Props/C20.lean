/-
  Props/C20.lean — printing never fails and yields a well-formed table: the abbreviation helper
  and the row layout, for all strings and all widths ≥ 1.
-/
import SchedVerif.Model.Render
import SchedVerif.Spec.Render
namespace SV

/-- the helper rejects widths below 1 and nothing else -/
theorem C20.cutoff_rejects_zero_width (s : List Nat) (w : Nat) (tail : Bool) :
    strCutoff s w tail = none ↔ w < 1 := by
  unfold strCutoff
  by_cases hw : w < 1
  · simp [hw]
  · simp only [hw, if_false]
    constructor
    · intro h; split at h <;> cases h
    · intro h; exact absurd h (by simpa using hw)

/-- **never longer than the column**: the result has length `min len width` -/
theorem C20.cutoff_len (s : List Nat) (w : Nat) (tail : Bool) (hw : 1 ≤ w) (out : List Nat)
    (h : strCutoff s w tail = some out) : out.length = min s.length w := by
  unfold strCutoff at h
  have : ¬ w < 1 := by omega
  simp only [this, if_false] at h
  split at h
  · cases h
    cases tail
    · simp only [Bool.false_eq_true, if_false, List.length_cons, List.length_drop]; omega
    · simp only [if_true, List.length_append, List.length_take, List.length_singleton]; omega
  · cases h; omega

/-- **a cell that fits is shown unchanged** -/
theorem C20.cutoff_fits (s : List Nat) (w : Nat) (tail : Bool) (hw : 1 ≤ w) (hf : s.length ≤ w) :
    strCutoff s w tail = some s := by
  unfold strCutoff
  have h1 : ¬ w < 1 := by omega
  have h2 : ¬ s.length > w := by omega
  simp [h1, h2]

/-- **an over-long cell is abbreviated to exactly the width, with the marker at the cut end and
    the kept part a prefix (cut tail) / suffix (cut head) of the input** -/
theorem C20.cutoff_marker (s : List Nat) (w : Nat) (tail : Bool) (hw : 1 ≤ w) (hl : w < s.length) :
    ∃ kept, kept.length = w - 1 ∧
      (tail = true → strCutoff s w tail = some (kept ++ [35]) ∧ kept.IsPrefix s) ∧
      (tail = false → strCutoff s w tail = some (35 :: kept) ∧ kept.IsSuffix s) := by
  have h1 : ¬ w < 1 := by omega
  cases tail with
  | true =>
      refine ⟨s.take (w - 1), by simp; omega, fun _ => ⟨?_, List.take_prefix _ _⟩, fun h => (by cases h)⟩
      simp [strCutoff, h1, hl]
  | false =>
      refine ⟨s.drop (s.length - (w - 1)), by simp; omega, fun h => (by cases h), fun _ => ⟨?_, List.drop_suffix _ _⟩⟩
      simp [strCutoff, h1, hl]

theorem pad_length (a : Align) (w : Nat) (s : List Nat) (h : s.length ≤ w) : (pad a w s).length = w := by
  cases a <;> simp [pad] <;> omega

theorem joinCells_length (blank : Nat) (l : List (List Nat)) :
    (joinCells blank l).length = (l.map List.length).sum + (l.length - 1) := by
  induction l with
  | nil => simp [joinCells]
  | cons x xs ih =>
      cases xs with
      | nil => simp [joinCells]
      | cons y ys =>
          have e : joinCells blank (x :: y :: ys) = x ++ [blank] ++ joinCells blank (y :: ys) := rfl
          rw [e]
          simp only [List.length_append, List.length_singleton, List.map_cons, List.sum_cons, List.length_cons, List.length_nil] at *
          rw [ih]
          omega

/-- **every row is exactly as wide as the header row**: whatever the cell contents, as long as
    each fits its column (which `cutoff_len` guarantees for the abbreviated cells), the row has the
    fixed width: column widths + separating blanks + newline -/
theorem C20.row_width (cells : List Cell) (h : ∀ c ∈ cells, c.text.length ≤ c.width) :
    (row cells).length = rowWidth cells := by
  unfold row rowWidth
  rw [List.length_append, joinCells_length]
  simp only [List.length_singleton, List.length_map, List.map_map]
  congr 2
  congr 1
  apply List.map_congr_left
  intro c hc
  simp only [Function.comp]
  exact pad_length _ _ _ (h c hc)

/-- a padded cell that fits starts / ends with its text (alignment) -/
theorem C20.pad_keeps_text (a : Align) (w : Nat) (s : List Nat) :
    (a = .left → s.IsPrefix (pad a w s)) ∧ (a = .right → s.IsSuffix (pad a w s)) := by
  constructor
  · intro h; subst h; exact List.prefix_append _ _
  · intro h; subst h; exact List.suffix_append _ _

theorem isPrefixB_iff (a b : List Nat) : isPrefixB a b = true ↔ a.IsPrefix b := by
  induction a generalizing b with
  | nil => simp [isPrefixB]
  | cons x xs ih =>
      cases b with
      | nil => simp [isPrefixB]
      | cons y ys =>
          simp only [isPrefixB, Bool.and_eq_true, beq_iff_eq, ih, List.cons_prefix_cons]

/-- the model's `str_cutoff` satisfies the Bool twin `cutoffSpecB` that the driver evaluates on the
    implementation's results -/
theorem C20.cutoff_twin (s : List Nat) (w : Nat) (tail : Bool) (hw : 1 ≤ w) (out : List Nat)
    (h : strCutoff s w tail = some out) : cutoffSpecB s w tail out = true := by
  unfold cutoffSpecB
  by_cases hf : s.length ≤ w
  · rw [C20.cutoff_fits s w tail hw hf] at h
    cases h; simp [hf]
  · simp only [hf, if_false]
    have hl : w < s.length := by omega
    have hlen := C20.cutoff_len s w tail hw out h
    have h1 : ¬ w < 1 := by omega
    unfold strCutoff at h
    simp only [h1, if_false, hl, if_true] at h
    cases tail with
    | true =>
        simp only [if_true, Option.some.injEq] at h
        subst h
        simp only [Bool.and_eq_true, beq_iff_eq, if_true]
        refine ⟨by rw [hlen]; omega, by simp, ?_⟩
        simp only [List.dropLast_concat]
        exact (isPrefixB_iff _ _).mpr (List.take_prefix _ _)
    | false =>
        simp only [Bool.false_eq_true, if_false, Option.some.injEq] at h
        subst h
        simp only [Bool.and_eq_true, beq_iff_eq, Bool.false_eq_true, if_false]
        refine ⟨by rw [hlen]; omega, by simp, ?_⟩
        simp only [List.tail_cons, isSuffixB]
        rw [isPrefixB_iff]
        exact List.reverse_prefix.mpr (List.drop_suffix _ _)

/-! ### the table: one row per registered job, ascending due order, true count, equal widths -/

theorem sortByDue_perm (jobs : List JobRow) : (sortByDue jobs).Perm jobs := List.mergeSort_perm _ _

/-- **exactly one row per registered job**: the rows are the jobs' rows, each job once (the sorted
    list is a permutation of the registry), so their number is the number of registered jobs - the
    number the heading reports -/
theorem C20.table_one_row_per_job (jobs : List JobRow) :
    (tableRows jobs).length = headingCount jobs ∧
    (tableRows jobs).Perm (jobs.map (fun j => row j.cells)) := by
  unfold tableRows headingCount
  refine ⟨by rw [List.length_map]; exact (sortByDue_perm jobs).length_eq, (sortByDue_perm jobs).map _⟩

/-- **ascending due-time order**, for every registry iteration order -/
theorem C20.table_sorted (jobs : List JobRow) :
    (sortByDue jobs).Pairwise (fun a b => a.due ≤ b.due) := by
  have := List.pairwise_mergeSort (le := fun (a b : JobRow) => decide (a.due ≤ b.due))
    (by intro a b c h1 h2; simp only [decide_eq_true_eq] at *; omega)
    (by intro a b; simp only [Bool.or_eq_true, decide_eq_true_eq]; omega) jobs
  simpa [sortByDue] using this

/-- jobs with equal due instants keep their relative (registry iteration) order: the sort is stable,
    so the table is a function of the registry order alone -/
theorem C20.table_stable (jobs : List JobRow) (d : Int) :
    (jobs.filter (fun j => j.due == d)).Sublist (sortByDue jobs) := by
  unfold sortByDue
  apply List.sublist_mergeSort (le := fun (a b : JobRow) => decide (a.due ≤ b.due))
  · intro a b c h1 h2; simp only [decide_eq_true_eq] at *; omega
  · intro a b; simp only [Bool.or_eq_true, decide_eq_true_eq]; omega
  · rw [List.pairwise_filter]
    have hall : ∀ (l : List JobRow), l.Pairwise (fun x y => (x.due == d) = true → (y.due == d) = true → decide (x.due ≤ y.due) = true) := by
      intro l
      induction l with
      | nil => exact List.Pairwise.nil
      | cons x xs ih =>
          refine List.Pairwise.cons ?_ ih
          intro y _ ha hb
          simp only [beq_iff_eq] at ha hb
          simp only [decide_eq_true_eq]; omega
    exact hall jobs
  · exact List.filter_sublist

/-- a cell produced through `str_cutoff` fits its column and is unchanged when the text fitted -/
theorem C20.cut_cell_fits (a : Align) (w : Nat) (tail : Bool) (text : List Nat) (hw : 1 ≤ w) :
    ∃ c, cutCell a w tail text = some c ∧ c.width = w ∧ c.text.length ≤ c.width ∧
      (text.length ≤ w → c.text = text) := by
  unfold cutCell
  cases h : strCutoff text w tail with
  | none => exact absurd ((C20.cutoff_rejects_zero_width text w tail).mp h) (by omega)
  | some out =>
      refine ⟨_, rfl, rfl, ?_, ?_⟩
      · show out.length ≤ w
        rw [C20.cutoff_len text w tail hw out h]; exact Nat.min_le_right _ _
      · intro hf
        rw [C20.cutoff_fits text w tail hw hf] at h
        exact (Option.some.inj h).symm

/-- **every table row is exactly as wide as the header row**: if all rows use the header's column
    widths and every cell fits its column (`cut_cell_fits` for the abbreviated columns; the fixed-width
    type / due-at columns fit by construction), each row of the table has the header's length -/
theorem C20.table_rows_same_width (header : List Cell) (jobs : List JobRow)
    (hh : ∀ c ∈ header, c.text.length ≤ c.width)
    (hw : ∀ j ∈ jobs, j.cells.map (·.width) = header.map (·.width))
    (hf : ∀ j ∈ jobs, ∀ c ∈ j.cells, c.text.length ≤ c.width) :
    ∀ r ∈ tableRows jobs, r.length = (row header).length := by
  intro r hr
  unfold tableRows at hr
  obtain ⟨j, hj, rfl⟩ := List.mem_map.mp hr
  have hjm : j ∈ jobs := (sortByDue_perm jobs).mem_iff.mp hj
  rw [C20.row_width j.cells (hf j hjm), C20.row_width header hh]
  unfold rowWidth
  have h1 := hw j hjm
  have h2 : j.cells.length = header.length := by
    have := congrArg List.length h1
    simpa using this
  rw [h1, h2]

/-! ### the "due in" cell -/

theorem dd_length (n : Nat) : (dd n).length = 2 := rfl

/-- **a distance below one day always fits the "due in" column (9 wide) unabbreviated**: `H:MM:SS`
    with at most two hour digits and an optional sign is at most 9 characters long -/
theorem C20.due_in_fits_below_one_day (us : Int) (h : us.natAbs < 86400000000) :
    (prettify us).length ≤ 9 := by
  unfold prettify
  have hd : us.natAbs / 86400000000 = 0 := Nat.div_eq_of_lt h
  simp only [hd, Nat.lt_irrefl, if_false, gt_iff_lt]
  unfold hms
  simp only [List.length_append, List.length_singleton, dd_length]
  split <;> split <;> simp [dd_length]

/-- from one day on only whole days are shown: the text ends in " day" or " days" -/
theorem C20.due_in_days (us : Int) (h : 86400000000 ≤ us.natAbs) :
    ∃ pre, prettify us = pre ++ [32, 100, 97, 121] ∨ prettify us = pre ++ [32, 100, 97, 121, 115] := by
  unfold prettify
  have hd : 0 < us.natAbs / 86400000000 := Nat.div_pos h (by decide)
  simp only [gt_iff_lt, hd, if_true]
  by_cases h1 : us.natAbs / 86400000000 = 1
  · exact ⟨(if us < 0 then [45] else []) ++ natDigits 1, Or.inl (by simp [h1, List.append_assoc])⟩
  · exact ⟨(if us < 0 then [45] else []) ++ natDigits (us.natAbs / 86400000000), Or.inr (by simp [h1, List.append_assoc])⟩

/-! non-vacuity -/
example : prettify (-45000000) = "-0:00:45".toList.map Char.toNat := by decide
example : prettify 3600000000 = "1:00:00".toList.map Char.toNat := by decide
example : prettify (-86400000000) = "-1 day".toList.map Char.toNat := by decide
example : prettify (3 * 86400000000 + 5) = "3 days".toList.map Char.toNat := by decide
/-- the hypotheses of `table_rows_same_width` are met by a concrete header and two job rows -/
example : ∀ r ∈ tableRows [{ due := 2, cells := [{ align := .left, width := 3, text := [97] }, { align := .right, width := 2, text := [] }] },
                            { due := 1, cells := [{ align := .left, width := 3, text := [98, 99] }, { align := .right, width := 2, text := [48, 49] }] }],
    r.length = (row [{ align := .left, width := 3, text := [116] }, { align := .right, width := 2, text := [119] }]).length :=
  C20.table_rows_same_width _ _ (by decide) (by decide) (by decide)
example : (sortByDue [{ due := 10, cells := [] }, { due := 20, cells := [] }, { due := 20, cells := [] }]).map (·.due) = [10, 20, 20] := by
  rw [sortByDue, List.mergeSort_of_pairwise (by simp)]; rfl
example : strCutoff [97, 98, 99, 100, 101, 102, 103] 4 false = some [35, 101, 102, 103] := by decide
example : strCutoff [97, 98, 99, 100, 101, 102, 103] 1 false = some [35] := by decide
example : strCutoff [97, 98, 99, 100, 101, 102, 103] 2 true = some [97, 35] := by decide

end SV
