/-
  Props/C20.lean — printing never fails and yields a well-formed table: the abbreviation helper
  and the row layout, for all strings and all widths ≥ 1.
-/
import SchedVerif.Model.Render
import SchedVerif.Spec.Render
namespace SV

/-- the helper rejects widths below 1 and nothing else -/
theorem C20.cutoff_rejects_zero_width (s : List Nat) (w : Nat) (tail : Bool) :
    strCutoff s w tail = none ↔ w < 1 := by
  unfold strCutoff
  by_cases hw : w < 1
  · simp [hw]
  · simp only [hw, if_false]
    constructor
    · intro h; split at h <;> cases h
    · intro h; exact absurd h (by simpa using hw)

/-- **never longer than the column**: the result has length `min len width` -/
theorem C20.cutoff_len (s : List Nat) (w : Nat) (tail : Bool) (hw : 1 ≤ w) (out : List Nat)
    (h : strCutoff s w tail = some out) : out.length = min s.length w := by
  unfold strCutoff at h
  have : ¬ w < 1 := by omega
  simp only [this, if_false] at h
  split at h
  · cases h
    cases tail
    · simp only [Bool.false_eq_true, if_false, List.length_cons, List.length_drop]; omega
    · simp only [if_true, List.length_append, List.length_take, List.length_singleton]; omega
  · cases h; omega

/-- **a cell that fits is shown unchanged** -/
theorem C20.cutoff_fits (s : List Nat) (w : Nat) (tail : Bool) (hw : 1 ≤ w) (hf : s.length ≤ w) :
    strCutoff s w tail = some s := by
  unfold strCutoff
  have h1 : ¬ w < 1 := by omega
  have h2 : ¬ s.length > w := by omega
  simp [h1, h2]

/-- **an over-long cell is abbreviated to exactly the width, with the marker at the cut end and
    the kept part a prefix (cut tail) / suffix (cut head) of the input** -/
theorem C20.cutoff_marker (s : List Nat) (w : Nat) (tail : Bool) (hw : 1 ≤ w) (hl : w < s.length) :
    ∃ kept, kept.length = w - 1 ∧
      (tail = true → strCutoff s w tail = some (kept ++ [35]) ∧ kept.IsPrefix s) ∧
      (tail = false → strCutoff s w tail = some (35 :: kept) ∧ kept.IsSuffix s) := by
  have h1 : ¬ w < 1 := by omega
  cases tail with
  | true =>
      refine ⟨s.take (w - 1), by simp; omega, fun _ => ⟨?_, List.take_prefix _ _⟩, fun h => (by cases h)⟩
      simp [strCutoff, h1, hl]
  | false =>
      refine ⟨s.drop (s.length - (w - 1)), by simp; omega, fun h => (by cases h), fun _ => ⟨?_, List.drop_suffix _ _⟩⟩
      simp [strCutoff, h1, hl]

theorem pad_length (a : Align) (w : Nat) (s : List Nat) (h : s.length ≤ w) : (pad a w s).length = w := by
  cases a <;> simp [pad] <;> omega

theorem joinCells_length (blank : Nat) (l : List (List Nat)) :
    (joinCells blank l).length = (l.map List.length).sum + (l.length - 1) := by
  induction l with
  | nil => simp [joinCells]
  | cons x xs ih =>
      cases xs with
      | nil => simp [joinCells]
      | cons y ys =>
          have e : joinCells blank (x :: y :: ys) = x ++ [blank] ++ joinCells blank (y :: ys) := rfl
          rw [e]
          simp only [List.length_append, List.length_singleton, List.map_cons, List.sum_cons, List.length_cons, List.length_nil] at *
          rw [ih]
          omega

/-- **every row is exactly as wide as the header row**: whatever the cell contents, as long as
    each fits its column (which `cutoff_len` guarantees for the abbreviated cells), the row has the
    fixed width: column widths + separating blanks + newline -/
theorem C20.row_width (cells : List Cell) (h : ∀ c ∈ cells, c.text.length ≤ c.width) :
    (row cells).length = rowWidth cells := by
  unfold row rowWidth
  rw [List.length_append, joinCells_length]
  simp only [List.length_singleton, List.length_map, List.map_map]
  congr 2
  congr 1
  apply List.map_congr_left
  intro c hc
  simp only [Function.comp]
  exact pad_length _ _ _ (h c hc)

/-- a padded cell that fits starts / ends with its text (alignment) -/
theorem C20.pad_keeps_text (a : Align) (w : Nat) (s : List Nat) :
    (a = .left → s.IsPrefix (pad a w s)) ∧ (a = .right → s.IsSuffix (pad a w s)) := by
  constructor
  · intro h; subst h; exact List.prefix_append _ _
  · intro h; subst h; exact List.suffix_append _ _

theorem isPrefixB_iff (a b : List Nat) : isPrefixB a b = true ↔ a.IsPrefix b := by
  induction a generalizing b with
  | nil => simp [isPrefixB]
  | cons x xs ih =>
      cases b with
      | nil => simp [isPrefixB]
      | cons y ys =>
          simp only [isPrefixB, Bool.and_eq_true, beq_iff_eq, ih, List.cons_prefix_cons]

/-- the model's `str_cutoff` satisfies the Bool twin `cutoffSpecB` that the driver evaluates on the
    implementation's results -/
theorem C20.cutoff_twin (s : List Nat) (w : Nat) (tail : Bool) (hw : 1 ≤ w) (out : List Nat)
    (h : strCutoff s w tail = some out) : cutoffSpecB s w tail out = true := by
  unfold cutoffSpecB
  by_cases hf : s.length ≤ w
  · rw [C20.cutoff_fits s w tail hw hf] at h
    cases h; simp [hf]
  · simp only [hf, if_false]
    have hl : w < s.length := by omega
    have hlen := C20.cutoff_len s w tail hw out h
    have h1 : ¬ w < 1 := by omega
    unfold strCutoff at h
    simp only [h1, if_false, hl, if_true] at h
    cases tail with
    | true =>
        simp only [if_true, Option.some.injEq] at h
        subst h
        simp only [Bool.and_eq_true, beq_iff_eq, if_true]
        refine ⟨by rw [hlen]; omega, by simp, ?_⟩
        simp only [List.dropLast_concat]
        exact (isPrefixB_iff _ _).mpr (List.take_prefix _ _)
    | false =>
        simp only [Bool.false_eq_true, if_false, Option.some.injEq] at h
        subst h
        simp only [Bool.and_eq_true, beq_iff_eq, Bool.false_eq_true, if_false]
        refine ⟨by rw [hlen]; omega, by simp, ?_⟩
        simp only [List.tail_cons, isSuffixB]
        rw [isPrefixB_iff]
        exact List.reverse_prefix.mpr (List.drop_suffix _ _)

/-! non-vacuity -/
example : strCutoff [97, 98, 99, 100, 101, 102, 103] 4 false = some [35, 101, 102, 103] := by decide
example : strCutoff [97, 98, 99, 100, 101, 102, 103] 1 false = some [35] := by decide
example : strCutoff [97, 98, 99, 100, 101, 102, 103] 2 true = some [97, 35] := by decide

end SV
