/-
  Props/C18.lean — asyncio: deletion cancels for good, finished jobs vanish, no task ends in error.
-/
import SchedVerif.Props.C17
namespace SV

def Phase.terminal : Phase → Bool
  | .cancelled | .finished => true
  | _ => false

/-- a task that was cancelled or has finished is never resumed: resuming it is a no-op -/
theorem C18.terminal_is_absorbing (s : AState) (k : Nat) (t : ATask) (ht : s.task? k = some t)
    (hp : t.phase.terminal = true) : stepTask s k = s := by
  unfold SV.stepTask
  simp only [ht]
  cases h : t.phase <;> simp_all [Phase.terminal]

/-- … and the loop never picks it -/
theorem C18.terminal_not_waiting (t : ATask) (hp : t.phase.terminal = true) : isWaiting t = false := by
  cases h : t.phase <;> simp_all [Phase.terminal, isWaiting]

@[simp] theorem AState.logCancel_reg (s : AState) (k : Nat) (cur : Option Nat) : (s.logCancel k cur).reg = s.reg := by
  unfold AState.logCancel
  split
  · split
    · split <;> rfl
    · rfl
  · rfl

@[simp] theorem AState.cancel_reg (s : AState) (k : Nat) (cur : Option Nat) : (s.cancel k cur).reg = s.reg := rfl

/-- cancelling from outside (no task is running) makes the task terminal and keeps its job data -/
theorem cancel_outside (s : AState) (k : Nat) (t : ATask) (ht : s.task? k = some t) :
    ∃ t', (s.cancel k none).task? k = some t' ∧ t'.phase.terminal = true ∧ t'.job = t.job := by
  unfold AState.cancel
  rw [AState.task?_setTask]
  simp only [if_true, ht, Option.map_some]
  cases hph : t.phase <;> simp [Phase.terminal, hph]

/-- **deleting a registered job from outside cancels its task on the spot** — before the first
    run, between runs, or during a suspended run: the job is unregistered, its task is terminal
    (never resumed again, see `terminal_is_absorbing`), and its counters are untouched — so a
    suspended run that is cancelled is not counted as an attempt -/
theorem C18.delete_cancels (s : AState) (k : Nat) (t : ATask) (ht : s.task? k = some t) (hr : k ∈ s.reg)
    (hn : s.reg.Nodup) :
    (s.deleteJob k none).2 = true ∧ k ∉ (s.deleteJob k none).1.reg ∧
    ∃ t', (s.deleteJob k none).1.task? k = some t' ∧ t'.phase.terminal = true ∧ t'.job = t.job := by
  have hc : s.reg.contains k = true := by simpa using hr
  unfold AState.deleteJob
  simp only [hc, if_true]
  refine ⟨trivial, ?_, ?_⟩
  · simp only [AState.cancel_reg, AState.logCancel_reg]
    rw [hn.mem_erase_iff]; simp
  · apply cancel_outside
    rw [AState.logCancel_task?]
    exact ht

/-- a run that is suspended when its job is deleted gets exactly one cancellation event -/
theorem C18.suspended_is_cancelled (s : AState) (k : Nat) (t : ATask) (ht : s.task? k = some t)
    (rest : List Act) (raises : Bool) (hph : t.phase = .running rest raises) :
    (s.logCancel k none).log = s.log ++ [{ time := s.now, key := k, kind := .cancelRun, due := t.job.due.inst }] := by
  unfold AState.logCancel
  simp [ht, hph]

/-- deleting a job that is not registered raises SchedulerError and changes nothing -/
theorem C18.delete_unknown_raises (s : AState) (k : Nat) (h : k ∉ s.reg) :
    astepOp s (.del k) = (s, .err .schedulerError) := by
  simp [astepOp, AState.deleteJob, h]

/-- **finished jobs vanish on their own**: when the supervisor finds no attempts remaining (budget
    used up, or next due time past stop) it unregisters the job and ends -/
theorem C18.retired_vanish (s : AState) (k : Nat) (t : ATask) (ht : s.task? k = some t)
    (hc : t.pendingCancel = false) (ha : t.job.hasAttempts = false) (hn : s.reg.Nodup) :
    k ∉ (loopHead s k).reg ∧ ∃ t', (loopHead s k).task? k = some t' ∧ t'.phase = .finished := by
  unfold SV.loopHead
  simp only [ht, hc, ha, Bool.false_eq_true, if_false, Bool.not_false, if_true]
  refine ⟨by rw [hn.mem_erase_iff]; simp, ?_⟩
  show ∃ t', (s.setTask k _).task? k = some t' ∧ _
  rw [AState.task?_setTask]
  simp [ht]

/-- **no task ends in error**: the final unregistration is total — it succeeds (as a no-op) even
    when the job's own coroutine has already deleted the job or cleared the scheduler -/
theorem C18.unregister_is_tolerant (s : AState) (k : Nat) (t : ATask) (ht : s.task? k = some t)
    (hc : t.pendingCancel = false) (ha : t.job.hasAttempts = false) (hk : k ∉ s.reg) :
    (loopHead s k).reg = s.reg := by
  unfold SV.loopHead
  simp only [ht, hc, ha, Bool.false_eq_true, if_false, Bool.not_false, if_true]
  exact List.erase_of_not_mem hk

/-- a coroutine that deleted its own job is cancelled at its next await; if it never awaits again
    the supervisor is cancelled at its own next await (the loop head) -/
theorem C18.self_delete_delivered (s : AState) (k : Nat) (t : ATask) (ht : s.task? k = some t)
    (hc : t.pendingCancel = true) :
    ∃ t', (loopHead s k).task? k = some t' ∧ t'.phase = .cancelled := by
  unfold SV.loopHead
  simp only [ht, hc, if_true]
  rw [AState.task?_setTask]
  simp [ht]

/-! non-vacuity: a one-shot whose coroutine deletes its own job ends quietly -/
example : (arun 100 { tz := none, now := 0 }
    [.sched { call := .once, timings := [.td 5], isList := false } [{ acts := [.del 0] }],
     .run 40 100]).reg = [] := by decide

end SV
