/-
  Props/C18.lean — asyncio: deletion cancels for good, finished jobs vanish, no task ends in error.
-/
import SchedVerif.Props.C17
import SchedVerif.Lemmas.AsyncDead
namespace SV

def Phase.terminal : Phase → Bool
  | .cancelled | .finished => true
  | _ => false

/-- a task that was cancelled or has finished is never resumed: resuming it is a no-op -/
theorem C18.terminal_is_absorbing (s : AState) (k : Nat) (t : ATask) (ht : s.task? k = some t)
    (hp : t.phase.terminal = true) : stepTask s k = s := by
  unfold SV.stepTask
  simp only [ht]
  cases h : t.phase <;> simp_all [Phase.terminal]

/-- … and the loop never picks it -/
theorem C18.terminal_not_waiting (t : ATask) (hp : t.phase.terminal = true) : isWaiting t = false := by
  cases h : t.phase <;> simp_all [Phase.terminal, isWaiting]

@[simp] theorem AState.logCancel_reg (s : AState) (k : Nat) (cur : Option Nat) : (s.logCancel k cur).reg = s.reg := by
  unfold AState.logCancel
  split
  · split
    · split <;> rfl
    · rfl
  · rfl

@[simp] theorem AState.cancel_reg (s : AState) (k : Nat) (cur : Option Nat) : (s.cancel k cur).reg = s.reg := rfl

/-- cancelling from outside (no task is running) makes the task terminal and keeps its job data -/
theorem cancel_outside (s : AState) (k : Nat) (t : ATask) (ht : s.task? k = some t) :
    ∃ t', (s.cancel k none).task? k = some t' ∧ t'.phase.terminal = true ∧ t'.job = t.job := by
  unfold AState.cancel
  rw [AState.task?_setTask]
  simp only [if_true, ht, Option.map_some]
  cases hph : t.phase <;> simp [Phase.terminal, hph]

/-- **deleting a registered job from outside cancels its task on the spot** — before the first
    run, between runs, or during a suspended run: the job is unregistered, its task is terminal
    (never resumed again, see `terminal_is_absorbing`), and its counters are untouched — so a
    suspended run that is cancelled is not counted as an attempt -/
theorem C18.delete_cancels (s : AState) (k : Nat) (t : ATask) (ht : s.task? k = some t) (hr : k ∈ s.reg)
    (hn : s.reg.Nodup) :
    (s.deleteJob k none).2 = true ∧ k ∉ (s.deleteJob k none).1.reg ∧
    ∃ t', (s.deleteJob k none).1.task? k = some t' ∧ t'.phase.terminal = true ∧ t'.job = t.job := by
  have hc : s.reg.contains k = true := by simpa using hr
  unfold AState.deleteJob
  simp only [hc, if_true]
  refine ⟨trivial, ?_, ?_⟩
  · simp only [AState.cancel_reg, AState.logCancel_reg]
    rw [hn.mem_erase_iff]; simp
  · apply cancel_outside
    rw [AState.logCancel_task?]
    exact ht

/-- a run that is suspended when its job is deleted gets exactly one cancellation event -/
theorem C18.suspended_is_cancelled (s : AState) (k : Nat) (t : ATask) (ht : s.task? k = some t)
    (rest : List Act) (raises : Bool) (hph : t.phase = .running rest raises) :
    (s.logCancel k none).log = s.log ++ [{ time := s.now, key := k, kind := .cancelRun, due := t.job.due.inst }] := by
  unfold AState.logCancel
  simp [ht, hph]

/-- deleting a job that is not registered raises SchedulerError and changes nothing -/
theorem C18.delete_unknown_raises (s : AState) (k : Nat) (h : k ∉ s.reg) :
    astepOp s (.del k) = (s, .err .schedulerError) := by
  simp [astepOp, AState.deleteJob, h]

/-- **finished jobs vanish on their own**: when the supervisor finds no attempts remaining (budget
    used up, or next due time past stop) it unregisters the job and ends -/
theorem C18.retired_vanish (s : AState) (k : Nat) (t : ATask) (ht : s.task? k = some t)
    (hc : t.pendingCancel = false) (ha : t.job.hasAttempts = false) (hn : s.reg.Nodup) :
    k ∉ (loopHead s k).reg ∧ ∃ t', (loopHead s k).task? k = some t' ∧ t'.phase = .finished := by
  unfold SV.loopHead
  simp only [ht, hc, ha, Bool.false_eq_true, if_false, Bool.not_false, if_true]
  refine ⟨by rw [hn.mem_erase_iff]; simp, ?_⟩
  show ∃ t', (s.setTask k _).task? k = some t' ∧ _
  rw [AState.task?_setTask]
  simp [ht]

/-- **no task ends in error**: the final unregistration is total — it succeeds (as a no-op) even
    when the job's own coroutine has already deleted the job or cleared the scheduler -/
theorem C18.unregister_is_tolerant (s : AState) (k : Nat) (t : ATask) (ht : s.task? k = some t)
    (hc : t.pendingCancel = false) (ha : t.job.hasAttempts = false) (hk : k ∉ s.reg) :
    (loopHead s k).reg = s.reg := by
  unfold SV.loopHead
  simp only [ht, hc, ha, Bool.false_eq_true, if_false, Bool.not_false, if_true]
  exact List.erase_of_not_mem hk

/-- a coroutine that deleted its own job is cancelled at its next await; if it never awaits again
    the supervisor is cancelled at its own next await (the loop head) -/
theorem C18.self_delete_delivered (s : AState) (k : Nat) (t : ATask) (ht : s.task? k = some t)
    (hc : t.pendingCancel = true) :
    ∃ t', (loopHead s k).task? k = some t' ∧ t'.phase = .cancelled := by
  unfold SV.loopHead
  simp only [ht, hc, if_true]
  rw [AState.task?_setTask]
  simp [ht]

/-! non-vacuity: a one-shot whose coroutine deletes its own job ends quietly -/
example : (arun 100 { tz := none, now := 0 }
    [.sched { call := .once, timings := [.td 5], isList := false } [{ acts := [.del 0] }],
     .run 40 100]).reg = [] := by decide


/-! ### "for good": over every continuation of the history -/

/-- **deletion cancels for good** — once `delete_job(k)` has returned for a registered job, then
    whatever happens afterwards (any further scheduling, deletions, coroutine scripts of other jobs,
    any passage of virtual time): the job's coroutine never starts again, and the job is never
    registered again -/
theorem C18.deleted_never_starts_again (s : AState) (k : Nat) (t : ATask) (ht : s.task? k = some t)
    (hr : k ∈ s.reg) (hn : s.reg.Nodup) (fuel : Nat) (ops : List AOp) :
    startCount (arun fuel (s.deleteJob k none).1 ops).log k = startCount (s.deleteJob k none).1.log k ∧
    k ∉ (arun fuel (s.deleteJob k none).1 ops).reg := by
  obtain ⟨_, hnr, t', ht', hterm, _⟩ := C18.delete_cancels s k t ht hr hn
  have hdead : DeadJob (s.deleteJob k none).1 k := by
    refine ⟨t', ht', ?_⟩
    cases hp : t'.phase <;> simp_all [Phase.terminal, DeadTask]
  have hgone : AGone (s.deleteJob k none).1 k :=
    ⟨hnr, (List.getElem?_eq_some_iff.mp (show (s.deleteJob k none).1.tasks[k]? = some t' from ht')).1⟩
  exact ⟨(Frozen.arun fuel k ops _ hdead).count, (AGone.arun fuel k ops _ hgone).1⟩

/-- **… also when the job's own coroutine deleted it**: from that moment no further run of it starts
    (the pending cancellation is delivered at its next await or at the loop head), whatever follows -/
theorem C18.self_deleted_never_starts_again (s : AState) (k : Nat) (hrun : IsRunning s k) (t : ATask)
    (ht : s.task? k = some t) (hr : k ∈ s.reg) (fuel : Nat) (rest : List Act) (raises : Bool) (ops : List AOp) :
    let s1 := runActs fuel (s.deleteJob k (some k)).1 k rest raises
    startCount (arun fuel s1 ops).log k = startCount s.log k := by
  intro s1
  have hc : s.reg.contains k = true := by simpa using hr
  have hdead0 : DeadJob (s.deleteJob k (some k)).1 k := by
    obtain ⟨r, v, hph⟩ := hrun t ht
    unfold AState.deleteJob
    simp only [hc, if_true]
    refine ⟨{ t with pendingCancel := true }, ?_, Or.inr (Or.inr ⟨rfl, r, v, hph⟩)⟩
    unfold AState.cancel
    rw [AState.task?_setTask]
    simp only [if_true, AState.logCancel_task?]
    have : ({ s with reg := s.reg.erase k } : AState).task? k = some t := ht
    rw [this]
    simp [hph]
  have hcount0 : startCount (s.deleteJob k (some k)).1.log k = startCount s.log k := by
    unfold AState.deleteJob
    simp only [hc, if_true]
    unfold AState.cancel
    simp only [AState.setTask_log]
    unfold AState.logCancel
    have : ({ s with reg := s.reg.erase k } : AState).task? k = some t := ht
    obtain ⟨r, v, hph⟩ := hrun t ht
    simp [this, hph]
  have hk : k < (s.deleteJob k (some k)).1.tasks.length := by
    rw [deleteJob_len]
    exact (List.getElem?_eq_some_iff.mp (show s.tasks[k]? = some t from ht)).1
  have h1 := Frozen.runActs fuel k _ k rest raises hdead0 (IsRunning.deleteJob s k hrun k) hk
  have h2 := Frozen.arun fuel k ops s1 h1.dead
  rw [h2.count, h1.count, hcount0]

end SV
