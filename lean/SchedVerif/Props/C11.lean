/-
  Props/C11.lean — the job set is exactly: scheduled minus deleted minus retired.
  The registry changes in exactly four ways, each characterised below; together with
  C06.never_back (nothing returns) and the invariant that the registry is duplicate-free this is
  the refinement to "created − deleted − retired".
-/
import SchedVerif.Props.C12
import SchedVerif.Props.C06
import SchedVerif.Lemmas.AsyncReg
namespace SV

/-- (1) a successful scheduling call adds at most its own fresh key, a rejected one nothing -/
theorem C11.schedule_adds_only_new (s : State) (sp : RawSpec) (clock : Int) (direct : Bool) :
    (schedule s sp clock direct).1.reg = s.reg ∨
    ((schedule s sp clock direct).1.reg = s.reg ++ [s.heap.length] ∧ (schedule s sp clock direct).2 = .job s.heap.length) := by
  unfold SV.schedule
  split
  · left; rfl
  · split
    · right; exact ⟨rfl, rfl⟩
    · left; rfl

/-- a call that raises registers nothing (any operation) -/
theorem C11.rejected_registers_nothing (s : State) (op : Op) (e : Err)
    (h : (step s op).2.res = .err e) : (step s op).1.reg = s.reg := by
  cases op with
  | sched sp clock =>
      simp only [SV.step] at h ⊢
      unfold SV.schedule at h ⊢
      split
      · rfl
      · rename_i j hj; rw [hj] at h; simp at h
  | ctor sp clock jtz =>
      simp only [SV.step] at h ⊢
      split
      · rename_i hz
        simp only [hz, if_true] at h
        unfold SV.schedule at h ⊢
        split
        · rfl
        · rename_i j hj; rw [hj] at h; simp at h
      · split <;> rfl
  | exec clock force order raises scripts => simp [SV.step, SV.execJobs] at h
  | del k =>
      simp only [SV.step, SV.deleteJob] at h ⊢
      split
      · rename_i hc
        have hm : k ∈ s.reg := by simpa using hc
        simp [hm] at h
      · rfl
  | delTags q any => simp [SV.step, SV.deleteJobs] at h
  | get q any => rfl
  | jobs => rfl

/-- (2a) deleting a job that is not registered raises SchedulerError and changes nothing -/
theorem C11.delete_unknown_raises_and_noop (s : State) (k : Nat) (h : k ∉ s.reg) :
    deleteJob s k = (s, .err .schedulerError) := by
  simp [SV.deleteJob, h]

/-- (2b) deleting a registered job removes exactly that job -/
theorem C11.delete_registered (s : State) (hn : s.reg.Nodup) (k : Nat) (h : k ∈ s.reg) :
    (deleteJob s k).2 = .unit ∧ ∀ k', k' ∈ (deleteJob s k).1.reg ↔ (k' ∈ s.reg ∧ k' ≠ k) := by
  simp only [SV.deleteJob, h, List.contains_eq_mem, decide_true, if_true, true_and]
  intro k'
  rw [hn.mem_erase_iff]
  exact And.comm

/-- (2c) `delete_jobs` returns the number of jobs it removed, and removes exactly its selection -/
theorem C11.delete_jobs_count (s : State) (q : List Nat) (any : Bool) :
    (deleteJobs s q any).2 = .count (selectKeys s q any).length ∧
    (∀ k, k ∈ (deleteJobs s q any).1.reg ↔ (k ∈ s.reg ∧ k ∉ selectKeys s q any)) :=
  ⟨(C12.delete_exactly s q any).2.1, (C12.delete_exactly s q any).1⟩

/-- (3) queries are pure: `jobs` and `get_jobs` change nothing and report exactly the registered
    jobs (the handed-out value is a fresh list — a snapshot) -/
theorem C11.queries_pure (s : State) :
    (step s .jobs).1 = s ∧ (∃ l, (step s .jobs).2.res = .set l ∧ ∀ k, k ∈ l ↔ k ∈ s.reg) ∧
    ∀ q any, (step s (.get q any)).1 = s :=
  ⟨rfl, ⟨sortKeys s.reg, rfl, fun k => (sortKeys_perm _).mem_iff⟩, fun _ _ => rfl⟩

/-! (4) `exec_jobs` with callbacks that do not touch the scheduler: a registered job leaves the
    registry iff it ran in this call and has no attempts remaining afterwards -/

theorem find_postOne_ne (ref : DT) (s : State) (b k : Nat) (h : b ≠ k) :
    (SV.postOne ref s b).find k = s.find k := by
  unfold SV.postOne
  simp only []
  have key := State.setJob_find_ne s b k (fun j => j.calcNext ref) h
  split
  · exact key
  · split
    · exact key
    · exact key

theorem find_postFold_notin (ref : DT) (B : List Nat) (s : State) (k : Nat) (h : k ∉ B) :
    (B.foldl (SV.postOne ref) s).find k = s.find k := by
  induction B generalizing s with
  | nil => rfl
  | cons b bs ih =>
      simp only [List.foldl_cons]
      rw [ih _ (fun hc => h (by simp [hc])), find_postOne_ne ref s b k (fun e => h (by simp [e]))]

/-- does job `k` (if it exists) have attempts remaining in state `s`? -/
def hasAttOf (s : State) (k : Nat) : Bool :=
  match s.find k with
  | some sj => sj.job.hasAttempts
  | none => false

theorem postFold_reg (ref : DT) (B : List Nat) :
    ∀ (s : State), s.reg.Nodup → B.Nodup → (∀ b ∈ B, b < s.heap.length) → ∀ k,
      (k ∈ (B.foldl (SV.postOne ref) s).reg ↔
        (k ∈ s.reg ∧ (k ∉ B ∨ hasAttOf (B.foldl (SV.postOne ref) s) k = true))) := by
  induction B with
  | nil => intro s _ _ _ k; simp
  | cons b bs ih =>
      intro s hn hB hlt k
      have hnb := List.nodup_cons.mp hB
      obtain ⟨sj, hsj⟩ := s.find_some b (hlt b (by simp))
      have hf1 : (s.setJob b (fun j => j.calcNext ref)).find b = some { sj with job := sj.job.calcNext ref } := by
        rw [State.setJob_find_eq, hsj]; rfl
      -- registry and job b after the first step
      have hreg1 : (SV.postOne ref s b).reg = if (sj.job.calcNext ref).hasAttempts then s.reg else s.reg.erase b := by
        simp only [SV.postOne, hf1]; split <;> rfl
      have hfind1 : (SV.postOne ref s b).find b = some { sj with job := sj.job.calcNext ref } := by
        simp only [SV.postOne, hf1]; split <;> exact hf1
      have hn1 : (SV.postOne ref s b).reg.Nodup := by rw [hreg1]; split; exact hn; exact hn.erase b
      have hl1 : (SV.postOne ref s b).heap.length = s.heap.length := by
        simp only [SV.postOne, hf1]; split <;> simp
      have IH := ih (SV.postOne ref s b) hn1 hnb.2 (by intro b' hb'; rw [hl1]; exact hlt b' (by simp [hb'])) k
      simp only [List.foldl_cons]
      rw [IH]
      by_cases hkb : k = b
      · subst hkb
        have hfin : hasAttOf (bs.foldl (SV.postOne ref) (SV.postOne ref s k)) k = (sj.job.calcNext ref).hasAttempts := by
          simp only [hasAttOf]
          rw [find_postFold_notin ref bs _ k hnb.1, hfind1]
        rw [hfin, hreg1]
        by_cases ha : (sj.job.calcNext ref).hasAttempts = true
        · simp [ha, hnb.1]
        · simp only [ha, Bool.false_eq_true, if_false]
          constructor
          · rintro ⟨h1, _⟩; exact absurd h1 (by rw [hn.mem_erase_iff]; simp)
          · rintro ⟨_, h2⟩; rcases h2 with h2 | h2
            · exact absurd (List.mem_cons_self) h2
            · exact absurd h2 (by simp)
      · have hmem : k ∈ (SV.postOne ref s b).reg ↔ k ∈ s.reg := by
          rw [hreg1]; split
          · exact Iff.rfl
          · rw [hn.mem_erase_iff]; simp [hkb]
        rw [hmem]
        simp [hkb]

/-- **exec_jobs and the registry** (callbacks that do not touch the scheduler): after the call a
    job is registered iff it was registered before and either did not run in this call or still
    has attempts remaining — i.e. exactly the exhausted / past-stop jobs that ran are retired -/
theorem C11.exec_registry (s : State) (h : Inv s) (clock : Int) (force : Bool) (order raises : List Nat) (k : Nat) :
    let r := execJobs s clock force order raises []
    k ∈ r.1.reg ↔ (k ∈ s.reg ∧ (k ∉ r.2.invoked.map (·.key) ∨ hasAttOf r.1 k = true)) := by
  obtain ⟨bn, bs⟩ := batch_facts s clock force order h.nodup
  simp only [SV.execJobs]
  generalize (if force = true then (if isPermOf order s.reg = true then order else s.reg)
      else List.map (fun x => x.fst) (selectBatch s.maxExec (List.map (fun k => (k, prioOf s.prio (lateness s (nowDT s.tz clock) k) (weightOf s k)))
        (if isPermOf order s.reg = true then order else s.reg)))) = batch at bn bs
  have hlt : ∀ b ∈ batch, b < s.heap.length := fun b hb => h.inHeap b (bs b hb)
  obtain ⟨hkeys, hlen, hreg⟩ := runOne_fold_plain clock raises batch s [] hlt
  have hp : batch.foldl (SV.runOne clock raises []) (s, []) =
      ((batch.foldl (SV.runOne clock raises []) (s, [])).1, (batch.foldl (SV.runOne clock raises []) (s, [])).2) := rfl
  rw [hp]
  simp only []
  rw [postFold_reg _ batch _ (by rw [hreg]; exact h.nodup) bn (by intro b hb; rw [hlen]; exact hlt b hb) k]
  rw [hreg, hkeys]
  simp

/-! non-vacuity: a history in which all four kinds of change occur -/
example : (reach none 0 .linear
    [.sched { call := .cyclic, timings := [.td 10], isList := false } 100,
     .sched { call := .once, timings := [.td 5], isList := false } 100,
     .sched { call := .cyclic, timings := [.td 7], isList := false, tags := [1] } 100,
     .exec 200 true [0, 1, 2] [] [],
     .delTags [1] false,
     .del 1]).reg = [0] := by decide


/-! ### the asyncio front end -/

/-- **asyncio: the job set is exactly "scheduled − deleted − retired"** — after every history of the
    asyncio scheduler (scheduling, deletions by reference / tags / from coroutines, scripted
    coroutines, passage of virtual time) a job is registered iff its supervising task is alive: it
    was created by a successful scheduling call, no `delete_job`/`delete_jobs` has cancelled it (not
    even a cancellation still pending for the running task), and its supervisor has not left its loop
    for lack of attempts -/
theorem C11.aio_registry (tz : Option Int) (t0 : Int) (fuel : Nat) (ops : List AOp) (k : Nat) (t : ATask)
    (ht : (arun fuel { tz := tz, now := t0 } ops).task? k = some t) :
    k ∈ (arun fuel { tz := tz, now := t0 } ops).reg ↔ aliveT t = true :=
  (RegInv.arun fuel ops _ (RegInv.init tz t0)).iff k t ht

/-- asyncio: the registry never holds a job twice and only holds jobs that exist -/
theorem C11.aio_registry_wellformed (tz : Option Int) (t0 : Int) (fuel : Nat) (ops : List AOp) :
    (arun fuel { tz := tz, now := t0 } ops).reg.Nodup ∧
    ∀ k ∈ (arun fuel { tz := tz, now := t0 } ops).reg, k < (arun fuel { tz := tz, now := t0 } ops).tasks.length :=
  ⟨(RegInv.arun fuel ops _ (RegInv.init tz t0)).nodup, (RegInv.arun fuel ops _ (RegInv.init tz t0)).bound⟩

end SV
