/-
  Props/C16.lean — parallel workers run each selected job once; exec_jobs returns when all are done.
-/
import SchedVerif.Model.Conc.Pool
import SchedVerif.Props.C14
import SchedVerif.Lemmas.PoolSeq
namespace SV
open SV.Pool

/-- a worker runs at most one job at a time -/
def OneEach (s : PState) : Prop := (s.running.map (·.1)).Nodup

theorem lookup_some_mem (l : List (Nat × Nat)) (w j : Nat) (h : l.lookup w = some j) : (w, j) ∈ l := by
  induction l with
  | nil => simp [List.lookup] at h
  | cons p ps ih =>
      simp only [List.lookup] at h
      split at h
      · rename_i heq
        have : w = p.1 := by simpa using heq
        cases h
        simp [this]
      · exact List.mem_cons_of_mem _ (ih h)

theorem filter_ne_perm (l : List (Nat × Nat)) (w j : Nat) (hn : (l.map (·.1)).Nodup) (h : l.lookup w = some j) :
    (j :: (l.filter (fun p => p.1 != w)).map (·.2)).Perm (l.map (·.2)) := by
  induction l with
  | nil => simp [List.lookup] at h
  | cons p ps ih =>
      simp only [List.map_cons, List.nodup_cons] at hn
      simp only [List.lookup] at h
      split at h
      · rename_i heq
        have hw : w = p.1 := by simpa using heq
        cases h
        have hnone : ∀ q ∈ ps, q.1 ≠ w := by
          intro q hq e
          exact hn.1 (by rw [← hw, ← e]; exact List.mem_map_of_mem hq)
        have hf : ps.filter (fun q => q.1 != w) = ps := by
          rw [List.filter_eq_self]; intro q hq; simpa using hnone q hq
        have hpw : (p.1 != w) = false := by simp [hw]
        simp only [List.filter_cons, hpw, Bool.false_eq_true, if_false, List.map_cons, hf]
        exact List.Perm.refl _
      · rename_i hne
        have hw : ¬ (w = p.1) := by simpa using hne
        have hpw : (p.1 != w) = true := by simp; exact fun e => hw e.symm
        simp only [List.filter_cons, hpw, if_true, List.map_cons]
        exact (List.Perm.swap _ _ _).trans (List.Perm.cons _ (ih hn.2 h))

/-- **each job is run exactly once, whatever the interleaving of the workers**: the jobs that are
    done, running or still queued are always a rearrangement of the batch -/
theorem C16.each_once_step (s : PState) (h1 : OneEach s) (w : Nat) :
    (Pool.all (Pool.step s w)).Perm (Pool.all s) ∧ OneEach (Pool.step s w) := by
  unfold Pool.step
  by_cases he : s.exited.contains w = true
  · simp only [he, if_true]; exact ⟨List.Perm.refl _, h1⟩
  · simp only [he, Bool.false_eq_true, if_false]
    cases hl : s.running.lookup w with
    | some j =>
        simp only []
        constructor
        · unfold Pool.all
          simp only []
          have hp := filter_ne_perm s.running w j h1 hl
          -- done ++ [j] ++ rest ++ queue  ~  done ++ running ++ queue
          have : (s.done ++ [j] ++ (s.running.filter (fun p => p.1 != w)).map (·.2) ++ s.queue).Perm
              (s.done ++ s.running.map (·.2) ++ s.queue) := by
            rw [List.append_assoc s.done [j], List.append_assoc s.done, List.append_assoc s.done]
            apply List.Perm.append_left
            apply List.Perm.append_right
            simpa using hp
          exact this
        · unfold OneEach at *
          simp only []
          exact h1.sublist (List.Sublist.map _ List.filter_sublist)
    | none =>
        simp only []
        cases hq : s.queue with
        | nil =>
            simp only []
            refine ⟨?_, h1⟩
            unfold Pool.all
            simp [hq]
        | cons j q =>
            simp only []
            constructor
            · unfold Pool.all
              simp only [hq, List.map_cons]
              rw [List.append_assoc, List.append_assoc]
              apply List.Perm.append_left
              simp only [List.cons_append]
              exact List.perm_middle.symm
            · unfold OneEach at *
              simp only [List.map_cons, List.nodup_cons]
              refine ⟨?_, h1⟩
              intro hm
              obtain ⟨p, hp, hpw⟩ := List.mem_map.mp hm
              -- w has no running job
              have : s.running.lookup w ≠ none := by
                intro _
                have hx : ∀ (l : List (Nat × Nat)), (∃ p ∈ l, p.1 = w) → l.lookup w ≠ none := by
                  intro l
                  induction l with
                  | nil => intro ⟨p, hp, _⟩; cases hp
                  | cons a as ih =>
                      intro ⟨p, hp, hpw⟩
                      simp only [List.lookup]
                      split
                      · simp
                      · rename_i hne
                        rcases List.mem_cons.mp hp with rfl | h'
                        · simp [hpw] at hne
                        · exact ih ⟨p, h', hpw⟩
                exact hx s.running ⟨p, hp, hpw⟩ hl
              exact this hl

theorem C16.each_once (batch : List Nat) (sched : List Nat) :
    (Pool.all (Pool.run (Pool.init batch) sched)).Perm batch ∧ OneEach (Pool.run (Pool.init batch) sched) := by
  have key : ∀ (sched : List Nat) (s : PState), OneEach s →
      (Pool.all (Pool.run s sched)).Perm (Pool.all s) ∧ OneEach (Pool.run s sched) := by
    intro sched
    induction sched with
    | nil => intro s h; exact ⟨List.Perm.refl _, h⟩
    | cons w ws ih =>
        intro s h
        obtain ⟨p1, o1⟩ := C16.each_once_step s h w
        obtain ⟨p2, o2⟩ := ih (Pool.step s w) o1
        exact ⟨by simpa [Pool.run] using p2.trans p1, by simpa [Pool.run] using o2⟩
  have h0 : OneEach (Pool.init batch) := by simp [OneEach, Pool.init]
  obtain ⟨a, b⟩ := key sched (Pool.init batch) h0
  exact ⟨by simpa [Pool.all, Pool.init] using a, b⟩

/-- **when all workers have returned, every job of the batch has been run exactly once** —
    `exec_jobs` joins the queue and the workers before it goes on -/
theorem C16.all_done_before_return (batch sched : List Nat)
    (hq : (Pool.run (Pool.init batch) sched).queue = []) (hr : (Pool.run (Pool.init batch) sched).running = []) :
    (Pool.run (Pool.init batch) sched).done.Perm batch := by
  have := (C16.each_once batch sched).1
  simpa [Pool.all, hq, hr] using this

/-- **identical to sequential execution**: for every worker count and every interleaving of the
    workers (any schedule after which the queue is empty and nobody is running), applying the
    callbacks' effects on the scheduler in the order in which the workers finished them yields exactly
    the state reached by running the batch sequentially in queue order — attempts, failure counts,
    log count, registry; the rescheduling loop that follows is sequential in both cases, hence due
    times and the job set afterwards agree too (callbacks that do not touch the scheduler) -/
theorem C16.same_as_sequential (s : State) (clock : Int) (raises : List Nat) (batch sched : List Nat)
    (hq : (Pool.run (Pool.init batch) sched).queue = []) (hr : (Pool.run (Pool.init batch) sched).running = []) :
    ((Pool.run (Pool.init batch) sched).done.foldl (SV.runOne clock raises []) (s, [])).1 =
      (batch.foldl (SV.runOne clock raises []) (s, [])).1 := by
  rw [runOne_fold_state, runOne_fold_state]
  exact runState_perm raises _ _ (C16.all_done_before_return batch sched hq hr) s

/-- … and therefore so does the whole call: the post-run loop starts from the same state -/
theorem C16.same_after_rescheduling (s : State) (clock : Int) (ref : DT) (raises : List Nat) (batch sched : List Nat)
    (hq : (Pool.run (Pool.init batch) sched).queue = []) (hr : (Pool.run (Pool.init batch) sched).running = []) :
    batch.foldl (SV.postOne ref) ((Pool.run (Pool.init batch) sched).done.foldl (SV.runOne clock raises []) (s, [])).1 =
      batch.foldl (SV.postOne ref) (batch.foldl (SV.runOne clock raises []) (s, [])).1 := by
  rw [C16.same_as_sequential s clock raises batch sched hq hr]

/-- **work conserving**: the batch is one shared queue — whenever a job is still queued, any worker
    that is not inside a callback (and has not returned) takes the head of the queue with its next
    step, whatever the other workers are blocked on; so a callback that waits for a later job of the
    batch is released as long as one other worker exists -/
theorem C16.work_conserving (s : PState) (w j : Nat) (q : List Nat) (hq : s.queue = j :: q)
    (hidle : s.running.lookup w = none) (hx : s.exited.contains w = false) :
    (Pool.step s w).queue = q ∧ (Pool.step s w).running = (w, j) :: s.running ∧ (Pool.step s w).done = s.done := by
  have hx' : w ∉ s.exited := by simpa using hx
  simp [Pool.step, hx', hidle, hq]

/-- **at most `m` callbacks at the same time**: only the `m` workers of the pool ever run jobs -/
theorem C16.at_most_m (s : PState) (h : OneEach s) (m : Nat) (hw : ∀ p ∈ s.running, p.1 < m) :
    s.running.length ≤ m := by
  have hn : (s.running.map (·.1)).Nodup := h
  have hsub : ∀ x ∈ s.running.map (·.1), x ∈ List.range m := by
    intro x hx
    obtain ⟨p, hp, rfl⟩ := List.mem_map.mp hx
    exact List.mem_range.mpr (hw p hp)
  have := List.Nodup.length_le_of_subset hn hsub
  simpa using this

/-- **with as many workers as jobs (n_threads = 0) all callbacks can run simultaneously**: after
    each worker has taken one step, all `n` jobs are inside their callbacks at once -/
theorem C16.all_can_run_together (batch : List Nat) :
    ((Pool.run (Pool.init batch) (List.range batch.length)).running.map (·.2)).Perm batch ∧
    (Pool.run (Pool.init batch) (List.range batch.length)).done = [] := by
  have key : ∀ (q : List Nat) (k : Nat) (run : List (Nat × Nat)),
      (∀ p ∈ run, p.1 < k) →
      let s := Pool.run { queue := q, running := run, done := [], exited := [] } ((List.range q.length).map (· + k))
      (s.running.map (·.2)).Perm (run.map (·.2) ++ q) ∧ s.done = [] := by
    intro q
    induction q with
    | nil => intro k run _; simp [Pool.run]
    | cons j qs ih =>
        intro k run hrun
        have hlook : run.lookup k = none := by
          induction run with
          | nil => rfl
          | cons a as iha =>
              simp only [List.lookup]
              have := hrun a (by simp)
              split
              · rename_i heq; have : k = a.1 := by simpa using heq
                omega
              · exact iha (fun p hp => hrun p (by simp [hp]))
        have e : (List.range (j :: qs).length).map (· + k) = k :: (List.range qs.length).map (· + (k + 1)) := by
          simp only [List.length_cons, List.range_succ_eq_map, List.map_cons, Nat.zero_add, List.map_map]
          congr 1
          apply List.map_congr_left
          intro x _
          simp only [Function.comp]; omega
        rw [e]
        simp only [Pool.run, List.foldl_cons]
        have hs : Pool.step { queue := j :: qs, running := run, done := [], exited := [] } k =
            { queue := qs, running := (k, j) :: run, done := [], exited := [] } := by
          simp [Pool.step, hlook]
        rw [hs]
        have := ih (k + 1) ((k, j) :: run) (by
          intro p hp
          rcases List.mem_cons.mp hp with rfl | h'
          · simp
          · have := hrun p h'; omega)
        simp only [Pool.run] at this
        refine ⟨?_, this.2⟩
        refine this.1.trans ?_
        simp only [List.map_cons, List.cons_append]
        exact List.perm_middle.symm
  have := key batch 0 [] (by simp)
  simpa [Pool.init] using this

/-- **a single worker runs the batch in queue order** (so, with C05.sorted, in priority order) -/
theorem C16.fifo_single_worker (batch : List Nat) (s : PState) (hr : s.running = []) (hq : s.queue = batch)
    (he : s.exited = []) :
    (Pool.run s (List.replicate (2 * batch.length) 0)).done = s.done ++ batch := by
  induction batch generalizing s with
  | nil => simp [Pool.run]
  | cons j qs ih =>
      have e : List.replicate (2 * (j :: qs).length) 0 = 0 :: 0 :: List.replicate (2 * qs.length) 0 := by
        simp only [List.length_cons]
        rw [show 2 * (qs.length + 1) = (2 * qs.length + 1) + 1 by omega]
        rfl
      rw [e]
      simp only [Pool.run, List.foldl_cons]
      have s1 : Pool.step s 0 = { s with queue := qs, running := [(0, j)] } := by
        simp [Pool.step, hr, hq, he, List.lookup]
      rw [s1]
      have s2 : Pool.step { s with queue := qs, running := [(0, j)] } 0 = { s with queue := qs, running := [], done := s.done ++ [j] } := by
        simp [Pool.step, he, List.lookup]
      rw [s2]
      have := ih { s with queue := qs, running := [], done := s.done ++ [j] } rfl rfl he
      simp only [Pool.run] at this
      rw [this]
      simp

/-- **the same job's callback never overlaps itself**: it runs under the job's execution lock, and
    a lock has one owner (C14.mutex) — stated on L2: two threads cannot both hold one lock -/
theorem C16.no_self_overlap (s : L2.Sys) (hm : L2.Mutex s) (i j : Nat) (ti tj : L2.Thread) (l : Nat)
    (hi : s[i]? = some ti) (hj : s[j]? = some tj) (h1 : l ∈ ti.held) (h2 : l ∈ tj.held) : i = j :=
  hm i j ti tj l hi hj h1 h2

/-! non-vacuity: 3 jobs, 2 workers, an interleaving -/
example : (Pool.run (Pool.init [7, 8, 9]) [0, 1, 1, 0, 1, 0, 1, 0]).done = [8, 7, 9] := by decide

/-! non-vacuity of `same_as_sequential`: two workers that finish in the reverse of the queue order -/
example : (Pool.run (Pool.init [0, 1]) [0, 1, 1, 0, 0, 1]).done = [1, 0] ∧
    (Pool.run (Pool.init [0, 1]) [0, 1, 1, 0, 0, 1]).queue = [] ∧
    (Pool.run (Pool.init [0, 1]) [0, 1, 1, 0, 0, 1]).running = [] := by decide

end SV
