/-
  Props/C04.lean — exec_jobs runs every due job exactly once, nothing early, and reports the count.
  Statements are about ONE `exec_jobs` step from an arbitrary state whose registry is duplicate-free
  and refers to existing jobs (reachable or not).
-/
import SchedVerif.Lemmas.Exec
import SchedVerif.Props.C05
namespace SV

/-- due instant of the job with key `k` -/
def dueOf (s : State) (k : Nat) : Int :=
  match s.find k with
  | some sj => sj.job.due.inst
  | none => 0

theorem lateness_eq (s : State) (tz : Option Int) (clock : Int) (k : Nat) (h : k < s.heap.length) :
    lateness s (nowDT tz clock) k = clock - dueOf s k := by
  obtain ⟨sj, hsj⟩ := s.find_some k h
  simp [lateness, dueOf, hsj, nowDT_inst]

/-- keys chosen by a non-forced call with the default priority function and no limit -/
theorem batch_keys_linear (s : State) (clock : Int) (order : List Nat)
    (hheap : ∀ k ∈ order, k < s.heap.length) (k : Nat) :
    k ∈ (selectBatch 0 (order.map (fun k => (k, linearPrio (lateness s (nowDT s.tz clock) k) (weightOf s k))))).map (·.1)
      ↔ (k ∈ order ∧ 0 < weightOf s k ∧ dueOf s k ≤ clock) := by
  rw [selectBatch_eq]
  simp only [if_true, List.mem_map, List.mem_filter]
  constructor
  · rintro ⟨x, ⟨hx1, hx2⟩, rfl⟩
    have hx : x ∈ order.map (fun k => (k, linearPrio (lateness s (nowDT s.tz clock) k) (weightOf s k))) :=
      (sortDesc_perm _).mem_iff.mp hx1
    obtain ⟨k, hk, rfl⟩ := List.mem_map.mp hx
    have hp : 0 < linearPrio (lateness s (nowDT s.tz clock) k) (weightOf s k) := by simpa [pos] using hx2
    rw [C05.linear_pos, lateness_eq s s.tz clock k (hheap k hk)] at hp
    exact ⟨hk, hp.2, by simp only []; omega⟩
  · rintro ⟨hk, hw, hd⟩
    refine ⟨(k, linearPrio (lateness s (nowDT s.tz clock) k) (weightOf s k)), ⟨?_, ?_⟩, rfl⟩
    · exact (sortDesc_perm _).mem_iff.mpr (List.mem_map.mpr ⟨k, hk, rfl⟩)
    · have : 0 < linearPrio (lateness s (nowDT s.tz clock) k) (weightOf s k) := by
        rw [C05.linear_pos, lateness_eq s s.tz clock k (hheap k hk)]
        exact ⟨by omega, hw⟩
      simpa [pos] using this

theorem batch_keys_nodup (maxExec : Nat) (order : List Nat) (f : Nat → Rat) (hn : order.Nodup) :
    ((selectBatch maxExec (order.map (fun k => (k, f k)))).map (·.1)).Nodup := by
  have hsub : ((selectBatch maxExec (order.map (fun k => (k, f k)))).map (·.1)).Sublist
      ((sortDesc (order.map (fun k => (k, f k)))).map (·.1)) := (cut_sublist _ _).map _
  have hperm : ((sortDesc (order.map (fun k => (k, f k)))).map (·.1)).Perm order := by
    have := (sortDesc_perm (order.map (fun k => (k, f k)))).map (·.1)
    simpa [List.map_map, Function.comp_def] using this
  exact (hperm.nodup_iff.mpr hn).sublist hsub

/-- **every due job of positive weight runs exactly once, nothing early, and the count is reported**
    (default priority function, no execution limit, callbacks that do not touch the scheduler) -/
theorem C04.due_exactly (s : State) (clock : Int) (order raises : List Nat)
    (hme : s.maxExec = 0) (hp : s.prio = .linear)
    (hperm : order.Perm s.reg) (hord : isPermOf order s.reg = true) (hnd : s.reg.Nodup)
    (hheap : ∀ k ∈ s.reg, k < s.heap.length) :
    let out := (execJobs s clock false order raises []).2
    (out.invoked.map (·.key)).Nodup ∧
    (∀ k, k ∈ out.invoked.map (·.key) ↔ (k ∈ s.reg ∧ 0 < weightOf s k ∧ dueOf s k ≤ clock)) ∧
    out.res = .count out.invoked.length := by
  intro out
  have hheap' : ∀ k ∈ order, k < s.heap.length := fun k hk => hheap k (hperm.mem_iff.mp hk)
  have hbk := batch_keys_linear s clock order hheap'
  have hbh : ∀ k ∈ (selectBatch 0 (order.map (fun k => (k, linearPrio (lateness s (nowDT s.tz clock) k) (weightOf s k))))).map (·.1),
      k < s.heap.length := fun k hk => hheap' k ((hbk k).mp hk).1
  have hf := runOne_fold_plain clock raises _ s [] hbh
  have hinv : out.invoked.map (·.key) =
      (selectBatch 0 (order.map (fun k => (k, linearPrio (lateness s (nowDT s.tz clock) k) (weightOf s k))))).map (·.1) := by
    simp only [out, execJobs, hord, hme, hp, prioOf, if_true, Bool.false_eq_true, if_false]
    simpa using hf.1
  refine ⟨?_, ?_, ?_⟩
  · rw [hinv]
    exact batch_keys_nodup 0 order _ (hperm.nodup_iff.mpr hnd)
  · intro k
    rw [hinv, hbk k]
    constructor
    · rintro ⟨a, b, c⟩; exact ⟨hperm.mem_iff.mp a, b, c⟩
    · rintro ⟨a, b, c⟩; exact ⟨hperm.mem_iff.mpr a, b, c⟩
  · have hlen : out.invoked.length = ((selectBatch 0 (order.map (fun k => (k, linearPrio (lateness s (nowDT s.tz clock) k) (weightOf s k))))).map (·.1)).length := by
      rw [← hinv]; simp
    simp only [out, execJobs, hord, hme, hp, prioOf, if_true, Bool.false_eq_true, if_false] at hlen ⊢
    simp only [List.length_map] at hlen ⊢
    rw [hlen]

/-- a call at a moment when nothing is selected changes no job, no due time and no registration -/
theorem C04.not_due_noop (s : State) (clock : Int) (order raises : List Nat)
    (scripts : List (Nat × List COp))
    (hnone : (selectBatch s.maxExec ((if isPermOf order s.reg then order else s.reg).map
        (fun k => (k, prioOf s.prio (lateness s (nowDT s.tz clock) k) (weightOf s k))))) = []) :
    (execJobs s clock false order raises scripts).1 = s ∧
    (execJobs s clock false order raises scripts).2.res = .count 0 ∧
    (execJobs s clock false order raises scripts).2.invoked = [] := by
  simp [execJobs, hnone]

/-- with `force_exec_all` every registered job runs exactly once, regardless of due time and of
    the execution limit -/
theorem C04.force (s : State) (clock : Int) (order raises : List Nat)
    (hperm : order.Perm s.reg) (hord : isPermOf order s.reg = true) (hnd : s.reg.Nodup)
    (hheap : ∀ k ∈ s.reg, k < s.heap.length) :
    let out := (execJobs s clock true order raises []).2
    out.invoked.map (·.key) = order ∧ (out.invoked.map (·.key)).Perm s.reg ∧
    (out.invoked.map (·.key)).Nodup ∧ out.res = .count s.reg.length := by
  intro out
  have hheap' : ∀ k ∈ order, k < s.heap.length := fun k hk => hheap k (hperm.mem_iff.mp hk)
  have hf := runOne_fold_plain clock raises order s [] hheap'
  have hinv : out.invoked.map (·.key) = order := by
    simp only [out, execJobs, hord, if_true]
    simpa using hf.1
  refine ⟨hinv, hinv ▸ hperm, hinv ▸ (hperm.nodup_iff.mpr hnd), ?_⟩
  simp only [out, execJobs, hord, if_true]
  rw [hperm.length_eq]

/-! non-vacuity: a registry of two existing jobs satisfies the hypotheses -/
example : ∃ s : State, s.reg.Nodup ∧ s.reg ≠ [] ∧ (∀ k ∈ s.reg, k < s.heap.length) ∧ s.maxExec = 0 ∧ s.prio = .linear :=
  ⟨{ tz := none, maxExec := 0, prio := .linear, heap := [default, default], reg := [0, 1] },
    by simp, by simp, by simp, rfl, rfl⟩

end SV
