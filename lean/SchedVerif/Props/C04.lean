/-
  Props/C04.lean — exec_jobs runs every due job exactly once, nothing early, and reports the count.
  Statements are about ONE `exec_jobs` step from an arbitrary state whose registry is duplicate-free
  and refers to existing jobs (reachable or not).
-/
import SchedVerif.Lemmas.Exec
import SchedVerif.Props.C05
namespace SV

/-- due instant of the job with key `k` -/
def dueOf (s : State) (k : Nat) : Int :=
  match s.find k with
  | some sj => sj.job.due.inst
  | none => 0

theorem lateness_eq (s : State) (tz : Option Int) (clock : Int) (k : Nat) (h : k < s.heap.length) :
    lateness s (nowDT tz clock) k = clock - dueOf s k := by
  obtain ⟨sj, hsj⟩ := s.find_some k h
  simp [lateness, dueOf, hsj, nowDT_inst]

/-- keys chosen by a non-forced call with the default priority function and no limit -/
theorem batch_keys_linear (s : State) (clock : Int) (order : List Nat)
    (hheap : ∀ k ∈ order, k < s.heap.length) (k : Nat) :
    k ∈ (selectBatch 0 (order.map (fun k => (k, linearPrio (lateness s (nowDT s.tz clock) k) (weightOf s k))))).map (·.1)
      ↔ (k ∈ order ∧ 0 < weightOf s k ∧ dueOf s k ≤ clock) := by
  rw [selectBatch_eq]
  simp only [if_true, List.mem_map, List.mem_filter]
  constructor
  · rintro ⟨x, ⟨hx1, hx2⟩, rfl⟩
    have hx : x ∈ order.map (fun k => (k, linearPrio (lateness s (nowDT s.tz clock) k) (weightOf s k))) :=
      (sortDesc_perm _).mem_iff.mp hx1
    obtain ⟨k, hk, rfl⟩ := List.mem_map.mp hx
    have hp : 0 < linearPrio (lateness s (nowDT s.tz clock) k) (weightOf s k) := by simpa [pos] using hx2
    rw [C05.linear_pos, lateness_eq s s.tz clock k (hheap k hk)] at hp
    exact ⟨hk, hp.2, by simp only []; omega⟩
  · rintro ⟨hk, hw, hd⟩
    refine ⟨(k, linearPrio (lateness s (nowDT s.tz clock) k) (weightOf s k)), ⟨?_, ?_⟩, rfl⟩
    · exact (sortDesc_perm _).mem_iff.mpr (List.mem_map.mpr ⟨k, hk, rfl⟩)
    · have : 0 < linearPrio (lateness s (nowDT s.tz clock) k) (weightOf s k) := by
        rw [C05.linear_pos, lateness_eq s s.tz clock k (hheap k hk)]
        exact ⟨by omega, hw⟩
      simpa [pos] using this

theorem batch_keys_nodup (maxExec : Nat) (order : List Nat) (f : Nat → Rat) (hn : order.Nodup) :
    ((selectBatch maxExec (order.map (fun k => (k, f k)))).map (·.1)).Nodup := by
  have hsub : ((selectBatch maxExec (order.map (fun k => (k, f k)))).map (·.1)).Sublist
      ((sortDesc (order.map (fun k => (k, f k)))).map (·.1)) := (cut_sublist _ _).map _
  have hperm : ((sortDesc (order.map (fun k => (k, f k)))).map (·.1)).Perm order := by
    have := (sortDesc_perm (order.map (fun k => (k, f k)))).map (·.1)
    simpa [List.map_map, Function.comp_def] using this
  exact (hperm.nodup_iff.mpr hn).sublist hsub

/-- **every due job of positive weight runs exactly once, nothing early, and the count is reported**
    (default priority function, no execution limit, callbacks that do not touch the scheduler) -/
theorem C04.due_exactly (s : State) (clock : Int) (order raises : List Nat)
    (hme : s.maxExec = 0) (hp : s.prio = .linear)
    (hperm : order.Perm s.reg) (hord : isPermOf order s.reg = true) (hnd : s.reg.Nodup)
    (hheap : ∀ k ∈ s.reg, k < s.heap.length) :
    let out := (execJobs s clock false order raises []).2
    (out.invoked.map (·.key)).Nodup ∧
    (∀ k, k ∈ out.invoked.map (·.key) ↔ (k ∈ s.reg ∧ 0 < weightOf s k ∧ dueOf s k ≤ clock)) ∧
    out.res = .count out.invoked.length := by
  intro out
  have hheap' : ∀ k ∈ order, k < s.heap.length := fun k hk => hheap k (hperm.mem_iff.mp hk)
  have hbk := batch_keys_linear s clock order hheap'
  have hbh : ∀ k ∈ (selectBatch 0 (order.map (fun k => (k, linearPrio (lateness s (nowDT s.tz clock) k) (weightOf s k))))).map (·.1),
      k < s.heap.length := fun k hk => hheap' k ((hbk k).mp hk).1
  have hf := runOne_fold_plain clock raises _ s [] hbh
  have hinv : out.invoked.map (·.key) =
      (selectBatch 0 (order.map (fun k => (k, linearPrio (lateness s (nowDT s.tz clock) k) (weightOf s k))))).map (·.1) := by
    simp only [out, execJobs, hord, hme, hp, prioOf, if_true, Bool.false_eq_true, if_false]
    simpa using hf.1
  refine ⟨?_, ?_, ?_⟩
  · rw [hinv]
    exact batch_keys_nodup 0 order _ (hperm.nodup_iff.mpr hnd)
  · intro k
    rw [hinv, hbk k]
    constructor
    · rintro ⟨a, b, c⟩; exact ⟨hperm.mem_iff.mp a, b, c⟩
    · rintro ⟨a, b, c⟩; exact ⟨hperm.mem_iff.mpr a, b, c⟩
  · have hlen : out.invoked.length = ((selectBatch 0 (order.map (fun k => (k, linearPrio (lateness s (nowDT s.tz clock) k) (weightOf s k))))).map (·.1)).length := by
      rw [← hinv]; simp
    simp only [out, execJobs, hord, hme, hp, prioOf, if_true, Bool.false_eq_true, if_false] at hlen ⊢
    simp only [List.length_map] at hlen ⊢
    rw [hlen]

/-- a call at a moment when nothing is selected changes no job, no due time and no registration -/
theorem C04.not_due_noop (s : State) (clock : Int) (order raises : List Nat)
    (scripts : List (Nat × List COp))
    (hnone : (selectBatch s.maxExec ((if isPermOf order s.reg then order else s.reg).map
        (fun k => (k, prioOf s.prio (lateness s (nowDT s.tz clock) k) (weightOf s k))))) = []) :
    (execJobs s clock false order raises scripts).1 = s ∧
    (execJobs s clock false order raises scripts).2.res = .count 0 ∧
    (execJobs s clock false order raises scripts).2.invoked = [] := by
  simp [execJobs, hnone]

/-- with `force_exec_all` every registered job runs exactly once, regardless of due time and of
    the execution limit -/
theorem C04.force (s : State) (clock : Int) (order raises : List Nat)
    (hperm : order.Perm s.reg) (hord : isPermOf order s.reg = true) (hnd : s.reg.Nodup)
    (hheap : ∀ k ∈ s.reg, k < s.heap.length) :
    let out := (execJobs s clock true order raises []).2
    out.invoked.map (·.key) = order ∧ (out.invoked.map (·.key)).Perm s.reg ∧
    (out.invoked.map (·.key)).Nodup ∧ out.res = .count s.reg.length := by
  intro out
  have hheap' : ∀ k ∈ order, k < s.heap.length := fun k hk => hheap k (hperm.mem_iff.mp hk)
  have hf := runOne_fold_plain clock raises order s [] hheap'
  have hinv : out.invoked.map (·.key) = order := by
    simp only [out, execJobs, hord, if_true]
    simpa using hf.1
  refine ⟨hinv, hinv ▸ hperm, hinv ▸ (hperm.nodup_iff.mpr hnd), ?_⟩
  simp only [out, execJobs, hord, if_true]
  rw [hperm.length_eq]

/-- the Bool twin evaluated by the driver on what the implementation invoked **is** the statement
    of `due_exactly` (each once, exactly the due jobs of positive weight, only known jobs, count) -/
theorem C04.twin_iff (clock : Int) (jobs : List (Nat × Int × Rat)) (inv : List Nat) (ret : Nat) :
    c04SpecB clock jobs inv ret = true ↔
      (inv.Nodup ∧ (∀ j ∈ jobs, j.1 ∈ inv ↔ (0 < j.2.2 ∧ j.2.1 ≤ clock)) ∧
       (∀ k ∈ inv, ∃ j ∈ jobs, j.1 = k) ∧ ret = inv.length) := by
  unfold c04SpecB
  simp only [Bool.and_eq_true, nodupB_iff, List.all_eq_true, List.any_eq_true, beq_iff_eq]
  constructor
  · rintro ⟨⟨⟨h1, h2⟩, h3⟩, h4⟩
    refine ⟨h1, ?_, ?_, h4⟩
    · intro j hj
      have := h2 j hj
      rw [← List.contains_iff_mem, this]
      simp
    · intro k hk
      obtain ⟨j, hj, e⟩ := h3 k hk
      exact ⟨j, hj, e⟩
  · rintro ⟨h1, h2, h3, h4⟩
    refine ⟨⟨⟨h1, ?_⟩, ?_⟩, h4⟩
    · intro j hj
      have := h2 j hj
      by_cases hm : j.1 ∈ inv
      · have h' := this.mp hm
        simp [hm, h'.1, h'.2]
      · have h' : ¬ (0 < j.2.2 ∧ j.2.1 ≤ clock) := fun c => hm (this.mpr c)
        have : (decide (0 < j.2.2) && decide (j.2.1 ≤ clock)) = false := by
          simp only [Bool.and_eq_false_iff, decide_eq_false_iff_not]
          by_cases h0 : 0 < j.2.2
          · right; exact fun c => h' ⟨h0, c⟩
          · left; exact h0
        rw [this]
        simpa using hm
    · intro k hk
      obtain ⟨j, hj, e⟩ := h3 k hk
      exact ⟨j, hj, e⟩

/-- the forced twin: every registered job exactly once and the count -/
theorem C04.force_twin_iff (reg inv : List Nat) (ret : Nat) :
    forceSpecB reg inv ret = true ↔
      (inv.Nodup ∧ (∀ k, k ∈ reg ↔ k ∈ inv) ∧ ret = reg.length ∧ inv.length = reg.length) := by
  unfold forceSpecB
  simp only [Bool.and_eq_true, nodupB_iff, List.all_eq_true, beq_iff_eq, List.contains_iff_mem]
  constructor
  · rintro ⟨⟨⟨⟨h1, h2⟩, h3⟩, h4⟩, h5⟩
    exact ⟨h1, fun k => ⟨h2 k, h3 k⟩, h4, h5⟩
  · rintro ⟨h1, h2, h4, h5⟩
    exact ⟨⟨⟨⟨h1, fun k hk => (h2 k).mp hk⟩, fun k hk => (h2 k).mpr hk⟩, h4⟩, h5⟩

/-! non-vacuity: a registry of two existing jobs satisfies the hypotheses -/
example : ∃ s : State, s.reg.Nodup ∧ s.reg ≠ [] ∧ (∀ k ∈ s.reg, k < s.heap.length) ∧ s.maxExec = 0 ∧ s.prio = .linear :=
  ⟨{ tz := none, maxExec := 0, prio := .linear, heap := [default, default], reg := [0, 1] },
    by simp, by simp, by simp, rfl, rfl⟩

end SV
