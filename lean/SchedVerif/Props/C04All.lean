/-
  Props/C04All.lean — the one-step statements of C04 hold in every state that any history of
  operations can reach (the hypotheses of `C04.due_exactly` / `C04.force` are invariants).
-/
import SchedVerif.Props.C06
import SchedVerif.Lemmas.Config
namespace SV

theorem isPermOf_self (l : List Nat) : isPermOf l l = true := by simp [isPermOf]

/-- **after every history**: a scheduler with the default priority function and no execution limit,
    after any finite sequence of operations (scheduling, constructor jobs, deletions, polls forced or
    not, failing callbacks, callbacks that schedule or delete): the next `exec_jobs` runs exactly the
    registered jobs of positive weight whose due time is not later than now, each once, and returns
    their number -/
theorem C04.due_exactly_all_histories (tz : Option Int) (ops : List Op) (clock : Int) (raises : List Nat) :
    let s := reach tz 0 .linear ops
    let out := (execJobs s clock false s.reg raises []).2
    (out.invoked.map (·.key)).Nodup ∧
    (∀ k, k ∈ out.invoked.map (·.key) ↔ (k ∈ s.reg ∧ 0 < weightOf s k ∧ dueOf s k ≤ clock)) ∧
    out.res = .count out.invoked.length := by
  intro s out
  have hI := reach_inv tz 0 .linear ops
  have hc := SameCfg.run ops (State.init tz 0 .linear)
  exact C04.due_exactly s clock s.reg raises hc.maxExec hc.prio (List.Perm.refl _) (isPermOf_self _)
    hI.nodup hI.inHeap

/-- **after every history**: a forced call runs every registered job exactly once, whatever the
    execution limit and the priority function -/
theorem C04.force_all_histories (tz : Option Int) (maxExec : Nat) (prio : PrioKind) (ops : List Op) (clock : Int)
    (raises : List Nat) :
    let s := reach tz maxExec prio ops
    let out := (execJobs s clock true s.reg raises []).2
    (out.invoked.map (·.key)).Perm s.reg ∧ (out.invoked.map (·.key)).Nodup ∧ out.res = .count s.reg.length := by
  intro s out
  have hI := reach_inv tz maxExec prio ops
  have := C04.force s clock s.reg raises (List.Perm.refl _) (isPermOf_self _) hI.nodup hI.inHeap
  exact ⟨this.2.1, this.2.2.1, this.2.2.2⟩

end SV
