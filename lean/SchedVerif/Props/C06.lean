/-
  Props/C06.lean — a job never runs more often than max_attempts and is retired when exhausted.
  Every statement holds after EVERY finite history of operations (scheduling calls valid or not,
  constructor jobs, exec_jobs forced or not with any callback outcomes and any scripted callback
  operations, delete_job, delete_jobs, get_jobs, jobs) from a fresh scheduler.
-/
import SchedVerif.Lemmas.Inv
import SchedVerif.Lemmas.AsyncBudget
import SchedVerif.Lemmas.AsyncAtt
namespace SV

/-- state reached by a history from a fresh scheduler -/
def reach (tz : Option Int) (maxExec : Nat) (prio : PrioKind) (ops : List Op) : State :=
  (run (State.init tz maxExec prio) ops).1

theorem reach_inv (tz : Option Int) (maxExec : Nat) (prio : PrioKind) (ops : List Op) :
    Inv (reach tz maxExec prio ops) := Inv.run _ (Inv.init tz maxExec prio) ops

/-- **every registered job has attempts remaining** (the key invariant) -/
theorem C06.registered_has_attempts (tz : Option Int) (maxExec : Nat) (prio : PrioKind) (ops : List Op)
    (k : Nat) (sj : SJob) (hk : k ∈ (reach tz maxExec prio ops).reg)
    (hf : (reach tz maxExec prio ops).find k = some sj) : sj.job.hasAttempts = true :=
  (reach_inv tz maxExec prio ops).hasAtt k hk (by simp) sj hf

/-- **never more than `max_attempts` runs**, for every job ever created (registered or retired) -/
theorem C06.budget (tz : Option Int) (maxExec : Nat) (prio : PrioKind) (ops : List Op)
    (sj : SJob) (hs : sj ∈ (reach tz maxExec prio ops).heap) (hp : 0 < sj.job.maxAtt) :
    (sj.job.attempts : Int) ≤ sj.job.maxAtt :=
  ((reach_inv tz maxExec prio ops).heapOK sj hs).budget hp

/-- **retired by the very call that performs the n-th run**: after any operation, a job that has
    used up its budget is not registered -/
theorem C06.retired_same_call (tz : Option Int) (maxExec : Nat) (prio : PrioKind) (ops : List Op)
    (k : Nat) (sj : SJob) (hf : (reach tz maxExec prio ops).find k = some sj)
    (hp : 0 < sj.job.maxAtt) (hn : (sj.job.attempts : Int) ≥ sj.job.maxAtt) :
    k ∉ (reach tz maxExec prio ops).reg := by
  intro hk
  have := C06.registered_has_attempts tz maxExec prio ops k sj hk hf
  have := hasAttempts_budget sj.job this hp
  omega

/-- a job with `max_attempts = 0` is never retired for having run: without a `stop` it keeps
    attempts remaining whatever its counter says -/
theorem C06.unlimited_never_retired_for_running (j : Job) (h0 : j.maxAtt = 0) (hs : j.stop = none)
    (hm : j.markDelete = false) (ref : DT) (r : Bool) :
    ((j.exec1 r).calcNext ref).hasAttempts = true := by
  simp [Job.hasAttempts, Job.calcNext, Job.exec1, h0, hs, hm, Job.pastStop]

/-- **a removed job never reappears**: only scheduling calls add keys, and they add fresh ones -/
theorem C06.never_back (s : State) (h : Inv s) (op : Op) (k : Nat) (hk : k < s.heap.length)
    (hn : k ∉ s.reg) : k ∉ (step s op).1.reg := by
  have hsched : ∀ (sp : RawSpec) (clock : Int) (direct : Bool), k ∉ (schedule s sp clock direct).1.reg := by
    intro sp clock direct
    unfold SV.schedule
    split
    · exact hn
    · split
      · simp only [List.mem_append, List.mem_singleton, not_or]
        exact ⟨hn, by omega⟩
      · exact hn
  cases op with
  | sched sp clock => exact hsched sp clock false
  | ctor sp clock jtz =>
      simp only [SV.step]
      split
      · exact hsched sp clock true
      · split <;> exact hn
  | del k' =>
      simp only [step, SV.deleteJob]
      split
      · exact fun hc => hn (List.mem_of_mem_erase hc)
      · exact hn
  | delTags q any =>
      simp only [step, SV.deleteJobs]
      exact fun hc => hn (List.mem_filter.mp hc).1
  | get q any => exact hn
  | jobs => exact hn
  | exec clock force order raises scripts =>
      exact (Gone.execJobs s k ⟨hk, hn⟩ clock force order raises scripts).2

/-- **the attempts counter counts the invocations**: one `exec_jobs` call (forced or not, any
    callback outcomes and scripts) raises the counter of every existing job by exactly the number of
    invocation records it got in that call, and that number is 0 or 1 -/
theorem C06.attempts_counts_invocations (s : State) (h : Inv s) (clock : Int) (force : Bool)
    (order raises : List Nat) (scripts : List (Nat × List COp)) (k : Nat) (hk : k < s.heap.length) :
    let r := execJobs s clock force order raises scripts
    attOf r.1 k = attOf s k + (r.2.invoked.map (·.key)).count k ∧ (r.2.invoked.map (·.key)).count k ≤ 1 := by
  obtain ⟨bn, bs⟩ := batch_facts s clock force order h.nodup
  simp only [SV.execJobs]
  generalize (if force = true then (if isPermOf order s.reg = true then order else s.reg)
      else List.map (fun x => x.fst) (selectBatch s.maxExec (List.map (fun k => (k, prioOf s.prio (lateness s (nowDT s.tz clock) k) (weightOf s k)))
        (if isPermOf order s.reg = true then order else s.reg)))) = batch at bn bs
  obtain ⟨a, _, r⟩ := attOf_runFold clock raises scripts batch s [] k hk (fun b hb => h.inHeap b (bs b hb))
  have hp : batch.foldl (runOne clock raises scripts) (s, []) =
      ((batch.foldl (runOne clock raises scripts) (s, [])).1, (batch.foldl (runOne clock raises scripts) (s, [])).2) := rfl
  rw [hp]
  simp only []
  rw [attOf_postFold, a, r]
  simp only [List.map_nil, List.nil_append]
  exact ⟨trivial, List.nodup_iff_count.mp bn k⟩

/-- jobs created with `once()` have a budget of exactly one run (all four kinds of timing) -/
theorem C06.once_budget (tz : Option Int) (sp : RawSpec) (clock : Int) (j : Job) (hc : sp.call = .once)
    (h : createJob tz sp clock = .ok j) : j.maxAtt = 1 := by
  unfold createJob at h
  rw [hc] at h
  split at h
  · obtain ⟨s, _, hj, _⟩ := Job.create_ok _ _ _ _ _ _ _ _ _ h
    subst hj; rfl
  · split at h
    · cases h
    · obtain ⟨s, _, hj, _⟩ := Job.create_ok _ _ _ _ _ _ _ _ _ h
      subst hj; rfl
  · rename_i h1 h2
    first
      | exact absurd rfl (h2 _ _)
      | exact absurd rfl (h1 _ _)
      | (simp at h1)
      | (simp at h2)

/-! non-vacuity: a concrete history reaches a state with a registered limited job -/
example : (reach none 0 .linear
    [.sched { call := .cyclic, timings := [.td 10], isList := false, maxAtt := 2 } 100]).reg = [0] := by
  decide


/-! ### the asyncio front end ("in both front ends") -/

/-- **asyncio: never more runs than the budget** — after every history of the asyncio scheduler
    (any jobs, coroutine scripts that sleep / raise / delete / schedule, deletions, passage of
    virtual time) every job's attempt counter is within its limit -/
theorem C06.aio_budget (tz : Option Int) (t0 : Int) (fuel : Nat) (ops : List AOp) (k : Nat) (t : ATask)
    (ht : (arun fuel { tz := tz, now := t0 } ops).task? k = some t) (hp : 0 < t.job.maxAtt) :
    (t.job.attempts : Int) ≤ t.job.maxAtt :=
  ((BudInv.arun fuel ops _ (BudInv.init tz t0)).ok k t ht).budget hp

/-- **asyncio: an exhausted job is never invoked again** — a supervisor that is waiting for its
    job's due time, or whose coroutine is running, belongs to a job with attempts remaining; hence
    once the n-th invocation has been counted the supervisor leaves its loop (`loopHead`) and no
    further start can happen -/
theorem C06.aio_live_has_attempts (tz : Option Int) (t0 : Int) (fuel : Nat) (ops : List AOp) (k : Nat) (t : ATask)
    (ht : (arun fuel { tz := tz, now := t0 } ops).task? k = some t) (hl : isLive t.phase = true) :
    t.job.hasAttempts = true :=
  (BudInv.arun fuel ops _ (BudInv.init tz t0)).live k t ht (by simp) hl

/-- **asyncio: the attempts counter always equals the number of invocations that have ended** (normally
    or by raising; a run cancelled by a deletion is not booked) - in every state reachable by scheduling,
    deletions from outside and from coroutines, scripted coroutines and passage of virtual time
    (invariant `AttInv`, `Lemmas/AsyncAtt.lean`) -/
theorem C06.aio_attempts_count_completed_runs (tz : Option Int) (t0 : Int) (fuel : Nat) (ops : List AOp) (k : Nat) (t : ATask)
    (ht : (arun fuel { tz := tz, now := t0 } ops).task? k = some t) :
    t.job.attempts = endCount k (arun fuel { tz := tz, now := t0 } ops).log :=
  (AttInv.arun fuel ops _ (AttInv.init tz t0)).att k t ht

/-- … and the supervisor of an exhausted job retires it at its loop head: unregistered, finished -/
theorem C06.aio_retires_when_exhausted (s : AState) (k : Nat) (t : ATask) (ht : s.task? k = some t)
    (hc : t.pendingCancel = false) (ha : t.job.hasAttempts = false) :
    (loopHead s k).reg = s.reg.erase k ∧
    ∃ t', (loopHead s k).task? k = some t' ∧ t'.phase = .finished := by
  unfold SV.loopHead
  simp only [ht, hc, ha, Bool.false_eq_true, if_false, Bool.not_false, if_true, true_and]
  have : (s.setTask k (fun t => { t with phase := Phase.finished })).task? k = some { t with phase := Phase.finished } := by
    rw [AState.task?_setTask]; simp [ht]
  exact ⟨_, this, rfl⟩

end SV
