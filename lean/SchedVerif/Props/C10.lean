/-
  Props/C10.lean — a failing callback is contained, counted and logged; other jobs are unaffected.
  A callback's outcome (returns / raises an Exception) is an input of the model (`raises`).
-/
import SchedVerif.Lemmas.Strip
import SchedVerif.Props.C06
import SchedVerif.Lemmas.AsyncBudget
import SchedVerif.Props.C17
namespace SV

/-- **no propagation**: whatever callbacks raise, `exec_jobs` returns a count -/
theorem C10.no_propagation (s : State) (clock : Int) (force : Bool) (order raises : List Nat)
    (scripts : List (Nat × List COp)) :
    ∃ n, (execJobs s clock force order raises scripts).2.res = .count n := ⟨_, rfl⟩

/-- **failed_attempts never exceeds attempts**, for every job after every history -/
theorem C10.failed_le_attempts (tz : Option Int) (maxExec : Nat) (prio : PrioKind) (ops : List Op)
    (sj : SJob) (hs : sj ∈ (reach tz maxExec prio ops).heap) : sj.job.failed ≤ sj.job.attempts :=
  ((reach_inv tz maxExec prio ops).heapOK sj hs).failed

/-- each run counts as an attempt whether it fails or not; a failure additionally counts as failed -/
theorem C10.counts (j : Job) (r : Bool) :
    (j.exec1 r).attempts = j.attempts + 1 ∧ (j.exec1 r).failed = j.failed + (if r then 1 else 0) := by
  cases r <;> simp [Job.exec1]

/-- **the failing job is rescheduled or retired exactly as if the run had succeeded** -/
theorem C10.job_noninterference (j : Job) (ref : DT) :
    ((j.exec1 true).calcNext ref).strip = ((j.exec1 false).calcNext ref).strip ∧
    ((j.exec1 true).calcNext ref).hasAttempts = ((j.exec1 false).calcNext ref).hasAttempts ∧
    ((j.exec1 true).calcNext ref).due = ((j.exec1 false).calcNext ref).due := by
  refine ⟨?_, rfl, rfl⟩
  simp [Job.strip, Job.calcNext, Job.exec1]

/-- two operations that differ at most in which callbacks raise -/
inductive SameUpToFaults : Op → Op → Prop
  | exec (clock : Int) (force : Bool) (order r1 r2 : List Nat) (scripts : List (Nat × List COp)) :
      SameUpToFaults (.exec clock force order r1 scripts) (.exec clock force order r2 scripts)
  | other (op : Op) : SameUpToFaults op op

/-- two histories that differ at most in which callbacks raise -/
inductive SameHist : List Op → List Op → Prop
  | nil : SameHist [] []
  | cons {o o' : Op} {os os' : List Op} : SameUpToFaults o o' → SameHist os os' → SameHist (o :: os) (o' :: os')

theorem strip_step_congr (a b : State) (h : a.strip = b.strip) (o o' : Op) (ho : SameUpToFaults o o') :
    (step a o).1.strip = (step b o').1.strip ∧
    (step a o).2.res = (step b o').2.res ∧ (step a o).2.invoked = (step b o').2.invoked := by
  have hreg : a.reg = b.reg := by simpa using congrArg State.reg h
  have htz : a.tz = b.tz := by simpa using congrArg State.tz h
  cases ho with
  | exec clock force order r1 r2 scripts =>
      obtain ⟨h1, h2⟩ := strip_execJobs_congr a b h clock force order r1 r2 scripts
      exact ⟨h1, by simp only [SV.step]; rw [h2], by simp only [SV.step]; rw [h2]⟩
  | other =>
      cases o with
      | sched sp clock =>
          obtain ⟨a1, a2⟩ := strip_schedule a sp clock false
          obtain ⟨b1, b2⟩ := strip_schedule b sp clock false
          refine ⟨?_, ?_, rfl⟩
          · simp only [SV.step]; rw [a1, b1, h]
          · simp only [SV.step]; rw [a2, b2, h]
      | ctor sp clock jtz =>
          simp only [SV.step, htz]
          split
          · obtain ⟨a1, a2⟩ := strip_schedule a sp clock true
            obtain ⟨b1, b2⟩ := strip_schedule b sp clock true
            refine ⟨?_, ?_, rfl⟩
            · simp only []; rw [a1, b1, h]
            · simp only []; rw [a2, b2, h]
          · split
            · exact ⟨h, rfl, rfl⟩
            · refine ⟨?_, rfl, rfl⟩
              have hl : a.heap.length = b.heap.length := by
                have := congrArg (fun (s : State) => s.heap.length) h
                simpa using this
              have hh : a.heap.map SJob.strip = b.heap.map SJob.strip := by
                have := congrArg State.heap h
                simpa [State.strip] using this
              simp only [State.strip, List.map_append, hh, hl, hreg]
              have hme : a.maxExec = b.maxExec := by simpa using congrArg State.maxExec h
              have hpr : a.prio = b.prio := by simpa using congrArg State.prio h
              simp [hme, hpr, htz]
      | exec clock force order raises scripts =>
          obtain ⟨h1, h2⟩ := strip_execJobs_congr a b h clock force order raises raises scripts
          exact ⟨h1, by simp only [SV.step]; rw [h2], by simp only [SV.step]; rw [h2]⟩
      | del k =>
          obtain ⟨a1, a2⟩ := strip_deleteJob a k
          obtain ⟨b1, b2⟩ := strip_deleteJob b k
          refine ⟨?_, ?_, rfl⟩
          · simp only [SV.step]; rw [a1, b1, h]
          · simp only [SV.step]; rw [a2, b2, h]
      | delTags q any =>
          obtain ⟨a1, a2⟩ := strip_deleteJobs a q any
          obtain ⟨b1, b2⟩ := strip_deleteJobs b q any
          refine ⟨?_, ?_, rfl⟩
          · simp only [SV.step]; rw [a1, b1, h]
          · simp only [SV.step]; rw [a2, b2, h]
      | get q any =>
          refine ⟨h, ?_, rfl⟩
          simp only [SV.step]
          rw [← strip_selectKeys a, ← strip_selectKeys b, h]
      | jobs => exact ⟨h, by simp only [SV.step]; rw [hreg], rfl⟩

/-- **faults only touch the counters** (non-interference): two histories that differ only in
    WHICH callbacks raise lead to states that agree on everything except `failed_attempts` and the
    log count — every due time, attempt counter, registration and retirement is identical — and
    every call returns the same result and invokes the same jobs for the same due times. -/
theorem C10.faults_only_touch_counters (ops ops' : List Op) (h : SameHist ops ops') :
    ∀ (a b : State), a.strip = b.strip →
      (run a ops).1.strip = (run b ops').1.strip ∧
      (run a ops).2.map (fun o => (o.res, o.invoked)) = (run b ops').2.map (fun o => (o.res, o.invoked)) := by
  have key : ∀ (ops ops' : List Op), SameHist ops ops' → ∀ (a b : State) (acc acc' : List Out),
      a.strip = b.strip → acc.map (fun o => (o.res, o.invoked)) = acc'.map (fun o => (o.res, o.invoked)) →
      (ops.foldl (fun (x : State × List Out) op => let (s', o) := step x.1 op; (s', x.2 ++ [o])) (a, acc)).1.strip =
      (ops'.foldl (fun (x : State × List Out) op => let (s', o) := step x.1 op; (s', x.2 ++ [o])) (b, acc')).1.strip ∧
      (ops.foldl (fun (x : State × List Out) op => let (s', o) := step x.1 op; (s', x.2 ++ [o])) (a, acc)).2.map (fun o => (o.res, o.invoked)) =
      (ops'.foldl (fun (x : State × List Out) op => let (s', o) := step x.1 op; (s', x.2 ++ [o])) (b, acc')).2.map (fun o => (o.res, o.invoked)) := by
    intro ops ops' hf
    induction hf with
    | nil => intro a b acc acc' h1 h2; exact ⟨h1, h2⟩
    | cons ho _ ih =>
        intro a b acc acc' h1 h2
        obtain ⟨s1, s2, s3⟩ := strip_step_congr a b h1 _ _ ho
        simp only [List.foldl_cons]
        apply ih
        · exact s1
        · simp only [List.map_append, List.map_cons, List.map_nil]
          rw [h2, s2, s3]
  intro a b hab
  exact key ops ops' h a b [] [] hab rfl

/-- log records: each raising invocation produces exactly one record, nothing else does -/
theorem C10.one_record_each (clock : Int) (raises : List Nat) (s : State) (inv : List Invoc) (k : Nat)
    (sj : SJob) (hf : s.find k = some sj) :
    (runOne clock raises [] (s, inv) k).1.logs = s.logs + (if raises.contains k then 1 else 0) := by
  simp only [SV.runOne, hf, List.lookup, Option.getD, List.foldl_nil, State.setJob_logs]
  split <;> simp

/-! non-vacuity: two histories that differ in faults -/
example : SameHist
    [Op.sched { call := .cyclic, timings := [.td 10], isList := false } 100, .exec 200 true [0] [0] []]
    [Op.sched { call := .cyclic, timings := [.td 10], isList := false } 100, .exec 200 true [0] [] []] :=
  .cons (.other _) (.cons (.exec _ _ _ _ _ _) .nil)


/-! ### the asyncio front end ("both front ends") -/

/-- **asyncio: failures are a subset of the runs**, after every history -/
theorem C10.aio_failed_le_attempts (tz : Option Int) (t0 : Int) (fuel : Nat) (ops : List AOp) (k : Nat) (t : ATask)
    (ht : (arun fuel { tz := tz, now := t0 } ops).task? k = some t) : t.job.failed ≤ t.job.attempts :=
  ((BudInv.arun fuel ops _ (BudInv.init tz t0)).ok k t ht).failed

/-- **asyncio: exactly one error record per failed run**, after every history: the number of
    records on the scheduler's logger equals the number of runs that ended by raising -/
theorem C10.aio_one_record_each (tz : Option Int) (t0 : Int) (fuel : Nat) (ops : List AOp) :
    (arun fuel { tz := tz, now := t0 } ops).logs = raiseCount (arun fuel { tz := tz, now := t0 } ops).log :=
  (BudInv.arun fuel ops _ (BudInv.init tz t0)).logs

/-- **asyncio: a raising coroutine is contained** — the run is counted as an attempt and as a
    failure, the job is rescheduled by the same rule as after a successful run, and the supervisor
    goes on (no exception reaches the task: `runActs` is total) -/
theorem C10.aio_contained (s : AState) (k : Nat) (t : ATask) (ht : s.task? k = some t) (n : Nat) :
    ∃ t', (runActs (n + 1) s k [] true).task? k = some t' ∧
      t'.job = (t.job.exec1 true).calcNext (nowDT s.tz s.now) :=
  C17.reference_is_completion s k t ht true n

end SV
