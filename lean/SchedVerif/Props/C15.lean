/-
  Props/C15.lean — callbacks may use their own scheduler: no deadlock, exec_jobs finishes its batch.
-/
import SchedVerif.Props.C14
import SchedVerif.Props.C10
namespace SV
open SV.L2

/-! ### sequential reading: what a callback's operations on its own scheduler do to the batch -/

/-- **exec_jobs never raises**, whatever the callbacks do to the scheduler -/
theorem C15.exec_never_raises (s : State) (clock : Int) (force : Bool) (order raises : List Nat)
    (scripts : List (Nat × List COp)) :
    ∃ n, (execJobs s clock force order raises scripts).2.res = .count n := ⟨_, rfl⟩

/-- **the batch completes**: every selected job is invoked exactly once — also one that an earlier
    callback of the same call has deleted ("one already selected still finishes its run") — and
    afterwards every registered job has attempts remaining (it was rescheduled; the exhausted ones
    are retired) -/
theorem C15.batch_completes (s : State) (h : Inv s) (clock : Int) (force : Bool) (order raises : List Nat)
    (scripts : List (Nat × List COp)) (k : Nat) (hk : k < s.heap.length) :
    attOf (execJobs s clock force order raises scripts).1 k =
      attOf s k + ((execJobs s clock force order raises scripts).2.invoked.map (·.key)).count k ∧
    Inv (execJobs s clock force order raises scripts).1 :=
  ⟨(C06.attempts_counts_invocations s h clock force order raises scripts k hk).1,
   Inv.execJobs s h clock force order raises scripts⟩

/-- the jobs invoked by a call are jobs that were registered when the call chose its batch -/
theorem invoked_subset (s : State) (h : Inv s) (clock : Int) (force : Bool) (order raises : List Nat)
    (scripts : List (Nat × List COp)) :
    ∀ k ∈ (execJobs s clock force order raises scripts).2.invoked.map (·.key), k ∈ s.reg := by
  obtain ⟨bn, bs⟩ := batch_facts s clock force order h.nodup
  simp only [SV.execJobs]
  generalize (if force = true then (if isPermOf order s.reg = true then order else s.reg)
      else List.map (fun x => x.fst) (selectBatch s.maxExec (List.map (fun k => (k, prioOf s.prio (lateness s (nowDT s.tz clock) k) (weightOf s k)))
        (if isPermOf order s.reg = true then order else s.reg)))) = batch at bn bs
  have hp : batch.foldl (SV.runOne clock raises scripts) (s, []) =
      ((batch.foldl (SV.runOne clock raises scripts) (s, [])).1, (batch.foldl (SV.runOne clock raises scripts) (s, [])).2) := rfl
  rw [hp]
  simp only []
  by_cases h0 : s.heap.length = 0
  · -- no jobs at all: the batch is empty
    have hb : batch = [] := by
      cases hb : batch with
      | nil => rfl
      | cons b bs' => have := h.inHeap b (bs b (by simp [hb])); omega
    subst hb
    intro k hk; simp at hk
  · obtain ⟨_, _, r⟩ := attOf_runFold clock raises scripts batch s [] 0 (by omega) (fun b hb => h.inHeap b (bs b hb))
    rw [r]
    intro k hk
    exact bs k (by simpa using hk)

/-- **jobs scheduled from a callback are registered but not run in the same call**: a job created
    during the call has a fresh key, and only jobs registered at the selection point are invoked -/
theorem C15.scheduled_in_callback_not_run_now (s : State) (h : Inv s) (clock : Int) (force : Bool)
    (order raises : List Nat) (scripts : List (Nat × List COp)) (k : Nat) (hk : s.heap.length ≤ k) :
    k ∉ (execJobs s clock force order raises scripts).2.invoked.map (·.key) := by
  intro hc
  have := h.inHeap k (invoked_subset s h clock force order raises scripts k hc)
  omega

/-- **jobs deleted from a callback stay deleted**: once a job is outside the registry it stays
    outside for the rest of the call (the workers' remaining callbacks and the post-run loop) -/
theorem C15.deleted_stay_deleted (clock : Int) (raises : List Nat) (scripts : List (Nat × List COp))
    (rest : List Nat) (ref : DT) (post : List Nat) (s : State) (inv : List Invoc) (k : Nat) (hg : Gone s k) :
    k ∉ (post.foldl (SV.postOne ref) (rest.foldl (SV.runOne clock raises scripts) (s, inv)).1).reg :=
  (Gone.postFold ref post _ k (Gone.runFold clock raises scripts rest s inv k hg)).2

/-! ### lock level: the programs of the scheduler follow the rank discipline, for every worker
    count, every batch and every callback script, hence (C14.rank_deadlock_free) no deadlock -/

/-- appending to a program that is fine up to some point -/
theorem progOK_append (rank : Nat → Nat) (i : Nat) (p q : List Step) :
    ∀ held held', (∀ r, progOK rank i held' r → progOK rank i held (p ++ r)) →
      progOK rank i held' q → progOK rank i held (p ++ q) := by
  intro held held' h hq; exact h q hq

/-- a critical section `acq l; inner; rel l` entered while holding only lower-ranked locks -/
theorem section_ok (rank : Nat → Nat) (i l : Nat) (inner : List Step) (held : List Nat)
    (hr : ∀ h ∈ held, rank h < rank l)
    (hin : ∀ r, progOK rank i (l :: held) r → progOK rank i (l :: held) (inner ++ r)) :
    ∀ r, progOK rank i held r → progOK rank i held ([.acq l] ++ inner ++ [.rel l] ++ r) := by
  intro r hr'
  simp only [List.cons_append, List.nil_append, List.append_assoc]
  refine ⟨Or.inr hr, ?_⟩
  apply hin
  refine ⟨by simp, ?_⟩
  simpa using hr'

/-- lock ids -/
def lockR : Nat := 0
def lockX (k : Nat) : Nat := 4 * k + 1
def lockL (k : Nat) : Nat := 4 * k + 2
def lockT (k : Nat) : Nat := 4 * k + 3

@[simp] theorem rank_R : lockRank lockR = 1 := rfl
@[simp] theorem rank_X (k : Nat) : lockRank (lockX k) = 0 := by
  simp [lockRank, lockX]
@[simp] theorem rank_L (k : Nat) : lockRank (lockL k) = 2 := by
  simp [lockRank, lockL]
@[simp] theorem rank_T (k : Nat) : lockRank (lockT k) = 3 := by
  simp [lockRank, lockT]

/-- reading or updating one job's state: state lock, inside it the timer lock -/
def jobAccess (k : Nat) : List Step := [.acq (lockL k), .acq (lockT k), .rel (lockT k), .rel (lockL k)]

/-- any public registry operation as performed by a callback: the registry lock, and under it
    (for `str`, `repr`, and the priority collection) the state of any jobs `ks` -/
def registryOp (ks : List Nat) : List Step :=
  [.acq lockR] ++ ks.flatMap jobAccess ++ [.rel lockR]

theorem jobAccess_ok (i k : Nat) (held : List Nat) (hr : ∀ h ∈ held, lockRank h < 2) :
    ∀ r, progOK lockRank i held r → progOK lockRank i held (jobAccess k ++ r) := by
  intro r hr'
  simp only [jobAccess, List.cons_append, List.nil_append]
  refine ⟨Or.inr (by intro h hh; simpa using hr h hh), Or.inr ?_, by simp, by simp, ?_⟩
  · intro h hh
    rcases List.mem_cons.mp hh with rfl | h2
    · simp
    · have := hr h h2; simp; omega
  · simpa using hr'

theorem flatMap_jobAccess_ok (i : Nat) (ks : List Nat) (held : List Nat) (hr : ∀ h ∈ held, lockRank h < 2) :
    ∀ r, progOK lockRank i held r → progOK lockRank i held (ks.flatMap jobAccess ++ r) := by
  induction ks with
  | nil => intro r h; simpa using h
  | cons k ks ih =>
      intro r h
      simp only [List.flatMap_cons, List.append_assoc]
      exact jobAccess_ok i k held hr _ (ih r h)

theorem registryOp_ok (i : Nat) (ks : List Nat) (held : List Nat) (hr : ∀ h ∈ held, lockRank h < 1) :
    ∀ r, progOK lockRank i held r → progOK lockRank i held (registryOp ks ++ r) := by
  intro r h
  unfold registryOp
  apply section_ok lockRank i lockR (ks.flatMap jobAccess) held (by intro x hx; simpa using hr x hx)
  · intro r' h'
    apply flatMap_jobAccess_ok i ks (lockR :: held)
    · intro x hx
      rcases List.mem_cons.mp hx with rfl | h2
      · simp
      · have := hr x h2; omega
    · exact h'
  · exact h

/-- what a worker does for one queued job `k` whose callback performs the registry operations
    `script` (each touching the jobs `ks`): execution lock around everything, the job's own state
    before and after, the callback's operations in between -/
def workerJob (k : Nat) (script : List (List Nat)) : List Step :=
  [.acq (lockX k)] ++ (jobAccess k ++ script.flatMap registryOp ++ jobAccess k) ++ [.rel (lockX k)]

theorem script_ok (i : Nat) (script : List (List Nat)) (held : List Nat) (hr : ∀ h ∈ held, lockRank h < 1) :
    ∀ r, progOK lockRank i held r → progOK lockRank i held (script.flatMap registryOp ++ r) := by
  induction script with
  | nil => intro r h; simpa using h
  | cons ks rest ih =>
      intro r h
      simp only [List.flatMap_cons, List.append_assoc]
      exact registryOp_ok i ks held hr _ (ih r h)

theorem workerJob_ok (i k : Nat) (script : List (List Nat)) :
    ∀ r, progOK lockRank i [] r → progOK lockRank i [] (workerJob k script ++ r) := by
  intro r h
  unfold workerJob
  apply section_ok lockRank i (lockX k) _ [] (by simp)
  · intro r' h'
    have hx : ∀ h ∈ [lockX k], lockRank h < 1 := by intro x hx; simp at hx; subst hx; simp
    have hx2 : ∀ h ∈ [lockX k], lockRank h < 2 := by intro x hx; simp at hx; subst hx; simp
    simp only [List.append_assoc]
    apply jobAccess_ok i k _ hx2
    apply script_ok i script _ hx
    exact jobAccess_ok i k _ hx2 _ h'
  · exact h

/-- **a worker thread follows the discipline**, for every list of jobs it happens to take from the
    queue and every callback script -/
theorem C15.worker_disciplined (i : Nat) (jobs : List (Nat × List (List Nat))) :
    progOK lockRank i [] (jobs.flatMap (fun p => workerJob p.1 p.2)) := by
  have : ∀ r, progOK lockRank i [] r → progOK lockRank i [] (jobs.flatMap (fun p => workerJob p.1 p.2) ++ r) := by
    induction jobs with
    | nil => intro r h; simpa using h
    | cons p ps ih =>
        intro r h
        simp only [List.flatMap_cons, List.append_assoc]
        exact workerJob_ok i p.1 p.2 _ (ih r h)
  simpa using this [] (by simp [progOK])

/-- the thread that calls `exec_jobs`: priority collection under the registry lock, then — holding
    nothing — it waits for its workers (threads with higher numbers), then per batch job the state
    lock and, for a retirement, the registry lock, one after the other -/
def callerProg (reg : List Nat) (workers : List Nat) (post : List (Nat × Bool)) : List Step :=
  registryOp reg ++ workers.map Step.wait ++
    post.flatMap (fun p => jobAccess p.1 ++ jobAccess p.1 ++ (if p.2 then registryOp [] else []))

theorem C15.caller_disciplined (i : Nat) (reg workers : List Nat) (post : List (Nat × Bool))
    (hw : ∀ w ∈ workers, i < w) : progOK lockRank i [] (callerProg reg workers post) := by
  unfold callerProg
  have hpost : ∀ r, progOK lockRank i [] r → progOK lockRank i []
      (post.flatMap (fun p => jobAccess p.1 ++ jobAccess p.1 ++ (if p.2 then registryOp [] else [])) ++ r) := by
    induction post with
    | nil => intro r h; simpa using h
    | cons p ps ih =>
        intro r h
        simp only [List.flatMap_cons, List.append_assoc]
        apply jobAccess_ok i p.1 [] (by simp)
        apply jobAccess_ok i p.1 [] (by simp)
        split
        · exact registryOp_ok i [] [] (by simp) _ (ih r h)
        · simpa using ih r h
  have hwait : ∀ r, progOK lockRank i [] r → progOK lockRank i [] (workers.map Step.wait ++ r) := by
    induction workers with
    | nil => intro r h; simpa using h
    | cons w ws ih =>
        intro r h
        simp only [List.map_cons, List.cons_append]
        exact ⟨rfl, hw w (by simp), ih (fun x hx => hw x (by simp [hx])) r h⟩
  rw [List.append_assoc]
  apply registryOp_ok i reg [] (by simp)
  apply hwait
  simpa using hpost [] (by simp [progOK])

/-- **no deadlock, any worker count, any number of callers**: a system whose threads are callers
    and workers of the shapes above is disciplined, so by `C14.rank_deadlock_free` (and
    `C14.mutex`, `C14.discipline_preserved` for every reachable state) some thread can always move -/
theorem C15.no_deadlock (s : Sys) (hm : Mutex s) (hd : Disciplined lockRank s)
    (hu : ∃ (i : Nat) (th : Thread), s[i]? = some th ∧ th.prog ≠ []) : ∃ i, enabled s i = true :=
  C14.rank_deadlock_free lockRank s hm hd hu

/-! ### defect D12, as lock programs -/

/-- the failure report of a worker **after** the repair: under the execution lock the job is
    rendered without its state lock; if an argument references the scheduler, the scheduler's
    `__repr__` takes the registry lock and renders the jobs, again without state locks — this is a
    `registryOp []`, covered by `worker_disciplined` for every script -/
theorem C15.failure_report_disciplined (i k : Nat) :
    progOK lockRank i [] ([.acq (lockX k)] ++ registryOp [] ++ jobAccess k ++ [.rel (lockX k)]) := by
  have h := workerJob_ok i k [[]] [] (by simp [progOK])
  simpa [workerJob, registryOp, jobAccess, progOK] using h

/-- **before** the repair `Job.__repr__` held the job's state lock while the arguments were
    rendered: state lock (rank 2), then the registry lock (rank 1) — not a disciplined program; two
    such workers are exactly the dead-lock the checks found -/
theorem C15.d12_shape_not_disciplined (i k : Nat) :
    ¬ progOK lockRank i [] ([.acq (lockX k), .acq (lockL k), .acq lockR, .rel lockR, .rel (lockL k), .rel (lockX k)]) := by
  intro h
  simp only [progOK] at h
  obtain ⟨_, ⟨_, ⟨h3, _⟩⟩⟩ := h
  rcases h3 with h3 | h3
  · simp [lockR, lockL, lockX] at h3
  · have := h3 (lockL k) (by simp)
    simp at this

end SV
