/-
  Props/C09.lean — a batched job fires on the union of its times; equivalent times are rejected.
-/
import SchedVerif.Lemmas.Phase
import SchedVerif.Lemmas.Argmin
import SchedVerif.Props.C08
namespace SV

/-- two recurring timings of the same period denote the same instants iff their UTC phases agree -/
theorem C09.same_instants_iff (a b : Timing) (ha : a.valid) (hb : b.valid)
    (hca : a.isCyclic = false) (hcb : b.isCyclic = false) (hp : a.period = b.period) :
    utcPhase a = utcPhase b ↔ ∀ U, Occ a U ↔ Occ b U := by
  constructor
  · intro h U
    rw [occ_iff_utc a ha hca, occ_iff_utc b hb hcb, hp, h]
  · intro h
    have hr := utcPhase_range a hca
    have h1 : Occ a (utcPhase a) := by
      rw [occ_iff_utc a ha hca]; exact Int.emod_eq_of_lt hr.1 hr.2
    have h2 := (h _).mp h1
    rw [occ_iff_utc b hb hcb, ← hp, Int.emod_eq_of_lt hr.1 hr.2] at h2
    exact h2

def Timing.isDaylike' : Timing → Bool
  | .minutely _ | .hourly _ | .daily _ => true
  | _ => false

def Timing.isWeekly : Timing → Bool
  | .weekly _ _ => true
  | _ => false

/-- **minutely / hourly / daily lists**: accepted iff the UTC phases (time of day moved to UTC,
    modulo the period) are pairwise distinct — for lists of any length, any offsets, any ignored
    hour/minute fields -/
theorem C09.unique_iff_daylike (tz : Option Int) (l : List Timing) (hl : ∀ tm ∈ l, tm.isDaylike' = true) :
    uniqueOk tz l = true ↔ (l.map utcPhase).Nodup := by
  have key : uniqueOk tz l = nodupInt (l.map utcPhase) := by
    cases l with
    | nil => simp [uniqueOk, nodupInt]
    | cons x xs =>
        have hm : ((x :: xs).map dayKey) = (x :: xs).map utcPhase := by
          apply List.map_congr_left
          intro tm htm
          have := hl tm htm
          cases tm <;> simp_all [Timing.isDaylike', dayKey, timeKey, utcPhase]
        have hx := hl x (by simp)
        cases x with
        | cyclic _ => simp [Timing.isDaylike'] at hx
        | weekly _ _ => simp [Timing.isDaylike'] at hx
        | minutely t => simp only [uniqueOk]; rw [hm]
        | hourly t => simp only [uniqueOk]; rw [hm]
        | daily t => simp only [uniqueOk]; rw [hm]
  rw [key, nodupInt_iff]

theorem isLeast_unique (O O' : Int → Prop) (r u u' : Int) (h : ∀ U, O U ↔ O' U)
    (h1 : IsLeastAfter O r u) (h2 : IsLeastAfter O' r u') : u = u' := by
  have a := h1.2.2 u' h2.1 ((h _).mpr h2.2.1)
  have b := h2.2.2 u h1.1 ((h _).mp h1.2.1)
  omega

/-- **weekly lists** (the code compares next occurrences after a common reference): accepted iff
    the UTC phases (weekday and time moved to UTC, modulo a week) are pairwise distinct -/
theorem C09.unique_iff_weekly (tz : Option Int) (l : List Timing)
    (hl : ∀ tm ∈ l, tm.isWeekly = true ∧ tm.valid ∧ tm.off.isSome = tz.isSome) :
    uniqueOk tz l = true ↔ (l.map utcPhase).Nodup := by
  have key : uniqueOk tz l = nodupInt (l.map (weekKey tz)) := by
    cases l with
    | nil => simp [uniqueOk, nodupInt]
    | cons x xs =>
        have hx := (hl x (by simp)).1
        cases x with
        | weekly _ _ => simp only [uniqueOk]
        | _ => simp [Timing.isWeekly] at hx
  rw [key, nodupInt_iff]
  apply nodup_map_congr
  intro a ha b hb
  obtain ⟨wa, va, aa⟩ := hl a ha
  obtain ⟨wb, vb, ab⟩ := hl b hb
  have nca : a.isCyclic = false := by cases a <;> simp_all [Timing.isWeekly, Timing.isCyclic]
  have ncb : b.isCyclic = false := by cases b <;> simp_all [Timing.isWeekly, Timing.isCyclic]
  have hpa : a.period = WEEK := by cases a <;> simp_all [Timing.isWeekly, Timing.period]
  have hpb : b.period = WEEK := by cases b <;> simp_all [Timing.isWeekly, Timing.period]
  let ref : DT := { loc := EPOCH, off := tz }
  have ka : weekKey tz a = (advance a ref).inst := by
    cases a <;> simp_all [Timing.isWeekly, weekKey, weekdayKey, advance, Timing.off, ref]
  have kb : weekKey tz b = (advance b ref).inst := by
    cases b <;> simp_all [Timing.isWeekly, weekKey, weekdayKey, advance, Timing.off, ref]
  have la := advance_least a va nca ref (by simp [ref, aa])
  have lb := advance_least b vb ncb ref (by simp [ref, ab])
  rw [ka, kb]
  constructor
  · intro he
    have oa := la.2.1
    have ob := lb.2.1
    rw [occ_iff_utc a va nca, hpa] at oa
    rw [occ_iff_utc b vb ncb, hpb, ← he] at ob
    rw [← oa, ← ob]
  · intro he
    exact isLeast_unique _ _ _ _ _ ((C09.same_instants_iff a b va vb nca ncb (hpa.trans hpb.symm)).mp he) la lb

/-! ### the union schedule -/

/-- frontier invariant of a non-skipping batched job over the fixed timing list `tms` (all of
    period `P`, pairwise distinct UTC phases): each timer holds the least unconsumed occurrence of
    its entry, `consumed` lists what has been consumed so far -/
structure Frontier (j : Job) (tms : List Timing) (P : Int) (start : Int) (consumed : List Int) : Prop where
  timings : j.timers.map (·.timing) = tms
  ne : j.timers ≠ []
  pending : j.pending = argmin (fun (t : Timer) => t.next.inst) j.timers
  skip : j.skip = false
  delay : j.delay = true
  wf : ∀ tm ∈ j.timers, tm.WF ∧ tm.skip = false ∧ tm.timing.period = P ∧
        Occ tm.timing tm.next.inst ∧ start < tm.next.inst
  done : ∀ tm ∈ j.timers, ∀ v, Occ tm.timing v → start < v → v < tm.next.inst → v ∈ consumed
  below : ∀ c ∈ consumed, c < j.due.inst
  incr : consumed.Pairwise (· < ·)
  isOcc : ∀ c ∈ consumed, ∃ tm ∈ tms, Occ tm c ∧ start < c

theorem timers_idx (j : Job) (tms : List Timing) (h : j.timers.map (·.timing) = tms) (i : Nat)
    (hi : i < j.timers.length) : ∃ hi' : i < tms.length, j.timers[i].timing = tms[i] := by
  subst h
  exact ⟨by simpa using hi, by simp⟩

/-- stored instants of two different timers differ (distinct UTC phases) -/
theorem Frontier.distinct (j : Job) (tms : List Timing) (P start : Int) (cs : List Int)
    (hF : Frontier j tms P start cs) (hd : tms.Pairwise (fun a b => utcPhase a ≠ utcPhase b))
    (i k : Nat) (hi : i < j.timers.length) (hk : k < j.timers.length) (hik : i ≠ k) :
    j.timers[i].next.inst ≠ j.timers[k].next.inst := by
  obtain ⟨hi', ei⟩ := timers_idx j tms hF.timings i hi
  obtain ⟨hk', ek⟩ := timers_idx j tms hF.timings k hk
  obtain ⟨wi, _, pi, oi, _⟩ := hF.wf _ (List.getElem_mem hi)
  obtain ⟨wk, _, pk, ok, _⟩ := hF.wf _ (List.getElem_mem hk)
  rw [occ_iff_utc _ wi.valid wi.nc, pi] at oi
  rw [occ_iff_utc _ wk.valid wk.nc, pk] at ok
  intro he
  have hph : utcPhase tms[i] = utcPhase tms[k] := by rw [← ei, ← ek, ← oi, ← ok, he]
  rw [List.pairwise_iff_getElem] at hd
  rcases Nat.lt_or_gt_of_ne hik with h | h
  · exact hd i k hi' hk' h hph
  · exact hd k i hk' hi' h hph.symm

/-- **one invocation**: consumes exactly the current due instant and re-establishes the frontier -/
theorem Frontier.step (j : Job) (tms : List Timing) (P start : Int) (cs : List Int)
    (hF : Frontier j tms P start cs) (hd : tms.Pairwise (fun a b => utcPhase a ≠ utcPhase b))
    (ref : DT) (r : Bool) :
    Frontier (j.run ref r) tms P start (cs ++ [j.due.inst]) := by
  have hne := hF.ne
  have hlen := argmin_lt_length (fun (t : Timer) => t.next.inst) j.timers hne
  rw [← hF.pending] at hlen
  -- the pending timer and its minimality
  have hdue : j.due = j.timers[j.pending].next := by
    simp [Job.due, Job.pendingTimer, hF.delay, List.getD_eq_getElem?_getD, List.getElem?_eq_getElem hlen]
  have hmin : ∀ i (hi : i < j.timers.length), j.timers[j.pending].next.inst ≤ j.timers[i].next.inst := by
    intro i hi
    have := argmin_le (fun (t : Timer) => t.next.inst) j.timers default _ (List.getElem_mem hi)
    rw [← hF.pending] at this
    simpa [List.getD_eq_getElem?_getD, List.getElem?_eq_getElem hlen] using this
  have hstrict : ∀ i (hi : i < j.timers.length), i ≠ j.pending →
      j.timers[j.pending].next.inst < j.timers[i].next.inst := by
    intro i hi hne'
    have h1 := hmin i hi
    have h2 := Frontier.distinct j tms P start cs hF hd i j.pending hi hlen hne'
    omega
  obtain ⟨wp, sp, pp, op, stp⟩ := hF.wf _ (List.getElem_mem hlen)
  -- what one run does to the timers
  let f : Timer → Timer := fun t => { t with next := advance t.timing t.next }
  have htim : (j.run ref r).timers = j.timers.modify j.pending f := by
    simp only [Job.run, Job.calcNext, Job.exec1, hF.skip, hF.delay]
    simp only [Bool.false_eq_true, if_false, Bool.not_true, Bool.false_and]
    apply List.ext_getElem
    · simp
    · intro i h1 h2
      rw [List.getElem_modify, List.getElem_modify]
      by_cases hip : j.pending = i
      · subst hip
        simp only [if_true]
        exact Timer.calcNext_noskip _ sp _
      · simp [hip]
  have hlen' : (j.run ref r).timers.length = j.timers.length := by rw [htim]; simp
  have hget : ∀ i (hi : i < j.timers.length),
      (j.run ref r).timers[i]'(by rw [hlen']; exact hi) = if j.pending = i then f j.timers[i] else j.timers[i] := by
    intro i hi
    simp only [htim]
    rw [List.getElem_modify]
  have hadv := C01.advance j.timers[j.pending] wp op
  rw [Timer.calcNext_none _ wp.nc] at hadv
  have hPpos : 0 < P := pp ▸ (Timing.period_pos _ wp.nc)
  have hne' : (j.run ref r).timers ≠ [] := by
    intro h0; rw [h0] at hlen'; simp at hlen'
    exact hne (List.length_eq_zero_iff.mp hlen'.symm)
  have hpend' : (j.run ref r).pending = argmin (fun (t : Timer) => t.next.inst) (j.run ref r).timers := by
    simp [Job.run, Job.calcNext]
  have hdelay' : (j.run ref r).delay = true := hF.delay
  -- every stored instant after the run is later than the consumed one
  have hlater : ∀ i (hi : i < j.timers.length),
      j.timers[j.pending].next.inst < ((j.run ref r).timers[i]'(by rw [hlen']; exact hi)).next.inst := by
    intro i hi
    rw [hget i hi]
    by_cases hip : j.pending = i
    · subst hip
      simp only [if_true, f]
      rw [hadv.1, pp]; omega
    · simp only [hip, if_false]
      exact hstrict i hi (fun h => hip h.symm)
  have hdue' : j.due.inst < (j.run ref r).due.inst := by
    have hlen2 := argmin_lt_length (fun (t : Timer) => t.next.inst) (j.run ref r).timers hne'
    rw [← hpend'] at hlen2
    have : (j.run ref r).due = ((j.run ref r).timers[(j.run ref r).pending]'hlen2).next := by
      simp [Job.due, Job.pendingTimer, hdelay', List.getD_eq_getElem?_getD, List.getElem?_eq_getElem hlen2]
    rw [this, hdue]
    exact hlater _ (by rw [← hlen']; exact hlen2)
  refine ⟨?_, hne', hpend', hF.skip, hdelay', ?_, ?_, ?_, ?_, ?_⟩
  · -- timings unchanged
    rw [← hF.timings]
    apply List.ext_getElem
    · simp [hlen']
    · intro i h1 h2
      have hi : i < j.timers.length := by simpa using h2
      simp only [List.getElem_map]
      rw [hget i hi]
      by_cases hip : j.pending = i <;> simp [hip, f]
  · -- well-formedness, occurrence, after start
    intro tm htm
    obtain ⟨i, hi, rfl⟩ := List.mem_iff_getElem.mp htm
    have hi0 : i < j.timers.length := by rw [← hlen']; exact hi
    rw [hget i hi0]
    by_cases hip : j.pending = i
    · subst hip
      simp only [if_true, f]
      refine ⟨hadv.2.2, sp, pp, hadv.2.1, ?_⟩
      rw [hadv.1, pp]; omega
    · simp only [hip, if_false]
      exact hF.wf _ (List.getElem_mem hi0)
  · -- nothing unconsumed lies before any timer
    intro tm htm v hv1 hv2 hv3
    obtain ⟨i, hi, rfl⟩ := List.mem_iff_getElem.mp htm
    have hi0 : i < j.timers.length := by rw [← hlen']; exact hi
    rw [hget i hi0] at hv1 hv3
    by_cases hip : j.pending = i
    · subst hip
      simp only [if_true, f] at hv1 hv3
      rw [hadv.1, pp] at hv3
      by_cases hlt : v < j.timers[j.pending].next.inst
      · exact List.mem_append_left _ (hF.done _ (List.getElem_mem hlen) v hv1 hv2 hlt)
      · -- v is an occurrence in [m, m+P): it is m itself
        have hm : v = j.timers[j.pending].next.inst := by
          have o1 := hv1; have o2 := op
          rw [occ_iff_utc _ wp.valid wp.nc, pp] at o1 o2
          have e1 : (v - j.timers[j.pending].next.inst) % P = 0 := by
            rw [Int.sub_emod, o1, o2]; simp
          have h0 : 0 ≤ v - j.timers[j.pending].next.inst := by omega
          have h1 : v - j.timers[j.pending].next.inst < P := by omega
          have := Int.emod_eq_of_lt h0 h1
          omega
        rw [hm, hdue]; simp
    · simp only [hip, if_false] at hv1 hv3
      exact List.mem_append_left _ (hF.done _ (List.getElem_mem hi0) v hv1 hv2 hv3)
  · -- everything consumed lies before the new due instant
    intro c hc
    rcases List.mem_append.mp hc with h | h
    · have := hF.below c h; omega
    · simp at h; subst h; exact hdue'
  · -- strictly increasing
    rw [List.pairwise_append]
    refine ⟨hF.incr, by simp, ?_⟩
    intro a ha b hb
    simp at hb; subst hb
    exact hF.below a ha
  · intro c hc
    rcases List.mem_append.mp hc with h | h
    · exact hF.isOcc c h
    · simp at h; subst h
      obtain ⟨hp', ep⟩ := timers_idx j tms hF.timings j.pending hlen
      exact ⟨tms[j.pending], List.getElem_mem hp', by rw [← ep, hdue]; exact op, by rw [hdue]; exact stp⟩

theorem Frontier.runs (tms : List Timing) (P start : Int)
    (hd : tms.Pairwise (fun a b => utcPhase a ≠ utcPhase b)) (refs : List DT) :
    ∀ (j : Job) (cs : List Int), Frontier j tms P start cs →
      Frontier (j.runs refs).1 tms P start (cs ++ (j.runs refs).2) := by
  induction refs with
  | nil => intro j cs h; simpa [Job.runs] using h
  | cons r rs ih =>
      intro j cs h
      have h1 := Frontier.step j tms P start cs h hd r false
      have h2 := ih (j.run r) (cs ++ [j.due.inst]) h1
      simpa [Job.runs, List.append_assoc] using h2

/-- the frontier holds at creation, with nothing consumed -/
theorem Frontier.init (tms : List Timing) (P : Int) (start : DT) (stop : Option DT) (m : Int)
    (hne : tms ≠ [])
    (hv : ∀ tm ∈ tms, tm.valid ∧ tm.isCyclic = false ∧ tm.period = P ∧ start.off.isSome = tm.off.isSome) :
    Frontier (Job.build tms start stop true false m) tms P start.inst [] := by
  have hinit : ∀ tm ∈ tms, Timer.init tm start false = { timing := tm, next := advance tm start, skip := false } := by
    intro tm htm
    unfold Timer.init; rw [Timer.calcNext_none _ (hv tm htm).2.1]
  have htimers : (Job.build tms start stop true false m).timers = tms.map (fun tm => Timer.init tm start false) := rfl
  refine ⟨?_, ?_, rfl, rfl, rfl, ?_, ?_, by simp, by simp, by simp⟩
  · rw [htimers, List.map_map]
    conv => rhs; rw [← List.map_id tms]
    apply List.map_congr_left
    intro tm htm
    simp [hinit tm htm]
  · rw [htimers]; simpa using hne
  · intro t ht
    rw [htimers] at ht
    obtain ⟨tm, htm, rfl⟩ := List.mem_map.mp ht
    obtain ⟨v1, v2, v3, v4⟩ := hv tm htm
    have hw := advance_window tm v1 v2 start v4
    rw [hinit tm htm]
    exact ⟨⟨v1, v2, by simp [hw.2.2.2]⟩, rfl, v3, hw.2.2.1, hw.1⟩
  · intro t ht v ho h1 h2
    rw [htimers] at ht
    obtain ⟨tm, htm, rfl⟩ := List.mem_map.mp ht
    obtain ⟨v1, v2, v3, v4⟩ := hv tm htm
    have hl := advance_least tm v1 v2 start v4
    rw [hinit tm htm] at ho h2
    have := hl.2.2 v h1 ho
    simp only [] at h2
    omega

/-- (as `C07.retired_only_when_past`) the rescheduling step sets the retirement flag exactly when the
    new due time exceeds stop -/
theorem C07_retired_aux (j : Job) (ref : DT) (hm : j.markDelete = false) (ha : 0 < j.attempts) :
    (j.calcNext ref).markDelete = Job.pastStop (j.calcNext ref).stop (j.calcNext ref).due := by
  have hd : (j.calcNext ref).due = (j.calcNext ref).pendingTimer.next := by
    have : (j.calcNext ref).attempts = j.attempts := rfl
    unfold Job.due
    rw [this]
    have : (j.attempts == 0) = false := by simp; omega
    simp [this]
  rw [hd]
  simp [Job.calcNext, hm, Job.pendingTimer]

/-- the due instant of a frontier job is the stored instant of its pending timer, which is the least
    stored instant -/
theorem Frontier.due_min (j : Job) (tms : List Timing) (P start : Int) (cs : List Int)
    (hF : Frontier j tms P start cs) :
    (∃ t ∈ j.timers, j.due = t.next) ∧ ∀ t ∈ j.timers, j.due.inst ≤ t.next.inst := by
  have hlen := argmin_lt_length (fun (t : Timer) => t.next.inst) j.timers hF.ne
  rw [← hF.pending] at hlen
  have hdue : j.due = j.timers[j.pending].next := by
    simp [Job.due, Job.pendingTimer, hF.delay, List.getD_eq_getElem?_getD, List.getElem?_eq_getElem hlen]
  refine ⟨⟨_, List.getElem_mem hlen, hdue⟩, ?_⟩
  intro t ht
  have := argmin_le (fun (t : Timer) => t.next.inst) j.timers default t ht
  rw [← hF.pending] at this
  rw [hdue]
  simpa [List.getD_eq_getElem?_getD, List.getElem?_eq_getElem hlen] using this

/-- **the successor of a consumed due instant is the Spec's `unionNext`**: after one invocation the
    job is due at the least occurrence of ANY of its listed times strictly after the instant it just
    consumed - the closed form the driver evaluates (`enum`, `nextpast`) is what the model does -/
theorem C09.successor_is_union_next (j : Job) (tms : List Timing) (P start : Int) (cs : List Int)
    (hF : Frontier j tms P start cs) (hd : (tms.map utcPhase).Nodup)
    (hv : ∀ tm ∈ tms, tm.valid ∧ tm.isCyclic = false) (hne : tms ≠ []) (ref : DT) (r : Bool) :
    (j.run ref r).due.inst = unionNext tms j.due.inst := by
  have hd' : tms.Pairwise (fun a b => utcPhase a ≠ utcPhase b) := List.pairwise_map.mp hd
  have hF' := Frontier.step j tms P start cs hF hd' ref r
  obtain ⟨⟨t0, ht0, hdue0⟩, _⟩ := Frontier.due_min j tms P start cs hF
  obtain ⟨⟨t1, ht1, hdue1⟩, hmin1⟩ := Frontier.due_min (j.run ref r) tms P start _ hF'
  have hstart : start < j.due.inst := by rw [hdue0]; exact (hF.wf t0 ht0).2.2.2.2
  apply isLeast_eq (UnionOcc tms) j.due.inst _ _ _ (unionNext_least tms hne hv j.due.inst)
  refine ⟨hF'.below _ (by simp), ?_, ?_⟩
  · -- the new due instant is an occurrence of one of the listed times
    refine ⟨t1.timing, ?_, ?_⟩
    · rw [← hF'.timings]; exact List.mem_map_of_mem ht1
    · rw [hdue1]; exact (hF'.wf t1 ht1).2.2.2.1
  · -- and nothing of the union lies strictly between the consumed instant and it
    intro v hv1 ⟨tm, htm, ho⟩
    apply Classical.byContradiction
    intro hlt
    have hlt' : v < (j.run ref r).due.inst := by omega
    rw [← hF'.timings] at htm
    obtain ⟨t, ht, rfl⟩ := List.mem_map.mp htm
    have hvt : v < t.next.inst := Int.lt_of_lt_of_le hlt' (hmin1 t ht)
    have hmem := hF'.done t ht v ho (by omega) hvt
    rcases List.mem_append.mp hmem with h | h
    · have := hF.below v h; omega
    · simp at h; omega

/-- the due instant of a frontier job is the Spec's `unionNext` of any instant below it that is not
    before the start nor before anything already consumed -/
theorem Frontier.due_eq_unionNext (j : Job) (tms : List Timing) (P start : Int) (cs : List Int)
    (hF : Frontier j tms P start cs) (hv : ∀ tm ∈ tms, tm.valid ∧ tm.isCyclic = false) (hne : tms ≠ [])
    (r : Int) (h1 : start ≤ r) (h2 : r < j.due.inst) (h3 : ∀ c ∈ cs, c ≤ r) :
    j.due.inst = unionNext tms r := by
  obtain ⟨⟨t1, ht1, hdue1⟩, hmin1⟩ := Frontier.due_min j tms P start cs hF
  apply isLeast_eq (UnionOcc tms) r _ _ _ (unionNext_least tms hne hv r)
  refine ⟨h2, ⟨t1.timing, ?_, ?_⟩, ?_⟩
  · rw [← hF.timings]; exact List.mem_map_of_mem ht1
  · rw [hdue1]; exact (hF.wf t1 ht1).2.2.2.1
  · intro v hv1 ⟨tm, htm, ho⟩
    apply Classical.byContradiction
    intro hlt
    rw [← hF.timings] at htm
    obtain ⟨t, ht, rfl⟩ := List.mem_map.mp htm
    have hvt : v < t.next.inst := Int.lt_of_lt_of_le (by omega) (hmin1 t ht)
    have := h3 v (hF.done t ht v ho (by omega) hvt)
    omega

theorem Frontier.runs_due (tms : List Timing) (P start : Int)
    (hd : (tms.map utcPhase).Nodup) (hv : ∀ tm ∈ tms, tm.valid ∧ tm.isCyclic = false) (hne : tms ≠ [])
    (refs : List DT) : ∀ (j : Job) (cs : List Int), Frontier j tms P start cs →
      (j.runs refs).1.due.inst = iterNext tms refs.length j.due.inst := by
  induction refs with
  | nil => intro j cs _; rfl
  | cons r rs ih =>
      intro j cs hF
      have hstep := Frontier.step j tms P start cs hF (List.pairwise_map.mp hd) r false
      have h2 := ih (j.run r) _ hstep
      have hs := C09.successor_is_union_next j tms P start cs hF hd hv hne r false
      show ((j.run r).runs rs).1.due.inst = iterNext tms (rs.length + 1) j.due.inst
      rw [h2, hs]; rfl

/-- **the n-th due time in closed form**: a batched job polled `n` times at arbitrary instants is
    then due at the `(n+1)`-th occurrence of the union after its start - the value the driver command
    `iterdue` compares with what the implementation reports after `n` executions (also executions
    performed by overlapping callers) -/
theorem C09.nth_due (tms : List Timing) (P : Int) (start : DT) (stop : Option DT) (m : Int)
    (hne : tms ≠ [])
    (hv : ∀ tm ∈ tms, tm.valid ∧ tm.isCyclic = false ∧ tm.period = P ∧ start.off.isSome = tm.off.isSome)
    (hd : (tms.map utcPhase).Nodup) (refs : List DT) :
    ((Job.build tms start stop true false m).runs refs).1.due.inst = iterNext tms (refs.length + 1) start.inst := by
  have hv' : ∀ tm ∈ tms, tm.valid ∧ tm.isCyclic = false := fun tm h => ⟨(hv tm h).1, (hv tm h).2.1⟩
  have h0 := Frontier.init tms P start stop m hne hv
  rw [Frontier.runs_due tms P start.inst hd hv' hne refs _ _ h0]
  have hfirst : (Job.build tms start stop true false m).due.inst = unionNext tms start.inst := by
    obtain ⟨⟨t0, ht0, hdue0⟩, _⟩ := Frontier.due_min _ tms P start.inst [] h0
    apply Frontier.due_eq_unionNext _ tms P start.inst [] h0 hv' hne start.inst (Int.le_refl _)
    · rw [hdue0]; exact (h0.wf t0 ht0).2.2.2.2
    · intro c hc; cases hc
  rw [hfirst]; rfl

/-- **a stop ends the enumeration only past the stop**: the run of a (not yet retired) batched job
    sets the retirement flag exactly when the next occurrence of the union after the instant it
    consumed lies past the stop - never while an occurrence of any listed time is still within the
    window (the Spec clause `nextpast` evaluated on the implementation) -/
theorem C09.stop_retires_iff_next_occurrence_past (j : Job) (tms : List Timing) (P start : Int) (cs : List Int)
    (hF : Frontier j tms P start cs) (hd : (tms.map utcPhase).Nodup)
    (hv : ∀ tm ∈ tms, tm.valid ∧ tm.isCyclic = false) (hne : tms ≠ []) (ref : DT) (r : Bool)
    (hm : j.markDelete = false) (st : DT) (hs : j.stop = some st) :
    (j.run ref r).markDelete = true ↔ st.inst < unionNext tms j.due.inst := by
  rw [← C09.successor_is_union_next j tms P start cs hF hd hv hne ref r]
  have h := C07_retired_aux (j.exec1 r) ref (by simpa [Job.exec1] using hm) (by simp [Job.exec1])
  have hrun : j.run ref r = (j.exec1 r).calcNext ref := rfl
  rw [hrun, h]
  have hstop : ((j.exec1 r).calcNext ref).stop = some st := by simpa [Job.calcNext, Job.exec1] using hs
  simp [Job.pastStop, hstop]

/-- **the union schedule**: a job given a list of pairwise different recurring times, polled at
    arbitrary instants, consumes due instants that (a) are strictly increasing, (b) are each an
    occurrence of one of the listed times after the start, and (c) omit nothing: every occurrence of
    every listed time that lies before the current due time has been consumed. -/
theorem C09.union_enumeration (tms : List Timing) (P : Int) (start : DT) (stop : Option DT) (m : Int)
    (hne : tms ≠ [])
    (hv : ∀ tm ∈ tms, tm.valid ∧ tm.isCyclic = false ∧ tm.period = P ∧ start.off.isSome = tm.off.isSome)
    (hd : (tms.map utcPhase).Nodup) (refs : List DT) :
    let res := (Job.build tms start stop true false m).runs refs
    res.2.Pairwise (· < ·) ∧
    (∀ d ∈ res.2, ∃ tm ∈ tms, Occ tm d ∧ start.inst < d) ∧
    (∀ tm ∈ tms, ∀ v, Occ tm v → start.inst < v → v < res.1.due.inst → v ∈ res.2) := by
  intro res
  have hd' : tms.Pairwise (fun a b => utcPhase a ≠ utcPhase b) := by
    have := List.pairwise_map.mp hd
    exact this
  have h0 := Frontier.init tms P start stop m hne hv
  have hF := Frontier.runs tms P start.inst hd' refs _ _ h0
  simp only [List.nil_append] at hF
  refine ⟨hF.incr, hF.isOcc, ?_⟩
  intro tm htm v ho h1 h2
  -- tm is the timing of some timer; the due instant is ≤ that timer's stored instant
  have hmem : tm ∈ res.1.timers.map (·.timing) := by rw [hF.timings]; exact htm
  obtain ⟨t, ht, rfl⟩ := List.mem_map.mp hmem
  have hdel : res.1.delay = true := hF.delay
  have hmin := (due_is_min res.1 hF.ne hF.pending (by rw [hdel]; simp)).2 t ht
  exact hF.done t ht v ho h1 (by omega)

/-- one `exec_jobs` call invokes a batched job at most once even if several of its times are
    overdue: a single run consumes exactly one due instant -/
theorem C09.once_per_call (j : Job) (ref : DT) : ((j.runs [ref]).2).length = 1 := by
  simp [Job.runs]

/-- the Bool twin `uniqueB` evaluated on the implementation's accept/reject decisions IS "the
    entries denote pairwise different recurring instants" -/
theorem C09.uniqueB_iff (tms : List Timing) : uniqueB tms = true ↔ (tms.map utcPhase).Nodup :=
  SV.uniqueB_iff tms

/-! non-vacuity: two ways of writing the same daily instants, and two different ones -/
example : utcPhase (.daily { h := 10, m := 0, s := 0, us := 0, off := some 7200000000 })
        = utcPhase (.daily { h := 8, m := 0, s := 0, us := 0, off := some 0 }) := by decide
example : utcPhase (.daily { h := 10, m := 0, s := 0, us := 0, off := some 7200000000 })
        ≠ utcPhase (.daily { h := 14, m := 0, s := 0, us := 0, off := some (-7200000000) }) := by decide

end SV
