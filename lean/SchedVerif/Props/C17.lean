/-
  Props/C17.lean — the asyncio scheduler runs each job at its due times, never early, independently.
  The model (Model/Async.lean) reuses `Job.due / hasAttempts / exec1 / calcNext`, so due times, attempt
  limits, stop, batching and skip_missing are literally the definitions proved about in C01–C09.
-/
import SchedVerif.Lemmas.Async
namespace SV

theorem WakeInv.astepOp (s : AState) (h : WakeInv s) (o : AOp) : WakeInv (astepOp s o).1 := by
  cases o with
  | sched sp runs => exact WakeInv.schedule s h sp runs
  | run limit fuel => exact WakeInv.runUntil fuel s limit h
  | del k => exact WakeInv.deleteJob s h k none
  | delTags q any => exact WakeInv.deleteJobs s h q any none
  | get q any => exact h
  | jobs => exact h

theorem WakeInv.arun (fuel : Nat) (ops : List AOp) : ∀ (s : AState), WakeInv s → WakeInv (arun fuel s ops) := by
  induction ops with
  | nil => intro s h; exact h
  | cons o os ih =>
      intro s h
      simp only [SV.arun, List.foldl_cons]
      exact ih _ (WakeInv.runUntil fuel _ _ (WakeInv.astepOp s h o))

/-- **never early**: in every history of the asyncio scheduler — any jobs, any coroutine scripts
    (sleeping, raising, deleting their own or other jobs, scheduling new ones), any deletions and
    any passage of virtual time — every invocation starts at or after the due time it belongs to -/
theorem C17.never_early (tz : Option Int) (t0 : Int) (fuel : Nat) (ops : List AOp) :
    ∀ e ∈ (arun fuel { tz := tz, now := t0 } ops).log, e.kind = .start → e.due ≤ e.time := by
  have h0 : WakeInv ({ tz := tz, now := t0 } : AState) := ⟨by simp, by intro e he; simp at he⟩
  exact (WakeInv.arun fuel ops _ h0).starts

/-- **start time**: the supervisor goes to sleep until `max(due, now)` where `now` is the end of
    the previous invocation (or the instant of its first step) — so the k-th invocation starts at
    the later of its due time and the end of the previous one, without further delay -/
theorem C17.start_time (s : AState) (k : Nat) (t : ATask) (ht : s.task? k = some t)
    (hc : t.pendingCancel = false) (ha : t.job.hasAttempts = true) :
    ∃ t', (loopHead s k).task? k = some t' ∧ t'.phase = .sleeping ∧
      t'.wake = (if t.job.due.inst ≤ s.now then s.now else t.job.due.inst) ∧ t'.job = t.job := by
  unfold SV.loopHead
  simp only [ht, hc, ha, Bool.false_eq_true, if_false, Bool.not_true]
  rw [AState.task?_setTask]
  simp only [if_true, ht, Option.map_some]
  exact ⟨_, rfl, rfl, rfl, rfl⟩

/-- **the completion time is the reference**: when an invocation ends at instant `now`, the attempt
    is counted and the next due time is computed by `_calc_next_exec(now)` -/
theorem C17.reference_is_completion (s : AState) (k : Nat) (t : ATask) (ht : s.task? k = some t)
    (raises : Bool) (n : Nat) :
    ∃ t', (runActs (n + 1) s k [] raises).task? k = some t' ∧
      t'.job = (t.job.exec1 raises).calcNext (nowDT s.tz s.now) := by
  unfold SV.runActs
  simp only [ht]
  -- after the bookkeeping the loop head only changes phase / wake
  have key : ∀ (s' : AState) (x : ATask), s'.task? k = some x → ∃ t', (loopHead s' k).task? k = some t' ∧ t'.job = x.job := by
    intro s' x hx
    unfold SV.loopHead
    simp only [hx]
    split
    · rw [AState.task?_setTask]; simp [hx]
    · split
      · have : ({ (s'.setTask k (fun t => { t with phase := Phase.finished })) with reg := s'.reg.erase k } : AState).task? k
            = (s'.setTask k (fun t => { t with phase := Phase.finished })).task? k := rfl
        rw [this, AState.task?_setTask]; simp [hx]
      · rw [AState.task?_setTask]; simp [hx]
  have hx : ({ (s.setTask k (fun t => { t with job := (t.job.exec1 raises).calcNext (nowDT s.tz s.now), nrun := t.nrun + 1 })) with
      log := (s.setTask k (fun t => { t with job := (t.job.exec1 raises).calcNext (nowDT s.tz s.now), nrun := t.nrun + 1 })).log ++
        [({ time := s.now, key := k, kind := if raises then .endRaise else .endOk, due := t.job.due.inst } : AEvent)],
      logs := if raises then (s.setTask k (fun t => { t with job := (t.job.exec1 raises).calcNext (nowDT s.tz s.now), nrun := t.nrun + 1 })).logs + 1
              else (s.setTask k (fun t => { t with job := (t.job.exec1 raises).calcNext (nowDT s.tz s.now), nrun := t.nrun + 1 })).logs } : AState).task? k
      = some { t with job := (t.job.exec1 raises).calcNext (nowDT s.tz s.now), nrun := t.nrun + 1 } := by
    show (s.setTask k _).task? k = _
    rw [AState.task?_setTask]; simp [ht]
  obtain ⟨t', h1, h2⟩ := key _ _ hx
  exact ⟨t', h1, h2⟩

/-- a script that only sleeps (does not touch the scheduler) -/
def pureActs : List Act → Bool
  | [] => true
  | .sleep _ :: rest => pureActs rest
  | _ :: _ => false

theorem loopHead_frame (s : AState) (k j : Nat) (h : k ≠ j) : (loopHead s k).task? j = s.task? j := by
  unfold SV.loopHead
  split
  · rfl
  · split
    · rw [AState.task?_setTask]; simp [h]
    · split
      · show (s.setTask k _).task? j = _
        rw [AState.task?_setTask]; simp [h]
      · rw [AState.task?_setTask]; simp [h]

theorem runActs_frame (fuel : Nat) : ∀ (s : AState) (k j : Nat) (acts : List Act) (raises : Bool),
    k ≠ j → pureActs acts = true → (runActs fuel s k acts raises).task? j = s.task? j := by
  induction fuel with
  | zero => intro s k j acts raises _ _; unfold SV.runActs; rfl
  | succ n ih =>
      intro s k j acts raises hkj hp
      unfold SV.runActs
      cases acts with
      | nil =>
          simp only []
          split
          · rfl
          · rw [loopHead_frame _ k j hkj]
            show (s.setTask k _).task? j = _
            rw [AState.task?_setTask]; simp [hkj]
      | cons a rest =>
          cases a with
          | sleep d =>
              simp only []
              split
              · rfl
              · split
                · show (s.setTask k _).task? j = _
                  rw [AState.task?_setTask]; simp [hkj]
                · rw [AState.task?_setTask]; simp [hkj]
          | del _ => simp [pureActs] at hp
          | delTags _ _ => simp [pureActs] at hp
          | sched _ => simp [pureActs] at hp

/-- all scripts of a task only sleep -/
def ATask.pure (t : ATask) : Prop :=
  (∀ r ∈ t.runs, pureActs r.acts = true) ∧
  (∀ rest raises, t.phase = .running rest raises → pureActs rest = true)

/-- **independence (frame)**: resuming a job whose coroutine does not touch the scheduler — however
    slow it is and whether it raises or not — leaves every other job's task exactly as it was: it
    can neither delay nor prevent another job's invocation -/
theorem C17.independent (s : AState) (k j : Nat) (hkj : k ≠ j) (t : ATask) (ht : s.task? k = some t)
    (hp : t.pure) : (stepTask s k).task? j = s.task? j := by
  unfold SV.stepTask
  simp only [ht]
  split
  · exact loopHead_frame s k j hkj
  · have hscript : pureActs ((t.runs[t.nrun]?).getD (t.runs.getLast?.getD {})).acts = true := by
      cases hx : t.runs[t.nrun]? with
      | some r => simp only [Option.getD_some]; exact hp.1 r (List.mem_of_getElem? hx)
      | none =>
          simp only [Option.getD_none]
          cases hl : t.runs.getLast? with
          | some r => simp only [Option.getD_some]; exact hp.1 r (List.mem_of_getLast? hl)
          | none => simp [pureActs]
    rw [runActs_frame _ _ k j _ _ hkj hscript]
    show (s.setTask k _).task? j = _
    rw [AState.task?_setTask]; simp [hkj]
  · rename_i rest raises hph
    exact runActs_frame _ s k j _ _ hkj (hp.2 rest raises hph)
  · rfl
  · rfl

/-! non-vacuity: a run of two jobs in which one is slow -/
example : ((arun 100 { tz := none, now := 0 }
    [.sched { call := .cyclic, timings := [.td 10], isList := false } [{ acts := [.sleep 25] }],
     .sched { call := .cyclic, timings := [.td 10], isList := false } [{}],
     .run 40 100]).log.filter (fun e => e.kind == .start && e.key == 1)).map (·.time) = [10, 20, 30, 40] := by
  decide

/-- **nobody is left waiting while the loop is idle**: when the loop finds nothing to resume up to
    `limit` (this is when virtual time jumps to `limit`), every supervisor that is still waiting —
    for a due time or inside a suspended coroutine — wakes strictly later than `limit`; together with
    `start_time` (a supervisor sleeps until max(due, now)) no job with attempts left is overdue at
    an idle instant -/
theorem C17.idle_means_nothing_due (s : AState) (limit : Int) (h : nextTask s limit = none) :
    ∀ t ∈ s.tasks, isWaiting t = true → limit < t.wake := by
  intro t ht hw
  unfold nextTask at h
  simp only [] at h
  split at h
  · rename_i hc
    have hmem : t ∉ s.tasks.filter (fun t => isWaiting t && decide (t.wake ≤ limit)) := by rw [hc]; simp
    have : ¬ (isWaiting t && decide (t.wake ≤ limit)) = true := fun hx => hmem (List.mem_filter.mpr ⟨ht, hx⟩)
    simp only [hw, Bool.true_and, decide_eq_true_eq] at this
    omega
  · cases h

/-- … and `runUntil` only stops early (before `limit`) when it runs out of fuel: with fuel left it
    either resumes the next task or is idle in the sense above -/
theorem C17.runUntil_idle_or_steps (fuel : Nat) (s : AState) (limit : Int) :
    (nextTask s limit = none ∧ runUntil (fuel + 1) s limit = { s with now := if s.now ≤ limit then limit else s.now }) ∨
    (∃ k, nextTask s limit = some k) := by
  cases h : nextTask s limit with
  | none => left; exact ⟨rfl, by simp [runUntil, h]⟩
  | some k => right; exact ⟨k, rfl⟩

end SV
