/-
  Props/C05.lean — under max_exec the highest-priority overdue jobs run, in priority order.
  All statements are about `selectBatch k l` for an ARBITRARY priority table `l : List (α × Rat)`
  (any deterministic user function: negative, zero, tied values included), `α` = job identity.
-/
import SchedVerif.Lemmas.Select
import SchedVerif.Spec.Select
import SchedVerif.Model.Sched
import SchedVerif.Lemmas.Exec
namespace SV

variable {α : Type}

theorem selectBatch_eq (k : Nat) (l : List (α × Rat)) :
    selectBatch k l = if k = 0 then (sortDesc l).filter pos else ((sortDesc l).filter pos).take k := by
  unfold selectBatch
  by_cases hk : k = 0
  · subst hk; simp [cut_zero]
  · simp only [hk, if_false]
    rw [cut_eq_take k (by omega), take_filter_sorted k _ (sortDesc_sorted l)]

/-- exactly `min(k, #jobs with priority > 0)` jobs run (all of them when `max_exec = 0`) -/
theorem C05.count (k : Nat) (l : List (α × Rat)) :
    (selectBatch k l).length = if k = 0 then (l.filter pos).length else min k (l.filter pos).length := by
  rw [selectBatch_eq]
  have hp : ((sortDesc l).filter pos).length = (l.filter pos).length :=
    ((sortDesc_perm l).filter pos).length_eq
  by_cases hk : k = 0 <;> simp [hk, hp]

/-- never a job whose priority is ≤ 0 -/
theorem C05.never_nonpositive (k : Nat) (l : List (α × Rat)) :
    ∀ x ∈ selectBatch k l, 0 < x.2 := by
  intro x hx
  rw [selectBatch_eq] at hx
  have : x ∈ (sortDesc l).filter pos := by
    by_cases hk : k = 0
    · simpa [hk] using hx
    · simp only [hk, if_false] at hx; exact List.mem_of_mem_take hx
  simpa [pos] using (List.mem_filter.mp this).2

/-- with a single worker (FIFO queue) the jobs run in non-increasing priority order -/
theorem C05.sorted (k : Nat) (l : List (α × Rat)) :
    (selectBatch k l).Pairwise (fun a b => b.2 ≤ a.2) :=
  (sortDesc_sorted l).sublist (cut_sublist k _)

/-- every job runs at most once per call (jobs are distinct entries of the table) -/
theorem C05.nodup (k : Nat) (l : List (α × Rat)) (hn : l.Nodup) : (selectBatch k l).Nodup :=
  ((sortDesc_perm l).nodup_iff.mpr hn).sublist (cut_sublist k _)

/-- every selected job is a registered job -/
theorem C05.subset (k : Nat) (l : List (α × Rat)) : ∀ x ∈ selectBatch k l, x ∈ l := by
  intro x hx
  exact (sortDesc_perm l).mem_iff.mp ((cut_sublist k _).subset hx)

/-- **no job left waiting has a higher priority than a job that runs** -/
theorem C05.no_better_left_waiting (k : Nat) (l : List (α × Rat)) (hn : l.Nodup) :
    ∀ s ∈ selectBatch k l, ∀ w ∈ l, w ∉ selectBatch k l → w.2 ≤ s.2 := by
  intro s hs w hw hnw
  have hspos := C05.never_nonpositive k l s hs
  by_cases hwp : pos w = true
  · -- w is positive, so it sits in the sorted positives F, but not among the first k
    have hwS : w ∈ sortDesc l := (sortDesc_perm l).mem_iff.mpr hw
    have hwF : w ∈ (sortDesc l).filter pos := List.mem_filter.mpr ⟨hwS, hwp⟩
    rw [selectBatch_eq] at hs hnw
    by_cases hk : k = 0
    · simp only [hk, if_true] at hnw; exact absurd hwF hnw
    · simp only [hk, if_false] at hs hnw
      have hsorted : ((sortDesc l).filter pos).Pairwise (fun a b => b.2 ≤ a.2) :=
        (sortDesc_sorted l).sublist List.filter_sublist
      rw [← List.take_append_drop k ((sortDesc l).filter pos)] at hsorted hwF
      have hwD : w ∈ ((sortDesc l).filter pos).drop k := by
        rcases List.mem_append.mp hwF with h | h
        · exact absurd h hnw
        · exact h
      exact (List.pairwise_append.mp hsorted).2.2 s hs w hwD
  · have : w.2 ≤ 0 := by
      simp only [pos, decide_eq_true_eq] at hwp
      grind
    grind

/-- ties keep the registry iteration order (stable sort): two entries of equal priority that are
    both selected appear in the batch in the order they had in the table -/
theorem C05.stable (l : List (α × Rat)) (a b : α × Rat) (hab : [a, b].Sublist l) (he : a.2 = b.2)
    (ha : 0 < a.2) : [a, b].Sublist (selectBatch 0 l) := by
  have h1 : [a, b].Sublist (sortDesc l) := by
    apply List.sublist_mergeSort
    · intro x y z h1 h2; simp only [decide_eq_true_eq] at *; exact Rat.le_trans h2 h1
    · intro x y; simp only [Bool.or_eq_true, decide_eq_true_eq]; exact Rat.le_total
    · simp [he, Rat.le_refl]
    · exact hab
  rw [selectBatch_eq]
  simp only [if_true]
  have := h1.filter pos
  have hb : 0 < b.2 := he ▸ ha
  simpa [pos, ha, hb] using this

/-- the built-in linear priority: `(overdue+1)·weight` when overdue ≥ 0, else 0 -/
theorem C05.linear (late : Int) (w : Rat) :
    linearPrio late w = (if late < 0 then 0 else ((late : Rat) / 1000000 + 1) * w) := rfl

theorem C05.constant (late : Int) (w : Rat) :
    constPrio late w = (if late < 0 then 0 else w) := rfl

private theorem factor_pos (late : Int) (h : 0 ≤ late) : (0 : Rat) < (late : Rat) / 1000000 + 1 := by
  have : (0 : Rat) ≤ (late : Rat) := by exact_mod_cast h
  grind

/-- the linear priority is positive exactly for jobs that are due and have positive weight -/
theorem C05.linear_pos (late : Int) (w : Rat) :
    0 < linearPrio late w ↔ (0 ≤ late ∧ 0 < w) := by
  unfold linearPrio
  by_cases h : late < 0
  · simp only [h, if_true]
    constructor
    · intro h0; exact absurd h0 (Rat.lt_irrefl)
    · intro ⟨h1, _⟩; omega
  · simp only [h, if_false]
    rw [Rat.mul_pos_iff_of_pos_left (factor_pos late (by omega))]
    constructor
    · intro hw; exact ⟨by omega, hw⟩
    · intro ⟨_, hw⟩; exact hw

/-- among equally late due jobs the heavier one goes first (weakly) -/
theorem C05.linear_mono_weight (late : Int) (w1 w2 : Rat) (hl : 0 ≤ late) (hw : w1 ≤ w2) :
    linearPrio late w1 ≤ linearPrio late w2 := by
  unfold linearPrio
  have h : ¬ late < 0 := by omega
  simp only [h, if_false]
  exact Rat.mul_le_mul_of_nonneg_left hw (Rat.le_of_lt (factor_pos late hl))

/-- among equal positive weights the later (more overdue) one goes first (strictly) -/
theorem C05.linear_mono_late (l1 l2 : Int) (w : Rat) (h1 : 0 ≤ l1) (h12 : l1 < l2) (hw : 0 < w) :
    linearPrio l1 w < linearPrio l2 w := by
  unfold linearPrio
  have hn1 : ¬ l1 < 0 := by omega
  have hn2 : ¬ l2 < 0 := by omega
  simp only [hn1, hn2, if_false]
  have : (l1 : Rat) < (l2 : Rat) := by exact_mod_cast h12
  have hd : (l1 : Rat) / 1000000 + 1 < (l2 : Rat) / 1000000 + 1 := by grind
  exact Rat.mul_lt_mul_of_pos_right hd hw

/-- the priority function is evaluated once per registered job per non-forced call, with
    (now − due, the job, max_exec, number of registered jobs) -/
theorem C05.calls (s : State) (clock : Int) (order raises : List Nat) (scripts : List (Nat × List COp))
    (hp : isPermOf order s.reg = true) :
    (execJobs s clock false order raises scripts).2.prioCalls =
      order.map (fun k => (k, lateness s (nowDT s.tz clock) k, s.maxExec, s.reg.length)) := by
  simp [execJobs, hp]

theorem lookup_of_mem_nodup (l : List (Nat × Rat)) (hn : (l.map (·.1)).Nodup) (x : Nat × Rat) (hx : x ∈ l) :
    l.lookup x.1 = some x.2 := by
  induction l with
  | nil => cases hx
  | cons a as ih =>
      simp only [List.map_cons, List.nodup_cons] at hn
      rcases List.mem_cons.mp hx with rfl | h
      · simp [List.lookup]
      · have hne : ¬ (x.1 = a.1) := by
          intro e; exact hn.1 (e ▸ List.mem_map_of_mem h)
        have : (x.1 == a.1) = false := by simpa using hne
        simp only [List.lookup, this]
        exact ih hn.2 h

theorem nodupB_iff (l : List Nat) : nodupB l = true ↔ l.Nodup := by
  induction l with
  | nil => simp [nodupB]
  | cons x xs ih => simp [nodupB, ih, List.nodup_cons]

theorem descB_of_pairwise (l : List Rat) (h : l.Pairwise (fun a b => b ≤ a)) : descB l = true := by
  induction l with
  | nil => rfl
  | cons a as ih =>
      cases as with
      | nil => rfl
      | cons b bs =>
          rw [List.pairwise_cons] at h
          simp only [descB, Bool.and_eq_true, decide_eq_true_eq]
          exact ⟨h.1 b (by simp), ih h.2⟩

/-- **the model's batch satisfies the Bool twin `c05SpecB`** that the driver evaluates on what the
    implementation invoked: count, positivity, membership, no repetition, order, nothing better
    left waiting — so the oracle accepts exactly behaviour of the kind the theorems above describe -/
theorem C05.twin_sound (k : Nat) (l : List (Nat × Rat)) (hn : (l.map (·.1)).Nodup) :
    c05SpecB k l ((selectBatch k l).map (·.1)) = true := by
  have hnl : l.Nodup := by
    have := List.Pairwise.of_map (f := fun (x : Nat × Rat) => x.1) (S := fun a b => a ≠ b) (R := fun a b => a ≠ b) (fun a b hab e => hab (by rw [e])) hn
    exact this
  have hsub := C05.subset k l
  have hprio : ∀ x ∈ selectBatch k l, prioOfKey l x.1 = x.2 := by
    intro x hx
    simp [prioOfKey, lookup_of_mem_nodup l hn x (hsub x hx)]
  unfold c05SpecB
  simp only [Bool.and_eq_true, List.all_eq_true, List.any_eq_true, beq_iff_eq, decide_eq_true_eq, List.length_map]
  refine ⟨⟨⟨⟨?_, ?_⟩, ?_⟩, ?_⟩, ?_⟩
  · rw [C05.count]
  · intro key hkey
    obtain ⟨x, hx, rfl⟩ := List.mem_map.mp hkey
    refine ⟨⟨x, hsub x hx, rfl⟩, ?_⟩
    rw [hprio x hx]
    exact C05.never_nonpositive k l x hx
  · rw [nodupB_iff]
    have hsl : ((selectBatch k l).map (·.1)).Sublist ((sortDesc l).map (·.1)) := (cut_sublist _ _).map _
    have hp : ((sortDesc l).map (·.1)).Perm (l.map (·.1)) := (sortDesc_perm l).map _
    exact (hp.nodup_iff.mpr hn).sublist hsl
  · apply descB_of_pairwise
    rw [List.map_map]
    have : (selectBatch k l).map ((prioOfKey l) ∘ (·.1)) = (selectBatch k l).map (·.2) := by
      apply List.map_congr_left
      intro x hx; exact hprio x hx
    rw [this, List.pairwise_map]
    exact C05.sorted k l
  · intro skey hs w hw
    obtain ⟨sx, hsx, rfl⟩ := List.mem_map.mp hs
    by_cases hin : w ∈ selectBatch k l
    · rw [Bool.or_eq_true]; left
      simp only [List.contains_eq_mem, List.mem_map, decide_eq_true_eq]
      exact ⟨w, hin, rfl⟩
    · rw [Bool.or_eq_true]; right
      rw [hprio sx hsx]
      simpa using C05.no_better_left_waiting k l hnl sx hsx w hw hin

/-! non-vacuity: a table with ties, a zero and a negative entry is duplicate-free -/
example : [((1:Nat), (1:Rat)), (2, 3), (3, 0), (4, 3), (5, -1)].Nodup := by simp

/-! ### the jobs a call leaves waiting stay exactly as they were -/

theorem runOne_find_ne (clock : Int) (raises : List Nat) (s : State) (inv : List Invoc) (k k' : Nat) (h : k' ≠ k) :
    (runOne clock raises [] (s, inv) k').1.find k = s.find k := by
  unfold runOne
  simp only []
  cases hf : s.find k' with
  | none => rfl
  | some sj =>
      simp only [List.lookup, Option.getD_none, List.foldl_nil]
      show (s.setJob k' (fun j => j.exec1 (raises.contains k'))).find k = s.find k
      exact State.setJob_find_ne s k' k _ h

theorem runFold_find_ne (clock : Int) (raises : List Nat) (B : List Nat) (s : State) (inv : List Invoc) (k : Nat)
    (h : k ∉ B) : (B.foldl (runOne clock raises []) (s, inv)).1.find k = s.find k := by
  induction B generalizing s inv with
  | nil => rfl
  | cons b bs ih =>
      simp only [List.foldl_cons]
      have hb : b ≠ k := fun e => h (by simp [e])
      have hpair : runOne clock raises [] (s, inv) b =
          ((runOne clock raises [] (s, inv) b).1, (runOne clock raises [] (s, inv) b).2) := rfl
      rw [hpair, ih _ _ (fun hm => h (List.mem_cons_of_mem _ hm))]
      exact runOne_find_ne clock raises s inv k b hb

theorem postOne_find_ne (ref : DT) (s : State) (k k' : Nat) (h : k' ≠ k) : (postOne ref s k').find k = s.find k := by
  have h1 := State.setJob_find_ne s k' k (fun j => j.calcNext ref) h
  unfold postOne
  simp only []
  cases hf : (s.setJob k' fun j => j.calcNext ref).find k' with
  | none => exact h1
  | some sj =>
      simp only []
      by_cases ha : sj.job.hasAttempts = true
      · simp only [ha, if_true]; exact h1
      · simp only [ha]; exact h1

theorem postFold_find_ne (ref : DT) (B : List Nat) (s : State) (k : Nat) (h : k ∉ B) :
    (B.foldl (postOne ref) s).find k = s.find k := by
  induction B generalizing s with
  | nil => rfl
  | cons b bs ih =>
      simp only [List.foldl_cons]
      rw [ih _ (fun hm => h (List.mem_cons_of_mem _ hm))]
      exact postOne_find_ne ref s k b (fun e => h (by simp [e]))

/-- **a job the call does not invoke is left exactly as it was** - due time, attempts, failures,
    everything - whatever `max_exec`, the priority function and the other jobs are; in particular a
    due job that the limit passes over keeps its occurrence and its lateness for the next call
    ("over repeated calls until the backlog is drained") -/
theorem C05.left_waiting_unchanged (s : State) (clock : Int) (force : Bool) (order raises : List Nat) (k : Nat)
    (hk : k ∉ (execJobs s clock force order raises []).2.invoked.map (·.key))
    (hall : ∀ k' ∈ order, k' < s.heap.length) (hperm : isPermOf order s.reg = true) :
    (execJobs s clock force order raises []).1.find k = s.find k := by
  unfold execJobs at hk ⊢
  simp only [hperm, if_true] at hk ⊢
  generalize hB : (if force = true then order
      else List.map (fun x => x.1) (selectBatch s.maxExec (List.map (fun k => (k, prioOf s.prio (lateness s (nowDT s.tz clock) k) (weightOf s k))) order))) = B at hk ⊢
  have hBreg : ∀ b ∈ B, b < s.heap.length := by
    intro b hb
    apply hall
    have hsub : ∀ x ∈ B, x ∈ order := by
      subst hB
      intro x hx
      by_cases hf : force = true
      · simpa [hf] using hx
      · simp only [hf] at hx
        obtain ⟨p, hp, rfl⟩ := List.mem_map.mp hx
        have := (C05.subset s.maxExec _ p hp)
        obtain ⟨y, _, hy⟩ := List.mem_map.mp this
        rw [← hy]; assumption
    exact hsub b hb
  have hkeys := (runOne_fold_plain clock raises B s [] hBreg).1
  simp only [List.map_nil, List.nil_append] at hkeys
  have hkB : k ∉ B := by
    intro hm
    apply hk
    show k ∈ List.map (fun x => x.key) (B.foldl (runOne clock raises []) (s, [])).2
    rw [hkeys]; exact hm
  show ((B.foldl (postOne (nowDT s.tz clock)) (B.foldl (runOne clock raises []) (s, [])).1)).find k = s.find k
  rw [postFold_find_ne _ _ _ _ hkB, runFold_find_ne _ _ _ _ _ _ hkB]

/-- **the weight the priority function sees is the weight the job was scheduled with**, for every
    scheduling call (the one-shot calls included) and for as long as the job exists: `weightOf` of
    the new key is the requested weight right after the call -/
theorem C05.weight_is_scheduled_weight (s : State) (sp : RawSpec) (clock : Int) (direct : Bool) (k : Nat)
    (h : (schedule s sp clock direct).2 = .job k) :
    weightOf (schedule s sp clock direct).1 k = sp.weight := by
  unfold SV.schedule at h ⊢
  cases hj : (if direct = true then createJobDirect s.tz sp clock else createJob s.tz sp clock) with
  | error e => rw [hj] at h; simp at h
  | ok j =>
      rw [hj] at h
      simp only [] at h ⊢
      have hk : k = s.heap.length := by
        simp only [Res.job.injEq] at h; exact h.symm
      subst hk
      unfold weightOf State.find
      by_cases ha : j.hasAttempts = true <;> simp [ha]

end SV
