/-
  Props/C02.lean — weekly jobs are due exactly at the requested weekday and time, every 7 days.
-/
import SchedVerif.Lemmas.Job
import SchedVerif.Props.C01
namespace SV

/-- the distance in days to a target weekday is always in 1..7 and lands on the target;
    arguments outside 0..6 are rejected (finite table: 49 pairs, but proved by arithmetic) -/
theorem C02.days_range (s d : Int) (hs : 0 ≤ s ∧ s ≤ 6) (hd : 0 ≤ d ∧ d ≤ 6) :
    ∃ n, daysToWeekday s d = some n ∧ 1 ≤ n ∧ n ≤ 7 ∧ (s + n) % 7 = d := by
  refine ⟨(d - s - 1) % 7 + 1, ?_, ?_, ?_, ?_⟩
  · simp [daysToWeekday, hs.1, hs.2, hd.1, hd.2]
  all_goals omega

theorem C02.days_reject (s d : Int) (h : ¬ (0 ≤ s ∧ s ≤ 6 ∧ 0 ≤ d ∧ d ≤ 6)) :
    daysToWeekday s d = none := by
  simp [daysToWeekday, h]

/-- an occurrence of a weekly trigger is an instant whose weekday and time of day, read in the
    trigger's own offset, are the requested ones (0001-01-01 is a Monday) -/
theorem C02.fields (wd : Int) (t : Tod) (hv : (Timing.weekly wd t).valid) (U : Int) :
    Occ (.weekly wd t) U ↔
      (((U + t.off.getD 0) / DAY) % 7 = wd ∧ (U + t.off.getD 0) % DAY = t.tod) := by
  obtain ⟨h1, h2, h3⟩ := hv
  have := t.tod_range h3
  simp only [Occ, Timing.off, Timing.period, Timing.phase, DAY, WEEK] at *
  omega

/-- **first due time** of a weekly timer: the least such instant strictly after the reference,
    for every trigger offset and every reference offset independently -/
theorem C02.first_due (wd : Int) (t : Tod) (hv : (Timing.weekly wd t).valid) (start : DT)
    (ha : start.off.isSome = t.off.isSome) (skip : Bool) :
    IsLeastAfter (Occ (.weekly wd t)) start.inst (Timer.init (.weekly wd t) start skip).next.inst := by
  unfold Timer.init
  rw [Timer.calcNext_none _ rfl]
  exact advance_least _ hv rfl start ha

/-- a trigger for the reference's own weekday is due the same day iff its time is still ahead,
    and exactly one week after "today at that time" otherwise -/
theorem C02.same_weekday (now : DT) (wd : Int) (t : Tod) (hv : t.valid) (hw : now.weekday = wd) :
    (now.loc % DAY < t.tod → (nextWeekdayTime now wd t).loc = now.loc / DAY * DAY + t.tod) ∧
    (t.tod ≤ now.loc % DAY → (nextWeekdayTime now wd t).loc = now.loc / DAY * DAY + t.tod + WEEK) := by
  have := t.tod_range hv
  simp only [nextWeekdayTime, nextDaily, replaceDay, DT.weekday, DT.date, DAY, WEEK] at *
  constructor <;> intro h <;> omega

/-- successive due times are exactly seven days apart -/
theorem C02.advance (tm : Timer) (wd : Int) (t : Tod) (ht : tm.timing = .weekly wd t) (h : tm.WF)
    (ho : Occ tm.timing tm.next.inst) :
    (tm.calcNext none).next.inst = tm.next.inst + WEEK := by
  rw [Timer.calcNext_none _ h.nc]
  have := advance_on_occ _ h.valid h.nc _ h.aw ho
  rw [this, ht]; rfl

/-- **every 7 days, any number of executions**: after `k` executions of a weekly job its due time is
    `first + k·7 days`, and it is still an occurrence of the trigger (same weekday and clock time in
    the trigger's own offset, by `C02.fields`) -/
theorem C02.kth (tm : Timer) (wd : Int) (t : Tod) (ht : tm.timing = .weekly wd t) (h : tm.WF)
    (ho : Occ tm.timing tm.next.inst) (k : Nat) :
    (tm.execs k).next.inst = tm.next.inst + k * WEEK ∧ Occ tm.timing (tm.execs k).next.inst := by
  have hk := C01.kth tm h ho k
  have hp : tm.timing.period = WEEK := by rw [ht]; rfl
  refine ⟨by rw [hk.1, hp], ?_⟩
  induction k generalizing tm with
  | zero => simpa [Timer.execs] using ho
  | succ k ih =>
      obtain ⟨_, h2, h3⟩ := C01.advance tm h ho
      have htt : (tm.calcNext none).timing = tm.timing := by rw [Timer.calcNext_none _ h.nc]
      have := ih (tm.calcNext none) (htt ▸ ht) h3 (htt ▸ h2) (C01.kth _ h3 (htt ▸ h2) k) (by rw [htt]; exact hp)
      simp only [Timer.execs]
      rw [← htt]; exact this

/-! non-vacuity -/
example : (Timing.weekly 6 { h := 23, m := 59, s := 59, us := 999999, off := some (-34200000000) }).valid := by
  simp [Timing.valid, Tod.valid, DAY]
example : daysToWeekday 2 2 = some 7 := by decide
example : daysToWeekday 6 0 = some 1 := by decide

end SV
