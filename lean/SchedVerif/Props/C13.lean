/-
  Props/C13.lean — naive/aware mixing is rejected up front; aware schedules depend only on instants.
-/
import SchedVerif.Lemmas.Reexpress
import SchedVerif.Props.C06
namespace SV

/-- "every timing entry, start and stop has the scheduler's awareness" -/
def uniformB (tz : Option Int) (ts : List Timing) (start stop : Option DT) : Bool :=
  timingTzOk tz (ts.map standardize) &&
  (match start with | some s => s.off.isSome == tz.isSome | none => true) &&
  (match stop with | some e => e.off.isSome == tz.isSome | none => true)

/-- **accepted only if uniform**: a job can only be created when all its times, its start and its
    stop have the awareness of the scheduler -/
theorem C13.accept_implies_uniform (tz : Option Int) (ts : List Timing) (start stop : Option DT)
    (delay skip : Bool) (m : Int) (clock : Int) (j : Job)
    (h : Job.create tz ts start stop delay skip m clock = .ok j) : uniformB tz ts start stop = true := by
  obtain ⟨s, hs, _, htz, _⟩ := Job.create_ok _ _ _ _ _ _ _ _ _ h
  unfold uniformB
  rw [htz]
  unfold startStop at hs
  cases start with
  | none =>
      cases stop with
      | none => simp
      | some e =>
          simp only [] at hs
          split at hs <;> try (cases hs)
          rename_i hne
          simpa using hne
  | some s0 =>
      simp only [] at hs
      split at hs <;> try (cases hs)
      rename_i hne
      cases stop with
      | none => simpa using hne
      | some e =>
          simp only [] at hs
          split at hs <;> try (cases hs)
          rename_i hne2
          simp only [Bool.true_and, Bool.and_eq_true, beq_iff_eq]
          exact ⟨by simpa using hne, by simpa using hne2⟩

/-- **any mixing is rejected with SchedulerError by the scheduling call itself** -/
theorem C13.reject_mixed (tz : Option Int) (ts : List Timing) (start stop : Option DT)
    (delay skip : Bool) (m : Int) (clock : Int) (h : uniformB tz ts start stop = false) :
    Job.create tz ts start stop delay skip m clock = .error .schedulerError := by
  unfold Job.create
  simp only []
  split
  · rfl
  · by_cases h1 : timingTzOk tz (List.map standardize ts) = true
    · simp only [h1, Bool.not_true, Bool.false_eq_true, if_false]
      split
      · rfl
      · -- the mismatch is in start or stop: startStop fails with SchedulerError
        have hss : ∃ e, startStop tz start stop clock = .error e ∧ e = .schedulerError := by
          unfold uniformB at h
          rw [h1] at h
          unfold startStop
          cases start with
          | none =>
              cases stop with
              | none => simp at h
              | some e =>
                  simp only [Bool.true_and, beq_eq_false_iff_ne] at h
                  simp only []
                  split
                  · exact ⟨_, rfl, rfl⟩
                  · rename_i hc; exact absurd (by simpa using hc) h
          | some s0 =>
              simp only []
              split
              · exact ⟨_, rfl, rfl⟩
              · rename_i hc
                have hs0 : s0.off.isSome = tz.isSome := by simpa using hc
                cases stop with
                | none => simp [hs0] at h
                | some e =>
                    simp only [hs0, BEq.rfl, Bool.true_and, beq_eq_false_iff_ne] at h
                    simp only []
                    split
                    · exact ⟨_, rfl, rfl⟩
                    · rename_i hc2; exact absurd (by simpa using hc2) h
        obtain ⟨e, he, hee⟩ := hss
        rw [he, hee]
    · simp [h1]

/-- awareness of everything a job stores -/
structure Job.Aware (tz : Option Int) (j : Job) : Prop where
  timers : ∀ tm ∈ j.timers, tm.next.off.isSome = tz.isSome ∧
    (tm.timing.isCyclic = false → tm.timing.off.isSome = tz.isSome)
  start : j.start.off.isSome = tz.isSome

theorem nowDT_aware (tz : Option Int) (clock : Int) : (nowDT tz clock).off.isSome = tz.isSome := by
  cases tz <;> simp [nowDT]

theorem Timer.calcNext_aware (tz : Option Int) (tm : Timer) (ref : Option DT)
    (hn : tm.next.off.isSome = tz.isSome) (ht : tm.timing.isCyclic = false → tm.timing.off.isSome = tz.isSome)
    (hr : ∀ r, ref = some r → r.off.isSome = tz.isSome) :
    (tm.calcNext ref).next.off.isSome = tz.isSome ∧ (tm.calcNext ref).timing = tm.timing := by
  by_cases hc : tm.timing.isCyclic = true
  · obtain ⟨T, hT⟩ : ∃ T, tm.timing = .cyclic T := by
      cases h : tm.timing <;> simp_all [Timing.isCyclic]
    have e2 : (tm.calcNext ref).timing = tm.timing := by
      unfold Timer.calcNext; rw [hT]
    refine ⟨?_, e2⟩
    unfold Timer.calcNext
    rw [hT]
    cases hs : tm.skip <;> cases ref <;> simp_all [DT.add]
  · have nc : tm.timing.isCyclic = false := by simpa using hc
    have hto := ht nc
    have o1 := advance_off tm.timing nc tm.next (by rw [hn, hto])
    cases ref with
    | none =>
        rw [Timer.calcNext_none _ nc]
        exact ⟨by simp [o1, hto], rfl⟩
    | some r =>
        have o2 := advance_off tm.timing nc r (by rw [hr r rfl, hto])
        cases hs : tm.skip with
        | false => rw [Timer.calcNext_noskip _ hs]; exact ⟨by simp [o1, hto], rfl⟩
        | true =>
            rw [Timer.calcNext_skip_nc _ nc hs]
            split
            · exact ⟨by simp [o2, hto], rfl⟩
            · exact ⟨by simp [o1, hto], rfl⟩

/-- **uniformity is invariant**: after any execution at the scheduler's own clock every datetime a
    job stores — and hence its reported due time — has the scheduler's awareness, so no comparison
    in `exec_jobs` ever mixes naive and aware values -/
theorem C13.aware_invariant (tz : Option Int) (j : Job) (h : j.Aware tz) (clock : Int) (r : Bool) :
    (j.run (nowDT tz clock) r).Aware tz := by
  refine ⟨?_, h.start⟩
  intro tm htm
  have step : ∀ t ∈ j.timers, ((t.calcNext (some (nowDT tz clock))).next.off.isSome = tz.isSome ∧
      ((t.calcNext (some (nowDT tz clock))).timing.isCyclic = false →
        (t.calcNext (some (nowDT tz clock))).timing.off.isSome = tz.isSome)) := by
    intro t ht
    obtain ⟨a, b⟩ := h.timers t ht
    obtain ⟨c, d⟩ := Timer.calcNext_aware tz t (some (nowDT tz clock)) a b (by intro r hr; cases hr; exact nowDT_aware tz clock)
    exact ⟨c, by rw [d]; exact b⟩
  simp only [Job.run, Job.calcNext, Job.exec1] at htm
  by_cases hs : j.skip = true
  · simp only [hs, if_true] at htm
    obtain ⟨t, ht, rfl⟩ := List.mem_map.mp htm
    split
    · exact step t ht
    · exact h.timers t ht
  · simp only [hs, Bool.false_eq_true, if_false] at htm
    by_cases hd : (!j.delay && j.attempts + 1 == 1) = true
    · simp only [hd, if_true] at htm
      exact h.timers tm htm
    · simp only [hd, Bool.false_eq_true, if_false] at htm
      rcases mem_modify _ _ _ _ htm with h1 | ⟨b, hb, rfl⟩
      · exact h.timers tm h1
      · exact step b (List.mem_of_getElem? hb)

theorem C13.due_aware (tz : Option Int) (j : Job) (h : j.Aware tz) (hne : j.pending < j.timers.length) :
    j.due.off.isSome = tz.isSome := by
  unfold Job.due Job.pendingTimer
  split
  · exact h.start
  · simp only [List.getD_eq_getElem?_getD, List.getElem?_eq_getElem hne, Option.getD_some]
    exact (h.timers _ (List.getElem_mem hne)).1

/-- **offset invariance, one execution**: two jobs that denote the same schedule in different
    offsets, executed at references denoting the same instant, stay in lock step -/
theorem C13.reexpress_run (j j' : Job) (h : JobEq j j') (ref ref' : DT) (hi : ref.inst = ref'.inst)
    (wa : ∀ tm ∈ j.timers, tm.timing.isCyclic = false → ref.off.isSome = tm.timing.off.isSome)
    (wb : ∀ tm ∈ j'.timers, tm.timing.isCyclic = false → ref'.off.isSome = tm.timing.off.isSome)
    (r r' : Bool) :
    JobEq (j.run ref r) (j'.run ref' r') ∧ (j.run ref r).due.inst = (j'.run ref' r').due.inst ∧
    (j.run ref r).hasAttempts = (j'.run ref' r').hasAttempts := by
  have h1 := JobEq.exec1 j j' h r r'
  have h2 := JobEq.calcNext _ _ h1 ref ref' hi wa wb
  exact ⟨h2, h2.due, h2.hasAttempts⟩

/-- the timings of a job never change -/
theorem run_timings (j : Job) (ref : DT) (r : Bool) :
    (j.run ref r).timers.map (·.timing) = j.timers.map (·.timing) := by
  have ht : ∀ t : Timer, (t.calcNext (some ref)).timing = t.timing := by
    intro t; unfold Timer.calcNext; cases t.timing <;> simp <;> split <;> (try split) <;> rfl
  simp only [Job.run, Job.calcNext, Job.exec1]
  by_cases hs : j.skip = true
  · simp only [hs, if_true]
    rw [List.map_map]
    apply List.map_congr_left
    intro t _
    simp only [Function.comp]
    split
    · exact ht t
    · rfl
  · simp only [hs, Bool.false_eq_true, if_false]
    by_cases hd : (!j.delay && j.attempts + 1 == 1) = true
    · simp only [hd, if_true]
    · simp only [hd, Bool.false_eq_true, if_false]
      apply List.ext_getElem
      · simp
      · intro i h1 h2
        simp only [List.getElem_map, List.getElem_modify]
        split
        · exact ht _
        · rfl

/-- **offset invariance over any polling history**: re-expressing the same schedule in other
    fixed UTC offsets leaves the sequence of execution instants unchanged -/
theorem C13.reexpress (refs refs' : List DT) (hl : refs.length = refs'.length)
    (hi : ∀ i (h : i < refs.length) (h' : i < refs'.length), refs[i].inst = refs'[i].inst) :
    ∀ (j j' : Job), JobEq j j' →
      (∀ tm ∈ j.timers, tm.timing.isCyclic = false → ∀ r ∈ refs, r.off.isSome = tm.timing.off.isSome) →
      (∀ tm ∈ j'.timers, tm.timing.isCyclic = false → ∀ r ∈ refs', r.off.isSome = tm.timing.off.isSome) →
      (j.runs refs).2 = (j'.runs refs').2 := by
  induction refs generalizing refs' with
  | nil =>
      intro j j' _ _ _
      cases refs' with
      | nil => rfl
      | cons _ _ => simp at hl
  | cons r rs ih =>
      intro j j' h wa wb
      cases refs' with
      | nil => simp at hl
      | cons r' rs' =>
          have h0 := hi 0 (by simp) (by simp)
          simp only [List.getElem_cons_zero] at h0
          obtain ⟨h1, _, _⟩ := C13.reexpress_run j j' h r r' h0
            (fun tm htm hc => wa tm htm hc r (by simp)) (fun tm htm hc => wb tm htm hc r' (by simp)) false false
          simp only [Job.runs]
          rw [h.due]
          congr 1
          apply ih rs' (by simpa using hl)
          · intro i hx hy
            have := hi (i + 1) (by simpa using hx) (by simpa using hy)
            simpa using this
          · exact h1
          · intro tm htm hc x hx
            have hm : tm.timing ∈ (j.run r).timers.map (·.timing) := List.mem_map_of_mem htm
            rw [run_timings] at hm
            obtain ⟨t0, ht0, e0⟩ := List.mem_map.mp hm
            rw [← e0]
            exact wa t0 ht0 (by rw [e0]; exact hc) x (by simp [hx])
          · intro tm htm hc x hx
            have hm : tm.timing ∈ (j'.run r').timers.map (·.timing) := List.mem_map_of_mem htm
            rw [run_timings] at hm
            obtain ⟨t0, ht0, e0⟩ := List.mem_map.mp hm
            rw [← e0]
            exact wb t0 ht0 (by rw [e0]; exact hc) x (by simp [hx])

/-- two freshly created jobs denote the same schedule when their timings denote the same
    recurring instants entry by entry and their start / stop denote the same instants -/
theorem C13.reexpress_at_creation (tms tms' : List Timing) (start start' : DT) (stop stop' : Option DT)
    (delay skip : Bool) (m : Int)
    (hl : tms.length = tms'.length)
    (ht : ∀ i (h : i < tms.length) (h' : i < tms'.length), TimingEq tms[i] tms'[i])
    (hs : start.inst = start'.inst) (hst : stop.map DT.inst = stop'.map DT.inst)
    (wa : ∀ tm ∈ tms, tm.isCyclic = false → start.off.isSome = tm.off.isSome)
    (wb : ∀ tm ∈ tms', tm.isCyclic = false → start'.off.isSome = tm.off.isSome) :
    JobEq (Job.build tms start stop delay skip m) (Job.build tms' start' stop' delay skip m) := by
  have hidx : Rel2 TimerEq (tms.map (fun tm => Timer.init tm start skip)) (tms'.map (fun tm => Timer.init tm start' skip)) := by
    refine ⟨by simp [hl], ?_⟩
    intro i hx hy
    simp only [List.getElem_map]
    have hx0 : i < tms.length := by simpa using hx
    have hy0 : i < tms'.length := by simpa using hy
    unfold Timer.init
    have te : TimerEq { timing := tms[i], next := start, skip := skip } { timing := tms'[i], next := start', skip := skip } :=
      ⟨ht i hx0 hy0, rfl, hs, fun hc => wa _ (List.getElem_mem hx0) hc, fun hc => wb _ (List.getElem_mem hy0) hc⟩
    have re : RefEq { timing := tms[i], next := start, skip := skip } { timing := tms'[i], next := start', skip := skip } none none :=
      ⟨rfl, fun a b ha _ => (by cases ha), fun a ha _ => (by cases ha), fun b hb _ => (by cases hb)⟩
    exact TimerEq.calcNext _ _ te none none re
  have hvals : (tms.map (fun tm => Timer.init tm start skip)).map (fun (t : Timer) => t.next.inst) =
      (tms'.map (fun tm => Timer.init tm start' skip)).map (fun (t : Timer) => t.next.inst) := by
    apply List.ext_getElem
    · simp [hl]
    · intro i h1 h2
      simp only [List.getElem_map]
      have := hidx.2 i (by simpa using h1) (by simpa using h2)
      simp only [List.getElem_map] at this
      exact this.inst
  have hpend := argmin_congr _ _ _ _ hvals
  have hpre : JobEq { (Job.build tms start stop delay skip m) with markDelete := true }
      { (Job.build tms' start' stop' delay skip m) with markDelete := true } :=
    ⟨hidx.1, hidx.2, hpend, hs, hst, rfl, rfl, rfl, rfl, rfl⟩
  have hpn : (Job.build tms start stop delay skip m).pendingTimer.next.inst =
      (Job.build tms' start' stop' delay skip m).pendingTimer.next.inst := hpre.pendingNext
  refine ⟨hidx.1, hidx.2, hpend, hs, hst, rfl, rfl, rfl, rfl, ?_⟩
  cases delay
  · exact pastStop_eq _ _ _ _ hst hs
  · exact pastStop_eq _ _ _ _ hst hpn

/-! non-vacuity: daily 10:00+02:00 and 08:00Z denote the same instants -/
example : TimingEq (.daily { h := 10, m := 0, s := 0, us := 0, off := some 7200000000 })
    (.daily { h := 8, m := 0, s := 0, us := 0, off := some 0 }) :=
  Or.inr ⟨rfl, rfl, by simp [Timing.valid, Tod.valid, DAY], by simp [Timing.valid, Tod.valid, DAY], rfl, by decide⟩

end SV
