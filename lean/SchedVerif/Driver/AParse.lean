/-
  Driver/AParse.lean — line protocol for the asyncio model.
-/
import SchedVerif.Driver.Parse
import SchedVerif.Model.Async
namespace SV.Drv
open SV

def act : P Act := do
  let t ← tok
  match t with
  | "sl" => do let d ← int; pure (.sleep d)
  | "ad" => do let k ← nat; pure (.del k)
  | "at" => do let any ← bool; let q ← listOf nat; pure (.delTags q any)
  | "as" => do let sp ← rawSpec; pure (.sched sp)
  | _ => failure

def runScript : P RunScript := do
  let acts ← listOf act
  let r ← bool
  pure { acts := acts, raises := r }

def aopP : P AOp := do
  let t ← tok
  match t with
  | "asch" => do let sp ← rawSpec; let runs ← listOf runScript; pure (.sched sp runs)
  | "arun" => do let l ← int; let f ← nat; pure (.run l f)
  | "adel" => do let k ← nat; pure (.del k)
  | "adtags" => do let any ← bool; let q ← listOf nat; pure (.delTags q any)
  | "aget" => do let any ← bool; let q ← listOf nat; pure (.get q any)
  | "ajobs" => pure .jobs
  | _ => failure

def kindCode : AEvKind → String
  | .start => "S" | .endOk => "E" | .endRaise => "X" | .cancelRun => "C"

def showEv (e : AEvent) : String := s!"{e.time} {e.key} {kindCode e.kind} {e.due}"

def phaseCode : Phase → String
  | .init => "i" | .sleeping => "s" | .running _ _ => "r" | .cancelled => "c" | .finished => "f"

def showATask (s : AState) (t : ATask) : String :=
  s!"{t.key} {t.job.due.inst} {b01 t.job.due.aware} {t.job.attempts} {t.job.failed} {b01 t.job.hasAttempts} {b01 (s.reg.contains t.key)}"

/-- answer line; the event log is flushed with every answer -/
def ahandle (s : AState) (toks : List String) : AState × String :=
  match runP aopP toks with
  | none => (s, "bad-op")
  | some o =>
      let (s1, r) := astepOp { s with log := [] } o
      -- quiescent point: everything that is due at this very instant happens before the answer
      let s' := runUntil 100000 s1 s1.now
      -- the model ran out of step fuel before the requested instant: say so instead of answering with a
      -- truncated history (the harness stops comparing this scenario here; it is not a disagreement)
      if (match o with | .run limit _ => (nextTask s' limit).isSome | _ => (nextTask s' s'.now).isSome) then
        (s', "fuel-exhausted")
      else
      (s', s!"R {showRes r} | E {" ; ".intercalate (s'.log.map showEv)} | J {" ; ".intercalate (s'.tasks.map (showATask s'))} | L {s'.logs} | T {s'.now}")

end SV.Drv
