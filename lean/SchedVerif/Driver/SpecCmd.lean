/-
  Driver/SpecCmd.lean — `spec <name> …` commands: Bool twins of the property Specs, evaluated on
  observations taken from the implementation.  Answers `ok`, `fail` or `bad-spec`.
-/
import SchedVerif.Driver.Parse
import SchedVerif.Spec.Occ
import SchedVerif.Spec.Select
import SchedVerif.Spec.Union
import SchedVerif.Spec.Render
import SchedVerif.Spec.Linearize
namespace SV.Drv
open SV

/-- `<call 1..4> [wd] h m s us off` -/
def timingP : P Timing := do
  let c ← nat
  match c with
  | 1 => do let t ← tod; pure (.minutely t)
  | 2 => do let t ← tod; pure (.hourly t)
  | 3 => do let t ← tod; pure (.daily t)
  | 4 => do let wd ← int; let t ← tod; pure (.weekly wd t)
  | _ => failure

def okB (b : Bool) : String := if b then "ok" else "fail"

def lopP : P LOp := do
  let t ← tok
  match t with
  | "sched" => do let k ← nat; let r ← bool; pure (.sched k r)
  | "del" => do let k ← nat; let ok ← bool; pure (.del k ok)
  | "dtags" => do let any ← bool; let q ← listOf nat; let n ← nat; pure (.dtags q any n)
  | "get" => do let any ← bool; let q ← listOf nat; let r ← listOf nat; pure (.get q any r)
  | "jobs" => do let r ← listOf nat; pure (.jobs r)
  | "str" => do let n ← nat; pure (.str n)
  | "sel" => do let id ← nat; let f ← bool; let b ← listOf nat; pure (.execSel id b f)
  | "fin" => do let id ← nat; let r ← listOf nat; pure (.execFin id r)
  | _ => failure

def lrecP : P LRec := do
  let inv ← nat; let res ← nat; let op ← lopP
  pure { op := op, inv := inv, res := res }

def keyTags : P (Nat × List Nat) := do let k ← nat; let t ← listOf nat; pure (k, t)

def keyPrio : P (Nat × Rat) := do let k ← nat; let p ← rat; pure (k, p)
def keyDueW : P (Nat × Int × Rat) := do let k ← nat; let d ← int; let w ← rat; pure (k, d, w)

def specP : P String := do
  let name ← tok
  match name with
  | "least" => do
      -- least occurrence strictly after r is u
      let tm ← timingP; let r ← int; let u ← int
      pure (okB (leastAfterB tm r u))
  | "step" => do
      -- one execution moved the due instant by exactly one period
      let tm ← timingP; let prev ← int; let new ← int
      pure (okB (new == prev + tm.period))
  | "c05" => do
      let me ← nat; let l ← listOf keyPrio; let inv ← listOf nat
      pure (okB (c05SpecB me l inv))
  | "c04" => do
      let clock ← int; let jobs ← listOf keyDueW; let inv ← listOf nat; let ret ← nat
      pure (okB (c04SpecB clock jobs inv ret))
  | "force" => do
      let reg ← listOf nat; let inv ← listOf nat; let ret ← nat
      pure (okB (forceSpecB reg inv ret))
  | "enum" => do
      -- successive consumed due instants enumerate the union of occurrences after `start`
      let tms ← listOf timingP; let start ← int; let dues ← listOf int
      pure (okB (enumB tms start dues))
  | "iterdue" => do
      -- after n executions a (non-skipping) batched job is due at the (n+1)-th occurrence of the union after its start
      let tms ← listOf timingP; let start ← int; let n ← nat; let due ← int
      pure (okB (iterNext tms (n + 1) start == due))
  | "nextpast" => do
      -- the earliest occurrence of any of the listed times strictly after `last` lies past `stop`
      -- (the only situation in which the stop may retire the job after the run that consumed `last`)
      let tms ← listOf timingP; let last ← int; let stop ← int
      pure (okB (decide (stop < unionNext tms last)))
  | "skipdue" => do
      let tms ← listOf timingP; let t ← int; let g ← int; let due ← int
      pure (okB (skipDueB tms t g due))
  | "unique" => do
      -- a timing list is accepted iff its entries denote pairwise different recurring instants
      let tms ← listOf timingP; let accepted ← bool
      pure (okB (uniqueB tms == accepted))
  | "cutoff" => do
      let w ← nat; let tail ← bool; let sv ← listOf nat; let out ← listOf nat
      pure (okB (cutoffSpecB sv w tail out))
  | "sorteddues" => do
      -- `sorted(jobs)` of the implementation (due instants in that order) is the model's stable ascending sort of the
      -- registry given in iteration order
      let it ← listOf int; let sorted ← listOf int
      pure (okB ((sortByDue (it.map (fun d => ({ due := d, cells := [] } : JobRow)))).map (·.due) == sorted))
  | "prettify" => do
      -- the "due in" text job._str() delivers for a time difference of `us` microseconds
      let us ← int; let txt ← listOf nat
      pure (okB (prettify us == txt))
  | "rowlen" => do
      let len ← nat; let widths ← listOf nat
      pure (okB (len == widths.sum + (widths.length - 1) + 1))
  | "linearizable" => do
      -- tags table, initial registry, final registry, completed call records
      let tags ← listOf keyTags; let init ← listOf nat; let final ← listOf nat; let rs ← listOf lrecP
      pure (okB (linearizableB tags init (sortKeys final) rs))
  | "cadence" => do
      -- the k-th execution (k = 1, 2, …) of a cyclic job belongs to s + k·T (delay) / s + (k-1)·T (no delay)
      let delay ← bool; let sv ← int; let T ← int; let k ← int; let due ← int
      pure (okB (due == sv + (if delay then k else k - 1) * T))
  | "days" => do
      -- days_to_weekday s d = n (n = -1: rejected with SchedulerError), and 1 ≤ n ≤ 7 lands on d
      let sv ← int; let d ← int; let n ← int
      match daysToWeekday sv d with
      | none => pure (okB (n == -1))
      | some m => pure (okB (n == m && 1 ≤ n && n ≤ 7 && (sv + n) % 7 == d))
  | "lemax" => do
      -- t = max a b
      let a ← int; let b ← int; let t ← int
      pure (okB (t == (if a ≤ b then b else a)))
  | "eq" => do
      let a ← int; let b ← int
      pure (okB (a == b))
  | "lt" => do
      let a ← int; let b ← int
      pure (okB (a < b))
  | "le" => do
      let a ← int; let b ← int
      pure (okB (a ≤ b))
  | _ => failure

/-- `select <maxExec> <prioKind> <clock> <n> (<key> <due> <wnum> <wden>)*` : the model's batch for
    a registry given in iteration order with observed due instants and weights -/
def selectP : P String := do
  let me ← nat; let pk ← nat; let clock ← int; let jobs ← listOf keyDueW
  let kind : PrioKind := if pk == 0 then .linear else .constant
  let l := jobs.map (fun j => (j.1, prioOf kind (clock - j.2.1) j.2.2))
  pure ("B " ++ joinNat ((selectBatch me l).map (·.1))).trimAsciiEnd.toString

/-- `selectp <maxExec> <n> (<key> <pnum> <pden>)*` : the same for an explicit priority table -/
def selectpP : P String := do
  let me ← nat; let l ← listOf keyPrio
  pure ("B " ++ joinNat ((selectBatch me l).map (·.1))).trimAsciiEnd.toString

/-- the same two with the batch reported as a set (sorted keys): used when several workers run the
    batch, so that the order of the invocations is not the queue order -/
def selectSetP : P String := do
  let me ← nat; let pk ← nat; let clock ← int; let jobs ← listOf keyDueW
  let kind : PrioKind := if pk == 0 then .linear else .constant
  let l := jobs.map (fun j => (j.1, prioOf kind (clock - j.2.1) j.2.2))
  pure ("B " ++ joinNat (sortKeys ((selectBatch me l).map (·.1)))).trimAsciiEnd.toString

def selectpSetP : P String := do
  let me ← nat; let l ← listOf keyPrio
  pure ("B " ++ joinNat (sortKeys ((selectBatch me l).map (·.1)))).trimAsciiEnd.toString

/-- `cutoff <w> <tail> <n> <cp>*` : the model's `str_cutoff` -/
def cutoffP : P String := do
  let w ← nat; let tail ← bool; let sv ← listOf nat
  match strCutoff sv w tail with
  | none => pure "C E"
  | some o => pure ("C " ++ joinNat o).trimAsciiEnd.toString

def cellP : P Cell := do
  let a ← nat; let w ← nat; let t ← listOf nat
  pure { align := if a == 0 then .left else .right, width := w, text := t }

/-- `row <ncells> (<align> <width> <n> <cp>*)*` : the model's table row -/
def rowP : P String := do
  let cells ← listOf cellP
  pure ("W " ++ joinNat (row cells)).trimAsciiEnd.toString

def selectCmd (p : P String) (toks : List String) : String :=
  match runP p toks with
  | some s => s
  | none => "bad-op"

def specCmd (toks : List String) : String :=
  match runP specP toks with
  | some s => s
  | none => "bad-spec"

end SV.Drv
