/-
  Driver/SpecCmd.lean — `spec <Cxx> …` commands: Bool twins of the property Specs, evaluated on
  observations taken from the implementation.
-/
import SchedVerif.Driver.Parse
namespace SV.Drv
open SV

def specCmd (toks : List String) : String :=
  match toks with
  | _ => "bad-spec"

end SV.Drv
