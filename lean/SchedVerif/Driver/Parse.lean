/-
  Driver/Parse.lean — token parser and printers for the line protocol (integers and short words).
-/
import SchedVerif.Model.Sched
namespace SV.Drv
open SV

abbrev P := StateT (List String) Option

def tok : P String := do
  match (← get) with
  | [] => failure
  | x :: xs => set xs; pure x

def int : P Int := do
  let t ← tok
  match t.toInt? with
  | some i => pure i
  | none => failure

def nat : P Nat := do
  let i ← int
  if i < 0 then failure else pure i.toNat

def bool : P Bool := do
  let i ← int
  pure (i != 0)

def optInt : P (Option Int) := do
  let t ← tok
  if t == "N" then pure none else
  match t.toInt? with
  | some i => pure (some i)
  | none => failure

def many (n : Nat) (p : P α) : P (List α) :=
  match n with
  | 0 => pure []
  | n+1 => do let x ← p; let xs ← many n p; pure (x :: xs)

def listOf (p : P α) : P (List α) := do
  let n ← nat
  many n p

def dt : P DT := do
  let loc ← int
  let off ← optInt
  pure { loc := loc, off := off }

def optDT : P (Option DT) := do
  let t ← tok
  if t == "-" then pure none
  else if t == "@" then do let d ← dt; pure (some d)
  else failure

def tod : P Tod := do
  let h ← nat; let m ← nat; let s ← nat; let us ← nat; let off ← optInt
  pure { h := h, m := m, s := s, us := us, off := off }

def rawTiming : P RawTiming := do
  let t ← tok
  match t with
  | "c" => do let x ← int; pure (.td x)
  | "t" => do let x ← tod; pure (.tod x)
  | "w" => do let wd ← int; let x ← tod; pure (.wk wd x)
  | "d" => do let d ← dt; pure (.dt d)
  | _ => failure

def call : P Call := do
  let n ← nat
  match n with
  | 0 => pure .cyclic | 1 => pure .minutely | 2 => pure .hourly
  | 3 => pure .daily | 4 => pure .weekly | 5 => pure .once
  | _ => failure

def rat : P Rat := do
  let n ← int; let d ← nat
  if d == 0 then failure else pure (mkRat n d)

/-- `<call> <isList> <n> <timing>* <start> <stop> <delay> <skip> <maxAtt> <wnum> <wden> <payload> <ntags> <tag>*` -/
def rawSpec : P RawSpec := do
  let c ← call
  let isL ← bool
  let ts ← listOf rawTiming
  let start ← optDT
  let stop ← optDT
  let delay ← bool
  let skip ← bool
  let maxAtt ← int
  let w ← rat
  let payload ← nat
  let tags ← listOf nat
  pure { call := c, timings := ts, isList := isL, start := start, stop := stop, delay := delay,
         skip := skip, maxAtt := maxAtt, tags := tags, weight := w, payload := payload }

def cop : P COp := do
  let t ← tok
  match t with
  | "cs" => do let sp ← rawSpec; pure (.sched sp)
  | "cd" => do let k ← nat; pure (.del k)
  | "ct" => do let any ← bool; let q ← listOf nat; pure (.delTags q any)
  | "cg" => do let any ← bool; let q ← listOf nat; pure (.get q any)
  | "cp" => pure .str
  | _ => failure

def script : P (Nat × List COp) := do
  let k ← nat
  let ops ← listOf cop
  pure (k, ops)

def op : P Op := do
  let t ← tok
  match t with
  | "sch" => do let sp ← rawSpec; let clock ← int; pure (.sched sp clock)
  | "job" => do let sp ← rawSpec; let clock ← int; let jtz ← optInt; pure (.ctor sp clock jtz)
  | "exec" => do
      let clock ← int; let force ← bool
      let order ← listOf nat; let raises ← listOf nat; let scripts ← listOf script
      pure (.exec clock force order raises scripts)
  | "del" => do let k ← nat; pure (.del k)
  | "dtags" => do let any ← bool; let q ← listOf nat; pure (.delTags q any)
  | "get" => do let any ← bool; let q ← listOf nat; pure (.get q any)
  | "jobs" => pure .jobs
  | _ => failure

def runP (p : P α) (toks : List String) : Option α :=
  match p.run toks with
  | some (a, []) => some a
  | _ => none

/-! printers -/

def errCode : Err → String
  | .schedulerError => "SchedulerError"
  | .typeError => "TypeError"
  | .attributeError => "AttributeError"
  | .other => "Other"

def joinNat (l : List Nat) : String := " ".intercalate (l.map toString)

def showRes : Res → String
  | .unit => "u"
  | .job k => s!"j {k}"
  | .count n => s!"c {n}"
  | .set ks => s!"s {ks.length} {joinNat ks}".trimAsciiEnd.toString
  | .err e => s!"e {errCode e}"

def showInv (i : Invoc) : String := s!"{i.key} {i.due} {i.payload}"

def showCall (c : Nat × Int × Nat × Nat) : String := s!"{c.1} {c.2.1} {c.2.2.1} {c.2.2.2}"

def b01 (b : Bool) : String := if b then "1" else "0"

def showJob (s : State) (sj : SJob) : String :=
  s!"{sj.key} {sj.job.due.inst} {b01 sj.job.due.aware} {sj.job.attempts} {sj.job.failed} {b01 sj.job.hasAttempts} {b01 (s.reg.contains sj.key)}"

def showState (s : State) : String :=
  " ; ".intercalate (s.heap.map (showJob s))

def showOut (s : State) (o : Out) : String :=
  s!"R {showRes o.res} | I {" ; ".intercalate (o.invoked.map showInv)} | P {" ; ".intercalate (o.prioCalls.map showCall)} | J {showState s} | L {s.logs}"

end SV.Drv
