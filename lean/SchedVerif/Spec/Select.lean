/-
  Spec/Select.lean — decidable twins of the C04 / C05 statements, evaluated by the driver on what
  the implementation actually invoked.  `l` = the priority table (job key, priority) in registry
  iteration order, `inv` = keys of the invoked jobs in invocation order.
-/
import SchedVerif.Lemmas.Select
namespace SV

def prioOfKey (l : List (Nat × Rat)) (k : Nat) : Rat := (l.lookup k).getD 0

def nodupB : List Nat → Bool
  | [] => true
  | x :: xs => !xs.contains x && nodupB xs

def descB : List Rat → Bool
  | [] => true
  | [_] => true
  | a :: b :: rest => decide (b ≤ a) && descB (b :: rest)

/-- C05: count, positivity, membership, no repetition, order, nothing better left waiting -/
def c05SpecB (maxExec : Nat) (l : List (Nat × Rat)) (inv : List Nat) : Bool :=
  let npos := (l.filter pos).length
  (inv.length == (if maxExec == 0 then npos else min maxExec npos)) &&
  inv.all (fun k => l.any (fun e => e.1 == k) && decide (0 < prioOfKey l k)) &&
  nodupB inv &&
  descB (inv.map (prioOfKey l)) &&
  inv.all (fun s => l.all (fun w => inv.contains w.1 || decide (w.2 ≤ prioOfKey l s)))

/-- C04: with the default priority function and no limit exactly the due jobs of positive weight
    run, each once, and the count is returned. `jobs` = (key, due instant, weight). -/
def c04SpecB (clock : Int) (jobs : List (Nat × Int × Rat)) (inv : List Nat) (ret : Nat) : Bool :=
  nodupB inv &&
  jobs.all (fun j => inv.contains j.1 == (decide (0 < j.2.2) && decide (j.2.1 ≤ clock))) &&
  inv.all (fun k => jobs.any (fun j => j.1 == k)) &&
  (ret == inv.length)

/-- C04 force: every registered job exactly once, whatever the limit -/
def forceSpecB (reg inv : List Nat) (ret : Nat) : Bool :=
  nodupB inv && reg.all inv.contains && inv.all reg.contains && (ret == reg.length) && (inv.length == reg.length)

end SV
