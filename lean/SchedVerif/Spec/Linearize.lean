/-
  Spec/Linearize.lean — the decidable Spec of C14: a concurrent history of completed calls is
  linearizable w.r.t. the sequential registry specification, where `exec_jobs` acts at two atomic
  points (choosing its batch; rescheduling/retiring each job it ran).

  The sequential specification (abstract machine L1) has as state the set of registered keys and
  the set of exec calls that have chosen their batch.  A history is accepted iff some total order
  of the atomic points (a) respects real-time precedence of the calls (a point of call A precedes
  every point of call B whenever A returned before B was invoked), (b) puts the select point of a
  call before its finish point, and (c) makes every observed result the result of the machine.
-/
import SchedVerif.Model.Sched
namespace SV

inductive LOp where
  | sched (k : Nat) (registered : Bool)        -- a scheduling call returned job k
  | del (k : Nat) (ok : Bool)                  -- delete_job: returned (ok) or raised SchedulerError
  | dtags (q : List Nat) (any : Bool) (n : Nat)
  | get (q : List Nat) (any : Bool) (res : List Nat)
  | jobs (res : List Nat)
  | str (n : Nat)                              -- `#jobs=n` in the heading
  | execSel (id : Nat) (batch : List Nat) (force : Bool)
  | execFin (id : Nat) (retire : List Nat)
deriving Repr, Inhabited

structure LRec where
  op : LOp
  inv : Nat
  res : Nat
deriving Repr, Inhabited

structure LState where
  reg : List Nat           -- sorted, duplicate-free
  selected : List Nat      -- exec call ids past their select point
deriving Repr, Inhabited

def lSelect (tags : List (Nat × List Nat)) (reg q : List Nat) (any : Bool) : List Nat :=
  if q.isEmpty then reg
  else reg.filter (fun k => tagMatch q ((tags.lookup k).getD []) any)

/-- apply one atomic point; `none` = the observed result is not what the machine gives -/
def lApply (tags : List (Nat × List Nat)) (s : LState) : LOp → Option LState
  | .sched k registered =>
      if s.reg.contains k then none
      else some (if registered then { s with reg := insertSorted k s.reg } else s)
  | .del k ok =>
      if ok then (if s.reg.contains k then some { s with reg := s.reg.erase k } else none)
      else (if s.reg.contains k then none else some s)
  | .dtags q any n =>
      let sel := lSelect tags s.reg q any
      if sel.length == n then some { s with reg := s.reg.filter (fun k => !sel.contains k) } else none
  | .get q any res => if lSelect tags s.reg q any == res then some s else none
  | .jobs res => if s.reg == res then some s else none
  | .str n => if s.reg.length == n then some s else none
  | .execSel id batch force =>
      if s.selected.contains id then none
      else if batch.all s.reg.contains && (!force || batch.length == s.reg.length)
      then some { s with selected := id :: s.selected } else none
  | .execFin id retire =>
      if s.selected.contains id then some { s with reg := s.reg.filter (fun k => !retire.contains k) } else none

/-- record `i` may come next: no other remaining call returned before it was invoked -/
def minimalIn (rs : List LRec) (remaining : List Nat) (i : Nat) : Bool :=
  match rs[i]? with
  | none => false
  | some r => remaining.all (fun j => match rs[j]? with
      | some r' => !(decide (r'.res < r.inv))
      | none => true)

/-- configurations already known to have no linearization: (registry, selected, remaining) -/
abbrev Dead := List (List Nat × List Nat × List Nat)

mutual
/-- depth-first search with memoisation of failed configurations (fuel = number of records) -/
def linSearch (tags : List (Nat × List Nat)) (final : List Nat) (rs : List LRec) :
    Nat → LState → List Nat → Dead → Bool × Dead
  | _, s, [], dead => (s.reg == final, dead)
  | 0, _, _ :: _, dead => (false, dead)
  | fuel+1, s, remaining, dead =>
      if dead.contains (s.reg, s.selected, remaining) then (false, dead)
      else
        let r := linTry tags final rs fuel s remaining remaining dead
        if r.1 then r else (false, (s.reg, s.selected, remaining) :: r.2)

/-- try the candidates one after the other -/
def linTry (tags : List (Nat × List Nat)) (final : List Nat) (rs : List LRec) :
    Nat → LState → List Nat → List Nat → Dead → Bool × Dead
  | _, _, _, [], dead => (false, dead)
  | fuel, s, remaining, i :: cands, dead =>
      let next :=
        if minimalIn rs remaining i then
          match rs[i]? with
          | none => (false, dead)
          | some r =>
              match lApply tags s r.op with
              | none => (false, dead)
              | some s' => linSearch tags final rs fuel s' (remaining.filter (· != i)) dead
        else (false, dead)
      if next.1 then next else linTry tags final rs fuel s remaining cands next.2
end

def linearizableB (tags : List (Nat × List Nat)) (init final : List Nat) (rs : List LRec) : Bool :=
  (linSearch tags final rs (rs.length + 1) { reg := sortKeys init, selected := [] } (List.range rs.length) []).1

end SV
