/-
  Spec/Linearize.lean — the decidable Spec of C14: a concurrent history of completed calls is
  linearizable w.r.t. the sequential registry specification, where `exec_jobs` acts at two atomic
  points (choosing its batch; rescheduling/retiring each job it ran).

  The sequential specification (abstract machine L1) has as state the set of registered keys and
  the set of exec calls that have chosen their batch.  A history is accepted iff some total order
  of the atomic points (a) respects real-time precedence of the calls (a point of call A precedes
  every point of call B whenever A returned before B was invoked), (b) puts the select point of a
  call before its finish point, and (c) makes every observed result the result of the machine.
-/
import SchedVerif.Model.Sched
namespace SV

inductive LOp where
  | sched (k : Nat) (registered : Bool)        -- a scheduling call returned job k
  | del (k : Nat) (ok : Bool)                  -- delete_job: returned (ok) or raised SchedulerError
  | dtags (q : List Nat) (any : Bool) (n : Nat)
  | get (q : List Nat) (any : Bool) (res : List Nat)
  | jobs (res : List Nat)
  | str (n : Nat)                              -- `#jobs=n` in the heading
  | execSel (id : Nat) (batch : List Nat) (force : Bool)
  | execFin (id : Nat) (retire : List Nat)
deriving Repr, Inhabited

structure LRec where
  op : LOp
  inv : Nat
  res : Nat
deriving Repr, Inhabited

structure LState where
  reg : List Nat           -- sorted, duplicate-free
  selected : List Nat      -- exec call ids past their select point
deriving Repr, Inhabited

def lSelect (tags : List (Nat × List Nat)) (reg q : List Nat) (any : Bool) : List Nat :=
  if q.isEmpty then reg
  else reg.filter (fun k => tagMatch q ((tags.lookup k).getD []) any)

/-- apply one atomic point; `none` = the observed result is not what the machine gives -/
def lApply (tags : List (Nat × List Nat)) (s : LState) : LOp → Option LState
  | .sched k registered =>
      if s.reg.contains k then none
      else some (if registered then { s with reg := insertSorted k s.reg } else s)
  | .del k ok =>
      if ok then (if s.reg.contains k then some { s with reg := s.reg.erase k } else none)
      else (if s.reg.contains k then none else some s)
  | .dtags q any n =>
      let sel := lSelect tags s.reg q any
      if sel.length == n then some { s with reg := s.reg.filter (fun k => !sel.contains k) } else none
  | .get q any res => if lSelect tags s.reg q any == res then some s else none
  | .jobs res => if s.reg == res then some s else none
  | .str n => if s.reg.length == n then some s else none
  | .execSel id batch force =>
      if s.selected.contains id then none
      else if batch.all s.reg.contains && (!force || batch.length == s.reg.length)
      then some { s with selected := id :: s.selected } else none
  | .execFin id retire =>
      if s.selected.contains id then some { s with reg := s.reg.filter (fun k => !retire.contains k) } else none

def removeAt {α : Type} : List α → Nat → List α
  | [], _ => []
  | _ :: xs, 0 => xs
  | x :: xs, n+1 => x :: removeAt xs n

/-- record `i` may come next: no other remaining call returned before it was invoked -/
def minimalAt (rs : List LRec) (i : Nat) : Bool :=
  match rs[i]? with
  | none => false
  | some r => rs.all (fun r' => !(decide (r'.res < r.inv)))

/-- depth-first search for a linearization (fuel = number of records) -/
def linSearch (tags : List (Nat × List Nat)) (final : List Nat) : Nat → LState → List LRec → Bool
  | _, s, [] => s.reg == final
  | 0, _, _ :: _ => false
  | fuel+1, s, rs =>
      (List.range rs.length).any (fun i =>
        minimalAt rs i &&
        match rs[i]? with
        | none => false
        | some r =>
            match lApply tags s r.op with
            | none => false
            | some s' => linSearch tags final fuel s' (removeAt rs i))

def linearizableB (tags : List (Nat × List Nat)) (init final : List Nat) (rs : List LRec) : Bool :=
  linSearch tags final rs.length { reg := sortKeys init, selected := [] } rs

end SV
