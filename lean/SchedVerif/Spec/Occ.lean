/-
  Spec/Occ.lean — what "the matching clock instants" are, and the decidable twin of
  "least occurrence strictly after".
-/
import SchedVerif.Lemmas.Calendar
namespace SV

/-- `U` (an instant) is an occurrence of the recurring timing `tm`: its wall-clock reading in the
    timing's own offset has the requested phase within the period -/
def Occ (tm : Timing) (U : Int) : Prop := (U + tm.off.getD 0) % tm.period = tm.phase

def IsLeastAfter (O : Int → Prop) (r u : Int) : Prop := r < u ∧ O u ∧ ∀ v, r < v → O v → u ≤ v

/-- Bool twin evaluated by the driver on implementation output -/
def leastAfterB (tm : Timing) (r u : Int) : Bool :=
  decide (r < u) && decide (u ≤ r + tm.period) && decide ((u + tm.off.getD 0) % tm.period = tm.phase)

theorem Timing.phase_range (tm : Timing) (hv : tm.valid) (hc : tm.isCyclic = false) :
    0 ≤ tm.phase ∧ tm.phase < tm.period := by
  cases tm with
  | cyclic td => simp [Timing.isCyclic] at hc
  | minutely t => exact t.stod_range hv
  | hourly t => exact t.mtod_range hv
  | daily t => exact t.tod_range hv
  | weekly wd t =>
      obtain ⟨h1, h2, h3⟩ := hv
      have := t.tod_range h3
      simp only [Timing.phase, Timing.period, DAY, WEEK] at *
      omega

theorem Timing.period_pos (tm : Timing) (hc : tm.isCyclic = false) : 0 < tm.period := by
  cases tm <;> simp [Timing.isCyclic, Timing.period, MIN, HOUR, DAY, WEEK] at *

/-- there is an occurrence in every half-open window `(r, r+P]` -/
theorem occ_exists (tm : Timing) (hv : tm.valid) (hc : tm.isCyclic = false) (r : Int) :
    ∃ v, r < v ∧ v ≤ r + tm.period ∧ Occ tm v := by
  have hp := tm.period_pos hc
  have hr := tm.phase_range hv hc
  refine ⟨r + 1 + (tm.phase - (r + 1 + tm.off.getD 0)) % tm.period, ?_, ?_, ?_⟩
  · have := Int.emod_nonneg (tm.phase - (r + 1 + tm.off.getD 0)) (by omega : tm.period ≠ 0); omega
  · have := Int.emod_lt_of_pos (tm.phase - (r + 1 + tm.off.getD 0)) hp; omega
  · unfold Occ
    have e : r + 1 + (tm.phase - (r + 1 + tm.off.getD 0)) % tm.period + tm.off.getD 0
           = (r + 1 + tm.off.getD 0) + (tm.phase - (r + 1 + tm.off.getD 0)) % tm.period := by omega
    rw [e, Int.add_emod, Int.emod_emod_of_dvd _ (Int.dvd_refl _), ← Int.add_emod]
    have : r + 1 + tm.off.getD 0 + (tm.phase - (r + 1 + tm.off.getD 0)) = tm.phase := by omega
    rw [this]
    exact Int.emod_eq_of_lt hr.1 hr.2

/-- the Bool twin is the property -/
theorem leastAfterB_iff (tm : Timing) (hv : tm.valid) (hc : tm.isCyclic = false) (r u : Int) :
    leastAfterB tm r u = true ↔ IsLeastAfter (Occ tm) r u := by
  unfold leastAfterB IsLeastAfter Occ
  simp only [Bool.and_eq_true, decide_eq_true_eq]
  constructor
  · rintro ⟨⟨h1, h2⟩, h3⟩
    exact ⟨h1, h3, fun v hv' ho => least_of_window _ _ _ _ _ h2 h3 v hv' ho⟩
  · rintro ⟨h1, h2, h3⟩
    obtain ⟨v, hv1, hv2, hv3⟩ := occ_exists tm hv hc r
    exact ⟨⟨h1, Int.le_trans (h3 v hv1 hv3) hv2⟩, h2⟩

end SV
