/-
  Spec/Union.lean — closed forms for "the next occurrence" of one timing and of a list of timings
  (the union schedule), and the Bool twins used for C08 / C09.
-/
import SchedVerif.Spec.Occ
namespace SV

/-- the timing's phase moved to the UTC axis, reduced modulo the period: two recurring timings of
    the same kind denote the same instants iff these agree -/
def utcPhase (tm : Timing) : Int := (tm.phase - tm.off.getD 0) % tm.period

/-- least occurrence strictly after `r`, in closed form -/
def nextOcc (tm : Timing) (r : Int) : Int :=
  r + 1 + (tm.phase - (r + 1 + tm.off.getD 0)) % tm.period

theorem nextOcc_least (tm : Timing) (hv : tm.valid) (hc : tm.isCyclic = false) (r : Int) :
    IsLeastAfter (Occ tm) r (nextOcc tm r) := by
  have hp := tm.period_pos hc
  have hr := tm.phase_range hv hc
  have h1 : r < nextOcc tm r := by
    have := Int.emod_nonneg (tm.phase - (r + 1 + tm.off.getD 0)) (by omega : tm.period ≠ 0)
    unfold nextOcc; omega
  have h2 : nextOcc tm r ≤ r + tm.period := by
    have := Int.emod_lt_of_pos (tm.phase - (r + 1 + tm.off.getD 0)) hp
    unfold nextOcc; omega
  have h3 : Occ tm (nextOcc tm r) := by
    unfold Occ nextOcc
    have e : r + 1 + (tm.phase - (r + 1 + tm.off.getD 0)) % tm.period + tm.off.getD 0
           = (r + 1 + tm.off.getD 0) + (tm.phase - (r + 1 + tm.off.getD 0)) % tm.period := by omega
    rw [e, Int.add_emod, Int.emod_emod_of_dvd _ (Int.dvd_refl _), ← Int.add_emod]
    have : r + 1 + tm.off.getD 0 + (tm.phase - (r + 1 + tm.off.getD 0)) = tm.phase := by omega
    rw [this]
    exact Int.emod_eq_of_lt hr.1 hr.2
  exact ⟨h1, h3, fun v hv' ho => least_of_window _ _ _ _ _ h2 h3 v hv' ho⟩

/-- least element of a non-empty list of integers (0 for the empty list) -/
def minList : List Int → Int
  | [] => 0
  | [x] => x
  | x :: xs => min x (minList xs)

/-- least occurrence strictly after `r` of ANY of the listed timings -/
def unionNext (tms : List Timing) (r : Int) : Int := minList (tms.map (fun tm => nextOcc tm r))

/-- the `n`-th successor of `r` in the union schedule -/
def iterNext (tms : List Timing) : Nat → Int → Int
  | 0, r => r
  | n + 1, r => iterNext tms n (unionNext tms r)

/-- `dues` is the ascending enumeration, without omission or repetition, of the union of the
    occurrences of `tms` after `start` -/
def enumB (tms : List Timing) (start : Int) : List Int → Bool
  | [] => true
  | d :: ds => (d == unionNext tms start) && enumB tms d ds

/-- skip_missing after an invocation at `t`: the new due instant is an occurrence of one of the
    times, is not earlier than `t`, and skips no occurrence lying strictly between `g` and itself,
    where `g = max t start` (occurrences before the job's start are not occurrences of the job) -/
def skipDueB (tms : List Timing) (t g due : Int) : Bool :=
  decide (t ≤ due) &&
  tms.any (fun tm => decide ((due + tm.off.getD 0) % tm.period = tm.phase)) &&
  tms.all (fun tm => decide (due ≤ nextOcc tm g))

def nodupInt' : List Int → Bool
  | [] => true
  | x :: xs => !xs.contains x && nodupInt' xs

/-- acceptance test of a timing list: pairwise different recurring instants -/
def uniqueB (tms : List Timing) : Bool := nodupInt' (tms.map utcPhase)

end SV
