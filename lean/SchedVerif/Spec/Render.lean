/-
  Spec/Render.lean — Bool twins for C20 (abbreviation helper, row width).
-/
import SchedVerif.Model.Render
namespace SV

def isPrefixB : List Nat → List Nat → Bool
  | [], _ => true
  | _ :: _, [] => false
  | a :: as, b :: bs => a == b && isPrefixB as bs

def isSuffixB (a b : List Nat) : Bool := isPrefixB a.reverse b.reverse

/-- what C20 demands of `str_cutoff(s, w, tail)` returning `out` (w ≥ 1): a string that fits is
    unchanged; an over-long one becomes exactly `w` characters with `#` at the cut end and the rest
    a prefix / suffix of the input -/
def cutoffSpecB (s : List Nat) (w : Nat) (tail : Bool) (out : List Nat) : Bool :=
  if s.length ≤ w then out == s
  else out.length == w &&
    (if tail then out.getLast? == some 35 && isPrefixB out.dropLast s
     else out.head? == some 35 && isSuffixB out.tail s)

end SV
