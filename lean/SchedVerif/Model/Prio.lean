/-
  Model/Prio.lean — scheduler/prioritization.py and the selection part of `Scheduler.exec_jobs`.
  Priorities are exact rationals; `late` is `now - due` in microseconds (the implementation passes
  seconds as a float — the scaling by 10^6 is undone here exactly).
-/
namespace SV

inductive PrioKind where
  | linear | constant
deriving Repr, DecidableEq, Inhabited

/-- `linear_priority_function(time_delta, job, …)` with `time_delta = late / 10^6` -/
def linearPrio (late : Int) (w : Rat) : Rat :=
  if late < 0 then 0 else (((late : Rat) / 1000000) + 1) * w

/-- `constant_weight_prioritization` -/
def constPrio (late : Int) (w : Rat) : Rat :=
  if late < 0 then 0 else w

def prioOf : PrioKind → Int → Rat → Rat
  | .linear => linearPrio
  | .constant => constPrio

/-- `sorted(job_priority, key=job_priority.get, reverse=True)`: stable, descending -/
def sortDesc (l : List (α × Rat)) : List (α × Rat) :=
  l.mergeSort (fun a b => decide (b.2 ≤ a.2))

/-- the list comprehension `idx < max_exec and prio > 0` (max_exec = 0 means unlimited) -/
def cut (maxExec : Nat) (l : List (α × Rat)) : List (α × Rat) :=
  (l.zipIdx.filter (fun p => (maxExec == 0 || p.2 < maxExec) && decide (0 < p.1.2))).map (·.1)

/-- the batch chosen by one non-forced `exec_jobs` call, in execution (queue) order -/
def selectBatch (maxExec : Nat) (l : List (α × Rat)) : List (α × Rat) :=
  cut maxExec (sortDesc l)

end SV
