/-
  Model/Sched.lean — the threading `Scheduler`, sequential semantics (one caller, one worker).
  Registry = list of keys (a Python set; observations coming out of it are sorted by key, and where
  iteration order is observable it is an explicit argument measured on the implementation).
-/
import SchedVerif.Model.Job
import SchedVerif.Model.Prio
namespace SV

inductive Call where
  | cyclic | minutely | hourly | daily | weekly | once
deriving Repr, DecidableEq, Inhabited

/-- a timing argument as the caller wrote it -/
inductive RawTiming where
  | td (x : Int)
  | tod (t : Tod)
  | wk (wd : Int) (t : Tod)
  | dt (d : DT)
deriving Repr, DecidableEq, Inhabited

structure RawSpec where
  call : Call
  timings : List RawTiming
  isList : Bool
  start : Option DT := none
  stop : Option DT := none
  delay : Bool := true
  skip : Bool := false
  maxAtt : Int := 0
  tags : List Nat := []
  weight : Rat := 1
  payload : Nat := 0
deriving Repr, Inhabited

structure SJob where
  key : Nat
  job : Job
  tags : List Nat
  weight : Rat
  payload : Nat
deriving Repr, Inhabited

structure State where
  tz : Option Int
  maxExec : Nat
  prio : PrioKind
  /-- every job ever created, indexed by key -/
  heap : List SJob := []
  /-- keys currently registered -/
  reg : List Nat := []
  /-- error records on the scheduler's logger -/
  logs : Nat := 0
deriving Repr, Inhabited

/-- operations a callback may perform on its own scheduler (C15) -/
inductive COp where
  | sched (spec : RawSpec)
  | del (key : Nat)
  | delTags (tags : List Nat) (any : Bool)
  | get (tags : List Nat) (any : Bool)
  | str
deriving Repr, Inhabited

inductive Op where
  | sched (spec : RawSpec) (clock : Int)
  | ctor (spec : RawSpec) (clock : Int) (jobTz : Option Int)
  | exec (clock : Int) (force : Bool) (order : List Nat) (raises : List Nat) (scripts : List (Nat × List COp))
  | del (key : Nat)
  | delTags (tags : List Nat) (any : Bool)
  | get (tags : List Nat) (any : Bool)
  | jobs
deriving Repr, Inhabited

/-- one invocation record: job key, due instant seen by the callback, payload it received -/
structure Invoc where
  key : Nat
  due : Int
  payload : Nat
deriving Repr, DecidableEq, Inhabited

inductive Res where
  | unit
  | job (key : Nat)
  | count (n : Nat)
  | set (keys : List Nat)
  | err (e : Err)
deriving Repr, DecidableEq, Inhabited

structure Out where
  res : Res
  invoked : List Invoc := []
  /-- arguments handed to the priority function: (key, lateness µs, max_exec, #jobs) -/
  prioCalls : List (Nat × Int × Nat × Nat) := []
deriving Repr, Inhabited

/-! ### scheduling calls -/

def dedup : List Nat → List Nat
  | [] => []
  | x :: xs => if (dedup xs).contains x then dedup xs else x :: dedup xs

/-- the timing type check of each scheduling call (typeguard), then the mapping to `Timing`s.
    `none` = `SchedulerError` (wrong input type for that call). -/
def mapTimings (c : Call) (isList : Bool) (l : List RawTiming) : Option (List Timing) :=
  match c with
  | .cyclic =>
      match isList, l with
      | false, [.td x] => some [.cyclic x]
      | _, _ => none
  | .minutely => l.mapM (fun r => match r with | .tod t => some (.minutely t) | _ => none)
  | .hourly   => l.mapM (fun r => match r with | .tod t => some (.hourly t) | _ => none)
  | .daily    => l.mapM (fun r => match r with | .tod t => some (.daily t) | _ => none)
  | .weekly   => l.mapM (fun r => match r with | .wk wd t => some (.weekly wd t) | _ => none)
  | .once =>
      match isList, l with
      | false, [.td x] => some [.cyclic x]
      | false, [.tod t] => some [.daily t]
      | false, [.wk wd t] => some [.weekly wd t]
      | _, _ => none

/-- `Job(job_type, [timings…], …)` created directly (handed to the constructor later): the timing
    is always a list; `sane_timing_types` demands exactly one entry for cyclic jobs -/
def mapTimingsDirect (c : Call) (l : List RawTiming) : Option (List Timing) :=
  match c with
  | .cyclic =>
      match l with
      | [.td x] => some [.cyclic x]
      | _ => none
  | .once => none
  | c => mapTimings c true l

def createJobDirect (tz : Option Int) (sp : RawSpec) (clock : Int) : Except Err Job :=
  match mapTimingsDirect sp.call sp.timings with
  | none => .error .schedulerError
  | some ts => Job.create tz ts sp.start sp.stop sp.delay sp.skip sp.maxAtt clock

/-- `Scheduler.<call>(…)` up to and including `BaseJob.__init__` -/
def createJob (tz : Option Int) (sp : RawSpec) (clock : Int) : Except Err Job :=
  match sp.call, sp.isList, sp.timings with
  | .once, false, [.dt d] =>
      -- once(datetime): zero-interval cyclic job, delay = False, start = the datetime
      Job.create tz [.cyclic 0] (some d) none false false 1 clock
  | .once, _, _ =>
      match mapTimings .once sp.isList sp.timings with
      | none => .error .schedulerError
      | some ts => Job.create tz ts none none true false 1 clock
  | c, _, _ =>
      match mapTimings c sp.isList sp.timings with
      | none => .error .schedulerError
      | some ts => Job.create tz ts sp.start sp.stop sp.delay sp.skip sp.maxAtt clock

def State.find (s : State) (k : Nat) : Option SJob := s.heap[k]?

def State.setJob (s : State) (k : Nat) (f : Job → Job) : State :=
  { s with heap := s.heap.modify k (fun sj => { sj with job := f sj.job }) }

/-- `__schedule` (and, for `direct`, a job handed to `Scheduler(jobs=…)`): create; register only
    when attempts remain -/
def schedule (s : State) (sp : RawSpec) (clock : Int) (direct : Bool := false) : State × Res :=
  match (if direct then createJobDirect s.tz sp clock else createJob s.tz sp clock) with
  | .error e => (s, .err e)
  | .ok j =>
      let k := s.heap.length
      let sj : SJob := { key := k, job := j, tags := dedup sp.tags, weight := sp.weight, payload := sp.payload }
      let s' := { s with heap := s.heap ++ [sj] }
      (if j.hasAttempts then { s' with reg := s'.reg ++ [k] } else s', .job k)

/-! ### tag selection -/

def tagMatch (q tags : List Nat) (any : Bool) : Bool :=
  if any then q.any (fun t => tags.contains t) else q.all (fun t => tags.contains t)

def selectKeys (s : State) (q : List Nat) (any : Bool) : List Nat :=
  if q.isEmpty then s.reg
  else s.reg.filter (fun k => match s.find k with
    | some sj => tagMatch q sj.tags any
    | none => false)

def deleteJob (s : State) (k : Nat) : State × Res :=
  if s.reg.contains k then ({ s with reg := s.reg.erase k }, .unit)
  else (s, .err .schedulerError)

def deleteJobs (s : State) (q : List Nat) (any : Bool) : State × Res :=
  let sel := selectKeys s q any
  ({ s with reg := s.reg.filter (fun k => !sel.contains k) }, .count sel.length)

def insertSorted (x : Nat) : List Nat → List Nat
  | [] => [x]
  | y :: ys => if x ≤ y then x :: y :: ys else y :: insertSorted x ys

def sortKeys (l : List Nat) : List Nat := l.foldr insertSorted []

/-! ### exec_jobs -/

def runCOp (s : State) (clock : Int) : COp → State
  | .sched sp => (schedule s sp clock).1
  | .del k => (deleteJob s k).1
  | .delTags q any => (deleteJobs s q any).1
  | .get _ _ => s
  | .str => s

/-- worker part for one queued job: the callback (its script, then its outcome), then the counters -/
def runOne (clock : Int) (raises : List Nat) (scripts : List (Nat × List COp))
    (acc : State × List Invoc) (k : Nat) : State × List Invoc :=
  let (s, inv) := acc
  match s.find k with
  | none => acc
  | some sj =>
      let rec_ : Invoc := { key := k, due := sj.job.due.inst, payload := sj.payload }
      let script := (scripts.lookup k).getD []
      let s1 := script.foldl (fun st op => runCOp st clock op) s
      let r := raises.contains k
      let s2 := s1.setJob k (fun j => j.exec1 r)
      ({ s2 with logs := if r then s2.logs + 1 else s2.logs }, inv ++ [rec_])

/-- post-run loop for one job: `_calc_next_exec(ref)`, then retire when no attempts remain
    (removal tolerates a job that a callback already deleted) -/
def postOne (ref : DT) (s : State) (k : Nat) : State :=
  let s1 := s.setJob k (fun j => j.calcNext ref)
  match s1.find k with
  | none => s1
  | some sj => if sj.job.hasAttempts then s1 else { s1 with reg := s1.reg.erase k }

def lateness (s : State) (ref : DT) (k : Nat) : Int :=
  match s.find k with
  | some sj => ref.inst - sj.job.due.inst
  | none => 0

def weightOf (s : State) (k : Nat) : Rat :=
  match s.find k with
  | some sj => sj.weight
  | none => 0

/-- is `order` an arrangement of the registry? -/
def isPermOf (order reg : List Nat) : Bool := sortKeys order == sortKeys reg

def execJobs (s : State) (clock : Int) (force : Bool) (order : List Nat) (raises : List Nat)
    (scripts : List (Nat × List COp)) : State × Out :=
  let ref := nowDT s.tz clock
  let order := if isPermOf order s.reg then order else s.reg
  let calls : List (Nat × Int × Nat × Nat) :=
    if force then [] else order.map (fun k => (k, lateness s ref k, s.maxExec, s.reg.length))
  let batch : List Nat :=
    if force then order
    else (selectBatch s.maxExec (order.map (fun k => (k, prioOf s.prio (lateness s ref k) (weightOf s k))))).map (·.1)
  let (s1, inv) := batch.foldl (runOne clock raises scripts) (s, [])
  let s2 := batch.foldl (postOne ref) s1
  (s2, { res := .count batch.length, invoked := inv, prioCalls := calls })

def step (s : State) : Op → State × Out
  | .sched sp clock => let (s', r) := schedule s sp clock; (s', { res := r })
  | .ctor sp clock jobTz =>
      -- the job is created with its own tzinfo; `Scheduler.__init__` raises when it differs
      if jobTz == s.tz then
        let (s', r) := schedule s sp clock true; (s', { res := r })
      else
        match createJobDirect jobTz sp clock with
        | .error e => (s, { res := .err e })
        | .ok j =>
            -- the Job object exists, but the scheduler refuses it
            let sj : SJob := { key := s.heap.length, job := j, tags := dedup sp.tags, weight := sp.weight, payload := sp.payload }
            ({ s with heap := s.heap ++ [sj] }, { res := .err .schedulerError })
  | .exec clock force order raises scripts => execJobs s clock force order raises scripts
  | .del k => let (s', r) := deleteJob s k; (s', { res := r })
  | .delTags q any => let (s', r) := deleteJobs s q any; (s', { res := r })
  | .get q any => (s, { res := .set (sortKeys (selectKeys s q any)) })
  | .jobs => (s, { res := .set (sortKeys s.reg) })

def run (s : State) (ops : List Op) : State × List Out :=
  ops.foldl (fun (acc : State × List Out) op => let (s', o) := step acc.1 op; (s', acc.2 ++ [o])) (s, [])

end SV
