/-
  Model/Render.lean — scheduler/base/scheduler_util.py `str_cutoff` and the table layout of
  `Scheduler.__str__` (both front ends), over lists of code points.
-/
namespace SV

/-- `str_cutoff(string, max_length, cut_tail)`; `none` = ValueError (max_length < 1) -/
def strCutoff (s : List Nat) (w : Nat) (tail : Bool) (hash : Nat := 35) : Option (List Nat) :=
  if w < 1 then none
  else if s.length > w then
    some (if tail then s.take (w - 1) ++ [hash] else hash :: s.drop (s.length - (w - 1)))
  else some s

inductive Align where
  | left | right
deriving Repr, DecidableEq, Inhabited

/-- `"{:<w}".format(s)` / `"{:>w}".format(s)`: pads with blanks, never truncates -/
def pad (a : Align) (w : Nat) (s : List Nat) (blank : Nat := 32) : List Nat :=
  match a with
  | .left => s ++ List.replicate (w - s.length) blank
  | .right => List.replicate (w - s.length) blank ++ s

structure Cell where
  align : Align
  width : Nat
  text : List Nat
deriving Repr, Inhabited

def joinCells (blank : Nat) : List (List Nat) → List Nat
  | [] => []
  | [x] => x
  | x :: xs => x ++ [blank] ++ joinCells blank xs

/-- one table row: the padded cells joined by single blanks, then a newline -/
def row (cells : List Cell) (blank : Nat := 32) (nl : Nat := 10) : List Nat :=
  joinCells blank (cells.map (fun c => pad c.align c.width c.text blank)) ++ [nl]

/-- width every row must have: the cell widths, one blank between cells, one newline -/
def rowWidth (cells : List Cell) : Nat :=
  (cells.map (·.width)).sum + (cells.length - 1) + 1

/-- two decimal digits (`%02d`) -/
def dd (n : Nat) : List Nat := [48 + n / 10 % 10, 48 + n % 10]

/-- `"%d:%02d:%02d"` of a number of seconds below one day -/
def hms (secs : Nat) : List Nat :=
  let h := secs / 3600
  (if h < 10 then [48 + h] else dd h) ++ [58] ++ dd (secs / 60 % 60) ++ [58] ++ dd (secs % 60)

def natDigits (n : Nat) : List Nat := (Nat.toDigits 10 n).map Char.toNat

/-- `prettify_timedelta` (job_util.py) of a time difference given in microseconds: `str(timedelta)`
    - `"D day(s), H:MM:SS[.ffffff]"` - with a leading `-` and the magnitude for negative values, cut at the
    first `,` and at the first `.`: whole days only once a day is reached, else `H:MM:SS` truncated to
    the second -/
def prettify (us : Int) : List Nat :=
  let a := us.natAbs
  let days := a / 86400000000
  let secs := a % 86400000000 / 1000000
  (if us < 0 then [45] else []) ++
    (if days > 0 then natDigits days ++ [32, 100, 97, 121] ++ (if days = 1 then [] else [115]) else hms secs)

/-- a registered job as `Scheduler.__str__` sees it: the due instant `sorted(self.jobs)` compares
    (`BaseJob.__lt__` = `self.datetime < other.datetime`) and the cells of its row (already passed
    through `str_cutoff` where the code does so) -/
structure JobRow where
  due : Int
  cells : List Cell
deriving Repr, Inhabited

/-- `sorted(self.jobs)`: a stable ascending sort by due instant of the registry in iteration order -/
def sortByDue (jobs : List JobRow) : List JobRow :=
  jobs.mergeSort (fun a b => decide (a.due ≤ b.due))

/-- the job table below the two heading rows: one `row` per job of `sorted(self.jobs)` -/
def tableRows (jobs : List JobRow) : List (List Nat) :=
  (sortByDue jobs).map (fun j => row j.cells)

/-- the `#jobs=` field of the heading: `len(self.__jobs)` -/
def headingCount (jobs : List JobRow) : Nat := jobs.length

/-- a cell as the scheduler table produces it: the text abbreviated to the column width by
    `str_cutoff` (head or tail cut); `none` only for a column of width 0, which no table has -/
def cutCell (a : Align) (w : Nat) (tail : Bool) (text : List Nat) : Option Cell :=
  (strCutoff text w tail).map (fun t => { align := a, width := w, text := t })

end SV
