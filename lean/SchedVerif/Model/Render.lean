/-
  Model/Render.lean — scheduler/base/scheduler_util.py `str_cutoff` and the table layout of
  `Scheduler.__str__` (both front ends), over lists of code points.
-/
namespace SV

/-- `str_cutoff(string, max_length, cut_tail)`; `none` = ValueError (max_length < 1) -/
def strCutoff (s : List Nat) (w : Nat) (tail : Bool) (hash : Nat := 35) : Option (List Nat) :=
  if w < 1 then none
  else if s.length > w then
    some (if tail then s.take (w - 1) ++ [hash] else hash :: s.drop (s.length - (w - 1)))
  else some s

inductive Align where
  | left | right
deriving Repr, DecidableEq, Inhabited

/-- `"{:<w}".format(s)` / `"{:>w}".format(s)`: pads with blanks, never truncates -/
def pad (a : Align) (w : Nat) (s : List Nat) (blank : Nat := 32) : List Nat :=
  match a with
  | .left => s ++ List.replicate (w - s.length) blank
  | .right => List.replicate (w - s.length) blank ++ s

structure Cell where
  align : Align
  width : Nat
  text : List Nat
deriving Repr, Inhabited

def joinCells (blank : Nat) : List (List Nat) → List Nat
  | [] => []
  | [x] => x
  | x :: xs => x ++ [blank] ++ joinCells blank xs

/-- one table row: the padded cells joined by single blanks, then a newline -/
def row (cells : List Cell) (blank : Nat := 32) (nl : Nat := 10) : List Nat :=
  joinCells blank (cells.map (fun c => pad c.align c.width c.text blank)) ++ [nl]

/-- width every row must have: the cell widths, one blank between cells, one newline -/
def rowWidth (cells : List Cell) : Nat :=
  (cells.map (·.width)).sum + (cells.length - 1) + 1

end SV
