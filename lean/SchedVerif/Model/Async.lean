/-
  Model/Async.lean — discrete-event model of the asyncio Scheduler (scheduler/asyncio/scheduler.py).
  One supervising task per job:  ref = now; while has_attempts: sleep(due − ref); await _exec;
  ref = now; _calc_next_exec(ref)  — then unregister.  It REUSES `Job.due`, `Job.hasAttempts`,
  `Job.exec1`, `Job.calcNext`, so timing, limits, stop, batching and skip are by construction the
  definitions of the threading model.

  Time is virtual: the loop resumes a task exactly at its wake instant (a sleep of ≤ 0 resumes at
  the same instant).  Among tasks with the same wake instant the lower key goes first; the harness
  keeps actors and their targets at distinct instants.
-/
import SchedVerif.Model.Sched
namespace SV

/-- one step of a user coroutine -/
inductive Act where
  | sleep (d : Int)                 -- `await asyncio.sleep(d µs)`
  | del (key : Nat)                 -- `scheduler.delete_job(jobs[key])` (errors swallowed by the script)
  | delTags (tags : List Nat) (any : Bool)
  | sched (spec : RawSpec)          -- schedule a new job (its coroutine: default script)
deriving Repr, Inhabited

/-- behaviour of one invocation of a job's coroutine -/
structure RunScript where
  acts : List Act := []
  raises : Bool := false
deriving Repr, Inhabited

inductive Phase where
  | init                             -- task created, first step not yet taken
  | sleeping                         -- supervisor in `await sleep(...)`
  | running (rest : List Act) (raises : Bool)   -- user coroutine suspended in a sleep
  | cancelled
  | finished                         -- left the loop and unregistered itself
deriving Repr, Inhabited

structure ATask where
  key : Nat
  job : Job
  tags : List Nat
  phase : Phase
  wake : Int                         -- instant at which the task is resumed next
  pendingCancel : Bool := false      -- cancel() was called while the task itself was running
  runs : List RunScript := []        -- behaviour of the 1st, 2nd, … invocation (then: default)
  nrun : Nat := 0
deriving Repr, Inhabited

inductive AEvKind where
  | start | endOk | endRaise | cancelRun
deriving Repr, DecidableEq, Inhabited

structure AEvent where
  time : Int
  key : Nat
  kind : AEvKind
  due : Int
deriving Repr, Inhabited

structure AState where
  tz : Option Int
  now : Int
  tasks : List ATask := []
  reg : List Nat := []
  log : List AEvent := []
  logs : Nat := 0
  /-- default coroutine behaviour of jobs scheduled from inside a coroutine -/
  dflt : RunScript := {}
deriving Repr, Inhabited

namespace AState

def task? (s : AState) (k : Nat) : Option ATask := s.tasks[k]?

def setTask (s : AState) (k : Nat) (f : ATask → ATask) : AState :=
  { s with tasks := s.tasks.modify k f }

/-- `task.cancel()` as seen by the model: a task that is suspended (or not yet started) is
    cancelled on the spot; the task that is running right now only gets the flag -/
def cancel (s : AState) (k : Nat) (current : Option Nat) : AState :=
  s.setTask k (fun t =>
    match t.phase with
    | .cancelled | .finished => t
    | .running rest r =>
        if current == some k then { t with pendingCancel := true }
        else { t with phase := .cancelled }
    | _ =>
        if current == some k then { t with pendingCancel := true }
        else { t with phase := .cancelled })

/-- a suspended user coroutine that gets cancelled from outside: one `cancelRun` event (the
    CancelledError surfaces at its await; the attempt is not counted) -/
def logCancel (s : AState) (k : Nat) (current : Option Nat) : AState :=
  match s.task? k with
  | some t =>
      match t.phase with
      | .running _ _ =>
          if current == some k then s
          else { s with log := s.log ++ [({ time := s.now, key := k, kind := .cancelRun, due := t.job.due.inst } : AEvent)] }
      | _ => s
  | none => s

/-- `delete_job`: pop + cancel; `false` = SchedulerError (not registered) -/
def deleteJob (s : AState) (k : Nat) (current : Option Nat) : AState × Bool :=
  if s.reg.contains k then
    ((({ s with reg := s.reg.erase k } : AState).logCancel k current).cancel k current, true)
  else (s, false)

def selectKeys (s : AState) (q : List Nat) (any : Bool) : List Nat :=
  if q.isEmpty then s.reg
  else s.reg.filter (fun k => match s.task? k with
    | some t => tagMatch q t.tags any
    | none => false)

def deleteJobs (s : AState) (q : List Nat) (any : Bool) (current : Option Nat) : AState × Nat :=
  let sel := s.selectKeys q any
  (sel.foldl (fun st k => (st.deleteJob k current).1) s, sel.length)

/-- `__schedule`: create the job, create its task (first step at the current instant), register -/
def schedule (s : AState) (sp : RawSpec) (runs : List RunScript) : AState × Res :=
  match createJob s.tz sp s.now with
  | .error e => (s, .err e)
  | .ok j =>
      let k := s.tasks.length
      let t : ATask := { key := k, job := j, tags := dedup sp.tags, phase := .init, wake := s.now, runs := runs }
      ({ s with tasks := s.tasks ++ [t], reg := s.reg ++ [k] }, .job k)

end AState

/-- the supervisor's loop head: leave (unregister, tolerant) or go to sleep until the due instant -/
def loopHead (s : AState) (k : Nat) : AState :=
  match s.task? k with
  | none => s
  | some t =>
      if t.pendingCancel then s.setTask k (fun t => { t with phase := .cancelled })   -- delivered at the next await
      else if !t.job.hasAttempts then
        { (s.setTask k (fun t => { t with phase := .finished })) with reg := s.reg.erase k }
      else
        let due := t.job.due.inst
        s.setTask k (fun t => { t with phase := .sleeping, wake := if due ≤ s.now then s.now else due })

/-- run the user coroutine from `acts` until it suspends or ends -/
def runActs (fuel : Nat) (s : AState) (k : Nat) (acts : List Act) (raises : Bool) : AState :=
  match fuel, acts with
  | 0, _ => s
  | _, [] =>
      -- coroutine ended: `_exec` counts the attempt (and the failure), then ref = now; calc_next
      match s.task? k with
      | none => s
      | some t =>
          let ref := nowDT s.tz s.now
          let s1 := s.setTask k (fun t => { t with job := (t.job.exec1 raises).calcNext ref, nrun := t.nrun + 1 })
          let s2 := { s1 with log := s1.log ++ [({ time := s.now, key := k, kind := if raises then .endRaise else .endOk, due := t.job.due.inst } : AEvent)],
                              logs := if raises then s1.logs + 1 else s1.logs }
          loopHead s2 k
  | fuel+1, a :: rest =>
      match a with
      | .sleep d =>
          match s.task? k with
          | none => s
          | some t =>
              if t.pendingCancel then
                -- CancelledError at this await: the attempt is not counted
                { (s.setTask k (fun t => { t with phase := .cancelled })) with
                    log := s.log ++ [({ time := s.now, key := k, kind := .cancelRun, due := t.job.due.inst } : AEvent)] }
              else s.setTask k (fun t => { t with phase := .running rest raises, wake := if d ≤ 0 then s.now else s.now + d })
      | .del k' => runActs fuel (s.deleteJob k' (some k)).1 k rest raises
      | .delTags q any => runActs fuel (s.deleteJobs q any (some k)).1 k rest raises
      | .sched sp => runActs fuel (s.schedule sp [s.dflt]).1 k rest raises

/-- resume task `k` (its wake instant has come) -/
def stepTask (s : AState) (k : Nat) : AState :=
  match s.task? k with
  | none => s
  | some t =>
      match t.phase with
      | .init =>
          -- first step: reference = now
          loopHead s k
      | .sleeping =>
          -- the sleep is over: start the coroutine
          let script := (t.runs[t.nrun]?).getD (t.runs.getLast?.getD {})
          let s0 := s.setTask k (fun t => { t with phase := .running script.acts script.raises })
          let s1 := { s0 with log := s0.log ++ [({ time := s.now, key := k, kind := .start, due := t.job.due.inst } : AEvent)] }
          runActs (script.acts.length + 1) s1 k script.acts script.raises
      | .running rest raises => runActs (rest.length + 1) s k rest raises
      | .cancelled | .finished => s

def isWaiting (t : ATask) : Bool :=
  match t.phase with
  | .init | .sleeping | .running _ _ => true
  | _ => false

/-- the waiting task with the least (wake, key), if its wake instant is ≤ `limit` -/
def nextTask (s : AState) (limit : Int) : Option Nat :=
  let c := s.tasks.filter (fun t => isWaiting t && decide (t.wake ≤ limit))
  match c with
  | [] => none
  | t0 :: rest => some (rest.foldl (fun (b : ATask) t => if t.wake < b.wake then t else b) t0).key

/-- let virtual time pass until `limit` (at most `fuel` task steps) -/
def runUntil : Nat → AState → Int → AState
  | 0, s, _ => s
  | fuel+1, s, limit =>
      match nextTask s limit with
      | none => { s with now := if s.now ≤ limit then limit else s.now }
      | some k =>
          match s.task? k with
          | none => s
          | some t => runUntil fuel (stepTask { s with now := if s.now ≤ t.wake then t.wake else s.now } k) limit

/-- operations of the program that owns the loop -/
inductive AOp where
  | sched (sp : RawSpec) (runs : List RunScript)
  | run (limit : Int) (fuel : Nat)
  | del (k : Nat)
  | delTags (q : List Nat) (any : Bool)
  | get (q : List Nat) (any : Bool)
  | jobs

def astepOp (s : AState) (o : AOp) : AState × Res :=
  match o with
  | .sched sp runs => s.schedule sp runs
  | .run limit fuel => (runUntil fuel s limit, .unit)
  | .del k => let (s', ok) := s.deleteJob k none; (s', if ok then .unit else .err .schedulerError)
  | .delTags q any => let (s', n) := s.deleteJobs q any none; (s', .count n)
  | .get q any => (s, .set (sortKeys (s.selectKeys q any)))
  | .jobs => (s, .set (sortKeys s.reg))

/-- one operation followed by everything that is due at that very instant (quiescent point) -/
def aop (fuel : Nat) (s : AState) (o : AOp) : AState :=
  runUntil fuel (astepOp s o).1 (astepOp s o).1.now

def arun (fuel : Nat) (s : AState) (ops : List AOp) : AState := ops.foldl (aop fuel) s

end SV
