/-
  Model/Time.lean — datetimes as microsecond counts.

  `DT.loc`  : microseconds of the wall-clock reading since 0001-01-01T00:00 (Python ordinal 1)
  `DT.off`  : `utcoffset()` in microseconds, `none` for a naive datetime
  instant   : `loc - off` (naive: `loc`)
  No Gregorian calendar: month/leap rules live in CPython and are crossed only by the harness.
-/
namespace SV

abbrev US   : Int := 1000000
abbrev MIN  : Int := 60000000
abbrev HOUR : Int := 3600000000
abbrev DAY  : Int := 86400000000
abbrev WEEK : Int := 604800000000

structure DT where
  loc : Int
  off : Option Int
deriving Repr, DecidableEq, Inhabited

namespace DT
/-- the instant denoted (µs on the UTC axis for aware values, the reading itself for naive ones) -/
def inst (d : DT) : Int := d.loc - d.off.getD 0
def aware (d : DT) : Bool := d.off.isSome
/-- `d + timedelta(microseconds = x)` -/
def add (d : DT) (x : Int) : DT := { d with loc := d.loc + x }
/-- `d.astimezone(tz)` for a fixed-offset tz; only defined (used) on aware values -/
def astz (d : DT) (o : Int) : DT := { loc := d.inst + o, off := some o }
/-- `d.weekday()`; 0001-01-01 is a Monday -/
def weekday (d : DT) : Int := (d.loc / DAY) % 7
/-- `d.date()` as a day number -/
def date (d : DT) : Int := d.loc / DAY
/-- `a < b` on two datetimes of the same awareness -/
def lt (a b : DT) : Bool := a.inst < b.inst
def le (a b : DT) : Bool := a.inst ≤ b.inst
end DT

/-- `datetime.time` with optional fixed offset -/
structure Tod where
  h  : Nat
  m  : Nat
  s  : Nat
  us : Nat
  off : Option Int
deriving Repr, DecidableEq, Inhabited

namespace Tod
def valid (t : Tod) : Prop :=
  t.h < 24 ∧ t.m < 60 ∧ t.s < 60 ∧ t.us < 1000000 ∧
  (∀ o, t.off = some o → -DAY < o ∧ o < DAY)
/-- microseconds since midnight -/
def tod (t : Tod) : Int := (((t.h : Int) * 60 + t.m) * 60 + t.s) * 1000000 + t.us
/-- minute, second, microsecond part -/
def mtod (t : Tod) : Int := ((t.m : Int) * 60 + t.s) * 1000000 + t.us
/-- second, microsecond part -/
def stod (t : Tod) : Int := (t.s : Int) * 1000000 + t.us
def aware (t : Tod) : Bool := t.off.isSome
end Tod

end SV
