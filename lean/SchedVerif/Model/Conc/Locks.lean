/-
  Model/Conc/Locks.lean — L2: threads as programs over re-entrant locks and waits.
  A step is: acquire a lock, release a lock, or wait until another thread has finished
  (`Thread.join`, `Queue.join` = waiting for the workers).  Any number of threads, any programs.
-/
namespace SV.L2

inductive Step where
  | acq (l : Nat)
  | rel (l : Nat)
  | wait (t : Nat)
deriving Repr, DecidableEq, Inhabited

structure Thread where
  prog : List Step          -- what is left to do
  held : List Nat           -- locks held, innermost first (a re-entrant acquisition repeats the lock)
deriving Repr, Inhabited

abbrev Sys := List Thread

def finished (s : Sys) (t : Nat) : Bool :=
  match s[t]? with
  | some th => th.prog.isEmpty
  | none => true

/-- does some thread other than `i` hold lock `l`? -/
def heldByOther (s : Sys) (i l : Nat) : Bool :=
  (s.zipIdx.any (fun p => p.2 != i && p.1.held.contains l))

/-- can thread `i` take its next step? -/
def enabled (s : Sys) (i : Nat) : Bool :=
  match s[i]? with
  | none => false
  | some th =>
      match th.prog with
      | [] => false
      | .acq l :: _ => !heldByOther s i l
      | .rel _ :: _ => true
      | .wait t :: _ => finished s t

def stepThread (th : Thread) : Thread :=
  match th.prog with
  | [] => th
  | .acq l :: p => { prog := p, held := l :: th.held }
  | .rel l :: p => { prog := p, held := th.held.erase l }
  | .wait _ :: p => { prog := p, held := th.held }

/-- thread `i` takes its next step (only meaningful when enabled) -/
def step (s : Sys) (i : Nat) : Sys := s.modify i stepThread

/-- mutual exclusion: no lock is held by two different threads -/
def Mutex (s : Sys) : Prop :=
  ∀ (i j : Nat) (ti tj : Thread) (l : Nat), s[i]? = some ti → s[j]? = some tj → l ∈ ti.held → l ∈ tj.held → i = j

/-- the discipline a program follows, given what the thread holds:
    * a new lock is only requested when it outranks every lock held (re-entry excepted),
    * only held locks are released,
    * a thread waits for others only while holding nothing, and only for younger threads,
    * at the end nothing is held. -/
def progOK (rank : Nat → Nat) (i : Nat) : List Nat → List Step → Prop
  | held, [] => held = []
  | held, .acq l :: p => (l ∈ held ∨ ∀ h ∈ held, rank h < rank l) ∧ progOK rank i (l :: held) p
  | held, .rel l :: p => l ∈ held ∧ progOK rank i (held.erase l) p
  | held, .wait t :: p => held = [] ∧ i < t ∧ progOK rank i held p

def Disciplined (rank : Nat → Nat) (s : Sys) : Prop :=
  ∀ (i : Nat) (th : Thread), s[i]? = some th → progOK rank i th.held th.prog

end SV.L2
