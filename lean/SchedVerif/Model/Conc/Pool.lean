/-
  Model/Conc/Pool.lean — the worker pool of `Scheduler.__exec_jobs`: a FIFO queue filled with the
  batch, `m` workers each looping "get(block=False) → run → task_done" until the queue is empty.
  A schedule is any sequence of worker ids; one step of a worker is either taking the next job
  from the queue or finishing the job it is running.
-/
namespace SV.Pool

structure PState where
  queue : List Nat                 -- jobs not yet taken, in queue order
  running : List (Nat × Nat)       -- (worker, job) pairs currently inside a callback
  done : List Nat                  -- finished jobs, in completion order
  exited : List Nat                -- workers that found the queue empty and returned
deriving Repr, Inhabited

def init (batch : List Nat) : PState := { queue := batch, running := [], done := [], exited := [] }

/-- one step of worker `w` -/
def step (s : PState) (w : Nat) : PState :=
  if s.exited.contains w then s
  else match s.running.lookup w with
    | some j => { s with running := s.running.filter (fun p => p.1 != w), done := s.done ++ [j] }
    | none =>
        match s.queue with
        | [] => { s with exited := w :: s.exited }
        | j :: q => { s with queue := q, running := (w, j) :: s.running }

def run (s : PState) (sched : List Nat) : PState := sched.foldl step s

/-- all jobs of the batch, wherever they currently are -/
def all (s : PState) : List Nat := s.done ++ s.running.map (·.2) ++ s.queue

end SV.Pool
