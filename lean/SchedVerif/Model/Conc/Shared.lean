/-
  Model/Conc/Shared.lean — L3: threads that read and write ONE shared value (the scheduler's registry
  `self.__jobs`, or a job's counters) under ONE lock (the registry lock `self.__jobs_lock`, or the
  job's state lock), at the granularity at which CPython executes the code:

    * `acq` / `rel`      — `with self.__jobs_lock:` entered / left,
    * `snap`             — one read of the shared value into thread-local data (`self.__jobs` evaluated:
                           `select_jobs_by_tag(self.__jobs, …)`, `len(self.__jobs)`, `self.__jobs - …`),
    * `commit f`         — the thread computes, from what it READ (its buffered snapshots, not the current
                           value), a new shared value and an output, and installs the new value
                           (`self.__jobs = …`, `.add`, `.remove`, `.discard`, `attempts += 1`),
    * `peek g`           — a single atomic read outside the lock whose result is used as it is
                           (`list(self.__jobs)` of a forced `exec_jobs`, `len(self.__jobs)`).

  A `commit` that used stale snapshots is exactly a lost update; whether that can happen is what the
  reduction theorem (`Lemmas/Reduction.lean`, `C14.locked_sections_atomic`) settles: under the
  discipline "snap / commit only between acq and rel", never.
-/
namespace SV.L3

inductive Step (σ ο : Type) where
  | acq
  | rel
  | snap
  | commit (f : List σ → σ × ο)
  | peek (g : σ → ο)

structure Thread (σ ο : Type) where
  prog : List (Step σ ο)      -- what is left to do
  buf : List σ                -- the values read since the lock was taken / since the last commit
  outs : List ο               -- results produced so far (what the calls return)

structure Sys (σ ο : Type) where
  st : σ                      -- the shared value
  owner : Option Nat          -- who holds the lock
  thr : List (Thread σ ο)

variable {σ ο : Type}

/-- can thread `i` take its next step?  Only taking the lock can block. -/
def enabled (s : Sys σ ο) (i : Nat) : Bool :=
  match s.thr[i]? with
  | none => false
  | some th =>
      match th.prog with
      | [] => false
      | .acq :: _ => s.owner.isNone
      | _ :: _ => true

/-- thread `i` takes its next step, as the code does it: a commit computes from the BUFFERED reads -/
def step (s : Sys σ ο) (i : Nat) : Sys σ ο :=
  match s.thr[i]? with
  | none => s
  | some th =>
      match th.prog with
      | [] => s
      | .acq :: p => { s with owner := some i, thr := s.thr.set i { th with prog := p, buf := [] } }
      | .rel :: p => { s with owner := none, thr := s.thr.set i { th with prog := p, buf := [] } }
      | .snap :: p => { s with thr := s.thr.set i { th with prog := p, buf := th.buf ++ [s.st] } }
      | .commit f :: p =>
          { s with st := (f th.buf).1,
                   thr := s.thr.set i { th with prog := p, buf := [], outs := th.outs ++ [(f th.buf).2] } }
      | .peek g :: p => { s with thr := s.thr.set i { th with prog := p, outs := th.outs ++ [g s.st] } }

/-- the same step in the ATOMIC reading: a commit computes from the shared value as it is at the
    moment of the commit (as many copies of it as reads were made) -/
def stepA (s : Sys σ ο) (i : Nat) : Sys σ ο :=
  match s.thr[i]? with
  | none => s
  | some th =>
      match th.prog with
      | .commit f :: p =>
          let r := f (List.replicate th.buf.length s.st)
          { s with st := r.1, thr := s.thr.set i { th with prog := p, buf := [], outs := th.outs ++ [r.2] } }
      | _ => step s i

/-- a schedule is any list of thread numbers; a thread that cannot move is passed over -/
def run (sched : List Nat) (s : Sys σ ο) : Sys σ ο :=
  sched.foldl (fun s i => if enabled s i then step s i else s) s

def runA (sched : List Nat) (s : Sys σ ο) : Sys σ ο :=
  sched.foldl (fun s i => if enabled s i then stepA s i else s) s

/-- the lock discipline of a program: reads-for-update and writes only between `acq` and `rel`,
    the lock is not requested again while held, and it is released at the end.
    `inside` = the thread holds the lock. -/
def progOK : Bool → List (Step σ ο) → Prop
  | false, [] => True
  | true, [] => False
  | false, .acq :: p => progOK true p
  | false, .peek _ :: p => progOK false p
  | false, _ :: _ => False
  | true, .rel :: p => progOK false p
  | true, .snap :: p => progOK true p
  | true, .commit _ :: p => progOK true p
  | true, .peek _ :: p => progOK true p
  | true, .acq :: _ => False

/-- the atomic operations of the sequential specification: a whole locked read-compute-write, or a
    single unlocked read -/
inductive AOp (σ ο : Type) where
  | sec (k : Nat) (f : List σ → σ × ο)
  | peek (g : σ → ο)

def applyA (x : σ) : AOp σ ο → σ × ο
  | .sec k f => f (List.replicate k x)
  | .peek g => (x, g x)

/-- the atomic operation thread `i` performs with its next step, if that step is one -/
def evOf (s : Sys σ ο) (i : Nat) : Option (AOp σ ο) :=
  match s.thr[i]? with
  | none => none
  | some th =>
      match th.prog with
      | .commit f :: _ => some (.sec th.buf.length f)
      | .peek g :: _ => some (.peek g)
      | _ => none

/-- the atomic operations of a run, in the order in which they happened, with the thread -/
def events : List Nat → Sys σ ο → List (Nat × AOp σ ο)
  | [], _ => []
  | i :: rest, s =>
      if enabled s i then
        match evOf s i with
        | some e => (i, e) :: events rest (step s i)
        | none => events rest (step s i)
      else events rest s

/-- sequential execution of a list of atomic operations from a value: final value and the outputs
    with the thread they belong to -/
def seqRun : σ → List (Nat × AOp σ ο) → σ × List (Nat × ο)
  | x, [] => (x, [])
  | x, (i, e) :: es =>
      let r := applyA x e
      let rest := seqRun r.1 es
      (rest.1, (i, r.2) :: rest.2)

end SV.L3
