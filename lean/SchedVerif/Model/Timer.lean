/-
  Model/Timer.lean — scheduler/base/job_timer.py (`JobTimer`).
  A `Timing` is one entry of a job's timing list together with the job type it is used under
  (the pair the real `JobTimer` receives as `job_type, timing`).
-/
import SchedVerif.Model.Util
namespace SV

inductive Timing where
  | cyclic   (td : Int)
  | minutely (t : Tod)
  | hourly   (t : Tod)
  | daily    (t : Tod)
  | weekly   (wd : Int) (t : Tod)
deriving Repr, DecidableEq, Inhabited

namespace Timing
/-- the period in µs of a recurring (non-cyclic) timing -/
def period : Timing → Int
  | cyclic td => td
  | minutely _ => MIN
  | hourly _ => HOUR
  | daily _ => DAY
  | weekly _ _ => WEEK
/-- offset the timing is written in (`none` = naive) -/
def off : Timing → Option Int
  | cyclic _ => none
  | minutely t | hourly t | daily t | weekly _ t => t.off
/-- wall-clock phase within the period, read in the timing's own offset -/
def phase : Timing → Int
  | cyclic _ => 0
  | minutely t => t.stod
  | hourly t => t.mtod
  | daily t => t.tod
  | weekly wd t => wd * DAY + t.tod
def isCyclic : Timing → Bool
  | cyclic _ => true
  | _ => false
def valid : Timing → Prop
  | cyclic _ => True
  | minutely t | hourly t | daily t => t.valid
  | weekly wd t => 0 ≤ wd ∧ wd ≤ 6 ∧ t.valid
end Timing

/-- `next.astimezone(tz)` as guarded in `calc_next_exec` — the conversion happens only when both
    sides are aware (the validation of `BaseJob.__init__` guarantees they agree) -/
def convertInto (next : DT) (o : Option Int) : DT :=
  match next.off, o with
  | some _, some o' => next.astz o'
  | _, _ => next

/-- one application of the util function for a non-cyclic timing (job_timer.py:69-80) -/
def advance (tm : Timing) (next : DT) : DT :=
  match tm with
  | .cyclic td   => next.add td
  | .minutely t  => nextMinutely (convertInto next t.off) t
  | .hourly t    => nextHourly (convertInto next t.off) t
  | .daily t     => nextDaily (convertInto next t.off) t
  | .weekly wd t => nextWeekdayTime (convertInto next t.off) wd t

structure Timer where
  timing : Timing
  next : DT
  skip : Bool
deriving Repr, DecidableEq, Inhabited

/-- `JobTimer.calc_next_exec(ref)` (job_timer.py:50-84). The self-call with `ref=None` is unfolded:
    it can happen at most once because the inner call has no reference. -/
def Timer.calcNext (tm : Timer) (ref : Option DT) : Timer :=
  match tm.timing with
  | .cyclic td =>
      let base := match tm.skip, ref with
        | true, some r => r
        | _, _ => tm.next
      { tm with next := base.add td }
  | timing =>
      let n1 := advance timing tm.next
      match tm.skip, ref with
      | true, some r => if n1.inst < r.inst then { tm with next := advance timing r } else { tm with next := n1 }
      | _, _ => { tm with next := n1 }

/-- `JobTimer.__init__` -/
def Timer.init (timing : Timing) (start : DT) (skip : Bool) : Timer :=
  Timer.calcNext { timing := timing, next := start, skip := skip } none

end SV
