/-
  Model/Util.lean — scheduler/util.py, function by function.
-/
import SchedVerif.Model.Time
namespace SV

/-- `days_to_weekday`; `none` = SchedulerError (argument outside 0..6) -/
def daysToWeekday (src dest : Int) : Option Int :=
  if 0 ≤ src ∧ src ≤ 6 ∧ 0 ≤ dest ∧ dest ≤ 6 then some ((dest - src - 1) % 7 + 1) else none

/-- `now.replace(hour, minute, second, microsecond)` -/
def replaceDay (now : DT) (t : Tod) : DT := { now with loc := now.loc / DAY * DAY + t.tod }
/-- `now.replace(minute, second, microsecond)` -/
def replaceHour (now : DT) (t : Tod) : DT := { now with loc := now.loc / HOUR * HOUR + t.mtod }
/-- `now.replace(second, microsecond)` -/
def replaceMin (now : DT) (t : Tod) : DT := { now with loc := now.loc / MIN * MIN + t.stod }

/-- `next_daily_occurrence` (util.py:45) -/
def nextDaily (now : DT) (t : Tod) : DT :=
  let target := replaceDay now t
  { target with loc := if target.loc - now.loc ≤ 0 then target.loc + DAY else target.loc }

/-- `next_hourly_occurrence` (util.py:74) -/
def nextHourly (now : DT) (t : Tod) : DT :=
  let target := replaceHour now t
  { target with loc := if target.loc - now.loc ≤ 0 then target.loc + HOUR else target.loc }

/-- `next_minutely_occurrence` (util.py:102) -/
def nextMinutely (now : DT) (t : Tod) : DT :=
  let target := replaceMin now t
  { target with loc := if target.loc - now.loc ≤ 0 then target.loc + MIN else target.loc }

/-- `next_weekday_time_occurrence` (util.py:128); weekday value `wd` in 0..6 -/
def nextWeekdayTime (now : DT) (wd : Int) (t : Tod) : DT :=
  let days := ((wd - now.weekday - 1) % 7 + 1)
  let cand := nextDaily now t
  { now with loc := if days = 7 ∧ cand.date = now.date then cand.loc
                     else (replaceDay now t).loc + days * DAY }

end SV
