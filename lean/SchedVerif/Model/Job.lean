/-
  Model/Job.lean — scheduler/base/job.py (`BaseJob`) and scheduler/base/job_util.py.
-/
import SchedVerif.Model.Timer
namespace SV

inductive Err where
  | schedulerError | typeError | attributeError | other
deriving Repr, DecidableEq, Inhabited

/-- index of the first minimum of `f` over the list (`get_pending_timer`: stable sort, element 0) -/
def argmin (f : α → Int) : List α → Nat
  | [] => 0
  | x :: xs =>
      match xs[argmin f xs]? with
      | some y => if f y < f x then argmin f xs + 1 else 0
      | none => 0

structure Job where
  timers : List Timer
  pending : Nat
  start : DT
  stop : Option DT
  delay : Bool
  skip : Bool
  maxAtt : Int
  attempts : Nat
  failed : Nat
  markDelete : Bool
deriving Repr, DecidableEq, Inhabited

namespace Job

def pendingTimer (j : Job) : Timer := j.timers.getD j.pending default

/-- `BaseJob.datetime` -/
def due (j : Job) : DT :=
  if !j.delay && j.attempts == 0 then j.start else j.pendingTimer.next

/-- `BaseJob.timedelta(x)` in µs -/
def timedelta (j : Job) (x : DT) : Int := j.due.inst - x.inst

/-- `BaseJob.has_attempts_remaining` -/
def hasAttempts (j : Job) : Bool :=
  if j.markDelete then false
  else if j.maxAtt == 0 then true
  else (j.attempts : Int) < j.maxAtt

def pastStop (stop : Option DT) (d : DT) : Bool :=
  match stop with
  | some s => s.inst < d.inst
  | none => false

/-- tail of `BaseJob.__init__` once validation passed and `start` is fixed -/
def build (timings : List Timing) (start : DT) (stop : Option DT) (delay skip : Bool) (maxAtt : Int) : Job :=
  let timers := timings.map (fun tm => Timer.init tm start skip)
  let p := argmin (fun (t : Timer) => t.next.inst) timers
  { timers := timers, pending := p, start := start, stop := stop, delay := delay, skip := skip,
    maxAtt := maxAtt, attempts := 0, failed := 0,
    -- `first_exec = pending.datetime if delay else start` (job.py `__init__`)
    markDelete := pastStop stop (if delay then (timers.getD p default).next else start) }

/-- `BaseJob._calc_next_exec(ref)` (job.py:111-131) -/
def calcNext (j : Job) (ref : DT) : Job :=
  let timers :=
    if j.skip then
      j.timers.map (fun t => if t.next.inst - ref.inst ≤ 0 then t.calcNext (some ref) else t)
    else if !j.delay && j.attempts == 1 then
      j.timers          -- the run that consumed `start` leaves the timers (already at start+T) alone
    else
      j.timers.modify j.pending (fun t => t.calcNext (some ref))
  let p := argmin (fun (t : Timer) => t.next.inst) timers
  { j with timers := timers, pending := p,
           markDelete := j.markDelete || pastStop j.stop (timers.getD p default).next }

/-- `Job._exec`: the callback outcome is an input -/
def exec1 (j : Job) (raises : Bool) : Job :=
  { j with attempts := j.attempts + 1, failed := if raises then j.failed + 1 else j.failed }

end Job

/-! ### validation (job_util.py) -/

def standardize : Timing → Timing
  | .minutely t => .minutely { t with h := 0, m := 0 }
  | .hourly t => .hourly { t with h := 0 }
  | tm => tm

/-- `check_timing_tzinfo`: every entry's awareness equals the scheduler's -/
def timingTzOk (tz : Option Int) (l : List Timing) : Bool :=
  l.all (fun tm => tm.isCyclic || (tm.off.isSome == tz.isSome))

/-- key used by `are_times_unique`: the clock phase moved to UTC, reduced modulo the period -/
def timeKey (tm : Timing) : Int := (tm.phase - tm.off.getD 0) % tm.period

/-- key used by `are_weekday_times_unique`: the next occurrence after 1970-01-01T00:00 (scheduler tz)
    converted into the entry's offset; compared as instants. `epoch` is the µs count of 1970-01-01. -/
def EPOCH : Int := 62135596800000000

def weekdayKey (tz : Option Int) (wd : Int) (t : Tod) : Int :=
  let ref : DT := { loc := EPOCH, off := tz }
  (nextWeekdayTime (convertInto ref t.off) wd t).inst

def nodupInt : List Int → Bool
  | [] => true
  | x :: xs => !xs.contains x && nodupInt xs

def dayKey (tm : Timing) : Int :=
  match tm with
  | .minutely _ | .hourly _ | .daily _ => timeKey tm
  | _ => 0

def weekKey (tz : Option Int) (tm : Timing) : Int :=
  match tm with
  | .weekly wd t => weekdayKey tz wd t
  | _ => 0

/-- `check_duplicate_effective_timings` — `true` = accepted -/
def uniqueOk (tz : Option Int) (l : List Timing) : Bool :=
  match l with
  | [] => true
  | .cyclic _ :: _ => true
  | .weekly _ _ :: _ => nodupInt (l.map (weekKey tz))
  | _ => nodupInt (l.map dayKey)

/-- the clock reading `datetime.now(tz)` for a clock instant -/
def nowDT (tz : Option Int) (clock : Int) : DT :=
  match tz with
  | some o => { loc := clock + o, off := some o }
  | none => { loc := clock, off := none }

/-- `set_start_check_stop_tzinfo` -/
def startStop (tz : Option Int) (start stop : Option DT) (clock : Int) : Except Err DT :=
  match start with
  | some s =>
      if s.off.isSome != tz.isSome then .error .schedulerError else
      match stop with
      | some e =>
          if e.off.isSome != tz.isSome then .error .schedulerError
          else if s.inst ≥ e.inst then .error .schedulerError else .ok s
      | none => .ok s
  | none =>
      let s := nowDT tz clock
      match stop with
      | some e =>
          if e.off.isSome != tz.isSome then .error .schedulerError
          else if s.inst ≥ e.inst then .error .schedulerError else .ok s
      | none => .ok s

/-- `BaseJob.__init__` validation + construction. `timings` all carry the same job type
    (the call decides it); an empty list makes `get_pending_timer` fail with IndexError. -/
def Job.create (tz : Option Int) (timings : List Timing) (start stop : Option DT)
    (delay skip : Bool) (maxAtt : Int) (clock : Int) : Except Err Job :=
  let ts := timings.map standardize
  match ts with
  | .cyclic _ :: _ :: _ => .error .schedulerError      -- sane_timing_types: len == 1
  | _ =>
  if !timingTzOk tz ts then .error .schedulerError
  else if !uniqueOk tz ts then .error .schedulerError
  else match startStop tz start stop clock with
    | .error e => .error e
    | .ok s =>
        if ts.isEmpty then .error .other
        else (.ok (Job.build ts s stop delay skip maxAtt))

end SV
