/-
  Driver.lean — line-protocol driver.
    S <tz|N> <maxExec> <prio>        start a fresh scheduler
    <op …>                           one operation (see Driver/Parse.lean); answers one line
    spec <Cxx> <ints…>               evaluate the Bool twin of a property's Spec on an observation
  Run: `lake env lean --run Driver.lean < ops.txt`
-/
import SchedVerif.Driver.Parse
import SchedVerif.Driver.SpecCmd
import SchedVerif.Driver.AParse
open SV SV.Drv

def words (line : String) : List String :=
  (line.splitOn " ").filter (fun w => w != "")

structure DState where
  thr : State
  aio : AState

def handleThr (st : State) (line : String) : State × String :=
  match words line with
  | [] => (st, "")
  | "S" :: rest =>
      match runP (do let tz ← optInt; let me ← nat; let pk ← nat; pure (tz, me, pk)) rest with
      | some (tz, me, pk) =>
          ({ tz := tz, maxExec := me, prio := if pk == 0 then .linear else .constant }, "S ok")
      | none => (st, "bad-op")
  | "spec" :: rest => (st, specCmd rest)
  | "select" :: rest => (st, selectCmd selectP rest)
  | "selectp" :: rest => (st, selectCmd selectpP rest)
  | "selects" :: rest => (st, selectCmd selectSetP rest)
  | "selectps" :: rest => (st, selectCmd selectpSetP rest)
  | "cutoff" :: rest => (st, selectCmd cutoffP rest)
  | "row" :: rest => (st, selectCmd rowP rest)
  | toks =>
      match runP op toks with
      | some o => let (st', out) := step st o; (st', showOut st' out)
      | none => (st, "bad-op")

def handle (st : DState) (line : String) : DState × String :=
  match words line with
  | "A" :: rest =>
      match runP (do let tz ← optInt; let now ← int; let d ← runScript; pure (tz, now, d)) rest with
      | some (tz, now, d) => ({ st with aio := { tz := tz, now := now, dflt := d } }, "A ok")
      | none => (st, "bad-op")
  | w :: rest =>
      if w == "asch" || w == "arun" || w == "adel" || w == "adtags" || w == "aget" || w == "ajobs" then
        let (a, o) := ahandle st.aio (w :: rest); ({ st with aio := a }, o)
      else
        let (t, o) := handleThr st.thr line; ({ st with thr := t }, o)
  | [] => (st, "")

partial def loop (h : IO.FS.Stream) (out : IO.FS.Stream) (st : DState) : IO Unit := do
  let line ← h.getLine
  if line.isEmpty then return ()
  let (st', o) := handle st (line.trimAscii.toString)
  out.putStrLn o
  loop h out st'

def main : IO Unit := do
  let stdin ← IO.getStdin
  let stdout ← IO.getStdout
  loop stdin stdout { thr := { tz := none, maxExec := 0, prio := .linear }, aio := { tz := none, now := 0 } }
