/-
  Driver.lean — line-protocol driver.
    S <tz|N> <maxExec> <prio>        start a fresh scheduler
    <op …>                           one operation (see Driver/Parse.lean); answers one line
    spec <Cxx> <ints…>               evaluate the Bool twin of a property's Spec on an observation
  Run: `lake env lean --run Driver.lean < ops.txt`
-/
import SchedVerif.Driver.Parse
import SchedVerif.Driver.SpecCmd
open SV SV.Drv

def words (line : String) : List String :=
  (line.splitOn " ").filter (fun w => w != "")

def handle (st : State) (line : String) : State × String :=
  match words line with
  | [] => (st, "")
  | "S" :: rest =>
      match runP (do let tz ← optInt; let me ← nat; let pk ← nat; pure (tz, me, pk)) rest with
      | some (tz, me, pk) =>
          ({ tz := tz, maxExec := me, prio := if pk == 0 then .linear else .constant }, "S ok")
      | none => (st, "bad-op")
  | "spec" :: rest => (st, specCmd rest)
  | "select" :: rest => (st, selectCmd selectP rest)
  | "selectp" :: rest => (st, selectCmd selectpP rest)
  | "cutoff" :: rest => (st, selectCmd cutoffP rest)
  | "row" :: rest => (st, selectCmd rowP rest)
  | toks =>
      match runP op toks with
      | some o => let (st', out) := step st o; (st', showOut st' out)
      | none => (st, "bad-op")

partial def loop (h : IO.FS.Stream) (out : IO.FS.Stream) (st : State) : IO Unit := do
  let line ← h.getLine
  if line.isEmpty then return ()
  let (st', o) := handle st (line.trimAscii.toString)
  out.putStrLn o
  loop h out st'

def main : IO Unit := do
  let stdin ← IO.getStdin
  let stdout ← IO.getStdout
  loop stdin stdout { tz := none, maxExec := 0, prio := .linear }
