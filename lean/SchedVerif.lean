import SchedVerif.Model.Time
import SchedVerif.Model.Util
import SchedVerif.Model.Timer
import SchedVerif.Model.Job
import SchedVerif.Model.Prio
import SchedVerif.Model.Sched
