"""
harness/gen.py — boundary-driven generators for scenarios (all random choices from one Random).
"""
from __future__ import annotations

from .core import DAY, HOUR, MINUTE, WEEK, loc_of_ymd

PERIOD = {1: MINUTE, 2: HOUR, 3: DAY, 4: WEEK}


# ---------------------------------------------------------------- offsets
def rand_off(rng, klass=None):
    """an offset in µs, strictly inside (-24h, 24h); returns (off, class)"""
    klass = klass or rng.choice(["zero", "hour", "half", "q45", "submin", "extreme", "rand", "daychg"])
    if klass == "zero":
        return 0, klass
    if klass == "hour":
        return rng.randint(-14, 14) * HOUR, klass
    if klass == "half":
        return rng.choice([-1, 1]) * (rng.randint(0, 12) * HOUR + 30 * MINUTE), klass
    if klass == "q45":
        return rng.choice([-1, 1]) * (rng.randint(0, 12) * HOUR + 45 * MINUTE), klass
    if klass == "submin":
        return rng.choice([-1, 1]) * (rng.randint(0, 3) * HOUR + rng.randint(0, 59) * MINUTE + rng.randint(1, 59_999_999)), klass
    if klass == "extreme":
        return rng.choice([-1, 1]) * (DAY - rng.choice([1, 2, 1000, MINUTE, 1_000_000])), klass
    if klass == "daychg":
        return rng.choice([-1, 1]) * rng.randint(12, 23) * HOUR, klass
    return rng.randint(-DAY + 1, DAY - 1), "rand"


# ---------------------------------------------------------------- times of day
def rand_tod(rng, off):
    c = rng.random()
    if c < 0.15:
        h, m, s, us = 0, 0, 0, 0
    elif c < 0.3:
        h, m, s, us = 23, 59, 59, 999_999
    elif c < 0.4:
        h, m, s, us = rng.randint(0, 23), rng.choice([0, 59]), rng.choice([0, 59]), rng.choice([0, 1, 999_999])
    else:
        h, m, s, us = rng.randint(0, 23), rng.randint(0, 59), rng.randint(0, 59), rng.choice([0, rng.randint(0, 999_999)])
    return [h, m, s, us, off]


def tod_us(t):
    return ((t[0] * 60 + t[1]) * 60 + t[2]) * 1_000_000 + t[3]


def phase_of(call, timing):
    """(period, phase, off) of a recurring timing entry"""
    if call == 1:
        t = timing[1:]
        return MINUTE, t[2] * 1_000_000 + t[3], t[4] or 0
    if call == 2:
        t = timing[1:]
        return HOUR, (t[1] * 60 + t[2]) * 1_000_000 + t[3], t[4] or 0
    if call == 3:
        t = timing[1:]
        return DAY, tod_us(t), t[4] or 0
    if call == 4:
        t = timing[2:]
        return WEEK, timing[1] * DAY + tod_us(t), t[4] or 0
    raise ValueError(call)


# ---------------------------------------------------------------- calendar-stratified instants
_YEARS = [1971, 1999, 2000, 2021, 2024, 2100, 2400, 2999]


def rand_instant(rng):
    """a µs count 1971..2999 with month/year/leap rollovers over-represented; returns (loc, class)"""
    c = rng.random()
    y = rng.choice(_YEARS) if rng.random() < 0.6 else rng.randint(1971, 2999)
    if c < 0.15:
        base, k = loc_of_ymd(y, 12, 31, 23, 59, 59, 999_999), "yearend"
    elif c < 0.3:
        leap = (y % 4 == 0 and y % 100 != 0) or y % 400 == 0
        base, k = loc_of_ymd(y, 2, 29 if leap else 28, 23, 59, 59, 999_999), "feb"
    elif c < 0.45:
        mo = rng.choice([1, 3, 4, 5, 6, 7, 8, 9, 10, 11])
        dd = 31 if mo in (1, 3, 5, 7, 8, 10) else 30
        base, k = loc_of_ymd(y, mo, dd, 23, 59, 59, 999_999), "monthend"
    else:
        base, k = loc_of_ymd(y, rng.randint(1, 12), rng.randint(1, 28), rng.randint(0, 23), rng.randint(0, 59), rng.randint(0, 59), rng.choice([0, rng.randint(0, 999_999)])), "plain"
    if k != "plain":
        base += rng.choice([0, 1, 2, -1, -MINUTE, MINUTE, rng.randint(-HOUR, HOUR)])
    return base, k


def occurrence_near(rng, inst, period, phase, off):
    """an instant U near `inst` with (U + off) % period == phase"""
    u0 = inst - ((inst + off - phase) % period)
    return u0 + rng.choice([0, 0, period, -period])


def boundary_delta(rng, period):
    return rng.choice([0, 0, -1, 1, -1, 1, period, -period, period - 1, 1 - period, rng.randint(-period, period)])


# ---------------------------------------------------------------- timings
def rand_timing(rng, call, aware, off_klass=None):
    """one timing entry for a scheduling call (1..4), written in its own offset"""
    off = rand_off(rng, off_klass)[0] if aware else None
    if call in (1, 2, 3):
        return ["t"] + rand_tod(rng, off)
    if call == 4:
        return ["w", rng.randint(0, 6)] + rand_tod(rng, off)
    raise ValueError(call)


def rand_interval(rng):
    c = rng.random()
    if c < 0.1:
        return 0
    if c < 0.2:
        return 1
    if c < 0.5:
        return rng.choice([1_000_000, 10_000_000, MINUTE, HOUR, DAY, WEEK, 2 * WEEK])
    if c < 0.8:
        return rng.randint(1, 10 * MINUTE)
    return rng.randint(1, 3 * WEEK)


def utc_phase(call, timing):
    p, ph, off = phase_of(call, timing)
    return (ph - off) % p


def rand_weight(rng):
    c = rng.random()
    if c < 0.06:
        # "all positive weights": tiny and huge ones too (powers of two: exact in binary floating point)
        return rng.choice([[1, 2 ** 24], [1, 2 ** 30], [1, 2 ** 40], [1, 2 ** 70], [2 ** 40, 1], [3, 2 ** 33]])
    if c < 0.5:
        return [1, 1]
    if c < 0.8:
        return [rng.randint(1, 64), rng.choice([1, 2, 4, 8, 16])]
    return [rng.randint(1, 1000), 1]
