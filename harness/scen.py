"""
harness/scen.py — scenario generators (job lives, populations, histories) shared by the checks.
"""
from __future__ import annotations

from . import gen
from .core import DAY, HOUR, MINUTE, WEEK


def gen_job(rng, tz, clock, opts=None):
    """one scheduling op (valid with high probability) for a scheduler with offset `tz`"""
    opts = opts or {}
    aware = tz is not None
    call = opts.get("call")
    if call is None:
        call = rng.choice(opts.get("calls", [0, 1, 2, 3, 4, 5]))
    o = {"op": "sch", "call": call, "clock": clock}
    nmax = opts.get("max_entries", 3)
    if call == 0:
        o["timings"] = [["c", opts.get("interval", gen.rand_interval(rng))]]
        period = max(o["timings"][0][1], 1)
    elif call in (1, 2, 3, 4):
        n = 1 if rng.random() < opts.get("p_single", 0.6) else rng.randint(2, nmax)
        ts, seen = [], set()
        for _ in range(n):
            for _try in range(20):
                t = gen.rand_timing(rng, call, aware, opts.get("off_klass"))
                ph = gen.utc_phase(call, t)
                if ph not in seen:
                    seen.add(ph)
                    ts.append(t)
                    break
        o["timings"] = ts
        o["is_list"] = n > 1 or rng.random() < 0.3
        period = gen.PERIOD[call]
    else:  # once
        kind = rng.choice(opts.get("once_kinds", ["d", "c", "t", "w"]))
        if kind == "d":
            off = gen.rand_off(rng)[0] if aware else None
            inst = clock + rng.choice([-HOUR, -1, 0, 1, MINUTE, HOUR, DAY, rng.randint(-DAY, 3 * DAY)])
            o["timings"] = [["d", inst + (off or 0), off]]
        elif kind == "c":
            o["timings"] = [["c", gen.rand_interval(rng)]]
        elif kind == "t":
            o["timings"] = [gen.rand_timing(rng, 3, aware)]
        else:
            o["timings"] = [gen.rand_timing(rng, 4, aware)]
        period = DAY
    if call != 5:
        if rng.random() < opts.get("p_start", 0.5):
            off = gen.rand_off(rng)[0] if aware else None
            if call in (1, 2, 3, 4) and rng.random() < 0.6:
                p, ph, toff = gen.phase_of(call, o["timings"][0])
                inst = gen.occurrence_near(rng, clock, p, ph, toff) + gen.boundary_delta(rng, p)
            else:
                inst = clock + rng.choice([0, -1, 1, -period, period, rng.randint(-3 * period, 3 * period)])
            o["start"] = [inst + (off or 0), off]
        if rng.random() < opts.get("p_stop", 0.25):
            off = gen.rand_off(rng)[0] if aware else None
            ref = (o["start"][0] - (o["start"][1] or 0)) if o.get("start") else clock
            inst = ref + rng.choice([1, period, period - 1, period + 1, 2 * period, 3 * period + 1, rng.randint(1, 5 * period + 1)])
            o["stop"] = [inst + (off or 0), off]
        if rng.random() < opts.get("p_skip", 0.3):
            o["skip"] = True
        if rng.random() < opts.get("p_nodelay", 0.15):
            o["delay"] = False
        if rng.random() < opts.get("p_limit", 0.3):
            o["max_att"] = rng.choice([1, 2, 3, 7])
    o["w"] = gen.rand_weight(rng)
    if rng.random() < 0.5:
        o["tags"] = sorted(rng.sample(range(1, 6), rng.randint(0, 3)))
    return o, period


def gen_poll(rng, nkeys, period):
    """an adaptive exec op: relative to the observed due time of some job"""
    key = rng.randrange(nkeys) if nkeys else 0
    delta = rng.choice([0, 0, 0, -1, 1, period, period - 1, period + 1, 2 * period, rng.randint(0, max(1, 4 * period)), rng.randint(0, max(1, period // 2 + 1))])
    return {"op": "exec", "rel": [key, delta]}


def gen_life(rng, opts=None):
    """a population of 1..n jobs and a history of polls around their due instants"""
    opts = dict(opts or {})
    tz = None if rng.random() < opts.get("p_naive", 0.35) else gen.rand_off(rng)[0]
    clock, klass = gen.rand_instant(rng)
    scn = {"tz": tz, "max_exec": opts.get("max_exec", 0), "prio": opts.get("prio", 0), "clock0": clock, "ops": [], "_class": klass}
    njobs = rng.randint(1, opts.get("max_jobs", 3))
    if njobs >= 2 and rng.random() < opts.get("p_maxexec", 0.0):
        # an execution limit: due jobs that are passed over must keep their due time and be worked off by later calls
        scn["max_exec"] = rng.choice([1, 1, 2])
    periods = []
    for i in range(njobs):
        o, p = gen_job(rng, tz, clock, opts)
        o["payload"] = i + 1
        scn["ops"].append(o)
        periods.append(p)
    npolls = rng.randint(1, opts.get("max_polls", 8))
    for _ in range(npolls):
        k = rng.randrange(njobs)
        e = gen_poll(rng, njobs, periods[k])
        e["rel"][0] = k
        if rng.random() < opts.get("p_force", 0.1):
            e["force"] = True
        if rng.random() < opts.get("p_raise", 0.1):
            e["raises"] = sorted(rng.sample(range(njobs), rng.randint(1, njobs)))
        scn["ops"].append(e)
        if rng.random() < 0.1:
            scn["ops"].append({"op": "jobs"})
    return scn
