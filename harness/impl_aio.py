"""
harness/impl_aio.py — run a scenario against the real asyncio Scheduler under the virtual-time loop.
"""
from __future__ import annotations

import asyncio
import logging
import warnings

from . import core
from .core import CLOCK, from_loc, inst_of, tz_of
from .impl_thr import CALLS, _CountHandler, err_kind, py_tags, py_timing
from .vloop import LoopSpin, VirtualLoop


class _FalsyError(Exception):
    def __bool__(self):
        return False


def exc_of(kind):
    """exception class raised by a scripted coroutine failure (any Exception subclass)"""
    from scheduler.error import SchedulerError
    return {"SchedulerError": SchedulerError, "ValueError": ValueError, "TimeoutError": asyncio.TimeoutError, "KeyError": KeyError, "OSError": OSError,
            "LookupError": LookupError, "StopAsyncIteration": StopAsyncIteration, "InvalidStateError": asyncio.InvalidStateError,
            "RuntimeError": RuntimeError, "FalsyError": _FalsyError}.get(kind if isinstance(kind, str) else "ValueError", ValueError)


AIO_EXC = ["ValueError", "ValueError", "SchedulerError", "SchedulerError", "TimeoutError", "KeyError", "OSError", "LookupError", "StopAsyncIteration",
           "InvalidStateError", "RuntimeError", "FalsyError"]


class AioRunner:
    def __init__(self, scn):
        core.install_clock()
        self.scn = scn
        self.created = []
        self.key_of = {}
        self.events = []
        self.trace = []      # chronological: ("S", key) coroutine started, ("D", key) job deleted (returned)
        self.tasks = []
        self.handler_calls = []
        self.handler = _CountHandler()
        self.logger = logging.getLogger(f"verif.aio.{id(self)}")
        self.logger.handlers = [] if scn.get("late_handler") else [self.handler]
        self.logger.propagate = False
        self.logger.setLevel(logging.DEBUG)
        self.dflt = scn.get("dflt") or {"acts": [], "raises": False}
        self.arg_failures = []
        self.cells = []
        self.del_events = []   # (instant, acting job, deleted job) for deletions done by coroutines
        self.cop_sel = []      # (instant, acting job, expected selection, jobs actually removed, returned count) of delete_jobs from coroutines
        self.probes = []
        self.prints = []

    # -------------------------------------------------------------- coroutines
    def make_coro(self, cell):
        runner = self

        async def cb(*args, **kwargs):
            job, key = cell["job"], cell["key"]
            n = cell["nrun"]
            cell["nrun"] = n + 1
            runs = cell["runs"]
            script = runs[n] if n < len(runs) else (runs[-1] if runs else {"acts": [], "raises": False})
            due = inst_of(job.datetime)
            runner.events.append((CLOCK.instant, key, "S", due))
            runner.trace.append(("S", key))
            if "want" in cell and (tuple(args), dict(kwargs)) != cell["want"]:
                runner.arg_failures.append((key, repr((args, kwargs))[:160]))
            try:
                for a in script.get("acts", []):
                    if a[0] == "sl":
                        await asyncio.sleep(a[1] / 1e6)
                    elif a[0] == "ad":
                        try:
                            runner.sched.delete_job(runner.created[a[1]])
                            runner.trace.append(("D", a[1]))
                            runner.del_events.append((CLOCK.instant, key, a[1]))
                        except Exception as e:  # noqa: BLE001
                            runner.cop_errors.append(err_kind(e))
                    elif a[0] == "at":
                        before = set(runner.key_of[id(j)] for j in runner.sched.jobs)
                        # what must be selected, from each registered job's own tag set (C12), the caller included
                        q_ = py_tags(a[2], "set") or set()
                        want_ = sorted(runner.key_of[id(j)] for j in runner.sched.jobs
                                       if (not q_) or (bool(q_ & j.tags) if a[1] else q_ <= j.tags))
                        n_ = runner.sched.delete_jobs(py_tags(a[2], "set"), bool(a[1]))
                        after = set(runner.key_of[id(j)] for j in runner.sched.jobs)
                        runner.cop_sel.append((CLOCK.instant, key, want_, sorted(before - after), n_))
                        for kk in sorted(before - after):
                            runner.trace.append(("D", kk))
                            runner.del_events.append((CLOCK.instant, key, kk))
                    elif a[0] == "as":
                        runner.do_sched(a[1], [runner.dflt])
                    elif a[0] == "st":
                        # print the scheduler from inside a coroutine (pure observation: no await, not part of the model)
                        try:
                            text = str(runner.sched)
                            lines_ = text.split("\n")
                            sep = max((i for i, ln in enumerate(lines_) if ln.strip() and set(ln.strip()) <= set("- ")), default=len(lines_) - 1)
                            runner.prints.append((CLOCK.instant, key, int(text.split("#jobs=")[1].split("\n")[0]),
                                                  sum(1 for ln in lines_[sep + 1:] if ln.strip()), len(runner.sched.jobs)))
                        except Exception as e:  # noqa: BLE001
                            runner.prints.append((CLOCK.instant, key, -1, -1, repr(e)[:120]))
            except asyncio.CancelledError:
                runner.events.append((CLOCK.instant, key, "C", due))
                raise
            # probe at the next loop iteration, i.e. right after the supervisor step that books this run
            asyncio.get_running_loop().call_soon(runner.probe, key)
            if script.get("raises"):
                runner.events.append((CLOCK.instant, key, "X", due))
                raise exc_of(script["raises"])("scripted failure")
            runner.events.append((CLOCK.instant, key, "E", due))

        cb.__qualname__ = "cb"
        return cb

    def probe(self, key):
        """is the job still registered right after the step that completed one of its runs?"""
        try:
            job = self.created[key]
            self.probes.append((CLOCK.instant, key, 1 if job in self.sched.jobs else 0, 1 if job.has_attempts_remaining else 0, job.attempts))
        except Exception as e:  # noqa: BLE001
            self.probes.append((CLOCK.instant, key, -1, -1, repr(e)[:80]))

    def do_sched(self, o, runs):
        call = CALLS[o["call"]]
        ts = [py_timing(t) for t in o["timings"]]
        timing = ts if o.get("is_list") else (ts[0] if ts else [])
        cell = {"runs": runs, "nrun": 0}
        cb = self.make_coro(cell)
        if o.get("plain_handle"):
            # a plain (non-async) callable handed to the asyncio scheduler: it is called, `await None` then fails inside _exec -
            # a failing run like any other (contained, counted, logged); the scenario scripts every run of it as raising at once
            runner = self

            def plain(*args, **kwargs):
                job, key = cell["job"], cell["key"]
                cell["nrun"] += 1
                due = inst_of(job.datetime)
                runner.events.append((CLOCK.instant, key, "S", due))
                runner.trace.append(("S", key))
                asyncio.get_running_loop().call_soon(runner.probe, key)
                runner.events.append((CLOCK.instant, key, "X", due))
                return None

            plain.__qualname__ = "cb"
            cb = plain
        kw = {}
        tags = py_tags(o.get("tags"), o.get("tagkind"))
        cell["orig_tags"] = tags
        if tags is not None:
            kw["tags"] = tags
        if "argshape" in o or "kwshape" in o:
            # C19: the coroutine must receive exactly these, whatever the caller does to the containers later
            payload = o.get("payload", 0)
            args = {"none": None, "empty": (), "one": (payload,), "many": (payload, "x", 3.5, None, b"b"),
                    "nested": (payload, [1, [2, 3]], {"k": (4, 5)})}[o.get("argshape", "one")]
            kwargs = {"none": None, "empty": {}, "one": {"p": payload},
                      "many": {"p": payload, "a": 1, "b": "two", "c": None, "d": (1, 2), "e": 2.5},
                      "reserved": {"p": payload, "self": 1, "cls": 2, "logger": 3, "job": 4, "handle": 5, "args": (6,), "kwargs": {"k": 7},
                                   "timing": 8, "tags": {"t"}, "weight": 9, "coroutine": 10}}[o.get("kwshape", "one")]
            cell["want"] = (() if args is None else tuple(args), {} if kwargs is None else dict(kwargs))
            cell["orig_kwargs"] = kwargs
            if args is not None:
                kw["args"] = args
            if kwargs is not None:
                kw["kwargs"] = kwargs
        if call != "once":
            if o.get("start") is not None:
                kw["start"] = from_loc(*o["start"])
            if o.get("stop") is not None:
                kw["stop"] = from_loc(*o["stop"])
            if not o.get("delay", True):
                kw["delay"] = False
            if o.get("skip", False):
                kw["skip_missing"] = True
            if o.get("max_att", 0) != 0:
                kw["max_attempts"] = o["max_att"]
        hk = o.get("hkind")
        if hk in ("partial_kw", "partial_pos") and "want" in cell:
            import functools
            if hk == "partial_kw":
                cb = functools.partial(cb, p=-1, frozen=7)
                cell["want"] = (cell["want"][0], dict({"p": -1, "frozen": 7}, **cell["want"][1]))
            else:
                cb = functools.partial(cb, "front")
                cell["want"] = (("front",) + cell["want"][0], cell["want"][1])
        if o.get("badrepr"):
            from .impl_thr import BadRepr
            kw["kwargs"] = dict(kw.get("kwargs") or {}, conn=BadRepr())
            if "want" in cell:
                cell["want"] = (cell["want"][0], dict(cell["want"][1], conn=kw["kwargs"]["conn"]))
        with warnings.catch_warnings():
            warnings.simplefilter("ignore")
            job = getattr(self.sched, call)(timing, cb, **kw)
        key = len(self.created)
        cell["job"], cell["key"] = job, key
        self.created.append(job)
        self.key_of[id(job)] = key
        self.cells.append(cell)
        return key

    def snapshot(self):
        regset = self.sched.jobs
        out = {}
        for key, job in enumerate(self.created):
            d = job.datetime
            out[key] = (inst_of(d), 1 if d.tzinfo is not None else 0, job.attempts, job.failed_attempts,
                        1 if job.has_attempts_remaining else 0, 1 if job in regset else 0)
        return out

    def task_errors(self):
        """tasks that ended with an exception nobody retrieved"""
        errs = []
        for t in self.tasks:
            if t.done() and not t.cancelled():
                e = t.exception()
                if e is not None:
                    errs.append(f"{type(e).__name__}: {e}")
        return errs

    async def drive(self, loop):
        import scheduler.asyncio as saio

        self.sched = saio.Scheduler(tzinfo=tz_of(self.scn.get("tz")), logger=self.logger)
        self.logger.handlers = [self.handler]      # (a "late" handler is attached now)
        self.cop_errors = []
        obs_list = self.obs_list = []
        for o in self.scn["ops"]:
            k = o["op"]
            obs = {"res": None}
            self.events = []
            try:
                if k == "sch":
                    o["clock"] = CLOCK.instant
                    key = self.do_sched(o, o.get("runs") or [self.dflt])
                    obs["res"] = ("j", key)
                elif k == "run":
                    target = o["until"]
                    delay = (target - CLOCK.instant) / 1e6
                    if delay > 0:
                        await asyncio.sleep(delay)
                    else:
                        await asyncio.sleep(0)
                    obs["res"] = ("u",)
                elif k == "del":
                    deleted_key = o["key"]
                    if o["key"] < len(self.created):
                        target = self.created[o["key"]]
                    else:
                        # a job this scheduler has never seen (registered with another scheduler)
                        import datetime as _dt
                        other = saio.Scheduler(tzinfo=tz_of(self.scn.get("tz")))

                        async def _noop():
                            return None

                        target = other.cyclic(_dt.timedelta(days=400), _noop)
                        other.delete_jobs()
                    self.sched.delete_job(target)
                    self.trace.append(("D", deleted_key))
                    obs["res"] = ("u",)
                elif k == "dtags":
                    before = set(self.key_of[id(j)] for j in self.sched.jobs)
                    obs["res"] = ("c", self.sched.delete_jobs(py_tags(o.get("tags"), "set"), bool(o.get("any", False))))
                    for kk in sorted(before - set(self.key_of[id(j)] for j in self.sched.jobs)):
                        self.trace.append(("D", kk))
                elif k == "get":
                    r = self.sched.get_jobs(py_tags(o.get("tags"), "set"), bool(o.get("any", False)))
                    obs["res"] = ("s", sorted(self.key_of[id(j)] for j in r))
                elif k == "jobs":
                    obs["res"] = ("s", sorted(self.key_of[id(j)] for j in self.sched.jobs))
                elif k == "mutate":
                    cell = self.cells[o["key"]] if o["key"] < len(self.cells) else None
                    if cell is not None:
                        what = o.get("what", "all")
                        if what in ("kwargs", "all") and isinstance(cell.get("orig_kwargs"), dict):
                            d = cell["orig_kwargs"]
                            d["injected"] = 1
                            d.pop("p", None)
                            d["a"] = "overwritten"
                        if what in ("tags", "all") and isinstance(cell.get("orig_tags"), set):
                            cell["orig_tags"].clear()
                            cell["orig_tags"].add("t9")
                        if what in ("returned_tags", "all"):
                            t = cell["job"].tags
                            if o.get("how") == "swap" and t:
                                t.discard(sorted(t)[0])
                                t.add("t8")
                            else:
                                t.clear()
                                t.add("t8")
                    obs["res"] = ("u",)
                else:
                    raise ValueError(k)
            except Exception as e:  # noqa: BLE001
                obs["res"] = ("e", err_kind(e))
                obs["exc"] = repr(e)[:200]
            # let every task that is ready at this instant run until it waits for a later instant
            self.cur_obs = obs
            await asyncio.sleep(0)
            for _ in range(200000):
                if not loop._ready:
                    break
                await asyncio.sleep(0)
            else:
                raise LoopSpin("tasks stay ready at one instant")
            obs["events"] = list(self.events)
            obs["jobs"] = self.snapshot()
            obs["logs"] = sum(1 for r in self.handler.records if r.levelno >= logging.ERROR)
            obs["handler_saw"] = list(self.handler.seen_counters)
            obs["now"] = CLOCK.instant
            obs["task_errors"] = self.task_errors()
            obs["trace"] = list(self.trace)
            obs["arg_failures"] = list(self.arg_failures)
            obs["probes"] = list(self.probes)
            self.probes = []
            obs["cop_sel"] = list(self.cop_sel)
            self.cop_sel = []
            obs["prints"] = list(self.prints)
            self.prints = []
            # a coroutine deleted ANOTHER job at the very instant that job's coroutine started: which of the
            # two ready tasks runs first is the event loop's choice, not the scheduler's - not comparable
            starts = {(t, kk) for (t, kk, kind, _d) in self.events if kind == "S"}
            obs["ambiguous"] = any((t, tgt) in starts and actor != tgt for (t, actor, tgt) in self.del_events)
            self.del_events = []
            obs_list.append(obs)
        # wind down: cancel what is left
        try:
            self.sched.delete_jobs()
        except Exception:  # noqa: BLE001
            pass
        for _ in range(3):
            await asyncio.sleep(0)
        return obs_list

    # ---------------------------------------------------------------- the loop driven in slices
    def run_sliced(self, loop):
        """explicit-loop style: Scheduler(loop=loop), the loop runs in `run_until_complete` slices that end as soon as
        the driver's own future is done (other tasks may have steps queued), and between two slices synchronous code
        deletes jobs while no loop is running. Spec-only family (the model only knows idle points)."""
        import scheduler.asyncio as saio

        self.sched = saio.Scheduler(loop=loop, tzinfo=tz_of(self.scn.get("tz")), logger=self.logger)
        self.logger.handlers = [self.handler]
        self.cop_errors = []
        obs_list = self.obs_list = []

        async def inside(o):
            if o["op"] == "sch":
                o["clock"] = CLOCK.instant
                return ("j", self.do_sched(o, o.get("runs") or [self.dflt]))
            if o["op"] == "slice":
                # a slice that ends after `yields` trips through the ready queue, without waiting for the loop to get idle
                for _ in range(o.get("yields", 1)):
                    await asyncio.sleep(0)
                return ("u",)
            if o["op"] == "run":
                d = (o["until"] - CLOCK.instant) / 1e6
                await asyncio.sleep(d if d > 0 else 0)
                for _ in range(200000):
                    if not loop._ready:
                        break
                    await asyncio.sleep(0)
                return ("u",)
            raise ValueError(o["op"])

        for o in self.scn["ops"]:
            obs = {"res": None}
            self.events = []
            try:
                if o["op"] in ("sch", "slice", "run"):
                    obs["res"] = loop.run_until_complete(inside(o))
                elif o["op"] == "del":
                    self.sched.delete_job(self.created[o["key"]])          # no loop is running now
                    self.trace.append(("D", o["key"]))
                    obs["res"] = ("u",)
                elif o["op"] == "dtags":
                    before = set(self.key_of[id(j)] for j in self.sched.jobs)
                    obs["res"] = ("c", self.sched.delete_jobs(py_tags(o.get("tags"), "set"), bool(o.get("any", False))))
                    for kk in sorted(before - set(self.key_of[id(j)] for j in self.sched.jobs)):
                        self.trace.append(("D", kk))
                else:
                    raise ValueError(o["op"])
            except Exception as e:  # noqa: BLE001
                obs["res"] = ("e", err_kind(e))
                obs["exc"] = repr(e)[:200]
            obs.update({"events": list(self.events), "jobs": self.snapshot(), "logs": 0, "now": CLOCK.instant,
                        "task_errors": self.task_errors(), "trace": list(self.trace), "arg_failures": [], "probes": [], "prints": []})
            self.probes = []
            obs_list.append(obs)

        async def wind_down():
            try:
                self.sched.delete_jobs()
            except Exception:  # noqa: BLE001
                pass
            for _ in range(3):
                await asyncio.sleep(0)

        loop.run_until_complete(wind_down())
        return obs_list

    def run(self):
        loop = VirtualLoop(self.scn["clock0"])
        self.loop = loop

        def factory(lp, coro, **kw):
            t = asyncio.Task(coro, loop=lp, **kw)
            self.tasks.append(t)
            return t

        loop.set_task_factory(factory)
        loop.set_exception_handler(lambda lp, ctx: self.handler_calls.append(str(ctx.get("message"))))
        self.cur_obs = None
        try:
            asyncio.set_event_loop(loop)
            try:
                obs = self.run_sliced(loop) if self.scn.get("sliced") else loop.run_until_complete(self.drive(loop))
            except LoopSpin as e:
                # the implementation never lets the loop get idle (a job runs again and again at one
                # instant): report what was observed so far plus a marker observation
                obs = list(getattr(self, "obs_list", []))
                last = {"res": ("e", "LoopSpin"), "exc": str(e), "events": list(self.events[:400]), "jobs": {},
                        "logs": 0, "now": CLOCK.instant, "task_errors": [], "trace": list(self.trace[:400]),
                        "arg_failures": [], "spin": True}
                try:
                    last["jobs"] = self.snapshot()
                except Exception:  # noqa: BLE001
                    pass
                obs.append(last)
                for t in self.tasks:
                    t.cancel()
        finally:
            asyncio.set_event_loop(None)
            loop.close()
        return obs


def s_act(a):
    if a[0] == "sl":
        return f"sl {a[1]}"
    if a[0] == "ad":
        return f"ad {a[1]}"
    if a[0] == "at":
        return f"at {1 if a[1] else 0} {core.s_list(a[2] or [])}"
    if a[0] == "as":
        return "as " + core.s_spec(a[1])
    raise ValueError(a)


def s_runs(runs):
    parts = [str(len(runs))]
    for r in runs:
        acts = [a for a in r.get("acts", []) if a[0] != "st"]     # printing is an observation, not an action of the model
        parts.append(" ".join([str(len(acts))] + [s_act(a) for a in acts] + ["1" if r.get("raises") else "0"]))
    return " ".join(parts)


def s_aop(o, dflt):
    k = o["op"]
    if k == "sch":
        return f"asch {core.s_spec(o)} {s_runs(o.get('runs') or [dflt])}"
    if k == "run":
        return f"arun {o['until']} {o.get('fuel', 200000)}"
    if k == "del":
        return f"adel {o['key']}"
    if k == "dtags":
        return f"adtags {1 if o.get('any') else 0} {core.s_list(o.get('tags') or [])}"
    if k == "get":
        return f"aget {1 if o.get('any') else 0} {core.s_list(o.get('tags') or [])}"
    if k == "jobs":
        return "ajobs"
    raise ValueError(k)


def render(obs):
    r = obs["res"]
    if r[0] == "u":
        rs = "u"
    elif r[0] == "j":
        rs = f"j {r[1]}"
    elif r[0] == "c":
        rs = f"c {r[1]}"
    elif r[0] == "s":
        rs = ("s " + " ".join([str(len(r[1]))] + [str(x) for x in r[1]])).strip()
    else:
        rs = f"e {r[1]}"
    ev = " ; ".join(f"{t} {k} {kind} {due}" for (t, k, kind, due) in obs["events"])
    js = " ; ".join(f"{k} {v[0]} {v[1]} {v[2]} {v[3]} {v[4]} {v[5]}" for k, v in sorted(obs["jobs"].items()))
    return f"R {rs} | E {ev} | J {js} | L {obs['logs']} | T {obs['now']}"


def project(line):
    """events of different jobs at one instant may interleave either way: order by (time, key)"""
    if " | E " not in line:
        return line
    head, rest = line.split(" | E ", 1)
    ev, tail = rest.split(" | J ", 1)
    evs = [e.split() for e in ev.split(" ; ") if e.strip()]
    evs = [(int(e[0]), int(e[1]), i, e) for i, e in enumerate(evs)]
    evs.sort(key=lambda x: (x[0], x[1], x[2]))
    return head + " | E " + " ; ".join(" ".join(e[3]) for e in evs) + " | J " + tail


def run_scenario(scn):
    r = AioRunner(scn)
    obs = r.run()
    dflt = scn.get("dflt") or {"acts": [], "raises": False}
    dacts = dflt.get("acts", [])
    lines = [f"A {core.s_opt_int(scn.get('tz'))} {scn['clock0']} " + " ".join([str(len(dacts))] + [s_act(a) for a in dacts] + ["1" if dflt.get("raises") else "0"])]
    impl = ["A ok"]
    if scn.get("sliced"):
        for ob in obs:
            ob["handler_calls"] = list(r.handler_calls)
        return lines, impl, obs      # Spec-only family: slices end at points the model does not have
    for n, ob in enumerate(obs):
        if ob.get("ambiguous"):
            obs = obs[:n]       # keep the unambiguous prefix only
            break
    for o, ob in zip(scn["ops"], obs):
        if o["op"] == "mutate":
            continue            # caller-side mutation: not an operation of the model (value semantics)
        lines.append(s_aop(o, dflt))
        impl.append(render(ob))
    for ob in obs:
        ob["handler_calls"] = list(r.handler_calls)
    return lines, impl, obs
