"""
harness/framework.py — the generic check: Lean stage (build, forbidden-token scan, axiom audit),
tie stage (correspondence + spec oracle on implementation observations), failing-input search,
shrinking, known findings, verdict, evidence.
"""
from __future__ import annotations

import fcntl
import glob
import hashlib
import importlib
import json
import multiprocessing as mp
import os
import random
import re
import subprocess
import sys
import time
import traceback

from . import core, runlib

VERIF = core.VERIF
LEAN = os.path.join(VERIF, "lean")
ALLOWED_AXIOMS = {"propext", "Classical.choice", "Quot.sound"}
FORBIDDEN = re.compile(r"\b(sorry|admit|native_decide|bv_decide|implemented_by|unsafe)\b|^\s*axiom\s|maxHeartbeats\s+0\b", re.M)


# ------------------------------------------------------------------ Lean stage
def _strip_comments(src: str) -> str:
    src = re.sub(r"/-.*?-/", "", src, flags=re.S)
    src = re.sub(r"--.*", "", src)
    return src


def lean_build(targets=("SchedVerif",)):
    """build the driver and the given library targets (a property's check only depends on its own
    Props module: a broken proof elsewhere must not raise an alarm here)"""
    os.makedirs(os.path.join(VERIF, ".locks"), exist_ok=True)
    with open(os.path.join(VERIF, ".locks", "lake.lock"), "w") as lk:
        fcntl.flock(lk, fcntl.LOCK_EX)
        p = subprocess.run(["lake", "build", "driver"] + list(targets), cwd=LEAN, capture_output=True, text=True)
        return p.returncode == 0, (p.stdout + p.stderr)[-4000:]


def lean_modules_of(prop_file):
    """transitive local imports of a Props file (for the forbidden-token scan)"""
    seen, todo = set(), [prop_file]
    while todo:
        f = todo.pop()
        if f in seen or not os.path.exists(f):
            continue
        seen.add(f)
        for m in re.findall(r"^import\s+(SchedVerif[\w.]*)", open(f).read(), flags=re.M):
            todo.append(os.path.join(LEAN, m.replace(".", "/") + ".lean"))
    return sorted(seen)


def lean_stage(pid, extra_props=(), tier="quick"):
    """returns dict(ok, obligations, discharged, theorems, problems, checker_cmd)"""
    res = {"ok": True, "obligations": 0, "discharged": 0, "theorems": [], "problems": [], "axioms": {}}
    ok, log = lean_build([f"SchedVerif.Props.{pid}"] + [f"SchedVerif.Props.{p}" for p in extra_props])
    if not ok:
        res["ok"] = False
        res["problems"].append({"kind": "build", "detail": log[-1500:]})
        return res
    files = [os.path.join(LEAN, "SchedVerif", "Props", f"{pid}.lean")] + [
        os.path.join(LEAN, "SchedVerif", "Props", f"{p}.lean") for p in extra_props
    ]
    theorems = []
    for f in files:
        if not os.path.exists(f):
            res["ok"] = False
            res["problems"].append({"kind": "missing", "detail": f})
            return res
        src = _strip_comments(open(f).read())
        theorems += re.findall(r"^theorem\s+(C\d\d\.[\w.']+)", src, flags=re.M)
    for f in lean_modules_of(files[0]):
        hits = FORBIDDEN.findall(_strip_comments(open(f).read()))
        if hits:
            res["ok"] = False
            res["problems"].append({"kind": "forbidden-token", "detail": f"{os.path.relpath(f, VERIF)}: {hits[:3]}"})
    mods = [f"SchedVerif.Props.{pid}"] + [f"SchedVerif.Props.{p}" for p in extra_props]
    audit = "\n".join(f"import {m}" for m in mods) + "\nopen SV\n" + "\n".join(f"#print axioms SV.{t}" for t in theorems) + "\n"
    adir = os.path.join(LEAN, ".lake", "audit")
    os.makedirs(adir, exist_ok=True)
    apath = os.path.join(adir, f"Audit_{pid}_{os.getpid()}.lean")
    open(apath, "w").write(audit)
    p = subprocess.run(["lake", "env", "lean", apath], cwd=LEAN, capture_output=True, text=True)
    os.unlink(apath)
    out = p.stdout + p.stderr
    res["checker_cmd"] = f"cd lean && lake build SchedVerif driver && lake env lean <audit file: #print axioms for the {len(theorems)} theorems of Props/{pid}.lean>"
    res["obligations"] = len(theorems)
    res["theorems"] = theorems
    for t in theorems:
        m = re.search(r"'SV\." + re.escape(t) + r"' depends on axioms: \[([^\]]*)\]", out)
        if m:
            ax = {a.strip() for a in m.group(1).replace("\n", " ").split(",") if a.strip()}
        elif re.search(r"'SV\." + re.escape(t) + r"' does not depend on any axioms", out):
            ax = set()
        else:
            res["ok"] = False
            res["problems"].append({"kind": "audit-missing", "detail": t})
            continue
        res["axioms"][t] = sorted(ax)
        if ax <= ALLOWED_AXIOMS:
            res["discharged"] += 1
        else:
            res["ok"] = False
            res["problems"].append({"kind": "axiom", "detail": f"{t}: {sorted(ax - ALLOWED_AXIOMS)}"})
    if p.returncode != 0 and res["ok"]:
        res["ok"] = False
        res["problems"].append({"kind": "audit", "detail": out[-1500:]})
    if not theorems:
        res["ok"] = False
        res["problems"].append({"kind": "no-theorems", "detail": files[0]})
    if tier == "thorough" and res["ok"]:
        # independent re-check of the compiled proofs
        lc = subprocess.run(["lake", "env", "leanchecker"] + mods, cwd=LEAN, capture_output=True, text=True)
        res["leanchecker"] = "ok" if lc.returncode == 0 else (lc.stdout + lc.stderr)[-800:]
        if lc.returncode != 0:
            res["ok"] = False
            res["problems"].append({"kind": "leanchecker", "detail": res["leanchecker"]})
        res["checker_cmd"] += f" && lake env leanchecker {' '.join(mods)}"
    return res


# ------------------------------------------------------------------ tie stage
def _scn_hash(scn):
    return hashlib.sha1(json.dumps(runlib.strip_private(scn), sort_keys=True).encode()).hexdigest()


def evaluate(mod, scns):
    """run scenarios on implementation + model, evaluate the Spec oracle on implementation output.
    returns list of records {scn, diff, spec_fail, classes, nontrivial, nops, error}"""
    out = []
    try:
        results = runlib.run_batch(scns, runner=mod.runner, project=getattr(mod, "project", None))
    except Exception:  # infrastructure problem: re-raise with context
        raise
    # spec oracle: collect all queries, one driver call
    queries, owners = [], []
    for ri, r in enumerate(results):
        try:
            qs = mod.specs(r)
        except Exception as e:  # noqa: BLE001
            qs = []
            r["spec_error"] = f"{type(e).__name__}: {e}"
        for q in qs:
            queries.append(q[0])
            owners.append((ri, q))
    answers = core.run_driver(queries) if queries else []
    fails = {}
    for (ri, q), a in zip(owners, answers):
        if a.strip() != "ok":
            fails.setdefault(ri, []).append({"query": q[0], "answer": a, "info": q[1] if len(q) > 1 else None})
    for ri, r in enumerate(results):
        direct = []
        if hasattr(mod, "direct_specs"):
            direct = mod.direct_specs(r) or []
        spin = [ob for ob in r["obs"] if isinstance(ob, dict) and ob.get("spin")]
        if spin:
            # asyncio front end: the event loop never became idle - some job is invoked again and again
            # at one instant (no due time, budget or containment statement survives that)
            direct = direct + [{"info": {"what": "event loop never idle: a job keeps running at one instant", "detail": spin[0].get("exc"),
                                         "starts": [e for e in spin[0].get("events", []) if e[2] == "S"][:6]}}]
        rec = {
            "scn": r["scn"],
            "diff": runlib.explain(r) if r["diff"] is not None else None,
            "spec_fail": (fails.get(ri, []) + direct) or None,
            "classes": mod.classes(r) if hasattr(mod, "classes") else [],
            "nontrivial": bool(mod.nontrivial(r)) if hasattr(mod, "nontrivial") else True,
            "nops": max(0, len(r["lines"]) - 1),
            "nspecs": 0,
            "sample": r["lines"][: 6],
            "spec_error": r.get("spec_error"),
        }
        out.append(rec)
    nq = {}
    for ri, _ in owners:
        nq[ri] = nq.get(ri, 0) + 1
    for ri, rec in enumerate(out):
        rec["nspecs"] = nq.get(ri, 0)
        if hasattr(mod, "direct_count"):
            rec["nspecs"] += mod.direct_count(results[ri])
    return out


def _worker(args):
    modname, seed, n, tier = args
    try:
        mod = importlib.import_module(modname)
        rng = random.Random(seed)
        scns = list(mod.scenarios(rng, n, tier))
        recs = evaluate(mod, scns)
        return {"ok": True, "recs": _summarise(recs)}
    except Exception:  # noqa: BLE001
        return {"ok": False, "error": traceback.format_exc()[-3000:]}


def _summarise(recs):
    """keep full data only for failing records (cheap to ship between processes)"""
    s = {"n": len(recs), "ops": 0, "specs": 0, "classes": {}, "hashes": [], "fail": [], "samples": [], "spec_errors": []}
    for r in recs:
        s["ops"] += r["nops"]
        s["specs"] += r["nspecs"]
        for c in r["classes"]:
            s["classes"][c] = s["classes"].get(c, 0) + 1
        if r["nontrivial"]:
            s["hashes"].append(_scn_hash(r["scn"]))
        if r["diff"] or r["spec_fail"]:
            s["fail"].append({"scn": runlib.strip_private(r["scn"]), "diff": r["diff"], "spec_fail": r["spec_fail"]})
        if r["spec_error"]:
            s["spec_errors"].append(r["spec_error"])
    s["samples"] = [r["sample"] for r in recs[:2]]
    return s


def _merge(a, b):
    a["n"] += b["n"]
    a["ops"] += b["ops"]
    a["specs"] += b["specs"]
    for k, v in b["classes"].items():
        a["classes"][k] = a["classes"].get(k, 0) + v
    a["hashes"] += b["hashes"]
    a["fail"] += b["fail"]
    a["spec_errors"] += b["spec_errors"]
    if len(a["samples"]) < 3:
        a["samples"] += b["samples"][:1]
    return a


def explore(modname, seed, total, tier, procs):
    """generate and evaluate `total` scenarios on `procs` processes"""
    chunk = max(1, min(400, total // max(1, procs)))
    jobs, left, i = [], total, 0
    while left > 0:
        n = min(chunk, left)
        jobs.append((modname, seed * 1_000_003 + i, n, tier))
        left -= n
        i += 1
    acc = {"n": 0, "ops": 0, "specs": 0, "classes": {}, "hashes": [], "fail": [], "samples": [], "spec_errors": []}
    if procs <= 1 or len(jobs) == 1:
        outs = [_worker(j) for j in jobs]
    else:
        ctx = mp.get_context("fork")
        with ctx.Pool(procs) as pool:
            outs = pool.map(_worker, jobs)
    for o in outs:
        if not o["ok"]:
            raise RuntimeError("worker failed:\n" + o["error"])
        _merge(acc, o["recs"])
    return acc


# ------------------------------------------------------------------ shrinking
def _renumber_after_drop(ops, dropped_key):
    """keys above a dropped scheduling op shift down by one"""
    def fix(k):
        return k - 1 if k > dropped_key else k
    out = []
    for o in ops:
        o = json.loads(json.dumps(o))
        if o["op"] == "exec":
            if "rel" in o:
                if o["rel"][0] == dropped_key:
                    o.pop("rel")
                else:
                    o["rel"][0] = fix(o["rel"][0])
            if o.get("raises"):
                o["raises"] = [fix(k) for k in o["raises"] if k != dropped_key]
            if o.get("scripts"):
                ns = {}
                for k, v in o["scripts"].items():
                    if int(k) == dropped_key:
                        continue
                    ns[str(fix(int(k)))] = [dict(c, key=fix(c["key"])) if c.get("op") == "del" and c["key"] != dropped_key else c for c in v if not (c.get("op") == "del" and c["key"] == dropped_key)]
                o["scripts"] = ns
        elif o["op"] == "del":
            if o["key"] == dropped_key:
                continue
            o["key"] = fix(o["key"])
        out.append(o)
    return out


def shrink(scn, still_fails, budget=150, seconds=75.0):
    """greedy: drop trailing ops, then single ops (renumbering keys), then simplify fields; bounded by a number of
    attempts and by wall time (an implementation that hangs makes every attempt slow)"""
    scn = json.loads(json.dumps(runlib.strip_private(scn)))
    tries = 0
    deadline = time.time() + seconds

    def attempt(cand):
        nonlocal tries
        tries += 1
        if tries > budget or time.time() > deadline:
            return False
        try:
            return still_fails(json.loads(json.dumps(cand)))
        except Exception:  # noqa: BLE001
            return False

    changed = True
    while changed and tries < budget:
        changed = False
        ops = scn.get("ops", [])
        for i in range(len(ops) - 1, -1, -1):
            o = ops[i]
            rest = ops[:i] + ops[i + 1:]
            if o["op"] == "sch":
                key = sum(1 for p in ops[:i] if p["op"] == "sch")
                rest = ops[:i] + _renumber_after_drop(ops[i + 1:], key)
            cand = dict(scn, ops=rest)
            if attempt(cand):
                scn = cand
                changed = True
                break
    # scenarios that carry a plain list of jobs (rendering): drop jobs one by one
    changed = True
    while changed and tries < budget and isinstance(scn.get("jobs"), list):
        changed = False
        for i in range(len(scn["jobs"]) - 1, -1, -1):
            cand = dict(scn, jobs=scn["jobs"][:i] + scn["jobs"][i + 1:])
            if attempt(cand):
                scn = cand
                changed = True
                break
    # simplify fields of scheduling ops
    for i, o in enumerate(scn.get("ops", [])):
        if o["op"] != "sch":
            continue
        for field, val in (("tags", None), ("w", [1, 1]), ("stop", None), ("skip", False), ("max_att", 0)):
            if o.get(field) not in (None, val):
                cand = json.loads(json.dumps(scn))
                if val is None:
                    cand["ops"][i].pop(field, None)
                else:
                    cand["ops"][i][field] = val
                if attempt(cand):
                    scn = cand
    return scn


# ------------------------------------------------------------------ known findings
def load_known(pid):
    path = os.path.join(VERIF, "known_findings.json")
    if not os.path.exists(path):
        return []
    data = json.load(open(path))
    return [e for e in data.get("findings", []) if e.get("property") == pid]


# ------------------------------------------------------------------ evidence
def write_evidence(pid, tier, seed, cov, wall, violations, assumptions):
    os.makedirs(os.path.join(VERIF, "evidence"), exist_ok=True)
    ev = {
        "property_id": pid,
        "tier": tier,
        "seed": seed,
        "level": "proof",
        "coverage": cov,
        "assumptions": assumptions,
        "wall_s": round(wall, 2),
        "violations": violations,
    }
    tmp = os.path.join(VERIF, "evidence", f".{pid}.json.tmp")
    json.dump(ev, open(tmp, "w"), indent=1, sort_keys=True, default=str)
    os.replace(tmp, os.path.join(VERIF, "evidence", f"{pid}.json"))


def write_replay(pid, seed, n, payload):
    d = os.path.join(VERIF, "replays")
    os.makedirs(d, exist_ok=True)
    path = os.path.join(d, f"{pid}-{seed}-{n}.json")
    json.dump(payload, open(path, "w"), indent=1, default=str)
    return os.path.relpath(path, VERIF)
