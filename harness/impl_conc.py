"""
harness/impl_conc.py — run several controlled threads against one real threading Scheduler under a
chosen interleaving (cooperative locks / queue / threads, optional line-level preemption).
"""
from __future__ import annotations

import datetime as _dt
import logging
import random
import sys
import warnings
from fractions import Fraction

from . import coop, core
from .core import CLOCK, from_loc, inst_of, tz_of
from .impl_thr import CALLS, _CountHandler, err_kind, py_tags, py_timing

_TOOL = 3  # sys.monitoring tool id


_STUCK = {"n": 0, "why": None}


class _TrackedSet(set):
    """the registry under observation: every in-place mutation is reported as a write (results of `-`, `|`, `.copy()`
    are plain sets again)"""
    _report = None

    def _w(self):
        if self._report is not None:
            self._report("write")

    def add(self, x):
        self._w(); return set.add(self, x)

    def remove(self, x):
        self._w(); return set.remove(self, x)

    def discard(self, x):
        self._w(); return set.discard(self, x)

    def pop(self):
        self._w(); return set.pop(self)

    def clear(self):
        self._w(); return set.clear(self)

    def update(self, *a):
        self._w(); return set.update(self, *a)

    def difference_update(self, *a):
        self._w(); return set.difference_update(self, *a)

    def intersection_update(self, *a):
        self._w(); return set.intersection_update(self, *a)

    def symmetric_difference_update(self, a):
        self._w(); return set.symmetric_difference_update(self, a)

    def __ior__(self, a):
        self._w(); return set.__ior__(self, a)

    def __iand__(self, a):
        self._w(); return set.__iand__(self, a)

    def __isub__(self, a):
        self._w(); return set.__isub__(self, a)

    def __ixor__(self, a):
        self._w(); return set.__ixor__(self, a)


def track_registry(sched, events):
    """observe every access to the threading scheduler's registry attribute (`self.__jobs`): reads (the attribute is
    evaluated), writes (it is rebound, or the set is mutated in place), with the thread, the public call in progress,
    whether that thread holds the registry lock and in which critical section.  Returns False when the implementation
    keeps its registry elsewhere (nothing is observed then, and nothing is claimed)."""
    name, lname = "_Scheduler__jobs", "_Scheduler__jobs_lock"
    d = sched.__dict__
    if not isinstance(d.get(name), set) or not isinstance(d.get(lname), coop.CoRLock):
        return False
    lock = d[lname]

    def report(kind):
        c = coop.controller()
        st = c.current if c else None
        if st is None or getattr(c, "aborting", False):
            return
        held = lock.owner is st
        events.append((st.tid, getattr(st, "cur_call", None), kind, held, getattr(lock, "serial", 0) if held else None))

    def wrap(v):
        t = _TrackedSet(v)
        t._report = report
        return t

    def fget(obj):
        report("read")
        return obj.__dict__[name]

    def fset(obj, v):
        report("write")
        obj.__dict__[name] = wrap(v) if isinstance(v, set) else v

    d[name] = wrap(d[name])
    cls = type(sched)
    sched.__class__ = type(cls.__name__, (cls,), {name: property(fget, fset), "__module__": cls.__module__, "__qualname__": cls.__qualname__})
    return True


def registry_discipline(events):
    """the hypotheses of the reduction theorem (C14.locked_sections_atomic), on the observed accesses:
    (W) the registry is written only by a thread that holds the registry lock;
    (S) all registry accesses of one scheduling / delete_job / delete_jobs call lie in ONE critical section
        (a value read in an earlier section and written back in a later one is a lost update waiting to happen)."""
    bad = []
    for (tid, call, kind, held, serial) in events:
        if kind == "write" and not held:
            bad.append(["write-without-registry-lock", tid, list(call) if call else None])
            break
    per_call = {}
    for (tid, call, kind, held, serial) in events:
        if call is not None and call[-1] in ("sch", "del", "dtags"):
            per_call.setdefault((tid, call), []).append((kind, held, serial))
    for (tid, call), evs in per_call.items():
        if any(k == "write" for k, _h, _s in evs) and (not all(h for _k, h, _s in evs) or len({s_ for _k, _h, s_ in evs}) > 1):
            bad.append(["read-and-write-in-different-critical-sections", tid, list(call)])
            break
    return bad


class ConcRunner:
    def __init__(self, scn):
        core.install_clock()
        coop.install()
        self.scn = scn
        self.created = []
        self.key_of = {}
        self.cells = []
        self.records = []          # completed calls: dict(thread, op, inv, res, result, ...)
        self.invocations = []      # (key, exec_id or None, worker tid)
        self.clock = 0
        self.handler = _CountHandler()
        self.logger = logging.getLogger(f"verif.conc.{id(self)}")
        self.logger.handlers = [self.handler]
        self.logger.propagate = False
        self.logger.setLevel(logging.DEBUG)
        self.running_now = 0
        self.max_parallel = 0
        self.self_overlap = False
        self.barriers = {}

    # ---------------------------------------------------------------- callbacks
    def tick(self):
        self.clock += 1
        return self.clock

    def make_cb(self, cell):
        runner = self

        def cb(*args, **kwargs):
            ctrl = coop.controller()
            key = cell["key"]
            st = ctrl.current
            exec_id = getattr(st, "exec_id", None) if st is not None else None
            runner.invocations.append((key, exec_id, st.tid if st else -1))
            if st is not None:
                ctrl.trace.append((st.tid, "cb", key))
            dn = getattr(runner, "due_nolock", None)
            runner.inv_dues.append((key, dn(cell["job"]) if dn and cell.get("job") is not None else None))
            if cell.get("active"):
                runner.self_overlap = True
            cell["active"] = True
            cell["entered"] = True
            runner.running_now += 1
            runner.max_parallel = max(runner.max_parallel, runner.running_now)
            try:
                ctrl.yield_point("cb-enter", key)
                # a callback that takes a while (other threads get that many turns meanwhile)
                for _w in range(runner.scn.get("cb_len", 0)):
                    ctrl.yield_point("cb-work", key)
                w = cell.get("wait_for")
                if w is not None:
                    # block until another job's callback has been entered (a free worker must pick that job up)
                    ctrl.block_until(lambda: w < len(runner.cells) and bool(runner.cells[w].get("entered")), f"wait_for(job{w})")
                b = cell.get("barrier")
                if b is not None:
                    bar = runner.barriers[b]
                    bar["arrived"] += 1
                    ctrl.block_until(lambda: bar["arrived"] >= bar["n"], f"barrier{b}")
                for c in cell.get("script") or []:
                    runner.run_cop(c)
                ctrl.yield_point("cb-exit", key)
                if cell.get("raises"):
                    raise ValueError("scripted failure")
            finally:
                runner.running_now -= 1
                cell["active"] = False

        cb.__qualname__ = "cb"
        return cb

    def run_cop(self, c):
        k = c["op"]
        st_ = coop.controller().current if coop.controller() else None
        prev_call = getattr(st_, "cur_call", None) if st_ is not None else None
        if st_ is not None:
            self.cop_serial = getattr(self, "cop_serial", 0) + 1
            st_.cur_call = ("cb", self.cop_serial, k)
        try:
            self._run_cop(c)
        finally:
            if st_ is not None:
                st_.cur_call = prev_call

    def _run_cop(self, c):
        k = c["op"]
        try:
            self.__run_cop(c)
            self.cop_results.append((k, c.get("key"), "ok"))
        except coop.Abort:
            raise
        except Exception as e:  # a scripted op may legitimately fail (e.g. delete twice): recorded, then swallowed
            self.cop_results.append((k, c.get("key"), err_kind(e)))

    def __run_cop(self, c):
        k = c["op"]
        if True:
            if k == "sch":
                self.do_sched(c)
            elif k == "del":
                self.sched.delete_job(self.created[c["key"]])
            elif k == "dtags":
                self.sched.delete_jobs(py_tags(c.get("tags"), "set"), bool(c.get("any", False)))
            elif k == "get":
                self.sched.get_jobs(py_tags(c.get("tags"), "set"), bool(c.get("any", False)))
            elif k == "str":
                str(self.sched)
            elif k == "jobs":
                _ = self.sched.jobs

    def do_sched(self, o):
        call = CALLS[o["call"]]
        ts = [py_timing(t) for t in o["timings"]]
        timing = ts if o.get("is_list") else ts[0]
        cell = {"script": o.get("script"), "barrier": o.get("barrier"), "raises": o.get("raises"), "wait_for": o.get("wait_for")}
        cb = self.make_cb(cell)
        kw = {}
        tags = py_tags(o.get("tags"), None)
        if tags is not None:
            kw["tags"] = tags
        if o.get("pass_sched"):
            kw["args"] = (self.sched,)      # the usual way a callback gets hold of its scheduler
        if call != "once":
            if o.get("max_att", 0):
                kw["max_attempts"] = o["max_att"]
            if o.get("start") is not None:
                kw["start"] = from_loc(*o["start"])
            if o.get("skip"):
                kw["skip_missing"] = True
            if o.get("stop") is not None:
                kw["stop"] = from_loc(*o["stop"])
        with warnings.catch_warnings():
            warnings.simplefilter("ignore")
            job = getattr(self.sched, call)(timing, cb, **kw)
        key = len(self.created)
        cell["key"], cell["job"] = key, job
        st = coop.controller().current if coop.controller() else None
        cell["created_by_exec"] = getattr(st, "exec_id", None) if st is not None else None
        self.created.append(job)
        self.key_of[id(job)] = key
        self.cells.append(cell)
        # (reading the due time takes the job's lock = a point where other controlled threads may run: only now)
        self.stable.append((id(job), inst_of(job.datetime)))
        return key

    # ---------------------------------------------------------------- user threads
    def thread_body(self, ti, ops):
        def body():
            ctrl = coop.controller()
            for oi, o in enumerate(ops):
                rec = {"thread": ti, "index": oi, "op": o["op"], "args": {k: v for k, v in o.items() if k != "op"}}
                ctrl.yield_point("call", o["op"])
                rec["inv"] = self.tick()
                st = ctrl.current
                st.cur_call = (ti, oi, o["op"])
                try:
                    k = o["op"]
                    if k == "exec":
                        st.exec_id = rec["exec_id"] = len(self.records) * 100 + ti
                        self.cur_exec_of_thread[st.tid] = rec["exec_id"]
                        rec["result"] = ("c", self.sched.exec_jobs(force_exec_all=bool(o.get("force"))))
                    elif k == "sch":
                        rec["result"] = ("j", self.do_sched(o))
                    elif k == "del":
                        if o["key"] < len(self.created):
                            target = self.created[o["key"]]
                        else:
                            from scheduler.threading.scheduler import Scheduler as _S
                            target = self.foreign
                        self.sched.delete_job(target)
                        rec["result"] = ("u",)
                    elif k == "dtags":
                        rec["result"] = ("c", self.sched.delete_jobs(py_tags(o.get("tags"), "set"), bool(o.get("any", False))))
                    elif k == "get":
                        r = self.sched.get_jobs(py_tags(o.get("tags"), "set"), bool(o.get("any", False)))
                        rec["result"] = ("s*", list(r))          # keys are resolved after the run
                    elif k == "jobs":
                        rec["result"] = ("s*", list(self.sched.jobs))
                    elif k == "due":
                        # another thread reads the due time a job reports (datetime, and timedelta to a fixed instant)
                        job = self.created[o["key"]]
                        seen = []
                        for _rep in range(o.get("reps", 1)):
                            d = inst_of(job.datetime)
                            td = job.timedelta(from_loc(CLOCK.instant + (self.scn.get("tz") or 0), self.scn.get("tz")))
                            seen.append(d)
                            seen.append(CLOCK.instant + round(td.total_seconds() * 1e6))
                            ctrl.yield_point("reader", o["key"])     # the other threads get a turn between two reads
                        rec["result"] = ("d", sorted(set(seen)))
                    elif k == "str":
                        text = str(self.sched)
                        n = int(text.split("#jobs=")[1].split("\n")[0])
                        # number of table rows = non-empty lines below the dashed separator row
                        lines = text.split("\n")
                        sep = max((i for i, ln in enumerate(lines) if ln.strip() and set(ln.strip()) <= set("- ")), default=len(lines) - 1)
                        rows = sum(1 for ln in lines[sep + 1:] if ln.strip())
                        rec["result"] = ("n", n, rows)
                    elif k == "repr":
                        repr(self.sched)
                        rec["result"] = ("u",)
                    else:
                        raise ValueError(k)
                except coop.Abort:
                    raise
                except Exception as e:  # noqa: BLE001
                    rec["result"] = ("e", err_kind(e), repr(e)[:120])
                    if coop.is_shim_error(e):
                        self.uncontrollable = f"{type(e).__name__}: {e}"
                st.cur_call = None
                rec["res"] = self.tick()
                ctrl.yield_point("return", o["op"])
                self.records.append(rec)
        return body

    def run(self):
        scn = self.scn
        if _STUCK["n"] >= 2:
            # this implementation blocks the controller again and again (45 s of real time each): the remaining controlled
            # scenarios of this process are not attempted - the tie is broken, which is what gets reported
            return {"uncontrollable": _STUCK["why"], "deadlock": None, "error": None, "records": [], "invocations": [], "schedule": [],
                    "edges": [], "wait_violations": [], "left_holding": [], "selected": {}, "init": [], "final": [], "jobs": {},
                    "registry_discipline": [], "trace_len": 0, "max_parallel": 0, "self_overlap": False, "logs": 0}
        rng = random.Random(scn.get("sched", {}).get("seed", 0))
        kind = scn.get("sched", {}).get("kind", "random")
        if kind == "replay":
            chooser = coop.replay_chooser(scn["sched"]["seq"], coop.random_chooser(rng))
        elif kind == "pause":
            chooser = coop.pause_chooser(scn["sched"].get("victim", 0), scn["sched"].get("at", 5), coop.random_chooser(rng))
        elif kind == "pct":
            chooser = coop.pct_chooser(rng, depth=scn["sched"].get("depth", 3))
        else:
            chooser = coop.random_chooser(rng)
        ctrl = coop.Controller(chooser, max_steps=scn.get("max_steps", 60000))
        coop.set_controller(ctrl)
        self.cur_exec_of_thread = {}
        CLOCK.instant = scn["clock0"]
        from scheduler.threading.scheduler import Scheduler

        self.sched = Scheduler(tzinfo=tz_of(scn.get("tz")), max_exec=scn.get("max_exec", 0),
                               n_threads=scn.get("n_threads", 1), logger=self.logger)
        self.inv_dues = []
        self.cop_results = []
        self.reg_events = []
        self.reg_tracked = track_registry(self.sched, self.reg_events)
        # observe the batch each exec_jobs call selects (argument of the private __exec_jobs)
        self.selected = {}
        self.stable = []           # (id(job), due instant) at creation and after every completed rescheduling
        orig_exec = getattr(self.sched, "_Scheduler__exec_jobs", None)

        def spy_exec(jobs, ref_dt, *a_, **k_):
            st = coop.controller().current
            eid = getattr(st, "exec_id", None) if st is not None else None
            try:
                self.selected[eid] = list(jobs)
            except TypeError:
                pass
            return orig_exec(jobs, ref_dt, *a_, **k_)

        if callable(orig_exec):
            # (an implementation that organises exec_jobs differently is simply not observed here: the batch is then taken
            # from the invocations)
            self.sched._Scheduler__exec_jobs = spy_exec
        # ground truth for concurrent readers: the instant every JobTimer holds at the END of each calc_next_exec,
        # taken under the timer's own (re-entrant) lock, i.e. never a half-done value
        import scheduler.base.job_timer as _bt
        self._orig_calc = _bt.JobTimer.__dict__["calc_next_exec"]
        runner_ = self

        def calc_next_exec(timer, *a, **k):
            lk = timer.__dict__.get("_JobTimer__lock")
            if lk is None or "_JobTimer__next_exec" not in timer.__dict__:
                return runner_._orig_calc(timer, *a, **k)        # timers organised differently: no timer-level samples
            with lk:
                ret = runner_._orig_calc(timer, *a, **k)
                runner_.timer_vals.append((id(timer), inst_of(timer._JobTimer__next_exec)))
            return ret

        calc_next_exec.__wrapped__ = self._orig_calc
        self.timer_vals = []
        _bt.JobTimer.calc_next_exec = calc_next_exec
        # job-level ground truth: the due instant of a job at the end of each of its completed reschedulings
        # (Job._calc_next_exec), with a logical time stamp; read from the private fields without taking a lock
        import scheduler.threading.job as _tj
        self._orig_jcalc = _tj.Job.__dict__.get("_calc_next_exec")
        self.job_vals = []

        def due_nolock(job):
            try:
                d = job.__dict__
                if not d["_BaseJob__delay"] and d["_BaseJob__attempts"] == 0:
                    return inst_of(d["_BaseJob__start"])
                return inst_of(d["_BaseJob__pending_timer"].__dict__["_JobTimer__next_exec"])
            except Exception:  # noqa: BLE001 - the implementation keeps its state elsewhere: no ground truth
                return None

        self.due_nolock = due_nolock
        if self._orig_jcalc is not None:
            def job_calc(job, *a, **k):
                t0 = runner_.tick()      # the new value may be visible to others from here on
                ret = runner_._orig_jcalc(job, *a, **k)
                v_ = due_nolock(job)
                runner_.job_vals.append((id(job), t0, v_))
                c_ = coop.controller()
                if c_ is not None and c_.current is not None:
                    c_.trace.append((c_.current.tid, "resched", (id(job), v_)))
                return ret

            job_calc.__wrapped__ = self._orig_jcalc
            _tj.Job._calc_next_exec = job_calc
        # a job this scheduler has never seen (created before the controlled phase)
        self.foreign = Scheduler(tzinfo=tz_of(scn.get("tz"))).cyclic(_dt.timedelta(days=400), lambda: None)
        for b, n in (scn.get("barriers") or {}).items():
            self.barriers[int(b)] = {"n": n, "arrived": 0}
        for o in scn.get("jobs", []):
            self.do_sched(o)
        init = sorted(self.key_of[id(j)] for j in self.sched.jobs)
        CLOCK.instant = scn["clock0"] + scn.get("advance", 0)

        # worker threads inherit the exec id of the thread that spawned them
        orig_new = ctrl.new_thread

        def new_thread(target, name):
            st = orig_new(target, name)
            parent = ctrl.current
            if parent is not None and getattr(parent, "exec_id", None) is not None:
                st.exec_id = parent.exec_id
            return st

        ctrl.new_thread = new_thread
        mon = scn.get("line_preempt")
        if mon:
            self._install_line_preemption(ctrl)
        out = {"deadlock": None, "error": None}
        self.uncontrollable = None
        try:
            ctrl.run([(f"t{ti}", self.thread_body(ti, ops)) for ti, ops in enumerate(scn["threads"])])
        except coop.Deadlock as e:
            out["deadlock"] = e.waits
        except Exception as e:  # noqa: BLE001
            out["error"] = f"{type(e).__name__}: {e}"
            if coop.is_shim_error(e):
                self.uncontrollable = out["error"]
        finally:
            if getattr(ctrl, "foreign", None):
                self.uncontrollable = ctrl.foreign
                if "stuck" in str(ctrl.foreign):
                    _STUCK["n"] += 1
                    _STUCK["why"] = ctrl.foreign
            for t_ in ctrl.threads:
                if t_.exc is not None and coop.is_shim_error(t_.exc):
                    self.uncontrollable = f"{type(t_.exc).__name__}: {t_.exc}"
            if mon:
                self._remove_line_preemption()
            coop.set_controller(None)
            _bt.JobTimer.calc_next_exec = self._orig_calc
            if self._orig_jcalc is not None:
                _tj.Job._calc_next_exec = self._orig_jcalc
        for rec in self.records:
            if rec.get("result", ("",))[0] == "s*":
                rec["result"] = ("s", sorted(self.key_of.get(id(j), 10**6) for j in rec["result"][1]))
        out["selected"] = {str(e): sorted(self.key_of.get(id(j), 10**6) for j in js) for e, js in self.selected.items()}
        out["created_by_exec"] = {k: c.get("created_by_exec") for k, c in enumerate(self.cells)}
        out["init"] = init
        stable = {}
        for (jid, due) in self.stable:
            stable.setdefault(self.key_of.get(jid, -1), set()).add(due)
        timer_owner = {}
        for k, j in enumerate(self.created):
            for t in getattr(j, "_BaseJob__timers", []):
                timer_owner[id(t)] = k
        ntimers = {k: len(getattr(j, "_BaseJob__timers", [])) for k, j in enumerate(self.created)}
        job_level_ok = self._orig_jcalc is not None and all(v is not None for (_j, _t, v) in self.job_vals)
        for (tid_, val) in self.timer_vals:
            # a job with ONE timer is due when that timer is; with several timers the due time is their minimum, which only
            # the job-level samples below give (a single timer's value is not a due time of the job)
            if tid_ in timer_owner and (ntimers.get(timer_owner[tid_], 1) <= 1 or not job_level_ok):
                stable.setdefault(timer_owner[tid_], set()).add(val)
        timeline = {}
        for k, j in enumerate(self.created):
            timeline[k] = []
        for (jid, due) in self.stable:
            if jid in self.key_of:
                timeline[self.key_of[jid]].append((0, due))
        for (jid, tick, val) in self.job_vals:
            if jid in self.key_of and val is not None:
                stable.setdefault(self.key_of[jid], set()).add(val)
                timeline[self.key_of[jid]].append((tick, val))
        out["stable_dues"] = {k: sorted(v) for k, v in stable.items()}
        out["due_timeline"] = timeline if job_level_ok else None
        out["now"] = CLOCK.instant
        out["records"] = self.records
        out["invocations"] = self.invocations
        out["inv_dues"] = self.inv_dues
        out["cop_results"] = list(self.cop_results)
        out["reschedulings"] = {}
        for (jid, _t, _v) in self.job_vals:
            if jid in self.key_of:
                out["reschedulings"][self.key_of[jid]] = out["reschedulings"].get(self.key_of[jid], 0) + 1
        out["stops"] = {k: (inst_of(j.stop) if getattr(j, "stop", None) is not None else None) for k, j in enumerate(self.created)}
        # invocations that started although the job's retirement by its stop had been completed before the worker even took
        # the job's execution lock (the guard under that lock must have seen it): positions in the global trace
        late = []
        try:
            xname = {k: j._Job__exec_lock.name for k, j in enumerate(self.created)}
            for pos, ev in enumerate(ctrl.trace):
                if ev[1] != "cb":
                    continue
                tid, k = ev[0], ev[2]
                stop = out["stops"].get(k)
                if stop is None or k not in xname:
                    continue
                acq = max((p for p in range(pos) if ctrl.trace[p][0] == tid and ctrl.trace[p][1] == "acq" and ctrl.trace[p][2] == xname[k]), default=None)
                if acq is None:
                    continue
                for p in range(acq):
                    e2 = ctrl.trace[p]
                    if e2[1] == "resched" and self.key_of.get(e2[2][0]) == k and e2[2][1] is not None and e2[2][1] > stop:
                        late.append([k, e2[2][1], stop])
                        break
            out["invoked_after_retirement"] = late
        except Exception:  # noqa: BLE001 - the implementation has no per-job execution lock of that name: clause not evaluated
            out["invoked_after_retirement"] = None
        out["schedule"] = list(ctrl.schedule)
        out["trace_len"] = len(ctrl.trace)
        out["edges"] = sorted(ctrl.edges)
        out["wait_violations"] = list(ctrl.wait_violations)
        out["left_holding"] = [(t.name, list(t.held)) for t in ctrl.threads if t.finished and t.held and not out["deadlock"]]
        out["registry_accesses"] = len(self.reg_events) if self.reg_tracked else None
        out["registry_discipline"] = registry_discipline(self.reg_events) if self.reg_tracked else []
        out["max_parallel"] = self.max_parallel
        out["self_overlap"] = self.self_overlap
        try:
            out["final"] = sorted(self.key_of[id(j)] for j in self.sched.jobs)
            out["jobs"] = {k: (j.attempts, j.failed_attempts, 1 if j.has_attempts_remaining else 0, j.max_attempts, inst_of(j.datetime))
                           for k, j in enumerate(self.created)}
        except Exception as e:  # noqa: BLE001
            out["final"] = None
            out["error"] = out["error"] or f"{type(e).__name__}: {e}"
        out["logs"] = sum(1 for r in self.handler.records if r.levelno >= logging.ERROR)
        if self.uncontrollable:
            # the harness, not the scheduler, failed: this run decides nothing (reported as a broken tie, never as a violation)
            out["uncontrollable"] = self.uncontrollable
        return out

    # ---------------------------------------------------------------- line-level preemption
    def _install_line_preemption(self, ctrl):
        mon = sys.monitoring
        import scheduler.threading.scheduler as m

        import scheduler.base.job as bj
        import scheduler.base.job_timer as bt
        import scheduler.threading.job as tj

        codes = []
        for name in ("delete_job", "delete_jobs", "get_jobs", "exec_jobs", "_Scheduler__schedule", "_Scheduler__exec_jobs"):
            f = getattr(m.Scheduler, name, None)
            if f is not None and hasattr(f, "__code__"):
                codes.append(f.__code__)
        # the worker loop and everything a worker / the rescheduling loop does on a job
        w = getattr(m, "_exec_job_worker", None)
        if w is not None and hasattr(w, "__code__"):
            codes.append(w.__code__)
        for cls, names in ((tj.Job, ("_exec", "_calc_next_exec")), (bj.BaseJob, ("_calc_next_exec",)),
                           (bt.JobTimer, ("calc_next_exec",))):
            for name in names:
                f = cls.__dict__.get(name)
                f = getattr(f, "__wrapped__", f)
                if f is not None and hasattr(f, "__code__"):
                    codes.append(f.__code__)
        for name in ("has_attempts_remaining", "attempts", "failed_attempts"):
            pr = tj.Job.__dict__.get(name)
            f = getattr(pr, "fget", None)
            if f is not None and hasattr(f, "__code__"):
                codes.append(f.__code__)
        self._codes = codes
        try:
            mon.use_tool_id(_TOOL, "verif-coop")
        except ValueError:
            pass

        def on_line(code, line):
            c = coop.controller()
            if c is not None and c.current is not None and not c.aborting:
                c.yield_point("line", line)

        mon.register_callback(_TOOL, mon.events.LINE, on_line)
        for code in codes:
            mon.set_local_events(_TOOL, code, mon.events.LINE)

    def _remove_line_preemption(self):
        mon = sys.monitoring
        for code in getattr(self, "_codes", []):
            try:
                mon.set_local_events(_TOOL, code, 0)
            except Exception:  # noqa: BLE001
                pass
        try:
            mon.register_callback(_TOOL, mon.events.LINE, None)
            mon.free_tool_id(_TOOL)
        except Exception:  # noqa: BLE001
            pass


def run_scenario(scn):
    return ConcRunner(scn).run()
