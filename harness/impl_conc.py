"""
harness/impl_conc.py — run several controlled threads against one real threading Scheduler under a
chosen interleaving (cooperative locks / queue / threads, optional line-level preemption).
"""
from __future__ import annotations

import datetime as _dt
import logging
import random
import sys
import warnings
from fractions import Fraction

from . import coop, core
from .core import CLOCK, from_loc, inst_of, tz_of
from .impl_thr import CALLS, _CountHandler, err_kind, py_tags, py_timing

_TOOL = 3  # sys.monitoring tool id


class ConcRunner:
    def __init__(self, scn):
        core.install_clock()
        coop.install()
        self.scn = scn
        self.created = []
        self.key_of = {}
        self.cells = []
        self.records = []          # completed calls: dict(thread, op, inv, res, result, ...)
        self.invocations = []      # (key, exec_id or None, worker tid)
        self.clock = 0
        self.handler = _CountHandler()
        self.logger = logging.getLogger(f"verif.conc.{id(self)}")
        self.logger.handlers = [self.handler]
        self.logger.propagate = False
        self.logger.setLevel(logging.DEBUG)
        self.running_now = 0
        self.max_parallel = 0
        self.self_overlap = False
        self.barriers = {}

    # ---------------------------------------------------------------- callbacks
    def tick(self):
        self.clock += 1
        return self.clock

    def make_cb(self, cell):
        runner = self

        def cb(*args, **kwargs):
            ctrl = coop.controller()
            key = cell["key"]
            st = ctrl.current
            exec_id = getattr(st, "exec_id", None) if st is not None else None
            runner.invocations.append((key, exec_id, st.tid if st else -1))
            if cell.get("active"):
                runner.self_overlap = True
            cell["active"] = True
            cell["entered"] = True
            runner.running_now += 1
            runner.max_parallel = max(runner.max_parallel, runner.running_now)
            try:
                ctrl.yield_point("cb-enter", key)
                # a callback that takes a while (other threads get that many turns meanwhile)
                for _w in range(runner.scn.get("cb_len", 0)):
                    ctrl.yield_point("cb-work", key)
                w = cell.get("wait_for")
                if w is not None:
                    # block until another job's callback has been entered (a free worker must pick that job up)
                    ctrl.block_until(lambda: w < len(runner.cells) and bool(runner.cells[w].get("entered")), f"wait_for(job{w})")
                b = cell.get("barrier")
                if b is not None:
                    bar = runner.barriers[b]
                    bar["arrived"] += 1
                    ctrl.block_until(lambda: bar["arrived"] >= bar["n"], f"barrier{b}")
                for c in cell.get("script") or []:
                    runner.run_cop(c)
                ctrl.yield_point("cb-exit", key)
                if cell.get("raises"):
                    raise ValueError("scripted failure")
            finally:
                runner.running_now -= 1
                cell["active"] = False

        cb.__qualname__ = "cb"
        return cb

    def run_cop(self, c):
        k = c["op"]
        try:
            if k == "sch":
                self.do_sched(c)
            elif k == "del":
                self.sched.delete_job(self.created[c["key"]])
            elif k == "dtags":
                self.sched.delete_jobs(py_tags(c.get("tags"), "set"), bool(c.get("any", False)))
            elif k == "get":
                self.sched.get_jobs(py_tags(c.get("tags"), "set"), bool(c.get("any", False)))
            elif k == "str":
                str(self.sched)
            elif k == "jobs":
                _ = self.sched.jobs
        except coop.Abort:
            raise
        except Exception:  # a scripted op may legitimately fail (e.g. delete twice)
            pass

    def do_sched(self, o):
        call = CALLS[o["call"]]
        ts = [py_timing(t) for t in o["timings"]]
        timing = ts if o.get("is_list") else ts[0]
        cell = {"script": o.get("script"), "barrier": o.get("barrier"), "raises": o.get("raises"), "wait_for": o.get("wait_for")}
        cb = self.make_cb(cell)
        kw = {}
        tags = py_tags(o.get("tags"), None)
        if tags is not None:
            kw["tags"] = tags
        if o.get("pass_sched"):
            kw["args"] = (self.sched,)      # the usual way a callback gets hold of its scheduler
        if call != "once":
            if o.get("max_att", 0):
                kw["max_attempts"] = o["max_att"]
            if o.get("start") is not None:
                kw["start"] = from_loc(*o["start"])
            if o.get("skip"):
                kw["skip_missing"] = True
        with warnings.catch_warnings():
            warnings.simplefilter("ignore")
            job = getattr(self.sched, call)(timing, cb, **kw)
        key = len(self.created)
        cell["key"], cell["job"] = key, job
        st = coop.controller().current if coop.controller() else None
        cell["created_by_exec"] = getattr(st, "exec_id", None) if st is not None else None
        self.created.append(job)
        self.key_of[id(job)] = key
        self.cells.append(cell)
        # (reading the due time takes the job's lock = a point where other controlled threads may run: only now)
        self.stable.append((id(job), inst_of(job.datetime)))
        return key

    # ---------------------------------------------------------------- user threads
    def thread_body(self, ti, ops):
        def body():
            ctrl = coop.controller()
            for oi, o in enumerate(ops):
                rec = {"thread": ti, "index": oi, "op": o["op"], "args": {k: v for k, v in o.items() if k != "op"}}
                ctrl.yield_point("call", o["op"])
                rec["inv"] = self.tick()
                st = ctrl.current
                try:
                    k = o["op"]
                    if k == "exec":
                        st.exec_id = rec["exec_id"] = len(self.records) * 100 + ti
                        self.cur_exec_of_thread[st.tid] = rec["exec_id"]
                        rec["result"] = ("c", self.sched.exec_jobs(force_exec_all=bool(o.get("force"))))
                    elif k == "sch":
                        rec["result"] = ("j", self.do_sched(o))
                    elif k == "del":
                        if o["key"] < len(self.created):
                            target = self.created[o["key"]]
                        else:
                            from scheduler.threading.scheduler import Scheduler as _S
                            target = self.foreign
                        self.sched.delete_job(target)
                        rec["result"] = ("u",)
                    elif k == "dtags":
                        rec["result"] = ("c", self.sched.delete_jobs(py_tags(o.get("tags"), "set"), bool(o.get("any", False))))
                    elif k == "get":
                        r = self.sched.get_jobs(py_tags(o.get("tags"), "set"), bool(o.get("any", False)))
                        rec["result"] = ("s*", list(r))          # keys are resolved after the run
                    elif k == "jobs":
                        rec["result"] = ("s*", list(self.sched.jobs))
                    elif k == "due":
                        # another thread reads the due time a job reports (datetime, and timedelta to a fixed instant)
                        job = self.created[o["key"]]
                        seen = []
                        for _rep in range(o.get("reps", 1)):
                            d = inst_of(job.datetime)
                            td = job.timedelta(from_loc(CLOCK.instant + (self.scn.get("tz") or 0), self.scn.get("tz")))
                            seen.append(d)
                            seen.append(CLOCK.instant + round(td.total_seconds() * 1e6))
                            ctrl.yield_point("reader", o["key"])     # the other threads get a turn between two reads
                        rec["result"] = ("d", sorted(set(seen)))
                    elif k == "str":
                        text = str(self.sched)
                        n = int(text.split("#jobs=")[1].split("\n")[0])
                        # number of table rows = non-empty lines below the dashed separator row
                        lines = text.split("\n")
                        sep = max((i for i, ln in enumerate(lines) if ln.strip() and set(ln.strip()) <= set("- ")), default=len(lines) - 1)
                        rows = sum(1 for ln in lines[sep + 1:] if ln.strip())
                        rec["result"] = ("n", n, rows)
                    elif k == "repr":
                        repr(self.sched)
                        rec["result"] = ("u",)
                    else:
                        raise ValueError(k)
                except coop.Abort:
                    raise
                except Exception as e:  # noqa: BLE001
                    rec["result"] = ("e", err_kind(e), repr(e)[:120])
                    if coop.is_shim_error(e):
                        self.uncontrollable = f"{type(e).__name__}: {e}"
                rec["res"] = self.tick()
                ctrl.yield_point("return", o["op"])
                self.records.append(rec)
        return body

    def run(self):
        scn = self.scn
        rng = random.Random(scn.get("sched", {}).get("seed", 0))
        kind = scn.get("sched", {}).get("kind", "random")
        if kind == "replay":
            chooser = coop.replay_chooser(scn["sched"]["seq"], coop.random_chooser(rng))
        elif kind == "pause":
            chooser = coop.pause_chooser(scn["sched"].get("victim", 0), scn["sched"].get("at", 5), coop.random_chooser(rng))
        elif kind == "pct":
            chooser = coop.pct_chooser(rng, depth=scn["sched"].get("depth", 3))
        else:
            chooser = coop.random_chooser(rng)
        ctrl = coop.Controller(chooser, max_steps=scn.get("max_steps", 60000))
        coop.set_controller(ctrl)
        self.cur_exec_of_thread = {}
        CLOCK.instant = scn["clock0"]
        from scheduler.threading.scheduler import Scheduler

        self.sched = Scheduler(tzinfo=tz_of(scn.get("tz")), max_exec=scn.get("max_exec", 0),
                               n_threads=scn.get("n_threads", 1), logger=self.logger)
        # observe the batch each exec_jobs call selects (argument of the private __exec_jobs)
        self.selected = {}
        self.stable = []           # (id(job), due instant) at creation and after every completed rescheduling
        orig_exec = self.sched._Scheduler__exec_jobs

        def spy_exec(jobs, ref_dt):
            st = coop.controller().current
            eid = getattr(st, "exec_id", None) if st is not None else None
            self.selected[eid] = list(jobs)
            return orig_exec(jobs, ref_dt)

        self.sched._Scheduler__exec_jobs = spy_exec
        # ground truth for concurrent readers: the instant every JobTimer holds at the END of each calc_next_exec,
        # taken under the timer's own (re-entrant) lock, i.e. never a half-done value
        import scheduler.base.job_timer as _bt
        self._orig_calc = _bt.JobTimer.__dict__["calc_next_exec"]
        runner_ = self

        def calc_next_exec(timer, *a, **k):
            with timer._JobTimer__lock:
                ret = runner_._orig_calc(timer, *a, **k)
                runner_.timer_vals.append((id(timer), inst_of(timer._JobTimer__next_exec)))
            return ret

        calc_next_exec.__wrapped__ = self._orig_calc
        self.timer_vals = []
        _bt.JobTimer.calc_next_exec = calc_next_exec
        # a job this scheduler has never seen (created before the controlled phase)
        self.foreign = Scheduler(tzinfo=tz_of(scn.get("tz"))).cyclic(_dt.timedelta(days=400), lambda: None)
        for b, n in (scn.get("barriers") or {}).items():
            self.barriers[int(b)] = {"n": n, "arrived": 0}
        for o in scn.get("jobs", []):
            self.do_sched(o)
        init = sorted(self.key_of[id(j)] for j in self.sched.jobs)
        CLOCK.instant = scn["clock0"] + scn.get("advance", 0)

        # worker threads inherit the exec id of the thread that spawned them
        orig_new = ctrl.new_thread

        def new_thread(target, name):
            st = orig_new(target, name)
            parent = ctrl.current
            if parent is not None and getattr(parent, "exec_id", None) is not None:
                st.exec_id = parent.exec_id
            return st

        ctrl.new_thread = new_thread
        mon = scn.get("line_preempt")
        if mon:
            self._install_line_preemption(ctrl)
        out = {"deadlock": None, "error": None}
        self.uncontrollable = None
        try:
            ctrl.run([(f"t{ti}", self.thread_body(ti, ops)) for ti, ops in enumerate(scn["threads"])])
        except coop.Deadlock as e:
            out["deadlock"] = e.waits
        except Exception as e:  # noqa: BLE001
            out["error"] = f"{type(e).__name__}: {e}"
            if coop.is_shim_error(e):
                self.uncontrollable = out["error"]
        finally:
            for t_ in ctrl.threads:
                if t_.exc is not None and coop.is_shim_error(t_.exc):
                    self.uncontrollable = f"{type(t_.exc).__name__}: {t_.exc}"
            if mon:
                self._remove_line_preemption()
            coop.set_controller(None)
            _bt.JobTimer.calc_next_exec = self._orig_calc
        for rec in self.records:
            if rec.get("result", ("",))[0] == "s*":
                rec["result"] = ("s", sorted(self.key_of.get(id(j), 10**6) for j in rec["result"][1]))
        out["selected"] = {str(e): sorted(self.key_of.get(id(j), 10**6) for j in js) for e, js in self.selected.items()}
        out["created_by_exec"] = {k: c.get("created_by_exec") for k, c in enumerate(self.cells)}
        out["init"] = init
        stable = {}
        for (jid, due) in self.stable:
            stable.setdefault(self.key_of.get(jid, -1), set()).add(due)
        timer_owner = {}
        for k, j in enumerate(self.created):
            for t in getattr(j, "_BaseJob__timers", []):
                timer_owner[id(t)] = k
        for (tid_, val) in self.timer_vals:
            if tid_ in timer_owner:
                stable.setdefault(timer_owner[tid_], set()).add(val)
        out["stable_dues"] = {k: sorted(v) for k, v in stable.items()}
        out["records"] = self.records
        out["invocations"] = self.invocations
        out["schedule"] = list(ctrl.schedule)
        out["trace_len"] = len(ctrl.trace)
        out["edges"] = sorted(ctrl.edges)
        out["wait_violations"] = list(ctrl.wait_violations)
        out["left_holding"] = [(t.name, list(t.held)) for t in ctrl.threads if t.finished and t.held and not out["deadlock"]]
        out["max_parallel"] = self.max_parallel
        out["self_overlap"] = self.self_overlap
        try:
            out["final"] = sorted(self.key_of[id(j)] for j in self.sched.jobs)
            out["jobs"] = {k: (j.attempts, j.failed_attempts, 1 if j.has_attempts_remaining else 0, j.max_attempts, inst_of(j.datetime))
                           for k, j in enumerate(self.created)}
        except Exception as e:  # noqa: BLE001
            out["final"] = None
            out["error"] = out["error"] or f"{type(e).__name__}: {e}"
        out["logs"] = sum(1 for r in self.handler.records if r.levelno >= logging.ERROR)
        if self.uncontrollable:
            # the harness, not the scheduler, failed: this run decides nothing (reported as a broken tie, never as a violation)
            out["uncontrollable"] = self.uncontrollable
        return out

    # ---------------------------------------------------------------- line-level preemption
    def _install_line_preemption(self, ctrl):
        mon = sys.monitoring
        import scheduler.threading.scheduler as m

        import scheduler.base.job as bj
        import scheduler.base.job_timer as bt
        import scheduler.threading.job as tj

        codes = []
        for name in ("delete_job", "delete_jobs", "get_jobs", "exec_jobs", "_Scheduler__schedule", "_Scheduler__exec_jobs"):
            f = getattr(m.Scheduler, name, None)
            if f is not None and hasattr(f, "__code__"):
                codes.append(f.__code__)
        # the worker loop and everything a worker / the rescheduling loop does on a job
        w = getattr(m, "_exec_job_worker", None)
        if w is not None and hasattr(w, "__code__"):
            codes.append(w.__code__)
        for cls, names in ((tj.Job, ("_exec", "_calc_next_exec")), (bj.BaseJob, ("_calc_next_exec",)),
                           (bt.JobTimer, ("calc_next_exec",))):
            for name in names:
                f = cls.__dict__.get(name)
                f = getattr(f, "__wrapped__", f)
                if f is not None and hasattr(f, "__code__"):
                    codes.append(f.__code__)
        for name in ("has_attempts_remaining", "attempts", "failed_attempts"):
            pr = tj.Job.__dict__.get(name)
            f = getattr(pr, "fget", None)
            if f is not None and hasattr(f, "__code__"):
                codes.append(f.__code__)
        self._codes = codes
        try:
            mon.use_tool_id(_TOOL, "verif-coop")
        except ValueError:
            pass

        def on_line(code, line):
            c = coop.controller()
            if c is not None and c.current is not None and not c.aborting:
                c.yield_point("line", line)

        mon.register_callback(_TOOL, mon.events.LINE, on_line)
        for code in codes:
            mon.set_local_events(_TOOL, code, mon.events.LINE)

    def _remove_line_preemption(self):
        mon = sys.monitoring
        for code in getattr(self, "_codes", []):
            try:
                mon.set_local_events(_TOOL, code, 0)
            except Exception:  # noqa: BLE001
                pass
        try:
            mon.register_callback(_TOOL, mon.events.LINE, None)
            mon.free_tool_id(_TOOL)
        except Exception:  # noqa: BLE001
            pass


def run_scenario(scn):
    return ConcRunner(scn).run()
