"""C09 — a batched job fires on the union of its times; equivalent times are rejected."""
from __future__ import annotations

from .. import core, gen, impl_thr, runlib, scen
from . import c01, c08

ID = "C09"
BUDGET = {"quick": 2400, "thorough": 300000}
RULE = ("two scenario kinds. (a) acceptance: lists of 2-5 minutely/hourly/daily/weekly entries with per-entry offsets, with pairs "
        "constructed to be equivalent (time and offset shifted together by multiples and non-multiples of the period, across day/"
        "weekday boundaries, differing only in ignored hour/minute fields) or near-equivalent (+-1us); Spec: accepted iff the "
        "UTC phases are pairwise distinct. (b) enumeration: accepted batched jobs polled 3n+ times on/after their due instants; "
        "Spec: consumed due instants are the ascending enumeration of the union. non-trivial = an equivalent pair written in "
        "different offsets, or a batched job with >= 2 entries executed >= 3 times; distinct by scenario hash")
ASSUMPTIONS = c01.ASSUMPTIONS
runner = impl_thr.run_scenario


def equivalent_variant(rng, call, t, near=False):
    """another way of writing (almost) the same recurring instants as entry t"""
    P, ph, off = gen.phase_of(call, t)
    aware = t[-1] is not None
    if aware:
        kind = rng.choice(["shift", "shiftP", "fields"])
    else:
        kind = "fields"
    if kind == "fields" and call in (3, 4) and not aware:
        kind = "same"
    delta = 0
    if kind == "shift":
        delta = rng.choice([core.HOUR, -core.HOUR, 30 * core.MINUTE, 90 * core.MINUTE, 45 * core.MINUTE, core.MINUTE, 17_000_000, 12 * core.HOUR, -13 * core.HOUR])
    elif kind == "shiftP":
        delta = rng.choice([1, -1, 2]) * (P if P < core.DAY else core.HOUR * rng.randint(1, 10))
    new_off = (off + delta) if aware else None
    if aware and not (-core.DAY < new_off < core.DAY):
        delta = -delta
        new_off = off + delta
        if not (-core.DAY < new_off < core.DAY):
            delta, new_off = 0, off
    span = core.WEEK if call == 4 else core.DAY
    local = (ph + delta + (1 if near else 0) * rng.choice([1, -1])) % span
    if call in (1, 2):
        # phase lives inside the period; ignored fields are free
        base = (ph + delta + (rng.choice([1, -1]) if near else 0)) % P
        extra = rng.randrange(0, core.DAY // P) * P
        local = (base + extra) % core.DAY
    wd = local // core.DAY
    rest = local % core.DAY
    h, rem = divmod(rest, core.HOUR)
    m, rem = divmod(rem, core.MINUTE)
    s_, us = divmod(rem, 1_000_000)
    if call == 4:
        return ["w", int(wd), int(h), int(m), int(s_), int(us), new_off]
    return ["t", int(h), int(m), int(s_), int(us), new_off]


def scenarios(rng, n, tier):
    for i in range(n):
        if i % 2 == 0:
            # (a) acceptance
            tz = None if rng.random() < 0.3 else gen.rand_off(rng)[0]
            aware = tz is not None
            call = rng.choice([1, 2, 3, 4])
            clock = gen.rand_instant(rng)[0]
            k = rng.randint(2, 5)
            ts = [gen.rand_timing(rng, call, aware) for _ in range(k - 1)]
            c = rng.random()
            if c < 0.45:
                ts.insert(rng.randint(0, len(ts)), equivalent_variant(rng, call, rng.choice(ts)))
            elif c < 0.75:
                ts.insert(rng.randint(0, len(ts)), equivalent_variant(rng, call, rng.choice(ts), near=True))
            else:
                ts.append(gen.rand_timing(rng, call, aware))
            scn = {"tz": tz, "max_exec": 0, "prio": 0, "clock0": clock, "_kind": "accept",
                   "ops": [{"op": "sch", "call": call, "timings": ts, "is_list": True, "clock": clock, "payload": 1}]}
            for _ in range(rng.randint(0, 4)):
                scn["ops"].append({"op": "exec", "rel": [0, rng.choice([0, 0, 1])]})
            yield scn
        else:
            opts = {"calls": [1, 2, 3, 4], "p_single": 0.0, "max_entries": 5, "p_skip": 0.0, "p_nodelay": 0.0, "p_stop": 0.25,
                    "p_limit": 0.0, "max_jobs": 1, "p_force": 0.05, "p_start": 0.5, "max_polls": 4}
            scn = scen.gen_life(rng, opts)
            ne = len(scn["ops"][0]["timings"])
            for _ in range(3 * ne):
                scn["ops"].append({"op": "exec", "rel": [0, rng.choice([0, 0, 0, 1, gen.PERIOD[scn["ops"][0]["call"]]])]})
            yield scn


def specs(r):
    qs = [q for q in c08.specs(r) if q[1]["what"] == "none_lost_enumeration"]
    # "without omission": a stop ends the enumeration only when the next occurrence of the union lies past it
    qs += runlib.stop_retirement_specs(r, c08.tms_tokens)
    scn = r["scn"]
    for i, o in enumerate(scn["ops"]):
        if i >= len(r["obs"]) or "truncated" in r["obs"][i]:
            break
        ob = r["obs"][i]
        if o["op"] == "sch" and o["call"] in (1, 2, 3, 4) and o["timings"]:
            aware = scn.get("tz") is not None
            if all((t[-1] is not None) == aware for t in o["timings"]) and not o.get("stop") and not o.get("start"):
                if ob["res"][0] == "j":
                    acc = 1
                elif ob["res"] == ("e", "SchedulerError"):
                    acc = 0
                else:
                    qs.append(("spec eq 0 1", {"what": "unexpected error kind", "res": list(ob["res"])}))
                    continue
                qs.append((f"spec unique {c08.tms_tokens(o)} {acc}", {"what": "unique_iff", "op": i, "accepted": acc}))
    return qs


direct_specs = c08.direct_specs


def classes(r):
    cl = c01.classes(r)
    scn = r["scn"]
    for i, o in enumerate(scn["ops"]):
        if o["op"] == "sch" and i < len(r["obs"]) and "res" in r["obs"][i]:
            cl.append("entries:%d" % len(o["timings"]))
            phases = [gen.utc_phase(o["call"], t) for t in o["timings"]] if o["call"] in (1, 2, 3, 4) else []
            dup = len(set(phases)) < len(phases)
            cl.append("dup:yes" if dup else "dup:no")
            if dup and len({t[-1] for t in o["timings"]}) > 1:
                cl.append("dup:different-offsets")
            cl.append("accepted" if r["obs"][i]["res"][0] == "j" else "rejected")
    return sorted(set(cl))


def nontrivial(r):
    cl = classes(r)
    if "dup:different-offsets" in cl:
        return True
    execs = sum(len(ob.get("invoked", [])) for ob in r["obs"] if isinstance(ob, dict))
    return execs >= 3 and any(c.startswith("entries:") and int(c.split(":")[1]) >= 2 for c in cl)
