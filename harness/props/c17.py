"""C17 — the asyncio scheduler runs each job at its due times, never early, independently."""
from __future__ import annotations

import json

from .. import core, gen, impl_aio, scen
from . import c01

ID = "C17"
BUDGET = {"quick": 800, "thorough": 100000}
RULE = ("scenario = asyncio scheduler (naive or fixed offset) under a virtual-time event loop with 1-4 jobs of all types (whole-second "
        "timings and intervals; limits, stop, batched lists, skip_missing as in C01-C09), coroutine durations per run from "
        "{0, < period, = period, > period} (+ a per-job millisecond offset so that distinct jobs never act at one instant), some "
        "raising; virtual time advanced in 2-6 steps over 3-40 periods; Spec on the implementation's event log: every start = "
        "max(due, end of previous run / creation), never before due; each scenario is also run with every job alone and the "
        "job's own event sequence must be identical (independence); non-trivial = some run longer than its period or a raising "
        "run next to another job; distinct by scenario hash")
ASSUMPTIONS = ["coroutines await instead of blocking the thread", "the loop resumes a task at its wake instant (virtual time; a real loop may be up to its clock resolution early/late)",
               "fixed-offset tzinfo, whole-second schedules in this check (calendar arithmetic itself is C01-C09, shared code)"]
S = 1_000_000
runner = impl_aio.run_scenario
project = impl_aio.project


def _trunc(off):
    return off // S * S if off >= 0 else -((-off) // S * S)


def whole_seconds(o):
    """round all times of a scheduling op to whole seconds"""
    for t in o["timings"]:
        if t[0] == "c":
            t[1] = max(S, t[1] // S * S)
        elif t[0] == "t":
            t[4] = 0
            if t[5] is not None:
                t[5] = _trunc(t[5])
        elif t[0] == "w":
            t[5] = 0
            if t[6] is not None:
                t[6] = _trunc(t[6])
        elif t[0] == "d":
            t[1] = t[1] // S * S
            if t[2] is not None:
                off = _trunc(t[2])
                t[1] = t[1] - t[2] + off
                t[2] = off
    for f in ("start", "stop"):
        if o.get(f):
            loc, off = o[f]
            if off is not None:
                noff = _trunc(off)
                loc = loc - off + noff
                off = noff
            o[f] = [loc // S * S + (0 if f == "start" else 0), off]
    return o


def scenarios(rng, n, tier):
    for _ in range(n):
        tz = None if rng.random() < 0.4 else gen.rand_off(rng, rng.choice(["zero", "hour", "half", "daychg"]))[0]
        clock = gen.rand_instant(rng)[0] // S * S
        scn = {"aio": True, "tz": tz, "clock0": clock, "ops": []}
        nj = rng.randint(1, 4)
        periods = []
        for i in range(nj):
            o, p = scen.gen_job(rng, tz, clock, {"calls": [0, 0, 1, 2, 3, 4, 5], "p_limit": 0.4, "p_stop": 0.15, "p_start": 0.3,
                                                  "p_skip": 0.3, "p_nodelay": 0.1, "p_single": 0.7})
            o.pop("clock", None)
            whole_seconds(o)
            if o["call"] == 0:
                p = o["timings"][0][1]
                if p > 40 * core.DAY:
                    o["timings"][0][1] = p = core.DAY
            p = max(p, S)
            runs = []
            for _r in range(rng.randint(1, 4)):
                d = rng.choice([0, 0, p // 3, p, p + p // 2, 3 * p, rng.randint(0, 2 * p)])
                d = d // 1000 * 1000 + (i + 1) * 7 if d else 0       # per-job sub-millisecond offset
                acts = [["sl", d]] if d or rng.random() < 0.3 else []
                runs.append({"acts": acts, "raises": (rng.choice(impl_aio.AIO_EXC) if rng.random() < 0.2 else False)})
            o["runs"] = runs
            scn["ops"].append(o)
            periods.append(p)
        t = clock
        horizon = max(periods) * rng.choice([3, 5, 10, 40])
        horizon = min(horizon, 400 * core.DAY, min(periods) * 150)
        steps = rng.randint(2, 6)
        for s_ in range(steps):
            t = clock + horizon * (s_ + 1) // steps + 500_005      # never on a whole second
            scn["ops"].append({"op": "run", "until": t})
            if rng.random() < 0.3:
                scn["ops"].append({"op": "jobs"})
        yield scn


def per_job_events(obs):
    ev = {}
    for ob in obs:
        for (t, k, kind, due) in ob.get("events", []):
            ev.setdefault(k, []).append((t, kind, due))
    return ev


def runner(scn):
    lines, impl, obs = impl_aio.run_scenario(scn)
    # independence: every job alone, same clock, same advance steps
    solo = {}
    created = [(o, ob["res"][1]) for o, ob in zip(scn["ops"], obs) if o["op"] == "sch" and ob["res"][0] == "j"]
    if len(created) > 1 and not scn.get("_no_solo"):
        for (so, key) in created:
            s2 = json.loads(json.dumps({kk: v for kk, v in scn.items() if not kk.startswith("_")}))
            s2["ops"] = [json.loads(json.dumps(so))] + [o for o in s2["ops"] if o["op"] == "run"]
            for o in s2["ops"]:
                o.pop("clock", None)
            _l, _i, ob2 = impl_aio.run_scenario(s2)
            solo[key] = per_job_events(ob2).get(0, [])
    obs[0]["_solo"] = solo
    return lines, impl, obs


def specs(r):
    from .. import aiomix
    from . import c08
    qs = aiomix.idle_specs(r) + aiomix.first_due_specs(r, c01.tm_tokens) + aiomix.skip_specs(r, c08.tms_tokens) + aiomix.cadence_specs(r, c08.tms_tokens)
    scn = r["scn"]
    ev = per_job_events(r["obs"])
    for k, evs in ev.items():
        prev_end = scn["clock0"]
        for (t, kind, due) in evs:
            if kind == "S":
                qs.append((f"spec lemax {due} {prev_end} {t}", {"what": "start_time: start = max(due, previous end)", "key": k, "t": t}))
                qs.append((f"spec le {due} {t}", {"what": "never_early", "key": k, "t": t}))
            elif kind in ("E", "X", "C"):
                prev_end = t
    # limits and stop behave as in the threading scheduler: a job only disappears when it has no
    # attempts remaining (budget used up / next due time past stop) - nobody deletes jobs here
    if r["obs"] and "jobs" in r["obs"][-1]:
        for k, v in r["obs"][-1]["jobs"].items():
            if v[5] == 0:
                qs.append((f"spec eq {v[4]} 0", {"what": "job unregistered although attempts remain (an occurrence within the window was dropped)", "key": k}))
    for ob in r["obs"]:
        if ob.get("task_errors"):
            qs.append(("spec eq 0 1", {"what": "a task ended with an exception", "errors": ob["task_errors"][:2]}))
            break
    return qs


def direct_specs(r):
    fails = []
    solo = r["obs"][0].get("_solo") or {}
    ev = per_job_events(r["obs"])
    for k, alone in solo.items():
        if ev.get(k, []) != alone:
            fails.append({"info": {"what": "independent: a job's invocations differ when other jobs are present", "key": k},
                          "together": ev.get(k, [])[:6], "alone": alone[:6]})
    return fails


def direct_count(r):
    return len(r["obs"][0].get("_solo") or {})


def classes(r):
    cl = ["tz:naive" if r["scn"].get("tz") is None else "tz:aware"]
    ev = per_job_events(r["obs"])
    for o in r["scn"]["ops"]:
        if o["op"] == "sch":
            cl.append(f"call:{o['call']}")
            if o.get("skip"):
                cl.append("skip")
            if o.get("stop"):
                cl.append("stop")
            if o.get("max_att") or o["call"] == 5:
                cl.append("limited")
    for k, evs in ev.items():
        starts = [t for (t, kind, _d) in evs if kind == "S"]
        for (t, kind, due) in evs:
            if kind == "S" and t > due:
                cl.append("late-start")
            if kind == "X":
                cl.append("raising-run")
    return sorted(set(cl))


def nontrivial(r):
    cl = classes(r)
    return "late-start" in cl or ("raising-run" in cl and sum(1 for o in r["scn"]["ops"] if o["op"] == "sch") > 1)
