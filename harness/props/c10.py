"""C10 — a failing callback is contained, counted and logged; other jobs are unaffected."""
from __future__ import annotations

import copy
import json

from .. import core, gen, impl_thr, scen
from . import c01

ID = "C10"
BUDGET = {"quick": 1200, "thorough": 150000}
RULE = ("scenario = scheduler with 1-5 jobs of all types/limits, n_threads in {0,1,3}, default or user logger (whose handler is attached before or, in 30%, only after the scheduler is constructed), fault pattern per "
        "poll (always / first only / alternating / random subset; any position in the batch) with exception classes Exception, "
        "ValueError, a user subclass, SchedulerError, StopIteration, queue.Empty, KeyError, and instances that are falsy (__bool__ False, "
        "__len__ 0) or whose str()/repr() raise; 15% of the jobs carry an argument whose repr()/str() raise (the job cannot be rendered, only run); each scenario is run twice on the real "
        "code - with its fault pattern and with no faults - and the two runs must agree on everything except failed_attempts and "
        "the log count (non-interference); Spec: no exception out of exec_jobs, failed = number of raising invocations <= attempts, "
        "exactly one error record per failure on the scheduler's logger; non-trivial = at least one raising invocation in a batch "
        "of >= 2; distinct by scenario hash")
ASSUMPTIONS = c01.ASSUMPTIONS + ["callbacks raise only Exception subclasses (KeyboardInterrupt/SystemExit are outside the quantifier)"]

EXC = ["Exception", "ValueError", "UserError", "SchedulerError", "StopIteration", "QueueEmpty", "KeyError", "FalsyError", "EmptyError", "BadReprError"]


def scenarios(rng, n, tier):
    for _ in range(n):
        opts = {"calls": [0, 0, 1, 2, 3, 4, 5], "p_single": 0.8, "p_skip": 0.2, "p_nodelay": 0.05, "p_stop": 0.15,
                "p_limit": 0.4, "max_jobs": 5, "p_force": 0.2, "p_start": 0.3, "max_polls": 10, "p_raise": 0.0}
        scn = scen.gen_life(rng, opts)
        scn["n_threads"] = rng.choice([0, 1, 1, 3])
        scn["user_logger"] = rng.random() < 0.5
        scn["late_handler"] = scn["user_logger"] and rng.random() < 0.3   # handler attached after construction
        nj = sum(1 for o in scn["ops"] if o["op"] == "sch")
        pattern = rng.choice(["always", "first", "alternate", "random"])
        culprits = sorted(rng.sample(range(nj), rng.randint(1, nj)))
        scn["exc"] = {str(k): rng.choice(EXC) for k in culprits}
        for o in scn["ops"]:
            if o["op"] == "sch" and rng.random() < 0.15:
                o["badrepr"] = True      # an argument whose repr()/str() raise: the job cannot be rendered, only run
        logmode = rng.choice(["debug", "debug", "error", "critical", "disabled", "toggle"])
        scn["logmode"] = logmode
        i = 0
        for o in scn["ops"]:
            if o["op"] == "exec":
                o["log"] = rng.choice(["debug", "critical", "disabled", "error"]) if logmode == "toggle" else logmode
                if pattern == "always" or (pattern == "first" and i == 0) or (pattern == "alternate" and i % 2 == 0):
                    o["raises"] = culprits
                elif pattern == "random":
                    o["raises"] = sorted(rng.sample(culprits, rng.randint(0, len(culprits))))
                i += 1
        yield scn


def runner(scn):
    lines, impl, obs = impl_thr.run_scenario(scn)
    # second run of the same history without faults (resolved clocks are reused)
    clean = json.loads(json.dumps({k: v for k, v in scn.items() if not k.startswith("_")}))
    for o in clean["ops"]:
        o.pop("raises", None)
    _l2, _i2, obs2 = impl_thr.run_scenario(clean)
    for a, b in zip(obs, obs2):
        a["_clean"] = b
    return lines, impl, obs


def project(line):
    """with n_threads != 1 the invocation order is not fixed: compare invocations as a set"""
    from ..runlib import split_line
    if " | " not in line:
        return line
    d = split_line(line)
    inv = " ; ".join(sorted(" ".join(x) for x in d["I"]))
    js = " ; ".join(" ".join(x) for x in d["J"])
    # the record count depends on the user's logging configuration: checked by the Spec, not here
    return f"R {' '.join(d['R'])} | I {inv} | J {js}"


def specs(r):
    qs = []
    scn = r["scn"]
    raised = {}
    total = 0
    for i, (o, ob) in enumerate(zip(scn["ops"], r["obs"])):
        if "truncated" in ob:
            break
        if o["op"] == "exec":
            if ob["res"][0] != "c":
                qs.append(("spec eq 0 1", {"what": "no_propagation", "op": i, "exc": ob.get("exc")}))
                continue
            rs = set(o.get("raises") or [])
            for (k, _d, _p) in ob["invoked"]:
                if k in rs:
                    raised[k] = raised.get(k, 0) + 1
                    if o.get("log", "debug") in ("debug", "error"):
                        total += 1      # a record is produced only while the logger is enabled for ERROR
        for k, v in (ob.get("jobs") or {}).items():
            qs.append((f"spec eq {v[3]} {raised.get(k, 0)}", {"what": "failed_counts_raises", "key": k, "op": i}))
            qs.append((f"spec le {v[3]} {v[2]}", {"what": "failed_le_attempts", "key": k, "op": i}))
        for (f_, a_) in ob.get("handler_saw", []):
            # ... also at the moment the failure is reported (a handler looking at the job it is told about)
            qs.append((f"spec le {f_} {a_}", {"what": "failed_le_attempts while the failure is being logged", "op": i, "failed": f_, "attempts": a_}))
        if "logs" in ob:
            qs.append((f"spec eq {ob['logs']} {total}", {"what": "one_record_each", "op": i}))
    return qs


def direct_specs(r):
    """non-interference: the run with faults and the run without agree on everything but failed/logs"""
    fails = []
    for i, ob in enumerate(r["obs"]):
        c = ob.get("_clean")
        if c is None or "truncated" in ob or "truncated" in c:
            break
        a = {k: (v[0], v[1], v[2], v[4], v[5]) for k, v in ob["jobs"].items()}
        b = {k: (v[0], v[1], v[2], v[4], v[5]) for k, v in c["jobs"].items()}
        ia = sorted((x[0], x[1]) for x in ob["invoked"])
        ib = sorted((x[0], x[1]) for x in c["invoked"])
        if a != b or ia != ib or ob["res"] != c["res"]:
            fails.append({"info": {"what": "faults_only_touch_counters", "op": i}, "with_faults": [ob["res"], ia, a], "without": [c["res"], ib, b]})
            break
    return fails


def direct_count(r):
    return sum(1 for ob in r["obs"] if isinstance(ob, dict) and ob.get("_clean") is not None)


def classes(r):
    scn = r["scn"]
    cl = [f"threads:{scn.get('n_threads', 1)}", "logger:user" if scn.get("user_logger") else "logger:default", "logmode:" + scn.get("logmode", "debug")]
    for v in (scn.get("exc") or {}).values():
        cl.append("exc:" + v)
    for o, ob in zip(scn["ops"], r["obs"]):
        if "truncated" in ob:
            break
        if o["op"] == "exec" and o.get("raises"):
            inv = [x[0] for x in ob["invoked"]]
            hit = [k for k in inv if k in o["raises"]]
            if hit and len(inv) >= 2:
                pos = inv.index(hit[0])
                cl.append("failing-pos:" + ("first" if pos == 0 else "last" if pos == len(inv) - 1 else "middle"))
    return sorted(set(cl))


def nontrivial(r):
    return any(c.startswith("failing-pos:") for c in classes(r))


# ---- asyncio share ("in both front ends")
from .. import aiomix  # noqa: E402
from . import c17 as _c17  # noqa: E402

def _aio_tweak(rng_, s):
    s = dict(s, _no_solo=True, late_handler=rng_.random() < 0.3)
    for o in s["ops"]:
        if o["op"] == "sch" and rng_.random() < 0.15:
            o["badrepr"] = True
    return s


aiomix.install(globals(), 0.25, lambda rng: aiomix.stream(rng, _c17.scenarios, tweak=_aio_tweak), aiomix.c10_specs,
               aio_runner=aiomix.c10_runner,
               note="C17-style job lives with raising runs (20%), each also run fault-free; Spec: no supervising task dies, failed_attempts = raising runs, attempts = completed runs, one ERROR record per failure, the two runs agree on everything else")


# ---- several workers (threading, controlled interleavings): a failing callback "never prevents the other jobs selected in the same
# ---- call from running" also when two callbacks fail at the same time, the handler renders the records and the jobs carry their scheduler
from . import c14 as _c14  # noqa: E402

_prev = {k: globals().get(k) for k in ("scenarios", "runner", "specs", "classes", "nontrivial", "project", "direct_specs")}


def _conc_scenario(rng):
    scn = _c14.gen_scenario(rng, {"p_exec_heavy": 1.0, "p_batched": 0.0, "p_pause": 0.3})
    for j in scn["jobs"]:
        j["raises"] = rng.random() < 0.7
        j["pass_sched"] = rng.random() < 0.7
    scn["n_threads"] = rng.choice([2, 0, 3])
    scn["kind"] = "conc"
    return scn


def scenarios(rng, n, tier):  # noqa: F811
    for scn in _prev["scenarios"](rng, n, tier):
        yield _conc_scenario(rng) if rng.random() < 0.06 else scn


def runner(scn):  # noqa: F811
    return _c14.runner(scn) if scn.get("kind") == "conc" else _prev["runner"](scn)


def specs(r):  # noqa: F811
    if r["scn"].get("kind") != "conc":
        return _prev["specs"](r)
    out, scn = r["obs"][0], r["scn"]
    if out.get("uncontrollable"):
        return []
    if out.get("deadlock") or out.get("error"):
        return [("spec eq 0 1", {"what": "several workers: a failing callback blocked the call (deadlock) or a thread died", "detail": out.get("deadlock") or out.get("error")})]
    qs = []
    for x in out["records"]:
        if x["op"] == "exec" and x["result"][0] != "c":
            qs.append(("spec eq 0 1", {"what": "several workers: exec_jobs raised", "error": list(x["result"])}))
    nraise = sum(1 for (k, _e, _t) in out["invocations"] if k < len(scn["jobs"]) and scn["jobs"][k].get("raises"))
    qs.append((f"spec eq {out.get('logs', 0)} {nraise}", {"what": "several workers: one ERROR record per raising invocation", "records": out.get("logs"), "raising": nraise}))
    ninv = {}
    for (k, _e, _t) in out["invocations"]:
        ninv[k] = ninv.get(k, 0) + 1
    for k, v in (out.get("jobs") or {}).items():
        k = int(k)
        if k < len(scn["jobs"]):
            qs.append((f"spec eq {v[0]} {ninv.get(k, 0)}", {"what": "several workers: attempts = invocations", "key": k}))
            qs.append((f"spec eq {v[1]} {ninv.get(k, 0) if scn['jobs'][k].get('raises') else 0}", {"what": "several workers: failed_attempts = raising invocations", "key": k}))
    return qs


def classes(r):  # noqa: F811
    return ["kind:several-workers"] if r["scn"].get("kind") == "conc" else _prev["classes"](r)


def nontrivial(r):  # noqa: F811
    if r["scn"].get("kind") == "conc":
        return len(r["obs"][0].get("invocations", [])) > 0
    return _prev["nontrivial"](r)


if _prev["project"] is not None:
    def project(line):  # noqa: F811
        return _prev["project"](line)

if _prev["direct_specs"] is not None:
    def direct_specs(r):  # noqa: F811
        return [] if r["scn"].get("kind") == "conc" else _prev["direct_specs"](r)

RULE += ("; 6% of the scenarios are overlapping exec_jobs callers with 2, 3 or unlimited workers under controlled interleavings, most callbacks "
         "raising, jobs carrying their scheduler as an argument, the handler rendering every record: no deadlock, one record per failure, counters exact")
