"""C02 — weekly jobs are due exactly at the requested weekday and time, every 7 days."""
from __future__ import annotations

from .. import core, gen, impl_thr, scen
from . import c01

ID = "C02"
BUDGET = {"quick": 2400, "thorough": 300000}
RULE = ("scenario = scheduler (naive/any offset) with 1-2 single-trigger weekly jobs; the start is placed so that all 7x7 "
        "(reference weekday in the trigger's offset, target weekday) pairs occur, on/around the occurrence (+-1us, +-1 week), "
        "with offsets that make the reference's weekday differ between start offset and trigger offset; polls relative to "
        "observed due instants; plus the exhaustive table days_to_weekday over [-2,8]^2 and the weekday() factory; "
        "non-trivial = at least one execution; distinct by scenario hash")
ASSUMPTIONS = c01.ASSUMPTIONS
runner = impl_thr.run_scenario
classes = c01.classes
nontrivial = c01.nontrivial


def scenarios(rng, n, tier):
    pair = 0
    for _ in range(n):
        opts = {"calls": [4], "p_single": 1.0, "p_skip": 0.25, "p_nodelay": 0.0, "p_stop": 0.1,
                "p_limit": 0.15, "max_jobs": 2, "p_force": 0.15, "p_start": 0.0}
        scn = scen.gen_life(rng, opts)
        # force the (reference weekday, target weekday) pair of the first job
        rw, tw = pair % 7, (pair // 7) % 7
        pair += 1
        o = scn["ops"][0]
        t = o["timings"][0]
        t[1] = tw
        toff = t[6] or 0
        aware = scn["tz"] is not None
        soff = gen.rand_off(rng)[0] if aware else None
        inst = scn["clock0"] + rng.randint(-core.DAY, core.DAY)
        cur = ((inst + toff) // core.DAY) % 7
        inst += ((rw - cur) % 7) * core.DAY
        if rng.random() < 0.5:
            # sit exactly on / next to the requested time of day
            tod = gen.tod_us(t[2:])
            day0 = (inst + toff) // core.DAY * core.DAY
            inst = day0 + tod - toff + rng.choice([0, -1, 1])
        o["start"] = [inst + (soff or 0), soff]
        yield scn


def specs(r):
    return c01.specs(r, calls=(4,))


def exhaustive(tier):
    """days_to_weekday on [-2,8]^2 and the weekday() factory, against the Lean model"""
    core.install_clock()
    import datetime as dt

    import scheduler.trigger as trigger
    from scheduler.error import SchedulerError
    from scheduler.util import days_to_weekday

    queries, ctx = [], []
    for s in range(-2, 9):
        for d in range(-2, 9):
            try:
                n = days_to_weekday(s, d)
            except SchedulerError:
                n = -1
            queries.append(f"spec days {s} {d} {n}")
            ctx.append({"what": "days_to_weekday", "src": s, "dest": d, "impl": n})
    fails = []
    for v in range(7):
        w = trigger.weekday(v, dt.time(1, 2, 3))
        cls = [trigger.Monday, trigger.Tuesday, trigger.Wednesday, trigger.Thursday, trigger.Friday, trigger.Saturday, trigger.Sunday][v]
        if not (w.value == v and isinstance(w, cls) and cls().value == v and w.time == dt.time(1, 2, 3)):
            fails.append({"scn": {"table": "weekday-factory", "value": v}, "spec_fail": [{"info": {"what": "weekday factory", "value": v}}], "no_shrink": True})
    ans = core.run_driver(queries)
    for q, a, c in zip(queries, ans, ctx):
        if a != "ok":
            fails.append({"scn": {"table": "days_to_weekday", **c}, "spec_fail": [{"query": q, "answer": a, "info": c}], "no_shrink": True})
    return {"tables": {"days_to_weekday": len(queries), "weekday_factory": 7}, "fail": fails}


# ---- concurrent readers: "the due time is always ..." also for a reader that runs while exec_jobs reschedules (weekly jobs)
_seq_scenarios = scenarios
S_ = 1_000_000


def _weekly_readers(rng):
    scn = c01._reader_scenario(rng)
    for j in scn["jobs"]:
        # weekly triggers that have missed one to four whole weeks (mostly skip_missing: the catch-up re-bases the timer)
        n = rng.choice([1, 1, 2])
        wds = rng.sample(range(7), n)
        j.update({"call": 4, "timings": [["w", wd, rng.randrange(24), rng.randrange(60), rng.randrange(60), rng.choice([0, 250]), None] for wd in wds],
                  "is_list": n > 1, "skip": rng.random() < (0.8 if n == 1 else 0.4),
                  "start": [scn["clock0"] - rng.randint(1, 4) * core.WEEK - rng.randrange(core.DAY), None]})
    scn["advance"] = rng.choice([0, 1, 7 * 86400, 86400 + 3600]) * S_ + rng.choice([0, 500_000])
    return scn


def scenarios(rng, n, tier):  # noqa: F811
    for scn in _seq_scenarios(rng, n, tier):
        yield _weekly_readers(rng) if rng.random() < 0.06 else scn


def runner(scn):  # noqa: F811
    return c01.runner(scn) if scn.get("kind") == "readers" else impl_thr.run_scenario(scn)


RULE += ("; 6% of the scenarios have other threads read job.datetime / job.timedelta of weekly jobs (one or two triggers, one to four "
         "missed weeks, mostly skip_missing) while overlapping exec_jobs callers reschedule them, with thread switches at every source "
         "line of the rescheduling code: every value read is a due time the job had before or after a rescheduling")
