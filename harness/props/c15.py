"""C15 — callbacks may use their own scheduler: no deadlock, exec_jobs finishes its batch."""
from __future__ import annotations

import json

from .. import core, gen, impl_aio, impl_conc
from . import c14, c18

ID = "C15"
BUDGET = {"quick": 600, "thorough": 60000}
RULE = ("scenario = one real threading Scheduler, 2-5 jobs (one-shots, jobs on their last attempt, unlimited ones) whose callbacks run "
        "scripts of public operations on their own scheduler - str, repr, get_jobs, jobs, scheduling a new job, delete_job of "
        "themselves / an earlier / a later / a foreign job, delete_jobs by tag or all - with n_threads in {1,2,3,0}; one or two "
        "controlled caller threads run exec_jobs (forced or not) under a seeded random / PCT interleaving of all lock, queue and "
        "thread operations; Spec: no deadlock, exec_jobs returns without raising, every selected job is invoked exactly once and "
        "is afterwards rescheduled or retired, jobs scheduled from a callback are registered but not run by that call, jobs "
        "deleted from a callback stay deleted; plus the lock discipline of C14; non-trivial = a callback that deleted a job of "
        "the same batch or printed the scheduler while another worker was active; distinct by (scenario, interleaving) hash. "
        "30% of the scenarios use the asyncio front end instead (virtual-time loop, the C18 generator restricted to histories in "
        "which a coroutine acts on its own scheduler: deletes its own / another job, deletes by tag, schedules): model "
        "correspondence, no task ends in an exception, a job deleted from a coroutine never starts again and stays "
        "unregistered, jobs scheduled from a coroutine are registered")
ASSUMPTIONS = c14.ASSUMPTIONS[:1] + ["callbacks do not call exec_jobs themselves", "callbacks terminate"]
S = 1_000_000


def gen_script(rng, nj, me):
    acts = []
    for _ in range(rng.randint(1, 3)):
        c = rng.random()
        if c < 0.2:
            acts.append({"op": "str"})
        elif c < 0.3:
            acts.append({"op": "get", "tags": sorted(rng.sample([1, 2, 3], rng.randint(0, 1))), "any": False})
        elif c < 0.4:
            acts.append({"op": "jobs"})
        elif c < 0.55:
            acts.append({"op": "sch", "call": rng.choice([0, 5]), "timings": [["c", rng.choice([0, 1, 50]) * S]], "tags": []})
        elif c < 0.7:
            acts.append({"op": "del", "key": me})
        elif c < 0.9:
            acts.append({"op": "del", "key": rng.randrange(nj + 1)})
        else:
            acts.append({"op": "dtags", "tags": sorted(rng.sample([1, 2, 3], rng.randint(0, 1))), "any": rng.random() < 0.5})
    return acts


def aio_scenarios(rng):
    """C18-style histories in which some coroutine uses its own scheduler"""
    while True:
        for scn in c18.scenarios(rng, 8, "quick"):
            if any(a[0] in ("ad", "at", "as") for o in scn["ops"] if o["op"] == "sch" for run in o.get("runs", []) for a in run["acts"]):
                yield scn


def scenarios(rng, n, tier):
    aio = aio_scenarios(rng)
    for _ in range(n):
        if rng.random() < 0.3:
            yield next(aio)
            continue
        clock = gen.rand_instant(rng)[0] // S * S
        nj = rng.randint(2, 5)
        jobs = []
        for i in range(nj):
            kind = rng.choice(["once", "last", "unl", "unl"])
            o = {"call": 5 if kind == "once" else 0, "timings": [["c", rng.choice([1, 2]) * S]],
                 "tags": sorted(rng.sample([1, 2, 3], rng.randint(0, 2)))}
            if kind == "last":
                o["max_att"] = 1
            if rng.random() < 0.7:
                o["script"] = gen_script(rng, nj, i)
            if rng.random() < 0.1:
                o["raises"] = True
            jobs.append(o)
        if rng.random() < 0.4:
            for o in rng.sample(jobs, min(2, len(jobs))):
                o["pass_sched"] = True       # the scheduler is handed to the callbacks as an argument
        callers = 1 if rng.random() < 0.7 else 2
        threads = [[{"op": "exec", "force": rng.random() < 0.25}] + ([{"op": "jobs"}] if rng.random() < 0.5 else []) for _ in range(callers)]
        yield {"tz": None, "n_threads": rng.choice([1, 2, 3, 0]), "clock0": clock, "advance": 3 * S, "jobs": jobs, "threads": threads, "ops": [],
               "sched": {"kind": rng.choice(["random", "pct"]), "seed": rng.randrange(10**9), "depth": rng.randint(1, 4)}}


def runner(scn):
    return impl_aio.run_scenario(scn) if scn.get("aio") else c14.runner(scn)


project = impl_aio.project


def aio_specs(r):
    """the clauses of C15 on an asyncio history: nothing raises, deleted stay deleted (never start again,
    never registered again), what vanished without a delete had no attempts left"""
    keep = ("no_start_after_delete", "no_task_error", "vanished although", "delete_registered_succeeds")
    from .. import aiomix as _am
    # "delete other jobs, delete its own job, clear the scheduler": delete_jobs from a coroutine removes its whole selection
    return [(q, info) for (q, info) in c18.specs(r) if any(info.get("what", "").startswith(k) for k in keep)] + _am.cop_sel_specs(r)


def specs(r):
    if r["scn"].get("aio"):
        return aio_specs(r)
    out, scn = r["obs"][0], r["scn"]
    qs = []
    if out.get("uncontrollable"):
        return qs
    if out.get("deadlock"):
        qs.append(("spec eq 0 1", {"what": "deadlock", "waits": out["deadlock"], "n_threads": scn.get("n_threads")}))
        return qs
    if out.get("error"):
        qs.append(("spec eq 0 1", {"what": "a thread died with an exception", "error": out["error"]}))
        return qs
    # "a callback may ... delete other jobs, delete its own job": with ONE exec_jobs call in the scenario, a callback's
    # delete_job of a job that was registered when the call began and that nothing else deletes succeeds (the call retires its
    # jobs only after all callbacks have finished)
    n_exec = sum(1 for ops in scn["threads"] for o in ops if o["op"] == "exec")
    if n_exec == 1:
        targets = {}
        wipes = False
        for j in scn["jobs"]:
            for a in j.get("script") or []:
                if a["op"] == "del":
                    targets[a["key"]] = targets.get(a["key"], 0) + 1
                elif a["op"] == "dtags":
                    wipes = True
        if not wipes:
            for (op_, key_, res_) in out.get("cop_results") or []:
                if op_ == "del" and key_ in out["init"] and targets.get(key_, 0) == 1 and res_ != "ok":
                    qs.append(("spec eq 0 1", {"what": "a callback's delete_job of a registered job of its own scheduler failed", "key": key_, "error": res_}))
    execs = [x for x in out["records"] if x["op"] == "exec"]
    for x in execs:
        if x["result"][0] != "c":
            qs.append(("spec eq 0 1", {"what": "exec_never_raises", "error": list(x["result"])}))
    njobs0 = len(scn["jobs"])
    jobs = out.get("jobs") or {}
    inv = {}
    for (k, e, _t) in out["invocations"]:
        inv[(k, e)] = inv.get((k, e), 0) + 1
    for (k, e), n in inv.items():
        if n != 1:
            qs.append(("spec eq 0 1", {"what": "selected job invoked more than once by one call", "key": k, "times": n}))
        if k >= njobs0 and (out.get("created_by_exec") or {}).get(k) == e:
            qs.append(("spec eq 0 1", {"what": "scheduled_in_callback_not_run_now violated: a job created by a callback ran in that same call", "key": k}))
    if len(execs) == 1 and execs[0]["result"][0] == "c":
        # single caller: the returned count is the batch size and every batch job was (a) invoked, (b) rescheduled or retired
        ran = sorted({k for (k, e, _t) in out["invocations"]})
        sel = out.get("selected", {}).get(str(execs[0]["exec_id"]), ran)
        qs.append((f"spec eq {1 if sorted(sel) == ran else 0} 1", {"what": "batch_completes: every selected job was invoked", "selected": sel, "ran": ran}))
        qs.append((f"spec eq {execs[0]['result'][1]} {len(ran)}", {"what": "batch_completes: count = invoked jobs", "ran": ran}))
        for k in ran:
            att, _f, has, mx, due = jobs[k]
            registered = k in (out["final"] or [])
            if has == 0:
                qs.append((f"spec eq {1 if registered else 0} 0", {"what": "batch_completes: exhausted job still registered", "key": k}))
            else:
                # rescheduled: its due time moved past the poll instant
                qs.append((f"spec lt {scn['clock0'] + scn['advance'] - 3 * S - 1} {due}", {"what": "batch_completes: job not rescheduled", "key": k}))
    # deleted from a callback stay deleted
    deleted = set()
    for i, j in enumerate(scn["jobs"]):
        ran_i = any(k == i for (k, e, _t) in out["invocations"])
        if ran_i:
            for c in j.get("script") or []:
                if c["op"] == "del" and c["key"] < njobs0:
                    deleted.add(c["key"])
    for k in deleted:
        if k in (out["final"] or []):
            qs.append(("spec eq 0 1", {"what": "deleted_stay_deleted", "key": k}))
    for k, v in jobs.items():
        if v[3] > 0:
            qs.append((f"spec le {v[0]} {v[3]}", {"what": "budget", "key": k}))
    return qs


signature = c14.signature


def classes(r):
    if r["scn"].get("aio"):
        return ["front:asyncio"] + c18.classes(r)
    out, scn = r["obs"][0], r["scn"]
    cl = [f"n_threads:{scn.get('n_threads')}", f"callers:{len(scn['threads'])}"]
    for j in scn["jobs"]:
        for c in j.get("script") or []:
            cl.append("cb:" + c["op"])
    return sorted(set(cl))


def nontrivial(r):
    cl = classes(r)
    if r["scn"].get("aio"):
        return "act:ad" in cl or "act:at" in cl
    return "cb:del" in cl or "cb:dtags" in cl or "cb:str" in cl
