"""C03 — cyclic jobs keep the drift-free cadence start + k*interval; one-shots are exact."""
from __future__ import annotations

from .. import core, gen, impl_thr, scen
from . import c01

ID = "C03"
BUDGET = {"quick": 2400, "thorough": 300000}
RULE = ("scenario = scheduler (naive/any offset) with 1-3 cyclic jobs (interval 0..weeks with us resolution; start past/"
        "present/future in its own offset or creation time; delay=False in 25%) and one-shots of all four kinds "
        "(datetime, timedelta, clock time, weekday trigger); 1-8 polls exactly on / next to / many intervals after a due "
        "instant, some forced; non-trivial = at least one execution; distinct by scenario hash")
ASSUMPTIONS = c01.ASSUMPTIONS
runner = impl_thr.run_scenario
nontrivial = c01.nontrivial


def scenarios(rng, n, tier):
    for _ in range(n):
        opts = {"calls": [0, 0, 0, 5], "p_skip": 0.0, "p_nodelay": 0.25, "p_stop": 0.1,
                "p_limit": 0.2, "max_jobs": 3, "p_maxexec": 0.15, "p_force": 0.15, "p_start": 0.6, "max_polls": 8}
        scn = scen.gen_life(rng, opts)
        for o in scn["ops"]:
            if o["op"] == "sch" and o["call"] == 5 and o["timings"][0][0] in ("t", "w") and rng.random() < 0.4:
                # the requested time of day sits on / a hair after / just under a second after the creation instant, on the creation
                # day's own weekday (read in the timing's offset): "the next such occurrence" is today, not in a day / a week
                t = o["timings"][0]
                off = t[-1] or 0
                local = o["clock"] + off
                tgt = local + rng.choice([1, 400_000, 999_999, 1_000_000, 0, -1, 59_999_999])
                tod = tgt % core.DAY
                h, rem = divmod(tod, 3_600_000_000)
                m, rem = divmod(rem, 60_000_000)
                sec, us = divmod(rem, 1_000_000)
                if t[0] == "t":
                    o["timings"] = [["t", h, m, sec, us, t[-1]]]
                else:
                    o["timings"] = [["w", (tgt // core.DAY) % 7, h, m, sec, us, t[-1]]]
        yield scn


def specs(r):
    qs = []
    scn = r["scn"]
    cyc = {}  # key -> (sch op, reference instant)
    for i, o in enumerate(scn["ops"]):
        if i >= len(r["obs"]) or "truncated" in r["obs"][i]:
            break
        ob = r["obs"][i]
        if o["op"] == "sch" and o["call"] == 5 and ob["res"][0] == "e" and ob["res"][1] != "SchedulerError":
            # a valid one-shot request must yield a job planned for the stated instant; a crash plans nothing
            qs.append(("spec eq 0 1", {"what": "once_accepted", "op": i, "error": ob["res"][1], "timing": o["timings"][0]}))
        if o["op"] == "sch" and ob["res"][0] == "j":
            k = ob["res"][1]
            due = ob["jobs"][k][0]
            if o["call"] == 0 and not o.get("skip"):
                ref = (o["start"][0] - (o["start"][1] or 0)) if o.get("start") else o["clock"]
                cyc[k] = (o, ref)
                d = 1 if o.get("delay", True) else 0
                qs.append((f"spec cadence {d} {ref} {o['timings'][0][1]} 1 {due}", {"what": "first_due", "key": k}))
            elif o["call"] == 5:
                t = o["timings"][0]
                if t[0] == "d":
                    qs.append((f"spec eq {t[1] - (t[2] or 0)} {due}", {"what": "once_datetime", "key": k}))
                elif t[0] == "c":
                    qs.append((f"spec eq {o['clock'] + t[1]} {due}", {"what": "once_timedelta", "key": k}))
                elif t[0] == "t":
                    qs.append((f"spec least {c01.tm_tokens(3, t)} {o['clock']} {due}", {"what": "once_clock", "key": k}))
                elif t[0] == "w":
                    qs.append((f"spec least {c01.tm_tokens(4, t)} {o['clock']} {due}", {"what": "once_weekday", "key": k}))
        elif o["op"] == "exec":
            for (k, due_seen, _p) in ob["invoked"]:
                if not o.get("force"):
                    # "due exactly at": an ordinary poll never runs a job before the due time it reports
                    qs.append((f"spec le {due_seen} {o['clock']}", {"what": "not_invoked_before_due", "key": k, "op": i}))
                if k in cyc:
                    o2, ref = cyc[k]
                    n = ob["jobs"][k][2]  # attempts after this call = index of this execution
                    d = 1 if o2.get("delay", True) else 0
                    qs.append((f"spec cadence {d} {ref} {o2['timings'][0][1]} {n} {due_seen}", {"what": "cadence", "key": k, "execution": n}))
    return qs


def classes(r):
    cl = c01.classes(r)
    for o in r["scn"]["ops"]:
        if o["op"] == "sch":
            if o["call"] == 0:
                T = o["timings"][0][1]
                cl.append("T:" + ("0" if T == 0 else "1us" if T == 1 else "<1min" if T < core.MINUTE else "<1day" if T < core.DAY else ">=1day"))
                if not o.get("delay", True):
                    cl.append("delay:false")
            elif o["call"] == 5:
                cl.append("once:" + o["timings"][0][0])
    return sorted(set(cl))


# ---- asyncio share (the property's one-shot mapping and cadence are shared code used by both front ends)
from .. import aiomix  # noqa: E402

aiomix.install(globals(), 0.2, aiomix.c03_scenarios, lambda r: aiomix.c03_specs(r, c01.tm_tokens),
               note="cyclic jobs (delay=False in 20%) and one-shots of all four kinds; Spec: once_* due instants, cadence of every coroutine start, no task error")


# ---- overlapping exec_jobs callers (threading): "no matter how ... irregularly exec_jobs is called" includes calls that overlap -
# ---- every run is rescheduled exactly once, so after n executions the job is planned for s + (n+1)*T
from . import c14 as _c14  # noqa: E402

_prev = {k: globals().get(k) for k in ("scenarios", "runner", "specs", "classes", "nontrivial", "project", "direct_specs", "signature")}
_S1 = 1_000_000


def _conc_scenario(rng):
    scn = _c14.gen_scenario(rng, {"p_exec_heavy": 1.0, "p_batched": 0.0, "p_pause": 0.4})
    for j in scn["jobs"]:
        j.update({"call": 0, "timings": [["c", rng.choice([1, 1, 2]) * _S1]]})
        j.pop("raises", None)
        j.pop("max_att", None)
    scn["advance"] = rng.choice([2, 3, 5]) * _S1
    for ops in scn["threads"]:
        for o in ops:
            if o["op"] != "exec":
                o.clear()
                o.update({"op": "exec", "force": False})
    scn["cb_len"] = rng.choice([0, 2, 6])
    scn["kind"] = "conc"
    return scn


def scenarios(rng, n, tier):  # noqa: F811
    for scn in _prev["scenarios"](rng, n, tier):
        yield _conc_scenario(rng) if rng.random() < 0.06 else scn


def runner(scn):  # noqa: F811
    return _c14.runner(scn) if scn.get("kind") == "conc" else _prev["runner"](scn)


def specs(r):  # noqa: F811
    if r["scn"].get("kind") != "conc":
        return _prev["specs"](r)
    out = r["obs"][0]
    if out.get("uncontrollable"):
        return []
    if out.get("deadlock") or out.get("error"):
        return [("spec eq 0 1", {"what": "overlapping callers: deadlock or a thread died", "detail": out.get("deadlock") or out.get("error")})]
    return _c14.final_due_specs(r["scn"], out) + [("spec eq 0 0", {"what": "overlapping callers: evaluated"})]


def classes(r):  # noqa: F811
    return ["kind:overlapping-callers"] if r["scn"].get("kind") == "conc" else _prev["classes"](r)


def nontrivial(r):  # noqa: F811
    if r["scn"].get("kind") == "conc":
        return len(r["obs"][0].get("invocations", [])) > 0
    return _prev["nontrivial"](r)


if _prev["project"] is not None:
    def project(line):  # noqa: F811
        return _prev["project"](line)

if _prev["direct_specs"] is not None:
    def direct_specs(r):  # noqa: F811
        return [] if r["scn"].get("kind") == "conc" else _prev["direct_specs"](r)

RULE += ("; 6% of the scenarios are 2-3 overlapping exec_jobs callers on 1-2 cyclic jobs (thread switches at every source line of the "
         "execution path, 40% with one long preemption): after n executions a job is planned for s + (n+1)*T")
