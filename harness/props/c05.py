"""C05 — under max_exec the highest-priority overdue jobs run, in priority order."""
from __future__ import annotations

from fractions import Fraction

from .. import core, gen, impl_thr, runlib, scen
from . import c01, c04

ID = "C05"
BUDGET = {"quick": 1600, "thorough": 200000}
RULE = ("scenario = scheduler with max_exec in {1,2,3,5} (and 0), n_threads in {1 (60%), 0, 2, 3}, 2-9 cyclic/one-shot jobs on a 2^-6 s grid (so that the float "
        "priorities are exact), weights incl. 0, fractional and equal ones, latenesses incl. ties; built-in linear / constant "
        "functions (batch must equal the Lean model's, including order) and table-driven user functions returning negative, "
        "zero, equal values (Spec oracle on the values actually returned); polls repeated at one instant until the backlog "
        "is drained; non-trivial = a poll where the limit actually cuts (more positive-priority jobs than max_exec); "
        "distinct by scenario hash")
ASSUMPTIONS = c01.ASSUMPTIONS + ["priority functions are deterministic and return comparable non-NaN numbers",
                                 "single worker (n_threads=1): invocation order = queue order; with n_threads in {0, 2, 3} (40% of the "
                                 "scenarios) the batch is compared as a set and the order clause is not evaluated"]
GRID = 15_625  # 2^-6 s in us


def scenarios(rng, n, tier):
    for _ in range(n):
        tz = None if rng.random() < 0.4 else gen.rand_off(rng, "hour")[0]
        clock = gen.rand_instant(rng)[0] // GRID * GRID
        kind = rng.choice([0, 0, 1, 2, 2])
        scn = {"tz": tz, "max_exec": rng.choice([0, 1, 1, 2, 2, 3, 5]), "prio": kind, "clock0": clock, "ops": [],
               "n_threads": rng.choice([1, 1, 1, 0, 0, 2, 3])}
        nj = rng.randint(2, 9)
        ptable = {}
        for i in range(nj):
            T = rng.choice([1, 2, 4, 64, 640, 6400]) * GRID * rng.randint(1, 5)
            o = {"op": "sch", "call": 0, "timings": [["c", T]], "clock": clock, "payload": i + 1}
            c = rng.random()
            if c < 0.08:
                o["w"] = [-rng.randint(1, 3), 1]
            elif c < 0.15:
                o["w"] = [0, 1]
            elif c < 0.5:
                o["w"] = [rng.choice([1, 1, 2, 3]), 1]
            else:
                o["w"] = [rng.randint(1, 16), rng.choice([1, 2, 4, 8])]
            if rng.random() < 0.3:
                o["max_att"] = 1
            elif rng.random() < 0.3:
                # a one-shot made with once(timedelta): its weight must reach the priority function like any other job's
                o["call"] = 5
                o.pop("start", None)
            if rng.random() < 0.4:
                off = tz
                st = clock - rng.choice([0, 1, 2, 64, 6400]) * GRID
                o["start"] = [st + (off or 0), off]
            scn["ops"].append(o)
            ptable[str(i)] = [rng.choice([-3, -1, 0, 0, 1, 1, 2, 2, 3, 5, 7]), rng.choice([1, 1, 2, 4])]
        if kind == 2:
            scn["ptable"] = ptable
            scn["pmode"] = rng.choice(["table", "table", "neglate"])
        t = clock
        for _ in range(rng.randint(2, 8)):
            if rng.random() < 0.5:
                t += rng.choice([0, 1, 64, 640, 6400, 64000]) * GRID
            scn["ops"].append({"op": "exec", "clock": t})
        yield scn


def ptable_of(ob):
    """(key, priority actually returned) in registry iteration order"""
    return [(p[0], Fraction(p[4])) for p in ob["prio"]]


def runner(scn):
    lines0, impl0, obs = impl_thr.run_scenario(scn)
    lines, impl = [lines0[0]], [impl0[0]]
    for o, ob in zip(scn["ops"], obs):
        if "truncated" in ob:
            break
        if o["op"] == "exec" and not o.get("force") and ob["res"][0] == "c":
            par = scn.get("n_threads", 1) != 1   # several workers: the batch is compared as a set
            if scn.get("prio", 0) == 2:
                tab = ptable_of(ob)
                lines.append(f"selectp{'s' if par else ''} {scn.get('max_exec', 0)} {len(tab)} " + " ".join(f"{k} {p.numerator} {p.denominator}" for k, p in tab))
            else:
                tab = c04.table_of(ob, o["clock"])
                lines.append(f"select{'s' if par else ''} {scn.get('max_exec', 0)} {scn.get('prio', 0)} {o['clock']} {len(tab)} " + " ".join(f"{k} {d} {c04.w_tokens(w)}" for k, d, w in tab))
            keys = [i[0] for i in ob["invoked"]]
            impl.append(("B " + " ".join(str(k) for k in (sorted(keys) if par else keys))).strip())
    return lines, impl, obs


def specs(r):
    qs = []
    scn = r["scn"]
    for i, (o, ob) in enumerate(zip(scn["ops"], r["obs"])):
        if "truncated" in ob:
            break
        if o["op"] != "exec" or o.get("force"):
            continue
        if ob["res"][0] != "c":
            qs.append(("spec eq 0 1", {"what": "exec_jobs raised", "op": i, "exc": ob.get("exc")}))
            continue
        tab = ptable_of(ob)
        inv = [x[0] for x in ob["invoked"]]
        if scn.get("n_threads", 1) != 1:
            # several workers start the batch in queue order but the callbacks are entered in any order:
            # the order clause is decided on single-worker runs, everything else on the batch as a set
            pr = dict(tab)
            pos = {k: n for n, (k, _p) in enumerate(tab)}
            inv = sorted(inv, key=lambda k: (-pr.get(k, 0), pos.get(k, 0)))
        qs.append((f"spec c05 {scn.get('max_exec', 0)} {len(tab)} " + " ".join(f"{k} {p.numerator} {p.denominator}" for k, p in tab)
                   + f" {core.s_list(inv)}", {"what": "selection", "op": i}))
        qs.append((f"spec eq {ob['res'][1]} {len(inv)}", {"what": "return value", "op": i}))
    return qs


def direct_specs(r):
    """arguments of the priority function: (now - due in seconds, job, max_exec, #registered), once per job"""
    fails = runlib.waiting_unchanged(r, "a job left waiting by the limit did not keep its due time / counters")
    scn = r["scn"]
    # the weight the priority function sees is the weight the job was scheduled with (oracle: the scenario, not the job)
    want_w = {}
    nk = 0
    for o, ob in zip(scn["ops"], r["obs"]):
        if "truncated" in ob:
            break
        if o["op"] == "sch" and ob["res"][0] == "j":
            want_w[ob["res"][1]] = Fraction(o.get("w", [1, 1])[0], o.get("w", [1, 1])[1])
        if o["op"] == "exec":
            for p_ in ob.get("prio", []):
                if p_[0] in want_w and Fraction(p_[6]) != want_w[p_[0]]:
                    fails.append({"info": {"what": "the job's weight is not the weight it was scheduled with", "key": p_[0], "got": str(p_[6]), "want": str(want_w[p_[0]])}})
                    break
    for i, (o, ob) in enumerate(zip(scn["ops"], r["obs"])):
        if "truncated" in ob:
            break
        if o["op"] == "exec" and not o.get("force") and ob["res"][0] == "c" and i > 0:
            reg = sorted(k for k, v in r["obs"][i - 1]["jobs"].items() if v[5] == 1)
            if sorted(p[0] for p in ob["prio"]) != reg:
                fails.append({"info": {"what": "priority function not evaluated exactly once per registered job", "op": i}})
            for p in ob["prio"]:
                if p[2] != scn.get("max_exec", 0) or p[3] != len(reg) or abs(p[1] * 10**6 - p[5]) > 0.5:
                    fails.append({"info": {"what": "priority function arguments", "op": i, "got": [p[1], p[2], p[3]], "late_us": p[5], "n": len(reg)}})
                    break
            if scn.get("prio", 0) in (0, 1):
                for p in ob["prio"]:
                    fw, late = Fraction(p[6]), p[5]
                    want = Fraction(0) if late < 0 else ((Fraction(late, 10**6) + 1) * fw if scn.get("prio", 0) == 0 else fw)
                    if Fraction(p[4]) != want:
                        fails.append({"info": {"what": "built-in priority value", "op": i, "got": p[4], "want": str(want)}})
                        break
    return fails


def classes(r):
    cl = [f"prio:{r['scn'].get('prio', 0)}", f"max_exec:{r['scn'].get('max_exec', 0)}", f"n_threads:{r['scn'].get('n_threads', 1)}"]
    for o, ob in zip(r["scn"]["ops"], r["obs"]):
        if "truncated" in ob:
            break
        if o["op"] == "exec":
            vals = [Fraction(p[4]) for p in ob["prio"]]
            npos = sum(1 for v in vals if v > 0)
            if len(set(vals)) < len(vals):
                cl.append("ties")
            if any(v < 0 for v in vals):
                cl.append("negative")
            if any(v == 0 for v in vals):
                cl.append("zero")
            me = r["scn"].get("max_exec", 0)
            if me and npos > me:
                cl.append("limit-cuts")
    return sorted(set(cl))


def nontrivial(r):
    return "limit-cuts" in classes(r)
