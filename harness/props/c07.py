"""C07 — no execution is planned outside a job's start..stop window."""
from __future__ import annotations

from .. import core, gen, impl_thr, runlib, scen
from . import c01, c08

ID = "C07"
BUDGET = {"quick": 2400, "thorough": 300000}
RULE = ("scenario = scheduler (naive/any offset) with 1-3 jobs of all types (some batched) with stop exactly on an occurrence, "
        "+-1us, before the first occurrence, far away, or <= start/creation (must be rejected); combined with max_attempts and "
        "skip_missing; jobs registered through the scheduling calls or created directly and handed to Scheduler(jobs=...) "
        "(30%); polls on/around due instants and long after stop, some forced; non-trivial = a job with a stop that was "
        "executed at least once or whose first due time lies past stop; distinct by scenario hash")
ASSUMPTIONS = c01.ASSUMPTIONS
runner = impl_thr.run_scenario


def place_stop(rng, o, clock, tz):
    """put stop on / next to an occurrence of the job (computed arithmetically, not by the code)"""
    aware = tz is not None
    ref = (o["start"][0] - (o["start"][1] or 0)) if o.get("start") else clock
    call = o["call"]
    if call == 0:
        T = o["timings"][0][1]
        occ = ref + rng.randint(1, 4) * T
        P = max(T, 1)
    elif call in (1, 2, 3, 4):
        P, ph, toff = gen.phase_of(call, o["timings"][0])
        first = ref + 1 + ((ph - toff - (ref + 1)) % P)
        occ = first + rng.randint(0, 3) * P
    else:
        return
    first_reg = ref + o["timings"][0][1] if call == 0 else first
    if not o.get("delay", True) and first_reg - ref > 1 and rng.random() < 0.5:
        # delay=False: a window that contains `start` but not the first regular occurrence
        inst = ref + rng.randint(1, first_reg - ref - 1)
        off = gen.rand_off(rng)[0] if aware else None
        o["stop"] = [inst + (off or 0), off]
        return
    inst = occ + rng.choice([0, 0, -1, 1, 1, P // 2, -(P // 2), 10 * P, -10 * P])
    off = gen.rand_off(rng)[0] if aware else None
    o["stop"] = [inst + (off or 0), off]


def scenarios(rng, n, tier):
    for _ in range(n):
        opts = {"calls": [0, 0, 1, 2, 3, 4], "p_single": 0.7, "p_skip": 0.3, "p_nodelay": 0.2, "p_stop": 0.0,
                "p_limit": 0.3, "max_jobs": 3, "p_force": 0.2, "p_start": 0.5, "max_polls": 8}
        scn = scen.gen_life(rng, opts)
        ctor = rng.random() < 0.3
        if ctor:
            scn["ctor_kind"] = rng.choice(["set", "list", "tuple", "gen", "iter", "frozenset"])
        for o in scn["ops"]:
            if o["op"] == "sch":
                if rng.random() < 0.8:
                    place_stop(rng, o, o["clock"], scn["tz"])
                if ctor:
                    o["ctor"] = True
                    o["is_list"] = True
        # polls long after stop
        nk = sum(1 for o in scn["ops"] if o["op"] == "sch")
        for _ in range(rng.randint(0, 3)):
            scn["ops"].append({"op": "exec", "rel": [rng.randrange(nk), rng.choice([core.DAY, core.WEEK, 0, 1])], "force": rng.random() < 0.3})
        yield scn


def specs(r):
    qs = []
    scn = r["scn"]
    jobs = {}
    touched = False  # a delete op may unregister jobs for other reasons
    for i, o in enumerate(scn["ops"]):
        if i >= len(r["obs"]) or "truncated" in r["obs"][i]:
            break
        ob = r["obs"][i]
        if o["op"] == "sch":
            ref = (o["start"][0] - (o["start"][1] or 0)) if o.get("start") else o["clock"]
            aware = scn.get("tz") is not None
            uniform = all((x is None or (x[1] is not None) == aware) for x in (o.get("start"), o.get("stop")))
            if o.get("stop") and uniform and ob["res"][0] in ("j", "e"):
                stop = o["stop"][0] - (o["stop"][1] or 0)
                if stop <= ref:
                    # stop not later than start / creation time: rejected, nothing registered
                    qs.append((f"spec eq {1 if ob['res'] == ('e', 'SchedulerError') else 0} 1", {"what": "stop_validation", "op": i, "stop": stop, "ref": ref}))
            if ob["res"][0] == "j":
                k = ob["res"][1]
                jobs[k] = (o, ref)
        if o["op"] in ("del", "dtags"):
            touched = True
        # every snapshot: registered jobs with a stop have due <= stop; due >= start
        for k, (o2, ref) in jobs.items():
            if k not in ob.get("jobs", {}):
                continue
            due, _aw, att, _f, has, reg = ob["jobs"][k]
            if o2.get("stop"):
                stop = o2["stop"][0] - (o2["stop"][1] or 0)
                if reg == 1:
                    qs.append((f"spec le {due} {stop}", {"what": "registered_within_stop", "key": k, "op": i}))
                elif not touched and due <= stop and (not o2.get("max_att") or att < o2["max_att"]):
                    # removed although its next due time does not exceed stop and attempts remain
                    qs.append(("spec eq 0 1", {"what": "kept_until_past_stop", "key": k, "op": i, "due": due, "stop": stop}))
            qs.append((f"spec le {ref} {due}", {"what": "not_before_start", "key": k, "op": i}))
        if o["op"] == "exec":
            for (k, due_seen, _p) in ob["invoked"]:
                if k in jobs and jobs[k][0].get("stop"):
                    o2 = jobs[k][0]
                    stop = o2["stop"][0] - (o2["stop"][1] or 0)
                    qs.append((f"spec le {due_seen} {stop}", {"what": "invocations_within_stop", "key": k, "op": i}))
    # "removed by the call after which its next due time WOULD exceed stop" - the next due time by the Spec, not as reported
    return qs + runlib.stop_retirement_specs(r, c08.tms_tokens)


def classes(r):
    cl = c01.classes(r)
    for i, o in enumerate(r["scn"]["ops"]):
        if o["op"] == "sch":
            if o.get("ctor"):
                cl.append("via:constructor")
            if o.get("stop"):
                cl.append("stop:given")
                if i < len(r["obs"]) and r["obs"][i].get("res", ("?",))[0] == "e":
                    cl.append("stop:rejected")
            if o.get("stop") and o.get("max_att"):
                cl.append("stop+max_attempts")
            if o.get("stop") and o.get("skip"):
                cl.append("stop+skip")
    for ob in r["obs"]:
        for k, v in (ob.get("jobs") or {}).items():
            if v[5] == 0 and v[2] == 0:
                cl.append("never-registered-or-retired-before-running")
    return sorted(set(cl))


def nontrivial(r):
    has_stop = any(o["op"] == "sch" and o.get("stop") for o in r["scn"]["ops"])
    ran = any(ob.get("invoked") for ob in r["obs"] if isinstance(ob, dict))
    return has_stop and (ran or "never-registered-or-retired-before-running" in classes(r))


# ---- overlapping exec_jobs callers (threading): the stop also holds when several threads poll at once - a job selected by
# ---- one call and meanwhile run for its last occurrence (and retired) by another must not be run again beyond its stop
from . import c14 as _c14  # noqa: E402

_seq = {k: globals()[k] for k in ("scenarios", "runner", "specs", "classes", "nontrivial")}
_S = 1_000_000


def _conc_scenario(rng):
    scn = _c14.gen_scenario(rng, {"p_exec_heavy": 1.0, "p_batched": 0.0})
    for j in scn["jobs"]:
        # a cyclic job whose window holds exactly one or two occurrences, the first of them overdue when the callers start
        T = rng.choice([1, 1, 2]) * _S
        j.update({"call": 0, "timings": [["c", T]], "stop": [scn["clock0"] + rng.choice([1, 1, 2]) * T + rng.choice([0, T // 2]), None]})
        j.pop("raises", None)
    scn["advance"] = rng.choice([2, 2, 3]) * _S
    for ops in scn["threads"]:
        for o in ops:
            if o["op"] == "exec":
                o["force"] = False
    if rng.random() < 0.5:
        scn["sched"] = {"kind": "pause", "victim": rng.randrange(len(scn["threads"])), "at": rng.randint(0, 40), "seed": rng.randrange(10**9)}
    scn["kind"] = "conc"
    return scn


def scenarios(rng, n, tier):  # noqa: F811
    for scn in _seq["scenarios"](rng, n, tier):
        yield _conc_scenario(rng) if rng.random() < 0.08 else scn


def runner(scn):  # noqa: F811
    return _c14.runner(scn) if scn.get("kind") == "conc" else _seq["runner"](scn)


def specs(r):  # noqa: F811
    if r["scn"].get("kind") != "conc":
        return _seq["specs"](r)
    out = r["obs"][0]
    qs = []
    if out.get("uncontrollable"):
        return qs
    if out.get("deadlock") or out.get("error"):
        qs.append(("spec eq 0 1", {"what": "overlapping callers: deadlock or a thread died", "detail": out.get("deadlock") or out.get("error")}))
        return qs
    stops = {int(k): v for k, v in (out.get("stops") or {}).items()}
    # an invocation whose worker took the job's execution lock only after another caller's rescheduling had moved the due
    # time past the stop (and so retired the job) is an execution planned outside the window
    for (k, due, stop) in out.get("invoked_after_retirement") or []:
        qs.append((f"spec le {due} {stop}", {"what": "overlapping callers: invoked after the job had been retired by its stop", "key": k, "due": due, "stop": stop}))
    qs.append(("spec eq 0 0", {"what": "overlapping callers: evaluated"}))
    for k, v in (out.get("jobs") or {}).items():
        if stops.get(k) is not None and k in (out.get("final") or []):
            qs.append((f"spec le {v[4]} {stops[k]}", {"what": "overlapping callers: a registered job's due time is <= stop", "key": k}))
    return qs


def classes(r):  # noqa: F811
    return ["kind:overlapping-callers"] if r["scn"].get("kind") == "conc" else _seq["classes"](r)


def nontrivial(r):  # noqa: F811
    if r["scn"].get("kind") == "conc":
        return len(r["obs"][0].get("invocations", [])) > 0
    return _seq["nontrivial"](r)


RULE += ("; 8% of the scenarios are overlapping exec_jobs callers (2-3 controlled threads, thread switches at every source line of the "
         "execution path, half of them with one long preemption) on jobs whose window holds one or two occurrences: every invocation "
         "belongs to a due time <= stop, also for a job that another caller retired meanwhile")
