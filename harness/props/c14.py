"""C14 — concurrent use from several threads is linearizable; the job set stays intact."""
from __future__ import annotations

import json
import random

from .. import core, coop, gen, impl_conc

ID = "C14"
BUDGET = {"quick": 3000, "thorough": 60000}
RULE = ("scenario = one real threading Scheduler with 2-5 jobs (one-shots and unlimited cyclic jobs, tags), 2-4 controlled threads each "
        "performing 1-3 public operations (exec_jobs forced or not, scheduling, delete_job, delete_jobs by tags/all, get_jobs, jobs, "
        "str, repr), n_threads in {1,2,0}; every lock acquire/release, queue operation, thread start/join and callback boundary "
        "is a scheduling point (25% of the scenarios additionally at every source line of the registry operations); the "
        "interleaving is chosen by a seeded random, PCT or one-long-preemption scheduler (20%: one thread is suspended after k of its steps "
        "until all others are done or blocked - the schedule that opens read-modify-write windows) and recorded; Spec (Lean): the completed calls are "
        "linearizable w.r.t. the sequential registry machine with exec_jobs acting at two atomic points; no internal error, no "
        "deadlock, at most one invocation per (exec_jobs call, job), attempts <= max_attempts; dynamic lock discipline: every "
        "acquisition respects the rank order exec-lock < registry lock < job lock < timer lock and nobody waits for a thread or "
        "the queue while holding a lock (hypotheses of the deadlock-freedom theorem); registry-access discipline on the observed accesses "
        "to the registry attribute: writes only under the registry lock, all accesses of one scheduling / delete_job / delete_jobs call in one "
        "critical section (hypotheses of the reduction theorem); a quarter of the recurring jobs are batched jobs with one overdue occurrence "
        "per time; an exec_jobs call must choose every job that was due before, after and between all reschedulings up to its return; when all "
        "calls have returned a job executed n times is planned for its (n+1)-th occurrence; histories wider than 13 concurrent points skip the "
        "linearizability query (lin-too-wide); non-trivial = at least two operations "
        "overlapped in real time and one of them changed the registry; distinct by (scenario, interleaving) hash")
ASSUMPTIONS = ["CPython with a GIL: single C-level set operations (copy, len, list, add, remove, discard) are atomic",
               "callbacks in C14 scenarios do not call the scheduler (that is C15)", "jobs are one-shots or unlimited (retirement is then decided by the first run)"]
S = 1_000_000


def gen_scenario(rng, opts=None):
    opts = opts or {}
    clock = gen.rand_instant(rng)[0] // S * S
    nj = rng.randint(2, 5)
    jobs = []
    all_due = rng.random() < opts.get("p_all_due", 0.25)     # every job overdue when the callers start (nothing sorts last with priority 0)
    for i in range(nj):
        once = rng.random() < 0.45
        jobs.append({"call": 5 if once else 0, "timings": [["c", rng.choice([1, 1, 2] if all_due else [1, 1, 2, 30]) * S]],
                     "tags": sorted(rng.sample([1, 2, 3], rng.randint(0, 2)))})
        if rng.random() < 0.15:
            jobs[-1]["raises"] = True
        if not once and rng.random() < opts.get("p_batched", 0.25):
            # a batched job with several overdue times: rescheduling touches one timer and then re-chooses the pending one
            m = rng.sample(range(60), rng.randint(2, 3))
            jobs[-1].update({"call": 2, "timings": [["t", 0, mm, rng.randrange(60), 0, None] for mm in m], "is_list": True,
                             # 3599 s: every listed time has exactly one overdue occurrence (the next one lies in the future)
                             "start": [clock - rng.choice([3599, 3599, 2 * 3600 + 1, 5 * 3600]) * S, None]})
    if rng.random() < 0.3:
        for j in rng.sample(jobs, min(2, len(jobs))):
            j["pass_sched"] = True           # callbacks are handed their scheduler as an argument
    nthreads = rng.randint(2, 4)
    threads = []
    # 15%: overlapping exec_jobs calls on a small population of jobs that have never run
    # (races inside the per-job execution path need two callers that selected the same job)
    exec_heavy = rng.random() < opts.get("p_exec_heavy", 0.15)
    if exec_heavy:
        nthreads = rng.randint(2, 3)
        jobs = jobs[:rng.randint(1, 2)]
        nj = len(jobs)
    for _ in range(nthreads):
        ops = []
        for _o in range(rng.randint(1, 2) if exec_heavy else rng.randint(1, 3)):
            c = rng.random() * (0.5 if exec_heavy else 1.0)
            if opts.get("del_heavy"):
                # registry-changing calls against each other: c in [0.3, 0.67) = del / dtags / sch
                c = 0.3 + rng.random() * 0.37 if rng.random() < 0.8 else rng.random()
            if c < 0.3:
                ops.append({"op": "exec", "force": rng.random() < 0.2})
            elif c < 0.45:
                ops.append({"op": "del", "key": rng.randrange(nj)})
            elif c < 0.55:
                ops.append({"op": "dtags", "tags": sorted(rng.sample([1, 2, 3], rng.randint(0, 1))), "any": rng.random() < 0.5})
            elif c < 0.67:
                ops.append({"op": "sch", "call": rng.choice([0, 5]), "timings": [["c", rng.choice([1, 40]) * S]], "tags": sorted(rng.sample([1, 2, 3], rng.randint(0, 1)))})
                if ops[-1]["call"] == 0 and rng.random() < 0.4:
                    # a job that is overdue the moment it is registered (it outranks the jobs that are already waiting)
                    ops[-1]["start"] = [clock - rng.choice([5, 60]) * S, None]
            elif c < 0.77:
                ops.append({"op": "get", "tags": sorted(rng.sample([1, 2, 3], rng.randint(0, 2))), "any": rng.random() < 0.5})
            elif c < 0.87:
                ops.append({"op": "jobs"})
            elif c < 0.95:
                ops.append({"op": "str"})
            else:
                ops.append({"op": "repr"})
        threads.append(ops)
    return {"tz": None, "n_threads": rng.choice([1, 1, 2, 0]), "clock0": clock, "advance": rng.choice([2, 2, 0]) * S + rng.choice([0, 500_000]),
            "jobs": jobs, "threads": threads, "ops": [],
            "sched": ({"kind": "pause", "victim": rng.randrange(nthreads), "at": rng.randint(0, 30), "seed": rng.randrange(10**9)}
                      if rng.random() < opts.get("p_pause", 0.2) else
                      {"kind": "random" if exec_heavy else rng.choice(["random", "random", "pct"]), "seed": rng.randrange(10**9), "depth": rng.randint(1, 4)}),
            "line_preempt": exec_heavy or rng.random() < opts.get("p_line", 0.4), "cb_len": rng.choice([0, 4, 12]) if exec_heavy else 0}


def scenarios(rng, n, tier):
    for _ in range(n):
        yield gen_scenario(rng)


LOCK_RANK = {"X": 0, "R": 1, "L": 2, "T": 3}
LIN_MAX_WIDTH = 13


def lock_classes(runner):
    """lock name -> (class, job key) from the objects' attributes"""
    names = {}
    s = runner.sched
    names[s._Scheduler__jobs_lock.name] = ("R", -1)
    for k, j in enumerate(runner.created):
        names[j._Job__lock.name] = ("L", k)
        x = getattr(j, "_Job__exec_lock", None)
        if x is not None:
            names[x.name] = ("X", k)
        for t in j._BaseJob__timers:
            names[t._JobTimer__lock.name] = ("T", k)
    return names


def run_impl(scn):
    r = impl_conc.ConcRunner(scn)
    try:
        out = r.run()
    finally:
        # other runners in this process (sequential, asyncio) use the real threading / queue modules
        from .. import coop
        coop.uninstall()
    try:
        names = lock_classes(r)
    except Exception:  # noqa: BLE001
        names = {}
    out["bad_edges"] = []
    for (held, req) in out.get("edges", []):
        a, b = names.get(held), names.get(req)
        if a is None or b is None:
            continue
        if not (LOCK_RANK[a[0]] < LOCK_RANK[b[0]]):
            out["bad_edges"].append([list(a), list(b)])
    return out


def lin_query(scn, out):
    """the `spec linearizable` line for the completed calls"""
    tags = {}
    for k, j in enumerate(scn["jobs"]):
        tags[k] = j.get("tags") or []
    recs = []
    exhausted_once = set()
    njobs0 = len(scn["jobs"])
    all_recs = sorted(out["records"], key=lambda r: r["inv"])
    # keys created during the run
    for r in all_recs:
        if r["op"] == "sch" and r["result"][0] == "j":
            tags[r["result"][1]] = r["args"].get("tags") or []
    jobs = out.get("jobs") or {}
    for r in all_recs:
        res = r["result"]
        if res[0] == "e" and not (r["op"] == "del" and res[1] == "SchedulerError"):
            return None  # internal error: reported separately
        if r["op"] == "sch":
            k = res[1]
            registered = True
            recs.append(f"{r['inv']} {r['res']} sched {k} {1 if registered else 0}")
        elif r["op"] == "del":
            recs.append(f"{r['inv']} {r['res']} del {r['args']['key']} {1 if res[0] == 'u' else 0}")
        elif r["op"] == "dtags":
            recs.append(f"{r['inv']} {r['res']} dtags {1 if r['args'].get('any') else 0} {core.s_list(r['args'].get('tags') or [])} {res[1]}")
        elif r["op"] == "get":
            recs.append(f"{r['inv']} {r['res']} get {1 if r['args'].get('any') else 0} {core.s_list(r['args'].get('tags') or [])} {core.s_list(res[1])}")
        elif r["op"] == "jobs":
            recs.append(f"{r['inv']} {r['res']} jobs {core.s_list(res[1])}")
        elif r["op"] == "str":
            recs.append(f"{r['inv']} {r['res']} str {res[1]}")
        elif r["op"] == "exec":
            eid = r["exec_id"]
            batch = out.get("selected", {}).get(str(eid))
            if batch is None:
                batch = [k for (k, e, _t) in out["invocations"] if e == eid]
            # jobs this call ran that have no attempts left are retired by its finish point
            retire = [k for k in batch if jobs.get(k, (0, 0, 1))[2] == 0]
            recs.append(f"{r['inv']} {r['res']} sel {eid} {1 if r['args'].get('force') else 0} {core.s_list(sorted(set(batch)))}")
            # "rescheduling/retiring each job it ran": one atomic point per job of the batch
            for k in sorted(set(retire)):
                recs.append(f"{r['inv']} {r['res']} fin {eid} 1 {k}")
    tagtoks = " ".join(f"{k} {core.s_list(v)}" for k, v in sorted(tags.items()))
    # the decision procedure is exact but exponential in the number of points that are pairwise concurrent: histories wider
    # than LIN_MAX_WIDTH (several overlapping exec_jobs calls each retiring many jobs) are not submitted (counted in the
    # evidence as lin-too-wide); every other clause is still evaluated on them
    evs = []
    for rline in recs:
        a, b = rline.split()[:2]
        evs.append((int(a), 1))
        evs.append((int(b) + 1, -1))
    depth = cur = 0
    for _t, d in sorted(evs):
        cur += d
        depth = max(depth, cur)
    out["lin_width"] = depth
    if depth > LIN_MAX_WIDTH:
        return None
    return f"spec linearizable {len(tags)} {tagtoks} {core.s_list(out['init'])} {core.s_list(out['final'] or [])} {len(recs)} " + " ".join(recs)


def runner(scn):
    """no model stream to diff here: the tie of C14 is the dynamic discipline check + the Lean Spec;
    the 'implementation line' reports the lock-order edges that violate the rank discipline"""
    out = run_impl(scn)
    scn["sched"] = {"kind": "replay", "seq": out["schedule"], "seed": scn.get("sched", {}).get("seed", 0)}
    lines = ["S N 0 0", "spec eq 0 0"]
    problems = []
    if out.get("uncontrollable"):
        problems.append("harness cannot control this implementation's threads/queues: " + str(out["uncontrollable"])[:160])
    if out["bad_edges"]:
        problems.append("rank-violation " + json.dumps(out["bad_edges"][:3]))
    if out.get("wait_violations"):
        problems.append("wait-while-holding " + json.dumps(out["wait_violations"][:3]))
    if out.get("left_holding"):
        problems.append("finished-while-holding " + json.dumps(out["left_holding"][:3]))
    if out.get("registry_discipline"):
        problems.append("registry-discipline " + json.dumps(out["registry_discipline"][:3]))
    impl = ["S ok", "ok" if not problems else "; ".join(problems)]
    return lines, impl, [out]


def specs(r):
    out = r["obs"][0]
    scn = r["scn"]
    qs = []
    if out.get("uncontrollable"):
        return qs
    if out.get("deadlock"):
        qs.append(("spec eq 0 1", {"what": "deadlock", "waits": out["deadlock"]}))
        return qs
    if out.get("error"):
        qs.append(("spec eq 0 1", {"what": "a thread died with an exception", "error": out["error"]}))
        return qs
    for rec in out["records"]:
        res = rec["result"]
        if res[0] == "e" and not (rec["op"] == "del" and res[1] == "SchedulerError"):
            qs.append(("spec eq 0 1", {"what": "no_internal_error", "op": rec["op"], "error": list(res)}))
        if rec["op"] == "str" and res[0] == "n" and len(res) > 2:
            # one print call reads ONE registry: the heading's count is the number of rows of the same result
            qs.append((f"spec eq {res[2]} {res[1]}", {"what": "printed table is one snapshot (heading count = rows)", "heading": res[1], "rows": res[2]}))
    # at most once per exec_jobs call
    seen = {}
    for (k, e, _t) in out["invocations"]:
        seen[(k, e)] = seen.get((k, e), 0) + 1
    for (k, e), n in seen.items():
        if n > 1:
            qs.append(("spec eq 0 1", {"what": "once_per_call", "key": k, "exec": e, "times": n}))
        if e is not None and k not in (out.get("selected", {}).get(str(e)) or [k]):
            qs.append(("spec eq 0 1", {"what": "a job was invoked by a call that had not selected it", "key": k, "exec": e}))
    for k, v in (out.get("jobs") or {}).items():
        if v[3] > 0:
            qs.append((f"spec le {v[0]} {v[3]}", {"what": "budget", "key": k, "attempts": v[0], "max": v[3]}))
    # an exec_jobs call chooses its batch from ONE state of every job: a job that is registered from before the call until
    # after it, and whose due time - before, after and between all reschedulings that completed up to the call's return - was
    # never later than the clock, is due in every sequential order and must be in the batch
    tl = out.get("due_timeline")
    if tl and not scn.get("max_exec"):
        now = out.get("now")
        final = set(out.get("final") or [])
        for rec in out["records"]:
            if rec["op"] != "exec" or rec["args"].get("force") or rec["result"][0] != "c":
                continue
            batch = out.get("selected", {}).get(str(rec.get("exec_id")))
            if batch is None:
                continue
            for k in out["init"]:
                if k not in final or k >= len(scn["jobs"]) or (scn["jobs"][k].get("w") not in (None,)):
                    continue
                vals = [(t, d) for (t, d) in tl.get(k, []) if t <= rec["res"]]
                if vals and all(d <= now for (_t, d) in vals) and k not in batch:
                    qs.append(("spec eq 0 1", {"what": "a job that was due during the whole exec_jobs call was not chosen (batch not taken from one state of the job)",
                                               "key": k, "exec": rec.get("exec_id"), "dues": sorted({d for _t, d in vals}), "now": now}))
    qs += final_due_specs(scn, out)
    q = lin_query(scn, out)
    if q is not None:
        qs.append((q, {"what": "registry_linearizable", "records": [(x["thread"], x["op"], x["args"], list(x["result"]), x["inv"], x["res"]) for x in sorted(out["records"], key=lambda z: z["inv"])],
                       "init": out["init"], "final": out["final"]}))
    return qs


def final_due_specs(scn, out):
    """drift-free under concurrency too: when all calls have returned, an unlimited, non-skipping job that was executed n times
    is planned for the (n+1)-th occurrence after its reference - no run without its rescheduling, no rescheduling without a run"""
    from . import c08
    qs = []
    if out.get("deadlock") or out.get("error"):
        return qs
    for k, v in (out.get("jobs") or {}).items():
        k = int(k)
        if k >= len(scn["jobs"]) or v[3] != 0 or (out.get("stops") or {}).get(k) is not None:
            continue
        j = scn["jobs"][k]
        if j.get("skip") or not j.get("delay", True):
            continue
        ref = (j["start"][0] - (j["start"][1] or 0)) if j.get("start") else scn["clock0"]
        info = {"what": "after n executions the job is planned for its (n+1)-th occurrence (every run rescheduled exactly once)", "key": k, "executions": v[0], "due": v[4]}
        if j["call"] == 0:
            if j["timings"][0][1] > 0:
                qs.append((f"spec cadence 1 {ref} {j['timings'][0][1]} {v[0] + 1} {v[4]}", info))
        elif j["call"] in (1, 2, 3, 4):
            qs.append((f"spec iterdue {c08.tms_tokens(j)} {ref} {v[0]} {v[4]}", info))
    return qs


def signature(f):
    return str((f["spec_fail"][0].get("info") or {}).get("what"))


def classes(r):
    out, scn = r["obs"][0], r["scn"]
    cl = [f"n_threads:{scn.get('n_threads')}", f"threads:{len(scn['threads'])}", "line-preempt" if scn.get("line_preempt") else "lock-preempt"]
    for ops in scn["threads"]:
        for o in ops:
            cl.append("op:" + o["op"])
    recs = out.get("records", [])
    overl = any(a["inv"] < b["res"] and b["inv"] < a["res"] and a is not b for a in recs for b in recs if a["thread"] != b["thread"])
    if overl:
        cl.append("overlap")
    if out.get("lin_width", 0) > LIN_MAX_WIDTH:
        cl.append("lin-too-wide")
    return sorted(set(cl))


def nontrivial(r):
    cl = classes(r)
    return "overlap" in cl and any(c in cl for c in ("op:exec", "op:del", "op:dtags", "op:sch"))
