"""C12 — tag selection returns and deletes exactly the matching jobs."""
from __future__ import annotations

from .. import core, gen, impl_thr, scen
from . import c01, c11

ID = "C12"
BUDGET = {"quick": 1600, "thorough": 200000}
RULE = ("scenario = 2-7 jobs with tag sets drawn from a 5-tag universe (incl. empty, equal, nested, disjoint), created through all six "
        "calls; once() with all four timing kinds and tags given as set, frozenset, list, tuple, generator, dict keys or None; "
        "queries get_jobs / delete_jobs with subset, superset, overlapping, disjoint, empty and None tag sets and both any_tag "
        "values, interleaved with polls (half of them with callbacks that query / delete by tag while the batch is in flight) and with the caller mutating a tag set it passed earlier; Spec: returned / deleted set = the set computed from the ORIGINAL tags by the property's "
        "own rule; non-trivial = a query that selects some but not all jobs, or a once() call with a non-set iterable; "
        "distinct by scenario hash")
ASSUMPTIONS = c01.ASSUMPTIONS
runner = impl_thr.run_scenario
project = c11.project

KINDS = ["set", "frozenset", "list", "tuple", "gen", "dictkeys"]


def scenarios(rng, n, tier):
    for _ in range(n):
        tz = None if rng.random() < 0.5 else gen.rand_off(rng, "hour")[0]
        clock = gen.rand_instant(rng)[0]
        scn = {"tz": tz, "max_exec": 0, "prio": 0, "clock0": clock, "ops": []}
        nj = rng.randint(2, 7)
        for i in range(nj):
            call = rng.choice([0, 1, 2, 3, 4, 5, 5, 5])
            o, _p = scen.gen_job(rng, tz, clock, {"call": call, "p_limit": 0.1, "p_stop": 0.0, "p_start": 0.0, "p_skip": 0.0, "p_nodelay": 0.0})
            o.pop("clock")
            c = rng.random()
            if c < 0.15:
                o["tags"] = None
            elif c < 0.3:
                o["tags"] = []
            else:
                o["tags"] = sorted(rng.sample(range(1, 6), rng.randint(1, 4)))
            if call == 5 and o["tags"] is not None:
                o["tagkind"] = rng.choice(KINDS)
                if o["tagkind"] in ("list", "tuple", "gen") and o["tags"] and rng.random() < 0.3:
                    o["tags"] = o["tags"] + [o["tags"][0]]       # a repeated element
            o["payload"] = i + 1
            scn["ops"].append(o)
        for _ in range(rng.randint(3, 10)):
            c = rng.random()
            qc = rng.random()
            q = None if qc < 0.1 else ([] if qc < 0.2 else sorted(rng.sample(range(1, 7), rng.randint(1, 3))))
            any_ = rng.random() < 0.5
            if rng.random() < 0.15:
                # the caller goes on using (clears, refills) the very tag set it passed when scheduling
                scn["ops"].append({"op": "mutate", "key": rng.randrange(nj), "what": rng.choice(["tags", "returned_tags"]), "how": rng.choice(["swap", "clear"])})
            if c < 0.6:
                scn["ops"].append({"op": "get", "tags": q, "any": any_})
            elif c < 0.8:
                scn["ops"].append({"op": "dtags", "tags": q, "any": any_})
            else:
                e = {"op": "exec", "rel": [rng.randrange(nj), rng.choice([0, 1, core.DAY])], "force": rng.random() < 0.3}
                if rng.random() < 0.5:
                    # tag queries made by callbacks while the batch is in flight (jobs that have just used their last
                    # attempt are still registered at that moment and belong to the selection)
                    scripts = {}
                    for kk in rng.sample(range(nj), rng.randint(1, min(nj, 3))):
                        qq = sorted(rng.sample(range(1, 7), rng.randint(1, 2)))
                        scripts[str(kk)] = [{"op": rng.choice(["get", "get", "dtags"]), "tags": qq, "any": rng.random() < 0.5}]
                    e["scripts"] = scripts
                scn["ops"].append(e)
        yield scn


def specs(r):
    qs = []
    scn = r["scn"]
    tags = {}
    for i, (o, ob) in enumerate(zip(scn["ops"], r["obs"])):
        if "truncated" in ob:
            break
        before = {k for k, v in (r["obs"][i - 1]["jobs"] if i > 0 else {}).items() if v[5] == 1}
        now = {k for k, v in ob["jobs"].items() if v[5] == 1}
        res = ob["res"]
        if o["op"] == "sch":
            if res[0] == "j":
                tags[res[1]] = set(o.get("tags") or [])
            else:
                qs.append(("spec eq 0 1", {"what": "scheduling with these tags failed", "op": i, "res": list(res), "tagkind": o.get("tagkind"), "exc": ob.get("exc")}))
        elif o["op"] in ("get", "dtags"):
            q = set(o.get("tags") or [])
            sel = {k for k in before if (not q) or (bool(q & tags[k]) if o.get("any") else q <= tags[k])}
            if o["op"] == "get":
                ok = res[0] == "s" and set(res[1]) == sel
                qs.append((f"spec eq {1 if ok else 0} 1", {"what": "select_iff", "op": i, "got": list(res), "want": sorted(sel)}))
            else:
                ok = res == ("c", len(sel)) and now == before - sel
                qs.append((f"spec eq {1 if ok else 0} 1", {"what": "delete_exactly", "op": i, "got": list(res), "want": sorted(sel)}))
        elif o["op"] == "exec":
            for c in ob.get("cops", []):
                if c["op"] in ("get", "dtags") and c.get("ok"):
                    q = set(c.get("tags") or [])
                    bset = set(c["before"])
                    sel = {k for k in bset if (not q) or (bool(q & tags.get(k, set())) if c.get("any") else q <= tags.get(k, set()))}
                    if c["op"] == "get":
                        ok = set(c["result"]) == sel
                        qs.append((f"spec eq {1 if ok else 0} 1", {"what": "select_iff (query from a callback, batch in flight)", "op": i, "got": c["result"], "want": sorted(sel)}))
                    else:
                        ok = c["n"] == len(sel) and set(c["after"]) == bset - sel
                        qs.append((f"spec eq {1 if ok else 0} 1", {"what": "delete_exactly (from a callback, batch in flight)", "op": i, "n": c["n"], "want": sorted(sel)}))
    return qs


def classes(r):
    cl = []
    for i, (o, ob) in enumerate(zip(r["scn"]["ops"], r["obs"])):
        if "truncated" in ob:
            break
        if o["op"] == "sch" and o["call"] == 5:
            cl.append("once:%s:%s" % (o["timings"][0][0], o.get("tagkind", "none" if o.get("tags") is None else "set")))
        if o["op"] in ("get", "dtags"):
            before = {k for k, v in (r["obs"][i - 1]["jobs"] if i > 0 else {}).items() if v[5] == 1}
            res = ob["res"]
            n = len(res[1]) if res[0] == "s" else (res[1] if res[0] == "c" else -1)
            cl.append("query:" + ("none" if n == 0 else "all" if n == len(before) else "some" if n > 0 else "error"))
            cl.append("any:%d" % (1 if o.get("any") else 0))
            if o.get("tags") is None:
                cl.append("q:None")
            elif not o["tags"]:
                cl.append("q:empty")
    return sorted(set(cl))


def nontrivial(r):
    cl = classes(r)
    return "query:some" in cl or any(c.startswith("once:") and c.split(":")[2] not in ("set", "none") for c in cl)


# ---- asyncio share ("in both front ends")
from .. import aiomix  # noqa: E402
from . import c18 as _c18  # noqa: E402

aiomix.install(globals(), 0.25, lambda rng: aiomix.stream(rng, _c18.scenarios, tweak=aiomix.c12_tweak), aiomix.c12_specs,
               note="once() tags as set/frozenset/list/tuple/generator/dict keys, get_jobs / delete_jobs queries between runs, caller-side mutation of passed and returned tag sets; Spec: selection recomputed from the original tags")


# ---- concurrent callers (threading): "delete_jobs removes exactly that selection and nothing else" also while other threads
# ---- change the registry - every completed call's result and the final job set are those of some sequential order
from . import c14 as _c14  # noqa: E402

_prev = {k: globals().get(k) for k in ("scenarios", "runner", "specs", "classes", "nontrivial", "project", "direct_specs")}


def scenarios(rng, n, tier):  # noqa: F811
    for scn in _prev["scenarios"](rng, n, tier):
        if rng.random() < 0.08:
            c = _c14.gen_scenario(rng, {"p_exec_heavy": 0.0, "p_line": 0.6, "del_heavy": True, "p_pause": 0.4})
            c["kind"] = "conc"
            yield c
        else:
            yield scn


def runner(scn):  # noqa: F811
    return _c14.runner(scn) if scn.get("kind") == "conc" else _prev["runner"](scn)


def specs(r):  # noqa: F811
    return _c14.specs(r) if r["scn"].get("kind") == "conc" else _prev["specs"](r)


def classes(r):  # noqa: F811
    return ["kind:concurrent-callers"] + _c14.classes(r) if r["scn"].get("kind") == "conc" else _prev["classes"](r)


def nontrivial(r):  # noqa: F811
    return _c14.nontrivial(r) if r["scn"].get("kind") == "conc" else _prev["nontrivial"](r)


if _prev["project"] is not None:
    def project(line):  # noqa: F811
        return _prev["project"](line)

if _prev["direct_specs"] is not None:
    def direct_specs(r):  # noqa: F811
        return [] if r["scn"].get("kind") == "conc" else _prev["direct_specs"](r)

RULE += ("; 8% of the scenarios are 2-4 controlled threads performing tag deletions, deletions, scheduling and queries at once (C14 family, "
         "40% with one long preemption): results (incl. the count delete_jobs returns) and the final job set must be linearizable")
