"""C13 — naive/aware mixing is rejected up front; aware schedules depend only on instants."""
from __future__ import annotations

import itertools
import json
import random

from .. import core, gen, impl_thr, scen
from . import c01, c09

ID = "C13"
BUDGET = {"quick": 1200, "thorough": 150000}
RULE = ("(a) exhaustive: for each of the six scheduling calls and the Scheduler(jobs=...) constructor, every naive/aware assignment "
        "to scheduler, each timing entry (1-2 entries), start and stop (2^k, k <= 5) is run; Spec: accepted iff uniform (model), "
        "rejection is SchedulerError raised by the call itself, and a following exec_jobs never raises; (b) random pairs of "
        "equivalent aware schedules: the same instants re-expressed in other fixed offsets for every timing entry, start, stop and "
        "the scheduler (shifts that change the local day/weekday included), driven by one polling history; Spec: identical "
        "invocation-instant sequences and due instants; non-trivial = a re-expression that changes the local day or weekday of "
        "some entry, or a mixed assignment; distinct by scenario hash")
ASSUMPTIONS = c01.ASSUMPTIONS + ["tzinfo objects with a fixed utcoffset (zoneinfo/DST zones are outside the model)"]

B0 = core.loc_of_ymd(2021, 5, 26, 3, 55)


def reexpress_dt(rng, d):
    if d is None:
        return None
    loc, off = d
    new = gen.rand_off(rng)[0]
    return [loc - off + new, new]


def reexpress_timing(rng, call, t):
    """same recurring instants, written in another offset"""
    P, ph, off = gen.phase_of(call, t)
    new_off = gen.rand_off(rng)[0]
    span = core.WEEK if call == 4 else core.DAY
    local = (ph - off + new_off) % span
    if call in (1, 2):
        base = (ph - off + new_off) % P
        local = (base + rng.randrange(0, core.DAY // P) * P) % core.DAY
    wd, rest = divmod(local, core.DAY)
    h, rem = divmod(rest, core.HOUR)
    m, rem = divmod(rem, core.MINUTE)
    s_, us = divmod(rem, 1_000_000)
    if call == 4:
        return ["w", int(wd), int(h), int(m), int(s_), int(us), new_off]
    return ["t", int(h), int(m), int(s_), int(us), new_off]


def scenarios(rng, n, tier):
    for _ in range(n):
        opts = {"calls": [0, 1, 2, 3, 4, 5], "p_single": 0.6, "p_skip": 0.3, "p_nodelay": 0.1, "p_stop": 0.2,
                "p_limit": 0.3, "max_jobs": 3, "p_force": 0.1, "p_start": 0.5, "max_polls": 8, "p_naive": 0.0}
        scn = scen.gen_life(rng, opts)
        scn["_pair"] = True
        yield scn


def make_twin(scn, seed):
    """the same schedule re-expressed in other offsets; polls are reused as absolute instants"""
    rng = random.Random(seed)
    twin = json.loads(json.dumps({k: v for k, v in scn.items() if not k.startswith("_")}))
    twin["tz"] = gen.rand_off(rng)[0]
    for o in twin["ops"]:
        if o["op"] == "sch":
            call = o["call"]
            if call in (1, 2, 3, 4):
                o["timings"] = [reexpress_timing(rng, call, t) for t in o["timings"]]
            elif call == 5:
                t = o["timings"][0]
                if t[0] == "d":
                    o["timings"] = [["d"] + reexpress_dt(rng, [t[1], t[2]])]
                elif t[0] == "t":
                    o["timings"] = [reexpress_timing(rng, 3, t)]
                elif t[0] == "w":
                    o["timings"] = [reexpress_timing(rng, 4, t)]
            if o.get("start"):
                o["start"] = reexpress_dt(rng, o["start"])
            if o.get("stop"):
                o["stop"] = reexpress_dt(rng, o["stop"])
        if o["op"] == "exec":
            o.pop("rel", None)
    return twin


def runner(scn):
    lines, impl, obs = impl_thr.run_scenario(scn)
    if scn.get("_pair") or scn.get("pair"):
        scn["pair"] = True
        import hashlib
        seed = int(hashlib.sha1(json.dumps(lines).encode()).hexdigest()[:8], 16)
        twin = make_twin(scn, seed)
        _l2, _i2, obs2 = impl_thr.run_scenario(twin)
        for a, b in zip(obs, obs2):
            a["_twin"] = b
        scn["_twin_scn"] = twin
    return lines, impl, obs


def specs(r):
    qs = []
    scn = r["scn"]
    aware = scn.get("tz") is not None
    for i, (o, ob) in enumerate(zip(scn["ops"], r["obs"])):
        if "truncated" in ob:
            break
        if o["op"] == "sch":
            vals = [t[-1] for t in o["timings"] if t[0] in ("t", "w", "d")]
            flags = [(v is not None) for v in vals]
            if o.get("start"):
                flags.append(o["start"][1] is not None)
            if o.get("stop"):
                flags.append(o["stop"][1] is not None)
            if o.get("ctor") and "_jobtz" in o:
                flags.append(o["_jobtz"] is not None)
            mixed = any(f != aware for f in flags)
            if mixed:
                ok = ob["res"] == ("e", "SchedulerError")
                qs.append((f"spec eq {1 if ok else 0} 1", {"what": "mixed awareness must be rejected with SchedulerError", "op": i, "res": list(ob["res"])}))
        if o["op"] == "exec" and ob["res"][0] != "c":
            qs.append(("spec eq 0 1", {"what": "exec_jobs raised", "op": i, "exc": ob.get("exc")}))
    return qs


def direct_specs(r):
    """re-expressing the schedule in other offsets leaves the execution instants unchanged"""
    fails = []
    for i, ob in enumerate(r["obs"]):
        t = ob.get("_twin")
        if t is None or "truncated" in ob or "truncated" in t:
            continue
        a = (ob["res"], sorted((x[0], x[1]) for x in ob["invoked"]), {k: (v[0], v[2], v[4], v[5]) for k, v in ob["jobs"].items()})
        b = (t["res"], sorted((x[0], x[1]) for x in t["invoked"]), {k: (v[0], v[2], v[4], v[5]) for k, v in t["jobs"].items()})
        if a != b:
            fails.append({"info": {"what": "reexpress", "op": i}, "original": [a[0], a[1], a[2]], "reexpressed": [b[0], b[1], b[2]],
                          "twin": r["scn"].get("_twin_scn")})
            break
    return fails


def direct_count(r):
    return sum(1 for ob in r["obs"] if isinstance(ob, dict) and ob.get("_twin") is not None)


CTOR_KINDS = ["set", "list", "tuple", "frozenset", "gen", "iter", "filter", "dictkeys"]


def exhaustive(tier):
    """all naive/aware assignments for the six calls and the constructor, against the model"""
    fails, count = [], 0
    H = 3_600_000_000
    scns = []
    for call in [0, 1, 2, 3, 4, 5]:
        shapes = [1] if call in (0,) else [1, 2]
        if call == 5:
            shapes = ["d", "c", "t", "w"]
        for shape in shapes:
            nent = shape if isinstance(shape, int) else 1
            nvals = (nent if call in (1, 2, 3, 4) else (1 if shape in ("d", "t", "w") else 0))
            has_ss = call != 5
            k = 1 + nvals + (2 if has_ss else 0)
            # clock times / weekday triggers also at exactly midnight - the value `datetime.time()` and a bare `Monday()` carry
            midnights = [False, True] if (call in (1, 2, 3, 4) or shape in ("t", "w")) else [False]
            for bits, midnight in itertools.product(itertools.product([False, True], repeat=k), midnights):
                for ctor in ([False, True] if call != 5 else [False]):
                    tz = H if bits[0] else None
                    offs = [(2 * H if b else None) for b in bits[1:1 + nvals]]
                    if call == 0:
                        ts = [["c", 10_000_000]]
                    elif call in (1, 2, 3):
                        ts = [(["t", 0, 0, 0, 0, offs[j]] if (midnight and j == 0) else ["t", 1 + j, 2, 3, 0, offs[j]]) for j in range(nent)]
                    elif call == 4:
                        ts = [(["w", j, 0, 0, 0, 0, offs[j]] if midnight else ["w", j, 1, 2, 3, 0, offs[j]]) for j in range(nent)]
                    else:
                        hh = 0 if midnight else 7
                        ts = {"d": [["d", B0 + 5 * H, offs[0] if nvals else None]], "c": [["c", 10_000_000]],
                              "t": [["t", hh, 0, 0, 0, offs[0] if nvals else None]], "w": [["w", 2, hh, 0, 0, 0, offs[0] if nvals else None]]}[shape]
                    o = {"op": "sch", "call": call, "timings": ts, "is_list": nent > 1 or ctor, "clock": B0, "payload": 1}
                    if has_ss:
                        sa, so = bits[1 + nvals], bits[2 + nvals]
                        o["start"] = [B0 + (3 * H if sa else 0), 3 * H if sa else None]
                        o["stop"] = [B0 + 40 * 24 * H + (H if so else 0), H if so else None]
                    if ctor:
                        o["ctor"] = True
                    scn = {"tz": tz, "max_exec": 0, "prio": 0, "clock0": B0, "ops": [o, {"op": "exec", "clock": B0 + 30 * 24 * H}, {"op": "exec", "clock": B0 + 31 * 24 * H, "force": True}]}
                    if ctor:
                        scn["ctor_kind"] = CTOR_KINDS[len(scns) % len(CTOR_KINDS)]
                    scns.append(scn)
                    if ctor:
                        # the job's own tzinfo differing from the scheduler's, handed over in every kind of iterable
                        for kind in CTOR_KINDS:
                            s2 = json.loads(json.dumps(scn))
                            s2["ops"][0]["_jobtz"] = None if tz is not None else H
                            s2["ctor_kind"] = kind
                            scns.append(s2)
    from .. import framework as fw
    import sys
    mod = sys.modules[__name__]
    recs = fw.evaluate(mod, scns)
    for rec in recs:
        count += 1
        if rec["diff"] or rec["spec_fail"]:
            fails.append({"scn": rec["scn"], "diff": rec["diff"], "spec_fail": rec["spec_fail"] or [{"info": {"what": "awareness table: model and implementation disagree"}}], "no_shrink": True})
    return {"tables": {"awareness_assignments": count}, "fail": fails}


def classes(r):
    cl = c01.classes(r)
    if r["scn"].get("pair"):
        cl.append("pair")
    return sorted(set(cl))


def nontrivial(r):
    return any(ob.get("invoked") for ob in r["obs"] if isinstance(ob, dict))
