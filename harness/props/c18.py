"""C18 — asyncio: deletion cancels for good, finished jobs vanish, no task ends in error."""
from __future__ import annotations

from .. import core, gen, impl_aio, scen
from . import c01, c17

ID = "C18"
BUDGET = {"quick": 1000, "thorough": 125000}
RULE = ("scenario = asyncio scheduler under the virtual-time loop, 1-4 jobs (all types, limits incl. one-shots and last attempts, "
        "stop), coroutines that sleep and/or delete their own job, another job, by tags or everything, or schedule a new job; "
        "history of scheduling, delete_job (before the first run, between runs, during a suspended run, after retirement, unknown), "
        "delete_jobs by tags / all, get_jobs / jobs and passage of virtual time (op instants never coincide with job instants); "
        "Spec on the implementation: after a deletion returned no further start of that job, a suspended run is cancelled and not "
        "counted, retired jobs vanish, deleting an unregistered job raises SchedulerError, no task ends with an exception; plus "
        "the table: constructing the scheduler without a running loop raises SchedulerError; non-trivial = a deletion that hit a "
        "suspended run or came from the job's own coroutine; distinct by scenario hash")
ASSUMPTIONS = c17.ASSUMPTIONS + ["events at one virtual instant: an actor and its target never share an instant (timer order for equal deadlines is not modelled)"]
S = 1_000_000
runner = impl_aio.run_scenario
project = impl_aio.project


def scenarios(rng, n, tier):
    for _ in range(n):
        if rng.random() < 0.08:
            yield sliced_scenario(rng)
            continue
        tz = None if rng.random() < 0.4 else gen.rand_off(rng, rng.choice(["zero", "hour", "half"]))[0]
        clock = gen.rand_instant(rng)[0] // S * S
        scn = {"aio": True, "tz": tz, "clock0": clock, "ops": [], "dflt": {"acts": [["sl", 1_000_607]], "raises": False}}
        nj = rng.randint(1, 4)
        periods = []
        for i in range(nj):
            o, p = scen.gen_job(rng, tz, clock, {"calls": [0, 0, 0, 1, 2, 5, 5], "once_kinds": ["c", "c", "d"], "p_limit": 0.5, "p_stop": 0.15,
                                                  "p_start": 0.0, "p_skip": 0.2, "p_nodelay": 0.1, "p_single": 0.8})
            o.pop("clock", None)
            c17.whole_seconds(o)
            if o["call"] == 0:
                o["timings"][0][1] = p = rng.choice([2, 5, 10, 60]) * S
            if o["call"] == 5 and o["timings"][0][0] == "c":
                o["timings"][0][1] = rng.choice([1, 3, 7]) * S
            if o["call"] == 5 and o["timings"][0][0] == "d":
                o["timings"][0][1] = (clock + rng.choice([2, 4, 9]) * S) + (o["timings"][0][2] or 0)
            p = max(min(p, 60 * S), S)
            o["tags"] = sorted(rng.sample(range(1, 4), rng.randint(0, 2)))
            runs = []
            for _r in range(rng.randint(1, 3)):
                acts = []
                off = [101, 211, 307, 401, 503][i % 5]
                for _a in range(rng.randint(0, 3)):
                    c = rng.random()
                    if c < 0.4:
                        acts.append(["sl", rng.choice([0, p // 4, p, 2 * p]) // 1000 * 1000 + off])
                    elif c < 0.6:
                        acts.append(["ad", i])                      # delete my own job
                    elif c < 0.75:
                        acts.append(["ad", rng.randrange(nj)])      # delete another (or my own)
                    elif c < 0.85:
                        acts.append(["at", rng.random() < 0.5, sorted(rng.sample(range(1, 4), rng.randint(0, 1)))])
                    else:
                        so, _p = scen.gen_job(rng, tz, clock, {"calls": [0, 5], "once_kinds": ["c"], "p_limit": 0.5, "p_stop": 0, "p_start": 0, "p_skip": 0, "p_nodelay": 0})
                        so.pop("clock", None)
                        c17.whole_seconds(so)
                        so["timings"][0][1] = rng.choice([3, 8]) * S
                        acts.append(["as", so])
                if any(a[0] != "sl" for a in acts) and (not acts or acts[0][0] != "sl" or acts[0][1] == 0):
                    # act on other jobs only at an instant of my own (never shared with a target)
                    acts.insert(0, ["sl", off])
                acts = [a if a[0] != "sl" or a[1] != 0 else ["sl", off] for a in acts]
                runs.append({"acts": acts, "raises": (rng.choice(impl_aio.AIO_EXC) if rng.random() < 0.15 else False)})
            if o["call"] == 0 and rng.random() < 0.15:
                # a window that ends while a run is still suspended, or that lies in the past altogether:
                # the job has to work off what is planned up to `stop` and then disappear on its own
                off_ = tz
                if rng.random() < 0.5:
                    o.pop("start", None)
                    o["stop"] = [clock + 3 * p + (off_ or 0), off_]
                    runs[0] = {"acts": [["sl", 4 * p + [101, 211, 307, 401, 503][i % 5]]], "raises": False}
                else:
                    a = rng.randint(2, 4)
                    o["start"] = [clock - a * p + (off_ or 0), off_]
                    o["stop"] = [clock - rng.randint(0, a - 1) * p + (off_ or 0), off_]
                    if o["stop"][0] <= o["start"][0]:
                        o["stop"][0] = o["start"][0] + S
            o["runs"] = runs
            scn["ops"].append(o)
            periods.append(p)
            if rng.random() < 0.15:
                scn["ops"].append({"op": "del", "key": i})          # before the first run
        t = clock
        for _ in range(rng.randint(2, 7)):
            t += rng.choice([1, 2, 3, 5, 12, 61]) * S // 2 * 2 + 500_005
            scn["ops"].append({"op": "run", "until": t})
            c = rng.random()
            if c < 0.35:
                scn["ops"].append({"op": "del", "key": rng.randrange(nj + 1)})
            elif c < 0.5:
                scn["ops"].append({"op": "dtags", "tags": sorted(rng.sample(range(1, 4), rng.randint(0, 1))), "any": rng.random() < 0.5})
            elif c < 0.65:
                scn["ops"].append({"op": "jobs"})
            elif c < 0.75:
                scn["ops"].append({"op": "get", "tags": sorted(rng.sample(range(1, 4), rng.randint(0, 2))), "any": rng.random() < 0.5})
        scn["ops"].append({"op": "run", "until": t + 200 * S + 500_005})
        scn["ops"].append({"op": "jobs"})
        yield scn


def sliced_scenario(rng):
    """the loop is driven in slices; a job with a backlog is deleted by synchronous code between two slices, in the
    middle of its catch-up chain (its supervisor's next step is already queued)"""
    tz = None if rng.random() < 0.5 else 0
    clock = gen.rand_instant(rng)[0] // S * S
    scn = {"aio": True, "sliced": True, "tz": tz, "clock0": clock, "ops": [], "dflt": {"acts": [], "raises": False}}
    nj = rng.randint(1, 3)
    for i in range(nj):
        T = rng.choice([1, 2, 5]) * S
        o = {"op": "sch", "call": 0, "timings": [["c", T]], "w": [1, 1], "tags": sorted(rng.sample(range(1, 4), rng.randint(0, 2))),
             "start": [clock - rng.randint(3, 9) * T + (tz or 0), tz], "runs": [{"acts": [], "raises": False}]}
        if rng.random() < 0.3:
            o["max_att"] = rng.choice([2, 3, 20])
        scn["ops"].append(o)
    for _ in range(rng.randint(1, 3)):
        scn["ops"].append({"op": "slice", "yields": rng.randint(0, 7)})
        if rng.random() < 0.7:
            scn["ops"].append({"op": "del", "key": rng.randrange(nj)})
        else:
            scn["ops"].append({"op": "dtags", "tags": sorted(rng.sample(range(1, 4), rng.randint(0, 1))), "any": rng.random() < 0.5})
    scn["ops"].append({"op": "run", "until": clock + 3 * S + 500_005})
    return scn


def sliced_specs(r):
    qs = []
    dead = set()
    for i, ob in enumerate(r["obs"]):
        if ob.get("task_errors"):
            qs.append(("spec eq 0 1", {"what": "no_task_error", "op": i, "errors": ob["task_errors"][:2]}))
    last_trace = r["obs"][-1].get("trace", []) if r["obs"] else []
    for (kind, k) in last_trace:
        if kind == "D":
            dead.add(k)
        elif kind == "S" and k in dead:
            qs.append(("spec eq 0 1", {"what": "no_start_after_delete (deleted by synchronous code between two slices of the loop)", "key": k}))
            break
    qs.append((f"spec eq {len(last_trace)} {len(last_trace)}", {"what": "trace recorded"}))
    return qs


def specs(r):
    from .. import aiomix
    if r["scn"].get("sliced"):
        return sliced_specs(r)
    qs = aiomix.probe_specs(r) + aiomix.idle_specs(r) + aiomix.cop_sel_specs(r)
    scn = r["scn"]
    gone_at = {}     # key -> instant after which no start may happen
    for i, (o, ob) in enumerate(zip(scn["ops"], r["obs"])):
        before = {k for k, v in (r["obs"][i - 1]["jobs"] if i > 0 else {}).items() if v[5] == 1}
        now = {k for k, v in ob["jobs"].items() if v[5] == 1}
        res = ob["res"]
        # starts after a deletion that returned
        for (t, k, kind, due) in ob.get("events", []):
            if kind == "S" and k in gone_at and t >= gone_at[k]:
                qs.append(("spec eq 0 1", {"what": "no_start_after_delete", "key": k, "op": i, "t": t}))
        if o["op"] == "del":
            k = o["key"]
            if k in before:
                qs.append((f"spec eq {1 if res == ('u',) else 0} 1", {"what": "delete_registered_succeeds", "op": i}))
                gone_at[k] = ob["now"]
            else:
                qs.append((f"spec eq {1 if res == ('e', 'SchedulerError') else 0} 1", {"what": "delete_unknown_raises", "op": i, "res": list(res)}))
        if o["op"] == "dtags":
            for k in before - now:
                gone_at[k] = ob["now"]
        # everything no longer registered never starts again
        for k in before - now:
            gone_at.setdefault(k, ob["now"])
        # a suspended run that was cancelled is not counted: attempts = number of completed runs
        if ob.get("task_errors"):
            qs.append(("spec eq 0 1", {"what": "no_task_error", "op": i, "errors": ob["task_errors"][:2]}))
        # retired jobs vanish: registered => attempts remain
        for k, v in ob["jobs"].items():
            if v[5] == 1:
                qs.append((f"spec eq {v[4]} 1", {"what": "retired_vanish", "key": k, "op": i}))
    # chronological trace of the whole history: no coroutine start after its job's deletion returned
    last_trace = r["obs"][-1].get("trace", []) if r["obs"] else []
    dead = set()
    for (kind, k) in last_trace:
        if kind == "D":
            dead.add(k)
        elif kind == "S" and k in dead:
            qs.append(("spec eq 0 1", {"what": "no_start_after_delete (chronological trace)", "key": k}))
            break
    # a job that vanished without being deleted must have no attempts remaining
    if r["obs"]:
        lastj = r["obs"][-1]["jobs"]
        for k, v in lastj.items():
            if v[5] == 0 and k not in dead:
                qs.append((f"spec eq {v[4]} 0", {"what": "vanished although attempts remain and nobody deleted it", "key": k}))
    done = {}
    for ob in r["obs"]:
        for (t, k, kind, due) in ob.get("events", []):
            if kind in ("E", "X"):
                done[k] = done.get(k, 0) + 1
    last = r["obs"][-1] if r["obs"] else None
    if last:
        for k, v in last["jobs"].items():
            qs.append((f"spec eq {v[2]} {done.get(k, 0)}", {"what": "attempts count completed runs only (cancelled run not counted)", "key": k}))
    return qs


def exhaustive(tier):
    """creating the scheduler without a running event loop raises SchedulerError"""
    core.install_clock()
    import scheduler.asyncio as saio
    from scheduler.error import SchedulerError

    fails = []
    try:
        saio.Scheduler()
        fails.append({"scn": {"table": "no-running-loop"}, "spec_fail": [{"info": {"what": "needs_running_loop: no error"}}], "no_shrink": True})
    except SchedulerError:
        pass
    except Exception as e:  # noqa: BLE001
        fails.append({"scn": {"table": "no-running-loop"}, "spec_fail": [{"info": {"what": f"needs_running_loop: {type(e).__name__}"}}], "no_shrink": True})
    return {"tables": {"needs_running_loop": 1}, "fail": fails}


def classes(r):
    cl = []
    for o in r["scn"]["ops"]:
        if o["op"] == "sch":
            for run in o.get("runs", []):
                for a in run["acts"]:
                    cl.append("act:" + a[0])
        else:
            cl.append("op:" + o["op"])
    for ob in r["obs"]:
        for (t, k, kind, due) in ob.get("events", []):
            if kind == "C":
                cl.append("cancelled-suspended-run")
    return sorted(set(cl))


def nontrivial(r):
    cl = classes(r)
    return "cancelled-suspended-run" in cl or "act:ad" in cl
