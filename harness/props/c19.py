"""C19 — callbacks receive exactly the arguments given, insulated from later mutation."""
from __future__ import annotations

from .. import core, gen, impl_thr, scen
from . import c01, c11

ID = "C19"
BUDGET = {"quick": 1200, "thorough": 150000}
RULE = ("scenario = 1-4 jobs created through all six calls with args in {None, (), 1-5 values incl. nested/mutable} and kwargs in "
        "{None, {}, 1-6 entries}; between polls the harness mutates the dict it passed as kwargs (add/remove/overwrite keys), the "
        "set it passed as tags, the set returned by job.tags, and the mapping job.kwargs of ONE job (the other jobs must not see it); >= 3 executions per job (forced polls); Spec: every invocation "
        "received exactly the original positional values and exactly the original key/value pairs, and tag queries select by the "
        "original tags; non-trivial = a job that ran >= 2 times with a mutation in between; distinct by scenario hash")
ASSUMPTIONS = c01.ASSUMPTIONS + ["shallow insulation only: mutating a value stored inside kwargs is visible by design"]


def scenarios(rng, n, tier):
    for _ in range(n):
        tz = None if rng.random() < 0.5 else gen.rand_off(rng, "hour")[0]
        clock = gen.rand_instant(rng)[0]
        scn = {"tz": tz, "max_exec": 0, "prio": 0, "clock0": clock, "ops": [], "c19": True}
        nj = rng.randint(1, 4)
        for i in range(nj):
            call = rng.choice([0, 1, 2, 3, 4, 5])
            o, _p = scen.gen_job(rng, tz, clock, {"call": call, "p_limit": 0.0, "p_stop": 0.0, "p_start": 0.0, "p_skip": 0.0, "p_nodelay": 0.0})
            o.pop("clock")
            o["tags"] = sorted(rng.sample(range(1, 6), rng.randint(0, 3)))
            o["argshape"] = rng.choice(["none", "empty", "one", "many", "nested"])
            o["kwshape"] = rng.choice(["none", "empty", "one", "many", "reserved"])
            o["hkind"] = rng.choice(["plain", "plain", "partial_kw", "partial_pos", "wrapped"])
            o["payload"] = i + 1
            scn["ops"].append(o)
        for _ in range(rng.randint(3, 8)):
            c = rng.random()
            if c < 0.55:
                e = {"op": "exec", "rel": [rng.randrange(nj), 0], "force": True}
                if nj >= 2 and rng.random() < 0.25:
                    # a callback deletes another job of the batch: a job that is already queued still runs - with its arguments
                    a, b = rng.sample(range(nj), 2)
                    e["scripts"] = {str(a): [{"op": "del", "key": b}]}
                scn["ops"].append(e)
            elif c < 0.85:
                scn["ops"].append({"op": "mutate", "key": rng.randrange(nj), "what": rng.choice(["kwargs", "tags", "returned_tags", "all", "job_kwargs"]), "how": rng.choice(["swap", "clear"])})
            else:
                scn["ops"].append({"op": "get", "tags": sorted(rng.sample(range(1, 6), rng.randint(1, 2))), "any": rng.random() < 0.5})
        yield scn


def runner(scn):
    """the model is told nothing about the mutations (they must be invisible): `mutate` ops are
    dropped from the line stream"""
    lines, impl, obs = impl_thr.run_scenario(scn)
    return lines, impl, obs


def project(line):
    from ..runlib import split_line
    if " | " not in line:
        return line
    d = split_line(line)
    inv = " ; ".join(f"{x[0]} {x[2]}" for x in d["I"])
    js = " ; ".join(f"{x[0]} {x[6]}" for x in d["J"])
    return f"R {' '.join(d['R'])} | I {inv} | J {js}"


def specs(r):
    qs = []
    scn = r["scn"]
    tags = {}
    ncalls = {}
    for i, (o, ob) in enumerate(zip(scn["ops"], r["obs"])):
        if "truncated" in ob:
            break
        if o["op"] == "sch" and ob["res"][0] == "j":
            tags[ob["res"][1]] = set(o.get("tags") or [])
        if o["op"] == "exec":
            for (k, _d, p) in ob["invoked"]:
                ncalls[k] = ncalls.get(k, 0) + 1
                qs.append((f"spec eq {p} {k + 1}", {"what": "payload_constant", "key": k, "op": i, "seen": ob.get("seen", {}).get(k)}))
            # every execution the job counts did call the callback (the arguments reached it)
            for k, v in ob["jobs"].items():
                qs.append((f"spec eq {v[2]} {ncalls.get(k, 0)}", {"what": "every counted execution called the callback", "key": k, "op": i}))
        if o["op"] == "get":
            before = {k for k, v in (r["obs"][i - 1]["jobs"] if i > 0 else {}).items() if v[5] == 1}
            q = set(o.get("tags") or [])
            sel = sorted(k for k in before if (not q) or (bool(q & tags[k]) if o.get("any") else q <= tags[k]))
            res = ob["res"]
            qs.append((f"spec eq {1 if (res[0] == 's' and list(res[1]) == sel) else 0} 1", {"what": "tags_constant", "op": i, "got": list(res), "want": sel}))
    return qs


def classes(r):
    cl = []
    for o in r["scn"]["ops"]:
        if o["op"] == "sch":
            cl += [f"call:{o['call']}", f"args:{o.get('argshape')}", f"kwargs:{o.get('kwshape')}"]
        if o["op"] == "mutate":
            cl.append("mutate:" + o["what"])
    return sorted(set(cl))


def nontrivial(r):
    runs, mutated_between = {}, False
    pending_mut = set()
    for o, ob in zip(r["scn"]["ops"], r["obs"]):
        if "truncated" in ob:
            break
        if o["op"] == "mutate":
            pending_mut.add(o["key"])
        if o["op"] == "exec":
            for (k, _d, _p) in ob["invoked"]:
                runs[k] = runs.get(k, 0) + 1
                if runs[k] >= 2 and k in pending_mut:
                    mutated_between = True
    return mutated_between


# ---- asyncio share ("in both front ends")
from .. import aiomix  # noqa: E402
from . import c17 as _c17  # noqa: E402

aiomix.install(globals(), 0.25, lambda rng: aiomix.stream(rng, _c17.scenarios, tweak=lambda rng_, s: aiomix.c19_tweak(rng_, dict(s, _no_solo=True))), aiomix.c19_specs,
               note="args / kwargs of all shapes, mutation of the caller's dict / tag set and of the returned tag set between runs; Spec: every coroutine start received exactly the original arguments, tag queries select by the original tags")
