"""C04 — exec_jobs runs every due job exactly once, nothing early, and reports the count."""
from __future__ import annotations

from fractions import Fraction

from .. import core, gen, impl_thr, runlib, scen
from . import c01

ID = "C04"
BUDGET = {"quick": 1600, "thorough": 200000}
RULE = ("scenario = scheduler (3 tz classes) with 0-8 jobs of mixed types (batched, limited, windowed; positive weights), "
        "default priority function, no limit; 2-10 polls exactly at a due instant, 1us before, between, far after, some "
        "forced; correspondence = Lean selection model on the observed (due, weight) table vs the invoked jobs; "
        "non-trivial = at least one poll where some but not all jobs are due; distinct by scenario hash")
ASSUMPTIONS = c01.ASSUMPTIONS + ["callbacks do not touch the scheduler (C15 covers those)"]
EXTRA_PROPS = ("C04All",)


def scenarios(rng, n, tier):
    for _ in range(n):
        opts = {"max_jobs": rng.choice([0, 1, 2, 3, 5, 8]), "p_force": 0.15, "max_polls": 10, "p_nodelay": 0.05,
                "p_skip": 0.2, "p_stop": 0.2, "p_limit": 0.3, "p_single": 0.6}
        if opts["max_jobs"] == 0:
            scn = scen.gen_life(rng, dict(opts, max_jobs=1))
            scn["ops"] = [o for o in scn["ops"] if o["op"] != "sch"]
            for o in scn["ops"]:
                if o["op"] == "exec":
                    o.pop("rel", None)
                    o["clock"] = scn["clock0"]
            yield scn
        else:
            scn = scen.gen_life(rng, opts)
            # the count / exactly-once clauses hold for every worker count (batch compared as a set)
            scn["n_threads"] = rng.choice([1, 1, 1, 0, 2, 4])
            if rng.random() < 0.15:
                # "regardless ... of the execution limit": a limited scheduler, most polls forced; the ordinary polls of
                # such a scenario are compared with the model's selection only (the no-limit Spec does not apply)
                scn["max_exec"] = rng.choice([1, 1, 2, 3])
                for o in scn["ops"]:
                    if o["op"] == "exec" and rng.random() < 0.6:
                        o["force"] = True
            yield scn


def w_tokens(w):
    fr = Fraction(w)
    return f"{fr.numerator} {fr.denominator}"


def table_of(ob, clock):
    """(key, due, weight) in registry iteration order, from what the priority function saw"""
    return [(p[0], clock - p[5], p[6]) for p in ob["prio"]]


def runner(scn):
    """selection correspondence: for every non-forced poll, the Lean model's batch for the observed
    (due, weight) table must be the invoked keys in order"""
    lines0, impl0, obs = impl_thr.run_scenario(scn)
    lines, impl = [lines0[0]], [impl0[0]]
    for o, ob in zip(scn["ops"], obs):
        if "truncated" in ob:
            break
        if o["op"] == "exec" and not o.get("force") and ob["res"][0] == "c":
            tab = table_of(ob, o["clock"])
            lines.append(f"select {scn.get('max_exec', 0)} {scn.get('prio', 0)} {o['clock']} {len(tab)} " + " ".join(f"{k} {d} {w_tokens(w)}" for k, d, w in tab))
            impl.append(("B " + " ".join(str(i[0]) for i in ob["invoked"])).strip())
    return lines, impl, obs


def project(line):
    """C04 fixes which jobs run, not their order (that is C05): compare the batch as a set"""
    if line.startswith("B"):
        return "B " + " ".join(sorted(line.split()[1:], key=int))
    return line


def specs(r):
    qs = []
    scn = r["scn"]
    for i, (o, ob) in enumerate(zip(scn["ops"], r["obs"])):
        if "truncated" in ob:
            break
        if o["op"] != "exec":
            continue
        inv = [x[0] for x in ob["invoked"]]
        if ob["res"][0] != "c":
            qs.append(("spec eq 0 1", {"what": "exec_jobs raised", "op": i, "exc": ob.get("exc")}))
            continue
        ret = ob["res"][1]
        if o.get("force"):
            prev = r["obs"][i - 1]["jobs"] if i > 0 else {}
            reg = [k for k, v in prev.items() if v[5] == 1]
            qs.append((f"spec force {core.s_list(reg)} {core.s_list(inv)} {ret}", {"what": "force", "op": i}))
        elif not scn.get("max_exec", 0):
            tab = table_of(ob, o["clock"])
            qs.append((f"spec c04 {o['clock']} {len(tab)} " + " ".join(f"{k} {d} {w_tokens(w)}" for k, d, w in tab)
                       + f" {core.s_list(inv)} {ret}", {"what": "due_exactly", "op": i}))
    return qs


def direct_specs(r):
    """a poll at which nothing is due changes no job and no due time; the priority function sees the
    whole registry"""
    fails = runlib.waiting_unchanged(r)
    for i, (o, ob) in enumerate(zip(r["scn"]["ops"], r["obs"])):
        if "truncated" in ob:
            break
        if o["op"] == "exec" and ob["res"][0] == "c" and not ob["invoked"] and i > 0:
            if r["obs"][i - 1]["jobs"] != ob["jobs"]:
                fails.append({"info": {"what": "not_due_noop", "op": i}, "before": r["obs"][i - 1]["jobs"], "after": ob["jobs"]})
        if o["op"] == "exec" and not o.get("force") and ob["res"][0] == "c" and i > 0:
            reg = sorted(k for k, v in r["obs"][i - 1]["jobs"].items() if v[5] == 1)
            if sorted(p[0] for p in ob["prio"]) != reg:
                fails.append({"info": {"what": "priority function not called once per registered job", "op": i}})
    return fails


def classes(r):
    cl = c01.classes(r)
    for o, ob in zip(r["scn"]["ops"], r["obs"]):
        if "truncated" in ob:
            break
        if o["op"] == "exec" and not o.get("force"):
            lates = [p[5] for p in ob["prio"]]
            if any(l == 0 for l in lates):
                cl.append("late:0")
            if any(l == -1 for l in lates):
                cl.append("late:-1us")
            n, m = len(lates), len(ob["invoked"])
            cl.append("batch:" + ("none" if m == 0 else "all" if m == n else "some"))
    return sorted(set(cl))


def nontrivial(r):
    for o, ob in zip(r["scn"]["ops"], r["obs"]):
        if "truncated" in ob:
            break
        if o["op"] == "exec" and not o.get("force") and 0 < len(ob["invoked"]) < len(ob["prio"]):
            return True
    return False
