"""C16 — parallel workers run each selected job once; exec_jobs returns when all are done."""
from __future__ import annotations

import json

from .. import core, gen, impl_conc
from . import c14

ID = "C16"
BUDGET = {"quick": 3000, "thorough": 60000}
RULE = ("scenario = one real threading Scheduler with a batch of n = 1-6 due jobs and n_threads m in {0, 1, 2, n-1, n, n+1}, callbacks "
        "that fail (20%), rendezvous on an n-party barrier (only when m = 0 or m >= n) or wait for a later job of the batch to be "
        "entered (only when m = 0 or m >= 2: a free worker has to take that job from the queue), optionally max_exec with force_exec_all, "
        "optionally a second caller thread running exec_jobs on the same jobs; all worker interleavings are scheduled by the "
        "controller (seeded random / PCT; in 30-70% with thread switches at every source line of the worker loop, Job._exec and the "
        "rescheduling code); Spec: every selected job invoked exactly once, all invocations finished when exec_jobs "
        "returns, never more than m callbacks active at once (n when m = 0), the barrier run completes and reaches n simultaneous "
        "callbacks, a job's callback never overlaps itself, and attempts / due times / job set equal those of the same scenario "
        "run with one worker; non-trivial = m != 1 and n >= 2; distinct by (scenario, interleaving) hash")
ASSUMPTIONS = c14.ASSUMPTIONS[:1] + ["'at the same time' = both inside the callback at one controller step (not parallel CPU execution)"]
S = 1_000_000


def scenarios(rng, n, tier):
    for _ in range(n):
        clock = gen.rand_instant(rng)[0] // S * S
        # 10%: two overlapping callers on one or two never-run jobs, long callbacks, line-level switches
        # (the "never overlaps itself" clause needs two workers inside the same job's execution path)
        duel = rng.random() < 0.1
        nj = rng.randint(1, 2) if duel else rng.randint(1, 6)
        m = rng.choice([0, 1, 2, max(1, nj - 1), nj, nj + 1])
        barrier = (not duel) and (m == 0 or m >= nj) and nj >= 2 and rng.random() < 0.5
        jobs = []
        for i in range(nj):
            o = {"call": rng.choice([0, 0, 5]), "timings": [["c", rng.choice([1, 2]) * S]]}
            if barrier:
                o["barrier"] = 0
            elif rng.random() < 0.2:
                o["raises"] = True
            jobs.append(o)
        if rng.random() < 0.3:
            # the usual way a callback gets hold of its scheduler: as an argument (rendered when a failure is logged)
            for o in rng.sample(jobs, min(2, len(jobs))):     # (rendering the scheduler from k jobs costs ~k! reprs)
                o["pass_sched"] = True
        # one callback waits until a LATER job of the batch has been entered: with at least two workers a free
        # worker must pick that job up from the queue (m = 0 or m >= 2), whatever the queue order
        if (not barrier) and (not duel) and nj >= 3 and (m == 0 or m >= 2) and rng.random() < 0.35:
            i = rng.randrange(nj - 1)
            jobs[i]["wait_for"] = rng.randrange(i + 1, nj)
            jobs[i].pop("raises", None)
        two = duel or ((not barrier) and not any("wait_for" in j for j in jobs) and rng.random() < 0.3)
        force = rng.random() < 0.3
        scn = {"tz": None, "n_threads": m, "clock0": clock, "advance": 3 * S, "jobs": jobs, "ops": [],
               "max_exec": rng.choice([0, 0, 2]) if force else 0,
               "threads": [[{"op": "exec", "force": force}]] + ([[{"op": "exec", "force": False}]] if two else []),
               "sched": {"kind": "random" if duel else rng.choice(["random", "random", "pct"] if two else ["random", "pct"]), "seed": rng.randrange(10**9), "depth": rng.randint(1, 4)},
               "line_preempt": duel or rng.random() < (0.7 if two else 0.3), "cb_len": rng.choice([12, 30]) if duel else (rng.choice([0, 4, 12]) if two else 0)}
        if barrier:
            scn["barriers"] = {"0": nj}
        yield scn


def runner(scn):
    lines, impl, obs = c14.runner(scn)
    if len(scn["threads"]) == 1:
        # the same scenario with one worker and no barrier: the sequential reference
        s2 = json.loads(json.dumps({k: v for k, v in scn.items() if not k.startswith("_")}))
        s2["n_threads"] = 1
        s2.pop("barriers", None)
        for j in s2["jobs"]:
            j.pop("barrier", None)
            j.pop("wait_for", None)
        s2["sched"] = {"kind": "random", "seed": 1}
        obs[0]["_seq"] = c14.run_impl(s2)
    return lines, impl, obs


def specs(r):
    out, scn = r["obs"][0], r["scn"]
    qs = []
    if out.get("uncontrollable"):
        return qs
    m, nj = scn["n_threads"], len(scn["jobs"])
    if out.get("deadlock"):
        qs.append(("spec eq 0 1", {"what": "deadlock / exec_jobs never returns", "waits": out["deadlock"], "n_threads": m, "barrier": bool(scn.get("barriers"))}))
        return qs
    if out.get("error"):
        qs.append(("spec eq 0 1", {"what": "a thread died with an exception", "error": out["error"]}))
        return qs
    execs = [x for x in out["records"] if x["op"] == "exec"]
    for x in execs:
        if x["result"][0] != "c":
            qs.append(("spec eq 0 1", {"what": "exec_jobs raised", "error": list(x["result"])}))
    inv = {}
    for (k, e, _t) in out["invocations"]:
        inv[(k, e)] = inv.get((k, e), 0) + 1
    for (k, e), n in inv.items():
        qs.append((f"spec eq {n} 1", {"what": "each_once (never twice by one call)", "key": k, "exec": e}))
    if len(execs) == 1 and execs[0]["result"][0] == "c":
        x = execs[0]
        sel = out.get("selected", {}).get(str(x["exec_id"]), [])
        ran = sorted(k for (k, e, _t) in out["invocations"] if e == x["exec_id"])
        qs.append((f"spec eq {1 if sorted(sel) == ran else 0} 1", {"what": "each_once: every selected job invoked exactly once", "selected": sel, "ran": ran}))
        qs.append((f"spec eq {x['result'][1]} {len(ran)}", {"what": "all_done_before_return: count = finished invocations", "exec": x["exec_id"]}))
    callers = len(scn["threads"])
    limit = (m if m > 0 else nj) * callers
    qs.append((f"spec le {out['max_parallel']} {limit}", {"what": "at_most_m", "max_parallel": out["max_parallel"], "m": m}))
    if scn.get("barriers"):
        qs.append((f"spec eq {out['max_parallel']} {nj}", {"what": "all_can_run_together", "max_parallel": out["max_parallel"], "n": nj}))
    qs.append((f"spec eq {1 if out['self_overlap'] else 0} 0", {"what": "no_self_overlap"}))
    seq = out.get("_seq")
    if seq is not None and not seq.get("deadlock") and not seq.get("error"):
        same = (seq["final"] == out["final"]) and (seq["jobs"] == out["jobs"])
        qs.append((f"spec eq {1 if same else 0} 1", {"what": "same_as_sequential", "parallel": [out["final"], out["jobs"]], "sequential": [seq["final"], seq["jobs"]]}))
    for k, v in (out.get("jobs") or {}).items():
        if v[3] > 0:
            qs.append((f"spec le {v[0]} {v[3]}", {"what": "budget", "key": k}))
    return qs


signature = c14.signature


def classes(r):
    scn, out = r["scn"], r["obs"][0]
    nj, m = len(scn["jobs"]), scn["n_threads"]
    rel = "0" if m == 0 else "1" if m == 1 else "<n" if m < nj else "=n" if m == nj else ">n"
    cl = [f"m:{rel}", f"n:{nj}", "barrier" if scn.get("barriers") else "no-barrier", f"callers:{len(scn['threads'])}"]
    if any(j.get("raises") for j in scn["jobs"]):
        cl.append("failing")
    cl.append(f"max_parallel:{out.get('max_parallel')}")
    return sorted(set(cl))


def nontrivial(r):
    scn = r["scn"]
    return scn["n_threads"] != 1 and len(scn["jobs"]) >= 2
