"""C11 — the job set is exactly: scheduled minus deleted minus retired."""
from __future__ import annotations

from .. import core, gen, impl_thr, runlib, scen
from . import c01, c08

ID = "C11"
BUDGET = {"quick": 1600, "thorough": 200000}
RULE = ("scenario = random history of 5-40 operations on a scheduler with or without timezone: the six scheduling calls with valid "
        "and invalid arguments (wrong awareness, stop <= start, duplicate times, wrong timing type, list for cyclic), delete_job on "
        "registered / already deleted / retired jobs, delete_jobs and get_jobs with tag queries, jobs, exec_jobs (forced or not) and "
        "clock advances; in 25% the first 1-3 jobs are created directly and handed to Scheduler(jobs=<set or list>) and the caller "
        "later clears / shrinks / grows that very collection; the sets returned by jobs/get_jobs are mutated (clear, add) right after being handed out; Spec after every "
        "op: registered set = created - deleted - retired (ghost bookkeeping by the harness), rejected calls register nothing, "
        "delete_job of an unregistered job raises SchedulerError and changes nothing, delete_jobs returns the number removed; "
        "non-trivial = history containing at least one rejected call, one failed delete and one retirement or tag deletion")
ASSUMPTIONS = c01.ASSUMPTIONS
runner = impl_thr.run_scenario


def bad_sched(rng, tz, clock):
    """a scheduling call that must be rejected"""
    aware = tz is not None
    kind = rng.choice(["aware-mismatch", "stop-before-start", "duplicate", "wrong-type", "cyclic-list", "start-mismatch"])
    if kind == "aware-mismatch":
        call = rng.choice([1, 2, 3, 4])
        t = gen.rand_timing(rng, call, not aware)
        return {"op": "sch", "call": call, "timings": [t], "clock": clock}
    if kind == "start-mismatch":
        return {"op": "sch", "call": 0, "timings": [["c", 1_000_000]], "_relstart": [0, None if aware else 0], "clock": clock}
    if kind == "stop-before-start":
        return {"op": "sch", "call": 0, "timings": [["c", 1_000_000]], "_relstop": -rng.choice([0, 1, 10**6]), "clock": clock}
    if kind == "duplicate":
        call = rng.choice([1, 2, 3, 4])
        t = gen.rand_timing(rng, call, aware)
        return {"op": "sch", "call": call, "timings": [t, list(t)], "is_list": True, "clock": clock}
    if kind == "wrong-type":
        return {"op": "sch", "call": rng.choice([1, 2, 3, 4]), "timings": [["c", 5]], "clock": clock}
    return {"op": "sch", "call": 0, "timings": [["c", 5], ["c", 6]], "is_list": True, "clock": clock}


def scenarios(rng, n, tier):
    for _ in range(n):
        tz = None if rng.random() < 0.4 else gen.rand_off(rng)[0]
        clock = gen.rand_instant(rng)[0]
        scn = {"tz": tz, "max_exec": rng.choice([0, 0, 1, 2]), "prio": 0, "clock0": clock, "ops": [], "mutate_snapshots": True}
        nk = 0
        periods = []
        n_ctor = rng.randint(1, 3) if rng.random() < 0.25 else 0
        if n_ctor:
            scn["ctor_kind"] = rng.choice(["set", "set", "list", "tuple", "gen", "iter", "frozenset"])
        for _ in range(rng.randint(5, 40)):
            c = rng.random()
            if nk < n_ctor:
                # jobs created directly and handed to Scheduler(jobs=...)
                o, p = scen.gen_job(rng, tz, clock, {"calls": [0, 1, 2, 3, 4], "p_limit": 0.5, "p_stop": 0.0, "p_start": 0.0})
                o.pop("start", None)
                o.pop("stop", None)
                o["payload"] = nk + 1
                o["ctor"] = True
                o["is_list"] = True
                scn["ops"].append(o)
                periods.append(p)
                nk += 1
            elif n_ctor and c < 0.08:
                scn["ops"].append({"op": "mutate", "what": "ctor_arg", "how": rng.choice(["clear", "discard", "add_all"])})
            elif c < 0.3 or nk == 0:
                if rng.random() < 0.25:
                    scn["ops"].append(bad_sched(rng, tz, None))
                    scn["ops"][-1].pop("clock")
                else:
                    o, p = scen.gen_job(rng, tz, clock, {"p_limit": 0.5, "p_stop": 0.2, "p_start": 0.2})
                    o.pop("clock")
                    if o.get("start"):
                        o.pop("start")
                    if o.get("stop"):
                        o.pop("stop")
                        if rng.random() < 0.5:
                            o["_relstop"] = rng.choice([1, p, 2 * p + 1])
                    o["payload"] = nk + 1
                    scn["ops"].append(o)
                    periods.append(p)
                    nk += 1
            elif c < 0.55:
                k = rng.randrange(nk)
                e = {"op": "exec", "rel": [k, rng.choice([0, 0, 1, -1, periods[k] if k < len(periods) else 1])]}
                if rng.random() < 0.15:
                    e["force"] = True
                if rng.random() < 0.35:
                    # callbacks that schedule / delete on their own scheduler during the call
                    scripts = {}
                    for kk in rng.sample(range(nk), rng.randint(1, min(nk, 2))):
                        cops = []
                        for _ in range(rng.randint(1, 2)):
                            cc = rng.random()
                            if cc < 0.5:
                                co, _p = scen.gen_job(rng, tz, clock, {"calls": [0, 5], "once_kinds": ["c"], "p_limit": 0.3, "p_stop": 0.0, "p_start": 0.0})
                                co.pop("clock")
                                co["payload"] = 99
                                cops.append(co)
                            elif cc < 0.85:
                                cops.append({"op": "del", "key": rng.randrange(nk)})
                            else:
                                cops.append({"op": "dtags", "tags": sorted(rng.sample(range(1, 6), rng.randint(0, 1))), "any": False})
                        scripts[str(kk)] = cops
                    e["scripts"] = scripts
                scn["ops"].append(e)
            elif c < 0.7:
                scn["ops"].append({"op": "del", "key": rng.randrange(nk)})
            elif c < 0.78:
                scn["ops"].append({"op": "dtags", "tags": sorted(rng.sample(range(1, 6), rng.randint(0, 2))), "any": rng.random() < 0.5})
            elif c < 0.9:
                scn["ops"].append({"op": "get", "tags": sorted(rng.sample(range(1, 6), rng.randint(0, 2))), "any": rng.random() < 0.5})
            else:
                scn["ops"].append({"op": "jobs"})
        yield scn


def project(line):
    """compare result, invoked keys and the registered flags"""
    from ..runlib import split_line
    if " | " not in line:
        return line
    d = split_line(line)
    inv = " ; ".join(x[0] for x in d["I"])
    js = " ; ".join(f"{x[0]} {x[6]}" for x in d["J"])
    return f"R {' '.join(d['R'])} | I {inv} | J {js}"


def specs(r):
    """ghost bookkeeping: created / deleted / retired, evaluated against the reported job set"""
    qs = []
    scn = r["scn"]
    created, deleted, retired = set(), set(), set()
    tags = {}
    for i, (o, ob) in enumerate(zip(scn["ops"], r["obs"])):
        if "truncated" in ob:
            break
        before = {k for k, v in (r["obs"][i - 1]["jobs"] if i > 0 else {}).items() if v[5] == 1}
        now = {k for k, v in ob["jobs"].items() if v[5] == 1}
        res = ob["res"]
        if o["op"] == "sch":
            if res[0] == "j":
                created.add(res[1])
                tags[res[1]] = set(o.get("tags") or [])
                if ob["jobs"][res[1]][4] == 0:
                    retired.add(res[1])
            elif res[0] == "e":
                qs.append((f"spec eq {1 if now == before else 0} 1", {"what": "rejected_registers_nothing", "op": i}))
        elif o["op"] == "del":
            k = o["key"]
            if k in before:
                qs.append((f"spec eq {1 if res == ('u',) else 0} 1", {"what": "delete_registered_succeeds", "op": i}))
                deleted.add(k)
            else:
                ok = res == ("e", "SchedulerError") and now == before
                qs.append((f"spec eq {1 if ok else 0} 1", {"what": "delete_unknown_raises_and_noop", "op": i, "res": list(res)}))
        elif o["op"] == "dtags":
            q = set(o.get("tags") or [])
            sel = {k for k in before if (not q) or ((q & tags[k]) if o.get("any") else q <= tags[k])}
            deleted |= sel
            qs.append((f"spec eq {res[1] if res[0] == 'c' else -1} {len(sel)}", {"what": "delete_jobs_count", "op": i}))
        elif o["op"] == "exec":
            for c in ob.get("cops", []):
                if c["op"] == "sch" and c["ok"]:
                    created.add(c["key"])
                    tags[c["key"]] = set(c.get("tags") or [])
                    if ob["jobs"].get(c["key"], (0, 0, 0, 0, 1, 0))[4] == 0 and ob["jobs"].get(c["key"], (0,) * 6)[2] == 0:
                        retired.add(c["key"])
                elif c["op"] == "del":
                    if c["ok"]:
                        deleted.add(c["key"])
                elif c["op"] == "dtags" and c["ok"]:
                    q = set(c.get("tags") or [])
                    bset = set(c["before"])
                    sel = {k for k in bset if (not q) or ((q & tags.get(k, set())) if c.get("any") else q <= tags.get(k, set()))}
                    deleted |= sel
                    ok = c["n"] == len(sel) and set(c["after"]) == bset - sel
                    qs.append((f"spec eq {1 if ok else 0} 1", {"what": "delete_jobs from a callback removes exactly the selection", "op": i}))
            for k in (before | created) - now - deleted:
                # gone without a delete: must have been retired (no attempts remaining)
                retired.add(k)
                qs.append((f"spec eq {ob['jobs'].get(k, (0, 0, 0, 0, 1, 0))[4]} 0", {"what": "job vanished although it has attempts remaining", "key": k, "op": i}))
            if res[0] != "c":
                qs.append(("spec eq 0 1", {"what": "exec_jobs raised", "op": i, "exc": ob.get("exc")}))
        elif o["op"] == "mutate":
            qs.append((f"spec eq {1 if now == before else 0} 1", {"what": "constructor_argument_mutation_has_no_effect", "op": i, "how": o.get("how")}))
        elif o["op"] in ("get", "jobs"):
            q = set(o.get("tags") or []) if o["op"] == "get" else set()
            sel = sorted(k for k in before if (not q) or ((q & tags[k]) if o.get("any") else q <= tags[k]))
            qs.append((f"spec eq {1 if (res[0] == 's' and list(res[1]) == sel) else 0} 1", {"what": "query_returns_registered_selection", "op": i}))
            qs.append((f"spec eq {1 if now == before else 0} 1", {"what": "snapshot_mutation_has_no_effect", "op": i}))
        want = created - deleted - retired
        # retired jobs: has_attempts is false; the ghost "retired" set is validated by that flag
        for k in retired:
            if ob["jobs"].get(k, (0, 0, 0, 0, 0, 0))[4] == 1 and k in now:
                qs.append(("spec eq 0 1", {"what": "retired job registered again", "key": k, "op": i}))
        qs.append((f"spec eq {1 if now == want else 0} 1", {"what": "registry_eq", "op": i, "reported": sorted(now), "expected": sorted(want)}))
    # "retired by ... stop": legitimately only when the job's next occurrence (by the Spec) lies past its stop
    return qs + runlib.stop_retirement_specs(r, c08.tms_tokens)


def classes(r):
    cl = ["tz:naive" if r["scn"].get("tz") is None else "tz:aware"]
    for o, ob in zip(r["scn"]["ops"], r["obs"]):
        if "truncated" in ob:
            break
        res = ob["res"]
        cl.append(f"op:{o['op']}:{res[0]}")
        if o["op"] == "sch":
            cl.append(f"call:{o['call']}")
            if o.get("ctor"):
                cl.append("via:constructor:" + r["scn"].get("ctor_kind", "set"))
        if o["op"] == "mutate":
            cl.append("mutate:ctor_arg:" + o.get("how", ""))
    return sorted(set(cl))


def nontrivial(r):
    cl = classes(r)
    return "op:sch:e" in cl and "op:del:e" in cl and ("op:dtags:c" in cl or "op:exec:c" in cl)


# ---- asyncio share
from .. import aiomix  # noqa: E402
from . import c17 as _c17, c18 as _c18  # noqa: E402

aiomix.install(globals(), 0.2,
               lambda rng: aiomix.alternate(aiomix.stream(rng, _c18.scenarios),
                                            aiomix.stream(rng, _c17.scenarios, tweak=aiomix.past_window_tweak)),
               aiomix.c11_specs,
               note="C18-style histories (deletions, coroutines using their scheduler) alternating with C17-style job lives (starts and stops in the past and future, batched lists, skip); Spec at every quiescent point: registered = created - deleted - exhausted, delete_job of an unregistered job raises and changes nothing, queries are pure")


# ---- concurrent callers (threading): the same bookkeeping when several threads change the registry at once -
# ---- every completed call's result (incl. the count delete_jobs returns) and the final job set are those of
# ---- some sequential order (the C14 scenario family and its Lean-evaluated linearizability Spec)
from . import c14 as _c14  # noqa: E402

_seq = {k: globals()[k] for k in ("scenarios", "runner", "specs", "classes", "nontrivial", "project")}


def scenarios(rng, n, tier):  # noqa: F811
    for scn in _seq["scenarios"](rng, n, tier):
        if rng.random() < 0.12:
            c = _c14.gen_scenario(rng, {"p_exec_heavy": 0.0, "p_line": 0.6, "del_heavy": rng.random() < 0.7})
            c["kind"] = "conc"
            yield c
        else:
            yield scn


def runner(scn):  # noqa: F811
    return _c14.runner(scn) if scn.get("kind") == "conc" else _seq["runner"](scn)


def specs(r):  # noqa: F811
    return _c14.specs(r) if r["scn"].get("kind") == "conc" else _seq["specs"](r)


def project(line):  # noqa: F811
    return _seq["project"](line)


def classes(r):  # noqa: F811
    return ["kind:concurrent-callers"] + _c14.classes(r) if r["scn"].get("kind") == "conc" else _seq["classes"](r)


def nontrivial(r):  # noqa: F811
    return _c14.nontrivial(r) if r["scn"].get("kind") == "conc" else _seq["nontrivial"](r)


RULE += ("; 12% of the scenarios are 2-4 controlled threads each performing 1-3 registry operations at once (C14 family, thread switches "
         "at every lock operation and, in 60%, at every source line): results and final job set must be linearizable")
