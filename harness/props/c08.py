"""C08 — missed occurrences are caught up one per call, or collapsed with skip_missing."""
from __future__ import annotations

from .. import core, gen, impl_thr, scen
from . import c01

ID = "C08"
BUDGET = {"quick": 2400, "thorough": 300000}
RULE = ("scenario = scheduler (naive/any offset) with 1-2 jobs of all five types incl. batched lists (1-3 entries, own offsets), "
        "skip_missing on (50%) or off, delay=False in 12%, start on/around an occurrence; 2-10 polls with gaps < P, = P, >> P, exactly on an "
        "occurrence, many consecutive catch-up polls at one instant, some forced; non-trivial = a poll that finds the job "
        "at least two periods late, or exactly on an occurrence; distinct by scenario hash")
ASSUMPTIONS = c01.ASSUMPTIONS
runner = impl_thr.run_scenario


def scenarios(rng, n, tier):
    for _ in range(n):
        opts = {"calls": [0, 1, 2, 3, 4], "p_single": 0.5, "p_skip": 0.5, "p_nodelay": 0.12, "p_stop": 0.05,
                "p_limit": 0.1, "max_jobs": 2, "p_maxexec": 0.15, "p_force": 0.1, "p_start": 0.5, "max_polls": 10}
        scn = scen.gen_life(rng, opts)
        # add catch-up bursts: several polls at one instant, far after the due time
        if rng.random() < 0.5:
            period = core.DAY
            for o in scn["ops"]:
                if o["op"] == "sch":
                    period = gen.PERIOD.get(o["call"], max(o["timings"][0][1], 1) if o["call"] == 0 else core.DAY)
                    break
            burst = [{"op": "exec", "rel": [0, rng.choice([2, 3, 5, 10]) * period + rng.choice([0, 0, 1, -1, rng.randint(0, period)])]}]
            burst += [{"op": "exec", "rel": [0, -10 ** 18]} for _ in range(rng.randint(1, 6))]
            scn["ops"] += burst
        yield scn


def tms_tokens(o):
    call = o["call"]
    return f"{len(o['timings'])} " + " ".join(c01.tm_tokens(call, t) for t in o["timings"])


def specs(r):
    qs = []
    scn = r["scn"]
    jobs = {}      # key -> sch op
    skip_nodelay = {}
    consumed = {}  # key -> list of due instants consumed by successive invocations
    for i, o in enumerate(scn["ops"]):
        if i >= len(r["obs"]) or "truncated" in r["obs"][i]:
            break
        ob = r["obs"][i]
        if o["op"] == "sch" and ob["res"][0] == "j":
            k = ob["res"][1]
            if o.get("delay", True) or not o.get("skip"):
                jobs[k] = o
                consumed[k] = []
            else:
                skip_nodelay[k] = o
        elif o["op"] == "exec":
            for (k, due_seen, _p) in ob["invoked"]:
                if k in skip_nodelay:
                    # skip_missing with the deprecated delay=False: the first run belongs to `start`, and a cyclic job is then
                    # planned for start + interval (not t + interval) - only what every reading of the statement demands is
                    # required: the new due time is not earlier than t, at most one interval later, and for clock-time
                    # jobs an occurrence that skips none after max(t, start)
                    o3 = skip_nodelay[k]
                    new3, t3 = ob["jobs"][k][0], o["clock"]
                    if due_seen <= t3:
                        if o3["call"] == 0:
                            qs.append((f"spec le {t3} {new3}", {"what": "skip_nodelay_not_before_t", "key": k, "op": i}))
                            qs.append((f"spec le {new3} {t3 + o3['timings'][0][1]}", {"what": "skip_nodelay_at_most_one_interval", "key": k, "op": i}))
                        else:
                            st3 = (o3["start"][0] - (o3["start"][1] or 0)) if o3.get("start") else o3["clock"]
                            qs.append((f"spec skipdue {tms_tokens(o3)} {t3} {max(t3, st3)} {new3}", {"what": "skip_due_nodelay", "key": k, "op": i}))
                if k not in jobs:
                    continue
                o2 = jobs[k]
                new = ob["jobs"][k][0]
                t = o["clock"]
                if o2.get("skip"):
                    if o2["call"] == 0:
                        if due_seen <= t:
                            qs.append((f"spec eq {t + o2['timings'][0][1]} {new}", {"what": "skip_cyclic_exact", "key": k, "op": i}))
                    else:
                        start = (o2["start"][0] - (o2["start"][1] or 0)) if o2.get("start") else o2["clock"]
                        qs.append((f"spec skipdue {tms_tokens(o2)} {t} {max(t, start)} {new}", {"what": "skip_due", "key": k, "op": i}))
                else:
                    consumed[k].append(due_seen)
    for k, o2 in jobs.items():
        if o2.get("skip") or not consumed[k]:
            continue
        ref = (o2["start"][0] - (o2["start"][1] or 0)) if o2.get("start") else o2["clock"]
        delay = o2.get("delay", True)
        if o2["call"] == 0:
            T = o2["timings"][0][1]
            for n, d in enumerate(consumed[k], 1):
                qs.append((f"spec cadence {1 if delay else 0} {ref} {T} {n} {d}", {"what": "none_lost_cyclic", "key": k, "n": n}))
        elif delay:
            qs.append((f"spec enum {tms_tokens(o2)} {ref} {core.s_list(consumed[k])}", {"what": "none_lost_enumeration", "key": k}))
        else:
            # delay=False: the first run belongs to `start` itself, then every occurrence after it, none lost
            qs.append((f"spec eq {consumed[k][0]} {ref}", {"what": "nodelay_first_is_start", "key": k}))
            qs.append((f"spec enum {tms_tokens(o2)} {ref} {core.s_list(consumed[k][1:])}", {"what": "none_lost_enumeration_nodelay", "key": k}))
    return qs


def direct_specs(r):
    """a job appears at most once per batch"""
    fails = []
    for i, ob in enumerate(r["obs"]):
        if "truncated" in ob:
            break
        keys = [x[0] for x in ob.get("invoked", [])]
        if len(keys) != len(set(keys)):
            fails.append({"info": {"what": "one_per_call", "op": i, "invoked": keys}})
    return fails


def classes(r):
    cl = c01.classes(r)
    for o in r["scn"]["ops"]:
        if o["op"] == "sch":
            cl.append("skip:on" if o.get("skip") else "skip:off")
            cl.append("entries:%d" % len(o["timings"]))
    for o, ob in zip(r["scn"]["ops"], r["obs"]):
        if "truncated" in ob:
            break
        if o["op"] == "exec":
            for p in ob["prio"]:
                if p[5] == 0:
                    cl.append("poll:on-occurrence")
    return sorted(set(cl))


def nontrivial(r):
    scn = r["scn"]
    periods = {}
    key = 0
    for o in scn["ops"]:
        if o["op"] == "sch":
            periods[key] = gen.PERIOD.get(o["call"], max(1, o["timings"][0][1]) if o["timings"][0][0] == "c" else core.DAY)
            key += 1
    for o, ob in zip(scn["ops"], r["obs"]):
        if "truncated" in ob:
            break
        if o["op"] == "exec":
            for (k, due_seen, _p) in ob["invoked"]:
                late = o["clock"] - due_seen
                if late == 0 or late >= 2 * periods.get(k, core.DAY):
                    return True
    return False
