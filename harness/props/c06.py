"""C06 — a job never runs more often than max_attempts and is retired when exhausted."""
from __future__ import annotations

from .. import core, gen, impl_thr, scen
from . import c01

ID = "C06"
BUDGET = {"quick": 2400, "thorough": 300000}
RULE = ("scenario = scheduler with 1-4 jobs of all types and once() of all four kinds, max_attempts in {0,1,2,3,7}, some with stop, "
        "failing callbacks (20%), forced polls (20%), polls long after the due time; 3-12 polls; Spec per snapshot: attempts = "
        "number of invocations so far, attempts <= max_attempts, a registered job has attempts left, the call performing the n-th "
        "invocation removes the job, a removed job never reappears, once() jobs polled at/after their due time ran exactly once; "
        "non-trivial = some job reached its limit; distinct by scenario hash. (The asyncio front end is covered by C17/C18.)")
ASSUMPTIONS = c01.ASSUMPTIONS
runner = impl_thr.run_scenario


def scenarios(rng, n, tier):
    for _ in range(n):
        opts = {"calls": [0, 0, 1, 2, 3, 4, 5, 5], "p_single": 0.8, "p_skip": 0.2, "p_nodelay": 0.1, "p_stop": 0.15,
                "p_limit": 0.7, "max_jobs": 4, "p_force": 0.2, "p_start": 0.3, "max_polls": 12, "p_raise": 0.2}
        scn = scen.gen_life(rng, opts)
        if rng.random() < 0.25:
            # several jobs exhaust in ONE call while callbacks unregister their own / a sibling job: each exhausted job is
            # still removed by that very call
            nk = sum(1 for o in scn["ops"] if o["op"] == "sch")
            for o in scn["ops"]:
                if o["op"] == "sch" and o["call"] != 5 and rng.random() < 0.7:
                    o["max_att"] = 1
            for e in scn["ops"]:
                if e["op"] == "exec" and nk >= 2 and rng.random() < 0.6:
                    e["force"] = True
                    ks = rng.sample(range(nk), rng.randint(1, min(2, nk)))
                    e["scripts"] = {str(k): [{"op": "del", "key": (k if rng.random() < 0.6 else rng.randrange(nk))}] for k in ks}
        yield scn


def project(line):
    """C06 is about counters and membership: compare result, invoked keys, attempts / has / registered"""
    from ..runlib import split_line
    if " | " not in line:
        return line
    d = split_line(line)
    inv = " ; ".join(x[0] for x in d["I"])
    js = " ; ".join(f"{x[0]} {x[3]} {x[5]} {x[6]}" for x in d["J"])
    return f"R {' '.join(d['R'])} | I {inv} | J {js}"


def specs(r):
    qs = []
    scn = r["scn"]
    jobs, count, gone = {}, {}, set()
    deleted = set()
    for i, o in enumerate(scn["ops"]):
        if i >= len(r["obs"]) or "truncated" in r["obs"][i]:
            break
        ob = r["obs"][i]
        if o["op"] == "sch" and ob["res"][0] == "j":
            jobs[ob["res"][1]] = o
            count[ob["res"][1]] = 0
        if o["op"] == "exec":
            if ob["res"][0] != "c":
                qs.append(("spec eq 0 1", {"what": "exec_jobs raised", "op": i, "exc": ob.get("exc")}))
            for (k, _d, _p) in ob["invoked"]:
                count[k] = count.get(k, 0) + 1
        if o["op"] == "del" and ob["res"][0] == "u":
            deleted.add(o["key"])
        if o["op"] == "exec":
            # jobs a callback of this call unregistered (scripted delete_job) are deleted, not retired
            for cops in (o.get("scripts") or {}).values():
                for c in cops:
                    if c.get("op") == "del":
                        deleted.add(c["key"])
        for k, o2 in jobs.items():
            if k not in ob.get("jobs", {}):
                continue
            due, _aw, att, _f, has, reg = ob["jobs"][k]
            n = 1 if o2["call"] == 5 else o2.get("max_att", 0)
            qs.append((f"spec eq {att} {count[k]}", {"what": "attempts_counts_invocations", "key": k, "op": i}))
            if n > 0:
                qs.append((f"spec le {att} {n}", {"what": "budget", "key": k, "op": i}))
                if att >= n:
                    qs.append((f"spec eq {reg} 0", {"what": "retired_same_call", "key": k, "op": i}))
            if reg == 1:
                qs.append((f"spec eq {has} 1", {"what": "registered_has_attempts", "key": k, "op": i}))
            if k in gone and reg == 1:
                qs.append(("spec eq 0 1", {"what": "never_back", "key": k, "op": i}))
            if reg == 0:
                gone.add(k)
            if n == 0 and not o2.get("stop") and k not in deleted:
                qs.append((f"spec eq {reg} 1", {"what": "unlimited_never_retired_for_running", "key": k, "op": i}))
    # once() jobs polled at/after their due instant ran exactly once
    last = r["obs"][-1] if r["obs"] and "jobs" in r["obs"][-1] else None
    if last:
        polls = [o["clock"] for o, ob in zip(scn["ops"], r["obs"]) if o["op"] == "exec" and "clock" in o]
        for k, o2 in jobs.items():
            if o2["call"] == 5 and k in last["jobs"]:
                qs.append((f"spec le {last['jobs'][k][2]} 1", {"what": "once_at_most_once", "key": k}))
    return qs


def direct_specs(r):
    """once() exactly once: if some non-forced poll happened at/after the due instant the job saw
    at creation, it has run (threading front end: the poll selects every due job of positive weight)"""
    fails = []
    scn = r["scn"]
    first_due = {}
    for i, (o, ob) in enumerate(zip(scn["ops"], r["obs"])):
        if "truncated" in ob:
            break
        if o["op"] == "sch" and ob["res"][0] == "j" and o["call"] == 5:
            k = ob["res"][1]
            w = o.get("w", [1, 1])
            if w[0] > 0:
                first_due[k] = ob["jobs"][k][0]
        if o["op"] == "exec" and ob["res"][0] == "c":
            for k, d in first_due.items():
                if o["clock"] >= d and ob["jobs"][k][2] != 1:
                    fails.append({"info": {"what": "once_exactly_once", "key": k, "op": i, "attempts": ob["jobs"][k][2]}})
    return fails


def classes(r):
    cl = c01.classes(r)
    for o in r["scn"]["ops"]:
        if o["op"] == "sch":
            cl.append("max_att:%d" % (1 if o["call"] == 5 else o.get("max_att", 0)))
            if o["call"] == 5:
                cl.append("once:" + o["timings"][0][0])
        if o["op"] == "exec" and o.get("raises"):
            cl.append("failing-callback")
    return sorted(set(cl))


def nontrivial(r):
    jobs = {}
    for i, (o, ob) in enumerate(zip(r["scn"]["ops"], r["obs"])):
        if "truncated" in ob:
            break
        if o["op"] == "sch" and ob["res"][0] == "j":
            jobs[ob["res"][1]] = 1 if o["call"] == 5 else o.get("max_att", 0)
    last = r["obs"][-1] if r["obs"] and "jobs" in r["obs"][-1] else None
    return bool(last) and any(n > 0 and last["jobs"].get(k, (0, 0, 0))[2] >= n for k, n in jobs.items())


# ---- asyncio share ("in both front ends")
from .. import aiomix  # noqa: E402
from . import c18 as _c18  # noqa: E402

def _aio_tweak(rng_, s):
    # 12%: a job whose arguments cannot be rendered (repr raises) - it can still be run, counted and retired
    for o in s["ops"]:
        if o["op"] == "sch" and rng_.random() < 0.12:
            o["badrepr"] = True
        elif o["op"] == "sch" and rng_.random() < 0.1:
            # a plain callable instead of a coroutine function: every run fails at the await - and is counted like any run
            o["plain_handle"] = True
            o["runs"] = [{"acts": [], "raises": "TypeError"}]
    return s


aiomix.install(globals(), 0.25, lambda rng: aiomix.stream(rng, _c18.scenarios, tweak=_aio_tweak), aiomix.c06_specs,
               note="C18-style histories (limits 50%, raising runs, deletions, coroutines using their scheduler); Spec: attempts and invocations <= max_attempts, exhausted => unregistered, registered => attempts remain, never back")


# ---- overlapping exec_jobs callers (threading): the budget also holds when several threads poll at once
from . import c14 as _c14  # noqa: E402

_seq = {k: globals()[k] for k in ("scenarios", "runner", "specs", "classes", "nontrivial")}
_seq_project, _seq_direct = globals().get("project"), globals().get("direct_specs")


def _conc_scenario(rng):
    scn = _c14.gen_scenario(rng, {"p_exec_heavy": 1.0})
    for j in scn["jobs"]:
        if j["call"] == 0 and rng.random() < 0.6:
            j["max_att"] = rng.choice([1, 1, 2])
    if rng.random() < 0.5:
        # "never reappears": another thread changes the registry (tag deletion that matches nothing, a new job) while a
        # caller performs a job's last run - a read-modify-write of the registry must not write the retired job back
        extra = [{"op": "dtags", "tags": [4], "any": rng.random() < 0.5}] if rng.random() < 0.7 else \
                [{"op": "sch", "call": 0, "timings": [["c", 40 * 10**6]], "tags": [4]}]
        t = rng.randrange(len(scn["threads"]))
        scn["threads"][t] = (extra + scn["threads"][t]) if rng.random() < 0.6 else (scn["threads"][t] + extra)
        if rng.random() < 0.5:
            scn["threads"].append(list(extra))
            t = len(scn["threads"]) - 1
        if rng.random() < 0.7:
            scn["sched"] = {"kind": "pause", "victim": t, "at": rng.randint(0, 25), "seed": rng.randrange(10**9)}
    scn["kind"] = "conc"
    return scn


def scenarios(rng, n, tier):  # noqa: F811
    for scn in _seq["scenarios"](rng, n, tier):
        yield _conc_scenario(rng) if rng.random() < 0.08 else scn


def runner(scn):  # noqa: F811
    return _c14.runner(scn) if scn.get("kind") == "conc" else _seq["runner"](scn)


def specs(r):  # noqa: F811
    if r["scn"].get("kind") != "conc":
        return _seq["specs"](r)
    out = r["obs"][0]
    qs = []
    if out.get("uncontrollable"):
        return qs
    if out.get("deadlock") or out.get("error"):
        qs.append(("spec eq 0 1", {"what": "overlapping callers: deadlock or a thread died", "detail": out.get("deadlock") or out.get("error")}))
        return qs
    ninv = {}
    for (k, _e, _t) in out["invocations"]:
        ninv[k] = ninv.get(k, 0) + 1
    for k, v in (out.get("jobs") or {}).items():
        if v[3] > 0:
            qs.append((f"spec le {v[0]} {v[3]}", {"what": "overlapping callers: attempts <= max_attempts", "key": k}))
            qs.append((f"spec le {ninv.get(k, 0)} {v[3]}", {"what": "overlapping callers: invocations <= max_attempts", "key": k, "invocations": ninv.get(k, 0)}))
            if v[0] >= v[3]:
                qs.append((f"spec eq {1 if k in (out['final'] or []) else 0} 0", {"what": "overlapping callers: exhausted job still registered", "key": k}))
    return qs


def project(line):  # noqa: F811
    return _seq_project(line) if _seq_project else line


def direct_specs(r):  # noqa: F811
    return [] if r["scn"].get("kind") == "conc" or _seq_direct is None else _seq_direct(r)


def classes(r):  # noqa: F811
    return ["kind:overlapping-callers"] if r["scn"].get("kind") == "conc" else _seq["classes"](r)


def nontrivial(r):  # noqa: F811
    if r["scn"].get("kind") == "conc":
        return len(r["obs"][0].get("invocations", [])) > 0
    return _seq["nontrivial"](r)


RULE += ("; 8% of the scenarios are overlapping exec_jobs callers (2-3 controlled threads on 1-2 never-run jobs with limits, thread "
         "switches at every source line of the execution path; in half of them a further registry-changing call - tag deletion matching nothing, "
         "a new job - runs alongside): attempts and invocations stay within max_attempts, exhausted jobs are gone and stay gone")
