"""C20 — printing a scheduler or job never fails and yields a well-formed, sorted table."""
from __future__ import annotations

import asyncio
import datetime as dt
import functools
import warnings

from .. import core, gen
from ..core import CLOCK, from_loc, tz_of

ID = "C20"
BUDGET = {"quick": 800, "thorough": 100000}
RULE = ("scenario = one scheduler (threading or asyncio; no timezone or a fixed offset with a short or a 40-character name) with 0-12 "
        "jobs (quick; up to 30 thorough) whose callables are a function, lambda, builtin, bound method, functools.partial, callable "
        "instance or class, with aliases of any length/content (empty, long, non-ASCII, control characters incl. newline), weights "
        "(ints, floats, huge, tiny, negative), max_attempts magnitudes, due times from 50 years back to 50 years ahead; str(scheduler) "
        "and str(job) are taken; correspondence = each table row vs the Lean row model on the cells job._str() delivers; Spec = "
        "positional structure (n+2 chunks of the header-row width), one row per job in ascending due order, true count in the "
        "heading; plus the exhaustive str_cutoff table (lengths 0-24 x widths 0-12 x both directions); non-trivial = a table with "
        ">= 2 rows and at least one abbreviated cell; distinct by scenario hash")
ASSUMPTIONS = ["width = number of code points (display width of wide/combining characters is not claimed)",
               "repr() of arbitrary user objects is outside the model"]

KINDS = ["function", "lambda", "builtin", "method", "partial", "instance", "class",
         # wrappers around things that are not plain functions (no __code__ / __qualname__ of their own)
         "partial-builtin", "partial-instance", "partial-method", "partial-partial", "partial-class", "builtin-method",
         "lru", "wrapped", "classmethod", "staticmethod", "methodcaller"]
ALIASES = [None, None, "", "a", "short alias", "x" * 16, "y" * 17, "a very long alias that does not fit into sixteen", "zeile\numbruch",
           "tab\tulator", "ünïcödé-ålias-ÿ", "日本語のエイリアス名称テスト十七文字以上", "#", "nul\x00char"]


class _Inst:
    def __call__(self, *a, **k):
        return None

    def meth(self, *a, **k):
        return None


def _fn(*a, **k):
    return None


async def _afn(*a, **k):
    return None


class _AInst:
    async def __call__(self, *a, **k):
        return None

    async def meth(self, *a, **k):
        return None


class _Holder:
    @classmethod
    def cm(cls, *a, **k):
        return None

    @staticmethod
    def sm(*a, **k):
        return None

    @classmethod
    async def acm(cls, *a, **k):
        return None

    @staticmethod
    async def asm(*a, **k):
        return None


def _wrapped(f):
    @functools.wraps(f)
    def inner(*a, **k):
        return f(*a, **k)
    return inner


def make_callable(kind, aio):
    import operator
    if aio:
        return {"function": _afn, "lambda": (lambda *a, **k: _afn()), "builtin": _afn, "method": _AInst().meth,
                "partial": functools.partial(_afn, 1), "instance": _AInst(), "class": _AInst,
                "partial-builtin": functools.partial(_AInst(), 1), "partial-instance": functools.partial(_AInst(), 1),
                "partial-method": functools.partial(_AInst().meth, 1),
                "partial-partial": functools.partial(functools.partial(_AInst(), 1), 2),
                "partial-class": functools.partial(_Holder.acm, 1), "builtin-method": _AInst().meth,
                "lru": _wrapped(_afn), "wrapped": _wrapped(_afn), "classmethod": _Holder.acm, "staticmethod": _Holder.asm,
                "methodcaller": functools.partial(_Holder.asm)}[kind]
    return {"function": _fn, "lambda": (lambda *a, **k: None), "builtin": print, "method": _Inst().meth,
            "partial": functools.partial(_fn, 1), "instance": _Inst(), "class": _Inst,
            "partial-builtin": functools.partial(print, "x", end=""), "partial-instance": functools.partial(_Inst(), 1),
            "partial-method": functools.partial(_Inst().meth, 1),
            "partial-partial": functools.partial(functools.partial(_Inst(), 1), 2),
            "partial-class": functools.partial(_Inst), "builtin-method": [].append if False else {}.get,
            "lru": functools.lru_cache(maxsize=None)(_fn), "wrapped": _wrapped(_fn), "classmethod": _Holder.cm,
            "staticmethod": _Holder.sm, "methodcaller": operator.methodcaller("strip")}[kind]


def scenarios(rng, n, tier):
    for _ in range(n):
        aio = rng.random() < 0.3
        tzc = rng.choice(["none", "utc", "named", "long"])
        clock = gen.rand_instant(rng)[0]
        nj = rng.choice([0, 1, 2, 3, 5, 8, 12] if tier == "quick" else [0, 1, 2, 5, 12, 30])
        jobs = []
        used = set()
        for i in range(nj):
            call = rng.choice([0, 0, 1, 2, 3, 4, 5])
            T = rng.choice([1, 999_999, 10**6, 59 * 10**6, 3600 * 10**6, 86_400 * 10**6 * 365 * rng.randint(1, 50)]) + i
            if used and rng.random() < 0.2:
                T = rng.choice(sorted(used))    # the same due instant as another job (ties in the sort)
            else:
                while T in used:
                    T += 1
            used.add(T)
            jobs.append({
                "call": call, "T": T, "kind": rng.choice(KINDS), "alias": rng.choice(ALIASES),
                "w": rng.choice([1, 0, 2, 0.5, 1 / 3, 1e-9, 1e15, -2.5, 123456789, 3.14159265, float("inf"), float("-inf"), float("nan"), 1e308, 5e-324]),
                "max_att": rng.choice([0, 0, 1, 2, 10**6, 10**12]),
                "back": rng.random() < 0.3,
            })
        yield {"aio": aio, "tzc": tzc, "clock0": clock, "jobs": jobs, "ops": []}


def _tz(tzc):
    if tzc == "none":
        return None
    if tzc == "utc":
        return dt.timezone.utc
    if tzc == "named":
        return dt.timezone(dt.timedelta(hours=2), "CEST")
    return dt.timezone(dt.timedelta(hours=-3, minutes=-30), "A-very-long-time-zone-name/Somewhere_Far")


def cps(s):
    return " ".join([str(len(s))] + [str(ord(c)) for c in s])


def _build(scn, sched, aio):
    """schedule the scenario's jobs; returns list of (job, spec)"""
    tz = _tz(scn["tzc"])
    out = []
    for idx, j in enumerate(scn["jobs"]):
        cb = make_callable(j["kind"], aio)
        kw = {}
        if j["alias"] is not None:
            kw["alias"] = j["alias"]
        if not aio:
            kw["weight"] = j["w"]
        T = dt.timedelta(microseconds=j["T"])
        now = CLOCK.now(tz)
        # distinct due instants (ties would leave the row order to set iteration)
        start = now - T - dt.timedelta(days=365 * 20 + 9 * idx, seconds=idx) if j["back"] else None
        with warnings.catch_warnings():
            warnings.simplefilter("ignore")
            if j["call"] == 5:
                job = sched.once(T, cb, **kw)
            else:
                if j["max_att"]:
                    kw["max_attempts"] = j["max_att"]
                if start is not None:
                    kw["start"] = start
                if j["call"] == 0:
                    job = sched.cyclic(T, cb, **kw)
                elif j["call"] in (1, 2, 3):
                    t = dt.time(3, 4, idx % 60, (j["T"] + idx) % 10**6 // 60 * 60 + idx, tzinfo=tz)
                    job = [sched.minutely, sched.hourly, sched.daily][j["call"] - 1](t, cb, **kw)
                else:
                    import scheduler.trigger as trigger
                    job = sched.weekly(trigger.weekday(j["T"] % 7, dt.time(6, 7, idx % 60, (j["T"] + idx) % 10**6 // 60 * 60 + idx, tzinfo=tz)), cb, **kw)
        out.append((job, j))
    return out


def _observe(scn, sched, pairs, aio):
    obs = {"err": None, "table": None, "jobstr_err": None, "rows": []}
    try:
        obs["table"] = str(sched)
    except Exception as e:  # noqa: BLE001
        obs["err"] = f"str(scheduler): {type(e).__name__}: {e}"
    for job, spec in pairs:
        try:
            str(job)
        except Exception as e:  # noqa: BLE001
            obs["jobstr_err"] = f"str(job) [{spec['kind']}]: {type(e).__name__}: {e}"
    # repr(): the other rendering of the same population (one "…job.Job(" item per registered job)
    try:
        rp = repr(sched)
        obs["repr_items"] = rp.count(".job.Job(" if aio else "scheduler.Job(")
        for job, spec in pairs:
            repr(job)
    except Exception as e:  # noqa: BLE001
        obs["repr_err"] = f"repr: {type(e).__name__}: {e}"
    # expected cells from what job._str() delivers (sorted by due instant)
    try:
        insts = [core.inst_of(p[0].datetime) for p in pairs]
        obs["ties"] = len(set(insts)) < len(insts)
        for job, spec in sorted(pairs, key=lambda p: core.inst_of(p[0].datetime)):
            r = job._str()
            # the distance the "due in" cell renders, in whole microseconds (the clock does not move between the two reads)
            td_us = job.timedelta(CLOCK.now(job.tzinfo)) // dt.timedelta(microseconds=1)
            obs["rows"].append({"cells": [r[0], r[1] + r[2], r[3], r[4] or "", r[5], f"{r[6]}/{r[7]}"] + ([] if aio else [f"{job.weight}"]),
                                "td_us": td_us, "due_in": r[5]})
    except Exception as e:  # noqa: BLE001
        obs["rows_err"] = f"{type(e).__name__}: {e}"
    obs["n"] = len(sched.jobs)
    try:
        it = list(sched.jobs)
        obs["iter_dues"] = [core.inst_of(j.datetime) for j in it]
        obs["sorted_dues"] = [core.inst_of(j.datetime) for j in sorted(it)]
    except Exception as e:  # noqa: BLE001
        obs["sort_err"] = f"{type(e).__name__}: {e}"
    return obs


def run_impl(scn):
    core.install_clock()
    CLOCK.instant = scn["clock0"]
    tz = _tz(scn["tzc"])
    if scn["aio"]:
        import scheduler.asyncio as saio

        async def main():
            sched = saio.Scheduler(tzinfo=tz)
            pairs = _build(scn, sched, True)
            o = _observe(scn, sched, pairs, True)
            sched.delete_jobs()
            return o

        return asyncio.run(main())
    from scheduler.threading.scheduler import Scheduler

    prio = scn.get("prio_kind", "function")
    sched = Scheduler(tzinfo=tz)
    pairs = _build(scn, sched, False)
    return _observe(scn, sched, pairs, False)


WIDTHS = (8, 16, 19, 12, 9, 13, 6)
ALIGN = (0, 0, 0, 0, 1, 1, 1)
CUT = (None, False, None, False, True, True, True)


def runner(scn):
    """model lines: for every job the expected table row (cells abbreviated by the model's str_cutoff
    then laid out by the model's row); implementation lines: the actual chunks of the table"""
    try:
        obs = run_impl(scn)
    except Exception as e:  # noqa: BLE001
        obs = {"err": f"building the scenario failed: {type(e).__name__}: {e}", "table": None, "rows": [], "n": 0}
    lines, impl = ["S N 0 0"], ["S ok"]
    table = obs.get("table")
    aio = scn["aio"]
    ncol = 6 if aio else 7
    cols = [i for i in range(ncol) if not (scn["tzc"] == "none" and i == 3)]
    W = sum(WIDTHS[i] for i in cols) + len(cols) - 1 + 1
    obs["W"] = W
    obs["chunks"] = None
    if table is not None:
        head, sep, body = table.partition("\n\n")
        obs["heading"] = head
        obs["body_len"] = len(body)
        if len(body) == W * (len(obs["rows"]) + 2):
            obs["chunks"] = [body[i * W:(i + 1) * W] for i in range(len(obs["rows"]) + 2)]
    for ri, row in enumerate(obs["rows"]):
        cells = []
        for i in cols:
            text = row["cells"][i]
            cells.append((i, text))
        # the model abbreviates and lays out; one `row` line per job, fed with already-cut cells is
        # not enough - the cut itself is part of the model: we send the raw text per cell in two steps
        parts = []
        for i, text in cells:
            parts.append((ALIGN[i], WIDTHS[i], text, CUT[i]))
        obs.setdefault("_parts", []).append(parts)
    # step 1: cutoff commands
    cut_lines = []
    for parts in obs.get("_parts", []):
        for (a, w, text, cut) in parts:
            if cut is not None:
                cut_lines.append(f"cutoff {w} {1 if cut else 0} {cps(text)}")
    cut_out = core.run_driver(cut_lines) if cut_lines else []
    ci = 0
    for ri, parts in enumerate(obs.get("_parts", [])):
        toks = [str(len(parts))]
        for (a, w, text, cut) in parts:
            if cut is not None:
                o = cut_out[ci].split()[1:]
                ci += 1
                toks.append(f"{a} {w} {len(o)} " + " ".join(o))
            else:
                toks.append(f"{a} {w} {cps(text)}")
        lines.append(("row " + " ".join(toks)).replace("  ", " ").strip())
        if obs["chunks"] is not None:
            chunk = obs["chunks"][ri + 2]
            impl.append(("W " + " ".join(str(ord(c)) for c in chunk)).strip())
        else:
            impl.append("W <table missing or malformed>")
    if obs.get("ties"):
        # equal due instants: the order of those rows is the set's iteration order - compare as a multiset
        order = sorted(range(1, len(lines)), key=lambda i: lines[i])
        model_rows = core.run_driver([lines[i] for i in order]) if len(lines) > 1 else []
        lines = [lines[0]] + [l for _, l in sorted(zip(model_rows, [lines[i] for i in order]))]
        impl = [impl[0]] + sorted(impl[1:])
    return lines, impl, [obs]


def specs(r):
    ob = r["obs"][0]
    qs = []
    if ob.get("err"):
        qs.append(("spec eq 0 1", {"what": "str(scheduler) raised", "err": ob["err"]}))
    if ob.get("jobstr_err"):
        qs.append(("spec eq 0 1", {"what": "str(job) raised", "err": ob["jobstr_err"]}))
    if ob.get("repr_err"):
        qs.append(("spec eq 0 1", {"what": "repr(scheduler) / repr(job) raised", "err": ob["repr_err"]}))
    if ob.get("table") is not None:
        n = len(ob["rows"])
        qs.append((f"spec eq {ob['body_len']} {ob['W'] * (n + 2)}", {"what": "row_width: table is n+2 chunks of the header-row width", "rows": n}))
        qs.append((f"spec eq {1 if ('#jobs=%d' % ob['n']) in ob.get('heading', '') else 0} 1", {"what": "count_in_heading", "heading": ob.get("heading")}))
        qs.append((f"spec eq {n} {ob['n']}", {"what": "one_row_per_job"}))
    for row in ob.get("rows", []):
        if "td_us" in row:
            # the "due in" text against the model of prettify_timedelta
            qs.append((f"spec prettify {row['td_us']} {cps(row['due_in'])}", {"what": "due-in text is the model's prettify_timedelta", "td_us": row["td_us"], "text": row["due_in"]}))
    if ob.get("sort_err"):
        qs.append(("spec eq 0 1", {"what": "sorted(scheduler.jobs) raised", "err": ob["sort_err"]}))
    elif "iter_dues" in ob:
        # the order the table is printed in: Python's sorted() over Job.__lt__ against the model's stable sort by due instant
        qs.append((f"spec sorteddues {core.s_list(ob['iter_dues'])} {core.s_list(ob['sorted_dues'])}", {"what": "sorted(jobs) is the ascending stable order by due instant"}))
    return qs


def exhaustive(tier):
    """str_cutoff for all lengths 0..24 x widths 0..12 x both directions, against model and Spec"""
    core.install_clock()
    from scheduler.base.scheduler_util import str_cutoff

    alphabet = "abcdefghijklmnopqrstuvwxyz"
    cmds, specs_, ctx = [], [], []
    for n in range(0, 25):
        s = (alphabet * 2)[:n]
        for w in range(0, 13):
            for tail in (False, True):
                try:
                    out = str_cutoff(s, w, tail)
                except ValueError:
                    out = None
                cmds.append(f"cutoff {w} {1 if tail else 0} {cps(s)}")
                ctx.append({"what": "str_cutoff", "string": s, "width": w, "cut_tail": tail, "impl": out})
                if out is not None and w >= 1:
                    specs_.append((f"spec cutoff {w} {1 if tail else 0} {cps(s)} {cps(out)}", ctx[-1]))
    fails = []
    ans = core.run_driver(cmds)
    for a, c in zip(ans, ctx):
        want = None if a == "C E" else "".join(chr(int(x)) for x in a.split()[1:])
        if want != c["impl"]:
            fails.append({"scn": {"table": "str_cutoff", **c}, "diff": {"model": want, "impl": c["impl"]}, "spec_fail": None, "no_shrink": True})
    ans2 = core.run_driver([q for q, _ in specs_])
    for (q, c), a in zip(specs_, ans2):
        if a != "ok":
            fails.append({"scn": {"table": "str_cutoff", **c}, "spec_fail": [{"query": q, "answer": a, "info": {"what": "cutoff Spec", **{k: v for k, v in c.items() if k != "what"}}}], "no_shrink": True})
    return {"tables": {"str_cutoff": len(cmds)}, "fail": fails}


def classes(r):
    scn, ob = r["scn"], r["obs"][0]
    cl = ["front:asyncio" if scn["aio"] else "front:threading", "tz:" + scn["tzc"], "jobs:%d" % len(scn["jobs"])]
    for j in scn["jobs"]:
        cl.append("callable:" + j["kind"])
        if j["alias"] is not None and len(j["alias"]) > 16:
            cl.append("alias:long")
        if j["alias"] is not None and any(ord(c) < 32 for c in j["alias"]):
            cl.append("alias:control-char")
    for row in ob.get("rows", []):
        for i, c in enumerate(row["cells"]):
            if len(c) > WIDTHS[i]:
                cl.append("abbreviated:col%d" % i)
    return sorted(set(cl))


def nontrivial(r):
    cl = classes(r)
    return len(r["scn"]["jobs"]) >= 2 and any(c.startswith("abbreviated") for c in cl)


# ---- printing from inside a callback while a batch is in flight (threading front end): the table is still one row
# ---- per registered job and the heading reports their number
from .. import impl_thr as _impl_thr  # noqa: E402

_table_scenarios, _table_runner, _table_specs, _table_classes, _table_nontrivial = scenarios, runner, specs, classes, nontrivial
S_ = 1_000_000


def inflight_scenario(rng):
    tz = None if rng.random() < 0.5 else gen.rand_off(rng, "hour")[0]
    clock = gen.rand_instant(rng)[0] // S_ * S_
    scn = {"kind": "inflight", "tz": tz, "max_exec": rng.choice([0, 0, 2]), "prio": 0, "clock0": clock, "ops": [],
           "n_threads": rng.choice([1, 1, 1, 2])}
    nj = rng.randint(2, 5)
    for i in range(nj):
        o = {"op": "sch", "call": rng.choice([0, 0, 5]), "timings": [["c", rng.choice([1, 2, 3]) * S_]], "clock": clock,
             "w": [rng.randint(1, 5), 1], "payload": i + 1}
        if o["call"] == 0 and rng.random() < 0.5:
            o["max_att"] = rng.choice([1, 1, 2])
        scn["ops"].append(o)
    t = clock
    for _ in range(rng.randint(1, 4)):
        t += rng.choice([3, 4, 5]) * S_
        scripts = {str(k): [{"op": "str"}] for k in rng.sample(range(nj), rng.randint(1, nj))}
        scn["ops"].append({"op": "exec", "clock": t, "scripts": scripts, "force": rng.random() < 0.2})
    return scn


def scenarios(rng, n, tier):  # noqa: F811
    for scn in _table_scenarios(rng, n, tier):
        yield inflight_scenario(rng) if rng.random() < 0.15 else scn


def runner(scn):  # noqa: F811
    return _impl_thr.run_scenario(scn) if scn.get("kind") == "inflight" else _table_runner(scn)


def specs(r):  # noqa: F811
    if r["scn"].get("kind") != "inflight":
        return _table_specs(r)
    qs = []
    for i, ob in enumerate(r["obs"]):
        if "truncated" in ob:
            break
        for c in ob.get("cops", []):
            if c["op"] == "str":
                if not c.get("ok"):
                    qs.append(("spec eq 0 1", {"what": "str() from a callback raised", "op": i, "err": c.get("err")}))
                else:
                    qs.append((f"spec eq {c['heading']} {c['registered']}", {"what": "in-flight print: heading reports the true job count", "op": i}))
                    qs.append((f"spec eq {c['rows']} {c['registered']}", {"what": "in-flight print: one row per registered job", "op": i, "rows": c["rows"], "registered": c["registered"]}))
    return qs


def classes(r):  # noqa: F811
    return ["kind:inflight", f"n_threads:{r['scn'].get('n_threads')}"] if r["scn"].get("kind") == "inflight" else _table_classes(r)


def nontrivial(r):  # noqa: F811
    if r["scn"].get("kind") == "inflight":
        return any(c["op"] == "str" for ob in r["obs"] if isinstance(ob, dict) for c in ob.get("cops", []))
    return _table_nontrivial(r)


RULE += ("; 15% of the scenarios print the threading scheduler from inside callbacks while a batch is in flight (jobs that have just "
         "used their last attempt are still registered): the heading must report the number of registered jobs and the table "
         "must have one row for each of them")


# ---- the same for the asyncio front end: coroutines print their scheduler while other jobs retire / get deleted
from .. import impl_aio as _impl_aio  # noqa: E402
from . import c18 as _c18  # noqa: E402

_mix = {k: globals()[k] for k in ("scenarios", "runner", "specs", "classes", "nontrivial")}


def _aio_print_stream(rng):
    while True:
        for scn in _c18.scenarios(rng, 8, "quick"):
            if scn.get("sliced"):
                continue
            n = 0
            for o in scn["ops"]:
                if o["op"] == "sch":
                    for run in o.get("runs", []):
                        if rng.random() < 0.6:
                            run["acts"].insert(rng.randint(0, len(run["acts"])), ["st"])
                            n += 1
            if n:
                scn["kind"] = "aio-print"
                yield scn


def scenarios(rng, n, tier):  # noqa: F811
    st = _aio_print_stream(rng)
    for scn in _mix["scenarios"](rng, n, tier):
        yield next(st) if rng.random() < 0.1 else scn


def runner(scn):  # noqa: F811
    return _impl_aio.run_scenario(scn) if scn.get("kind") == "aio-print" else _mix["runner"](scn)


project = _impl_aio.project


def specs(r):  # noqa: F811
    if r["scn"].get("kind") != "aio-print":
        return _mix["specs"](r)
    qs = []
    for i, ob in enumerate(r["obs"]):
        for (t, k, heading, rows, reg) in ob.get("prints", []):
            if heading == -1:
                qs.append(("spec eq 0 1", {"what": "str() from a coroutine raised", "op": i, "key": k, "error": reg}))
            else:
                qs.append((f"spec eq {heading} {reg}", {"what": "asyncio in-flight print: heading reports the true job count", "op": i, "key": k}))
                qs.append((f"spec eq {rows} {reg}", {"what": "asyncio in-flight print: one row per registered job", "op": i, "key": k, "rows": rows, "registered": reg}))
    return qs


def classes(r):  # noqa: F811
    return ["kind:aio-print"] if r["scn"].get("kind") == "aio-print" else _mix["classes"](r)


def nontrivial(r):  # noqa: F811
    if r["scn"].get("kind") == "aio-print":
        return any(ob.get("prints") for ob in r["obs"])
    return _mix["nontrivial"](r)


RULE += "; 10% are asyncio histories (C18 generator) in which coroutines print their scheduler between their other actions: same two clauses"
