"""C01 — minutely/hourly/daily jobs are due exactly at the matching clock instants."""
from __future__ import annotations

from .. import core, gen, impl_thr, scen
from ..runlib import split_line

ID = "C01"
BUDGET = {"quick": 2400, "thorough": 300000}
RULE = ("scenario = one scheduler (naive or any fixed offset) with 1-2 single-entry minutely/hourly/daily jobs "
        "(time of day incl. ignored fields, own offset, start in its own offset placed on/around an occurrence, "
        "or creation time) and 1-8 polls placed relative to observed due instants (exactly on, +-1us, +k periods, forced); "
        "non-trivial = at least one execution happened and a boundary class (reference on occurrence +-1us, month/year/leap "
        "rollover, day-changing or sub-minute offset) is hit; distinct by hash of the canonical scenario")
ASSUMPTIONS = ["A-clock: successive clock readings are non-decreasing", "fixed-offset tzinfo, years 1971-2999"]
runner = impl_thr.run_scenario


def scenarios(rng, n, tier):
    for _ in range(n):
        opts = {"calls": [1, 2, 3], "p_single": 1.0, "p_skip": 0.25, "p_nodelay": 0.0, "p_stop": 0.1,
                "p_limit": 0.15, "max_jobs": 2, "p_force": 0.15, "p_start": 0.6}
        yield scen.gen_life(rng, opts)


def tm_tokens(call, t):
    if call == 4:
        return f"4 {t[1]} {t[2]} {t[3]} {t[4]} {t[5]} {core.s_opt_int(t[6])}"
    return f"{call} {t[1]} {t[2]} {t[3]} {t[4]} {core.s_opt_int(t[5])}"


def single_jobs(scn):
    """key -> (call, timing, sch-op) for single-entry recurring jobs"""
    out, key = {}, 0
    for o in scn["ops"]:
        if o["op"] == "sch":
            out[key] = o
            key += 1
    return out


def specs(r, calls=(1, 2, 3)):
    """Spec oracle on implementation observations: first due = least occurrence strictly after the
    reference; every execution moves the due instant by exactly one period (no skip); with
    skip_missing the new due instant is still an occurrence (the C08 Spec)."""
    from . import c08
    qs = [q for q in c08.specs(r) if q[1]["what"] == "skip_due"]
    scn = r["scn"]
    jobs = {}
    key = 0
    ops = scn["ops"]
    for i, o in enumerate(ops):
        if i >= len(r["obs"]) or "truncated" in r["obs"][i]:
            break
        ob = r["obs"][i]
        if o["op"] == "sch":
            if ob["res"][0] == "j":
                k = ob["res"][1]
                if o["call"] in calls and len(o["timings"]) == 1 and o.get("delay", True):
                    if not o.get("skip"):
                        jobs[k] = o
                    ref = (o["start"][0] - (o["start"][1] or 0)) if o.get("start") else o["clock"]
                    due = ob["jobs"][k][0]
                    qs.append((f"spec least {tm_tokens(o['call'], o['timings'][0])} {ref} {due}", {"what": "first_due", "key": k}))
        elif o["op"] == "exec":
            for (k, due_seen, _p) in ob["invoked"]:
                if not o.get("force"):
                    # "due exactly at": an ordinary poll never runs a job before the due time it reports
                    qs.append((f"spec le {due_seen} {o['clock']}", {"what": "not_invoked_before_due", "key": k, "op": i}))
                if k in jobs:
                    o2 = jobs[k]
                    new = ob["jobs"][k][0]
                    qs.append((f"spec step {tm_tokens(o2['call'], o2['timings'][0])} {due_seen} {new}", {"what": "advance", "key": k}))
    return qs


def classes(r):
    cl = [f"cal:{r['scn'].get('_class', '?')}", "tz:naive" if r["scn"].get("tz") is None else "tz:aware"]
    for o in r["scn"]["ops"]:
        if o["op"] == "sch":
            cl.append(f"call:{o['call']}")
            if o.get("start"):
                cl.append("start:given")
            for t in o["timings"]:
                off = t[-1]
                if off is not None:
                    cl.append("off:" + ("zero" if off == 0 else "hour" if off % core.HOUR == 0 else "minute" if off % core.MINUTE == 0 else "submin"))
        elif o["op"] == "exec":
            if o.get("rel") and o["rel"][1] in (0, -1, 1):
                cl.append(f"poll:due{o['rel'][1]:+d}")
            if o.get("force"):
                cl.append("poll:force")
    return sorted(set(cl))


def nontrivial(r):
    return any(ob.get("invoked") for ob in r["obs"] if isinstance(ob, dict))
