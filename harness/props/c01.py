"""C01 — minutely/hourly/daily jobs are due exactly at the matching clock instants."""
from __future__ import annotations

from .. import core, gen, impl_thr, scen
from ..runlib import split_line

ID = "C01"
BUDGET = {"quick": 2400, "thorough": 300000}
RULE = ("scenario = one scheduler (naive or any fixed offset) with 1-2 single-entry minutely/hourly/daily jobs "
        "(time of day incl. ignored fields, own offset, start in its own offset placed on/around an occurrence, "
        "or creation time) and 1-8 polls placed relative to observed due instants (exactly on, +-1us, +k periods, forced); "
        "non-trivial = at least one execution happened and a boundary class (reference on occurrence +-1us, month/year/leap "
        "rollover, day-changing or sub-minute offset) is hit; distinct by hash of the canonical scenario")
ASSUMPTIONS = ["A-clock: successive clock readings are non-decreasing", "fixed-offset tzinfo, years 1971-2999"]
runner = impl_thr.run_scenario


def scenarios(rng, n, tier):
    for _ in range(n):
        opts = {"calls": [1, 2, 3], "p_single": 1.0, "p_skip": 0.25, "p_nodelay": 0.0, "p_stop": 0.1,
                "p_limit": 0.15, "max_jobs": 2, "p_maxexec": 0.1, "p_force": 0.15, "p_start": 0.6}
        yield scen.gen_life(rng, opts)


def tm_tokens(call, t):
    if call == 4:
        return f"4 {t[1]} {t[2]} {t[3]} {t[4]} {t[5]} {core.s_opt_int(t[6])}"
    return f"{call} {t[1]} {t[2]} {t[3]} {t[4]} {core.s_opt_int(t[5])}"


def single_jobs(scn):
    """key -> (call, timing, sch-op) for single-entry recurring jobs"""
    out, key = {}, 0
    for o in scn["ops"]:
        if o["op"] == "sch":
            out[key] = o
            key += 1
    return out


def specs(r, calls=(1, 2, 3)):
    """Spec oracle on implementation observations: first due = least occurrence strictly after the
    reference; every execution moves the due instant by exactly one period (no skip); with
    skip_missing the new due instant is still an occurrence (the C08 Spec)."""
    from . import c08
    qs = [q for q in c08.specs(r) if q[1]["what"] == "skip_due"]
    scn = r["scn"]
    jobs = {}
    key = 0
    ops = scn["ops"]
    for i, o in enumerate(ops):
        if i >= len(r["obs"]) or "truncated" in r["obs"][i]:
            break
        ob = r["obs"][i]
        if o["op"] == "sch":
            if ob["res"][0] == "j":
                k = ob["res"][1]
                if o["call"] in calls and len(o["timings"]) == 1 and o.get("delay", True):
                    if not o.get("skip"):
                        jobs[k] = o
                    ref = (o["start"][0] - (o["start"][1] or 0)) if o.get("start") else o["clock"]
                    due = ob["jobs"][k][0]
                    qs.append((f"spec least {tm_tokens(o['call'], o['timings'][0])} {ref} {due}", {"what": "first_due", "key": k}))
        elif o["op"] == "exec":
            for (k, due_seen, _p) in ob["invoked"]:
                if not o.get("force"):
                    # "due exactly at": an ordinary poll never runs a job before the due time it reports
                    qs.append((f"spec le {due_seen} {o['clock']}", {"what": "not_invoked_before_due", "key": k, "op": i}))
                if k in jobs:
                    o2 = jobs[k]
                    new = ob["jobs"][k][0]
                    qs.append((f"spec step {tm_tokens(o2['call'], o2['timings'][0])} {due_seen} {new}", {"what": "advance", "key": k}))
    return qs


def classes(r):
    cl = [f"cal:{r['scn'].get('_class', '?')}", "tz:naive" if r["scn"].get("tz") is None else "tz:aware"]
    for o in r["scn"]["ops"]:
        if o["op"] == "sch":
            cl.append(f"call:{o['call']}")
            if o.get("start"):
                cl.append("start:given")
            for t in o["timings"]:
                off = t[-1]
                if off is not None:
                    cl.append("off:" + ("zero" if off == 0 else "hour" if off % core.HOUR == 0 else "minute" if off % core.MINUTE == 0 else "submin"))
        elif o["op"] == "exec":
            if o.get("rel") and o["rel"][1] in (0, -1, 1):
                cl.append(f"poll:due{o['rel'][1]:+d}")
            if o.get("force"):
                cl.append("poll:force")
    return sorted(set(cl))


def nontrivial(r):
    return any(ob.get("invoked") for ob in r["obs"] if isinstance(ob, dict))


# ---- other threads read the due time while exec_jobs reschedules the job (threading front end): "the due time a job
# ---- reports (datetime, and timedelta relative to any instant) is always such an instant" also holds for a reader that
# ---- runs concurrently - it sees the due time before or after a rescheduling, never a half-done one
_seq = {k: globals()[k] for k in ("scenarios", "runner", "specs", "classes", "nontrivial")}
S_ = 1_000_000


def _reader_scenario(rng):
    from . import c14
    clock = gen.rand_instant(rng)[0] // S_ * S_
    jobs = []
    for _i in range(rng.randint(1, 2)):
        if rng.random() < 0.5:
            T = rng.choice([1, 2, 3]) * S_
            jobs.append({"call": 0, "timings": [["c", T]], "skip": rng.random() < 0.8, "start": [clock - rng.randint(2, 6) * T, None], "tags": []})
        else:
            call = rng.choice([1, 1, 2])
            ts = [["t", 0, rng.randrange(60) if call == 2 else 0, sec, 0, None] for sec in rng.sample(range(60), rng.choice([1, 1, 2, 3]))]
            jobs.append({"call": call, "timings": ts, "is_list": len(ts) > 1, "skip": rng.random() < (0.8 if len(ts) == 1 else 0.4), "tags": [],
                         "start": [clock - rng.randint(2, 6) * (60 if call == 1 else 3600) * S_, None]})
    nj = len(jobs)
    threads = [[{"op": "exec", "force": rng.random() < 0.2}] for _ in range(rng.randint(1, 3))]
    for _ in range(rng.randint(1, 2)):
        threads.append([{"op": "due", "key": rng.randrange(nj), "reps": rng.choice([20, 40, 80])} for _ in range(rng.randint(1, 2))])
    return {"kind": "readers", "tz": None, "n_threads": 1, "clock0": clock, "advance": rng.choice([0, 1, 7, 61, 3700]) * S_ + rng.choice([0, 500_000]),
            "jobs": jobs, "threads": threads, "ops": [],
            "sched": {"kind": "random", "seed": rng.randrange(10**9), "depth": 2}, "line_preempt": True}


def scenarios(rng, n, tier):  # noqa: F811
    for scn in _seq["scenarios"](rng, n, tier):
        yield _reader_scenario(rng) if rng.random() < 0.08 else scn


def runner(scn):  # noqa: F811
    if scn.get("kind") == "readers":
        from . import c14
        return c14.runner(scn)
    return _seq["runner"](scn)


def specs(r, calls=(1, 2, 3)):  # noqa: F811
    if r["scn"].get("kind") != "readers":
        return _seq["specs"](r, calls)
    out = r["obs"][0]
    qs = []
    if out.get("uncontrollable"):
        return qs
    if out.get("deadlock") or out.get("error"):
        qs.append(("spec eq 0 1", {"what": "concurrent readers: deadlock or a thread died", "detail": out.get("deadlock") or out.get("error")}))
        return qs
    # "each execution moves the due time to the next such instant", with overlapping callers too: after n executions the job is
    # planned for the (n+1)-th occurrence after its reference
    from . import c14 as _c14m
    qs += _c14m.final_due_specs(r["scn"], out)
    stable = {int(k): set(v) for k, v in (out.get("stable_dues") or {}).items()}
    for rec in out["records"]:
        if rec["op"] != "due":
            continue
        res = rec["result"]
        if res[0] != "d":
            qs.append(("spec eq 0 1", {"what": "concurrent readers: reading the due time raised", "error": list(res)}))
            continue
        k = rec["args"]["key"]
        bad = [v for v in res[1] if v not in stable.get(k, set())]
        qs.append((f"spec eq {len(bad)} 0", {"what": "concurrent reader: every datetime / timedelta read is a due time the job had before or after a rescheduling",
                                             "key": k, "not_a_due_time": bad[:4], "stable": sorted(stable.get(k, set()))[:8]}))
    return qs


def classes(r):  # noqa: F811
    return ["kind:concurrent-readers"] if r["scn"].get("kind") == "readers" else _seq["classes"](r)


def nontrivial(r):  # noqa: F811
    if r["scn"].get("kind") == "readers":
        return any(x["op"] == "due" for x in r["obs"][0].get("records", []))
    return _seq["nontrivial"](r)


RULE += ("; 8% of the scenarios have other threads read job.datetime / job.timedelta while exec_jobs callers reschedule overdue (mostly "
         "skip_missing) jobs, with thread switches at every source line of the rescheduling code: every value read is a due time the "
         "job had before or after a rescheduling")
