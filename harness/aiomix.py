"""
harness/aiomix.py — asyncio shares for the checks whose property quantifies over both front ends.

A check module mixes asyncio scenarios (real asyncio Scheduler under the virtual-time loop, compared
with the Lean asyncio model by the usual line protocol) into its threading scenarios:

    runner  = aiomix.mixed_runner(<threading runner>)
    project = aiomix.mixed_project(<threading projection or None>)
    specs   : dispatch on r["scn"].get("aio") to one of the *_specs functions below

The Specs here are written against the observations of harness/impl_aio.py: per operation
`events` = (instant, key, kind, due) with kind S(tart) E(nd) X(raised) C(ancelled), `jobs` = per-job
(due, aware, attempts, failed_attempts, has_attempts_remaining, registered), `trace`, `logs`,
`task_errors`, `arg_failures`.
"""
from __future__ import annotations

import json

from . import core, gen, impl_aio, scen

S = 1_000_000


def mixed_runner(thr_runner):
    def run(scn):
        return impl_aio.run_scenario(scn) if scn.get("aio") else thr_runner(scn)
    return run


def mixed_project(thr_project=None):
    def proj(line):
        if " | E " in line:
            return impl_aio.project(line)
        return thr_project(line) if thr_project else line
    return proj


def stream(rng, generator, keep=lambda scn: True, tweak=None):
    """endless stream of asyncio scenarios from one of the C17 / C18 generators"""
    while True:
        for scn in generator(rng, 8, "quick"):
            if scn.get("sliced"):
                continue
            if tweak is not None:
                scn = tweak(rng, scn)
            if scn is not None and keep(scn) and not scn.get("sliced"):      # (C18's sliced-loop family is its own)
                yield scn


def past_window_tweak(rng, scn):
    """30%: give one cyclic job a start..stop window that lies entirely in the past (it still has due times to
    work off before the stop retires it)"""
    scn = dict(scn, _no_solo=True)
    if rng.random() < 0.3:
        cyc = [o for o in scn["ops"] if o["op"] == "sch" and o["call"] == 0]
        if cyc:
            o = rng.choice(cyc)
            T = o["timings"][0][1]
            off = scn.get("tz")
            a = rng.randint(1, 4)
            b = rng.randint(0, a - 1)
            o["start"] = [scn["clock0"] - a * T + (off or 0), off]
            o["stop"] = [scn["clock0"] - b * T - rng.choice([0, 0, S]) + (off or 0), off]
            if o["stop"][0] <= o["start"][0]:
                o["stop"][0] = o["start"][0] + S
            o["delay"] = rng.random() < 0.7
    return scn


def alternate(*streams):
    while True:
        for st in streams:
            yield next(st)


def strip_acts(scn, kinds=("as",)):
    """drop the given kinds of coroutine actions (e.g. scheduling from inside a coroutine)"""
    for o in scn["ops"]:
        if o["op"] == "sch":
            for run in o.get("runs", []):
                run["acts"] = [a for a in run["acts"] if a[0] not in kinds]
    return scn


def top_jobs(r):
    """key -> scheduling op, for the jobs created by top-level operations"""
    out = {}
    for o, ob in zip(r["scn"]["ops"], r["obs"]):
        if o["op"] == "sch" and ob["res"][0] == "j":
            out[ob["res"][1]] = o
    return out


def ref_of(o):
    return (o["start"][0] - (o["start"][1] or 0)) if o.get("start") else o["clock"]


# ------------------------------------------------------------------------------------------ C06
def probe_specs(r):
    """retired by the very step that performs the last invocation: right after the supervisor step
    that booked a run (next loop iteration) an exhausted job is no longer registered"""
    qs = []
    for i, ob in enumerate(r["obs"]):
        for (t, k, reg, has, att) in ob.get("probes", []):
            if has == 0:
                qs.append((f"spec eq {reg} 0", {"what": "aio retired by the step of its last invocation", "key": k, "op": i, "t": t, "attempts": att}))
            elif has == -1:
                qs.append(("spec eq 0 1", {"what": "aio probe failed", "key": k, "op": i, "error": att}))
    return qs


def cop_sel_specs(r):
    """delete_jobs called from inside a coroutine removes exactly the matching jobs - the caller's own job included - and
    returns their number"""
    qs = []
    for i, ob in enumerate(r["obs"]):
        for (t, k, want, removed, n) in ob.get("cop_sel", []):
            ok = list(want) == list(removed) and n == len(want)
            qs.append((f"spec eq {1 if ok else 0} 1", {"what": "aio delete_jobs from a coroutine removes exactly the selection", "op": i, "by": k, "t": t,
                                                        "selection": list(want), "removed": list(removed), "returned": n}))
    return qs


def idle_specs(r):
    """the loop is idle at every observation point: a registered job with attempts remaining is either inside a run
    (suspended coroutine) or not yet due - nobody is left waiting past a due time (and no supervisor has silently
    given up on a job it still lists)"""
    qs = []
    open_runs = {}
    for i, ob in enumerate(r["obs"]):
        for (_t, k, kind, _due) in ob.get("events", []):
            if kind == "S":
                open_runs[k] = open_runs.get(k, 0) + 1
            elif kind in ("E", "X", "C"):
                open_runs[k] = open_runs.get(k, 0) - 1
        if ob.get("spin"):
            break
        for k, v in ob["jobs"].items():
            if v[5] == 1 and v[4] == 1 and open_runs.get(k, 0) <= 0:
                qs.append((f"spec lt {ob['now']} {v[0]}", {"what": "aio registered job with attempts left is overdue while the loop is idle", "key": k, "op": i, "due": v[0], "now": ob["now"]}))
    return qs


def c06_specs(r):
    """never more runs than the budget; retired when exhausted; gone for good"""
    qs = probe_specs(r) + idle_specs(r)
    jobs = top_jobs(r)
    maxatt = {k: (1 if o["call"] == 5 else o.get("max_att", 0)) for k, o in jobs.items()}
    nstart, ndone, was_reg, gone = {}, {}, set(), set()
    for i, ob in enumerate(r["obs"]):
        for (_t, k, kind, _due) in ob.get("events", []):
            if kind == "S":
                nstart[k] = nstart.get(k, 0) + 1
            elif kind in ("E", "X"):
                ndone[k] = ndone.get(k, 0) + 1
        for k, v in ob["jobs"].items():
            if not ob.get("spin") and k in jobs:
                # "a job's attempts counter always equals the number of invocations of its callback so far" (runs that ended,
                # normally or by raising; a run cancelled by a deletion is not booked)
                qs.append((f"spec eq {v[2]} {ndone.get(k, 0)}", {"what": "aio attempts = completed invocations", "key": k, "op": i}))
            m = maxatt.get(k, 0)
            if m:
                qs.append((f"spec le {v[2]} {m}", {"what": "aio budget: attempts <= max_attempts", "key": k, "op": i}))
                qs.append((f"spec le {nstart.get(k, 0)} {m}", {"what": "aio budget: invocations <= max_attempts", "key": k, "op": i}))
                if v[2] >= m:
                    qs.append((f"spec eq {v[5]} 0", {"what": "aio retired when exhausted", "key": k, "op": i}))
            if v[5] == 1:
                qs.append((f"spec eq {v[4]} 1", {"what": "aio registered_has_attempts", "key": k, "op": i}))
                if k in gone:
                    qs.append(("spec eq 0 1", {"what": "aio never_back", "key": k, "op": i}))
                was_reg.add(k)
            elif k in was_reg:
                gone.add(k)
        if ob.get("task_errors"):
            qs.append(("spec eq 0 1", {"what": "aio no_task_error", "op": i, "errors": ob["task_errors"][:2]}))
    return qs


# ------------------------------------------------------------------------------------------ C10
def c10_runner(scn):
    """the scenario and its fault-free twin on the real asyncio scheduler"""
    lines, impl, obs = impl_aio.run_scenario(scn)
    s2 = json.loads(json.dumps({k: v for k, v in scn.items() if not k.startswith("_")}))
    for o in s2["ops"]:
        o.pop("clock", None)
        if o["op"] == "sch":
            for run in o.get("runs", []):
                run["raises"] = False
    if s2.get("dflt"):
        s2["dflt"]["raises"] = False
    _l, _i, obs2 = impl_aio.run_scenario(s2)
    obs[0]["_twin"] = obs2
    return lines, impl, obs


def c10_specs(r):
    """a failing coroutine is contained (no task dies), counted, logged once; nothing else changes"""
    qs = []
    nx, ne = {}, {}
    for i, ob in enumerate(r["obs"]):
        for (_t, k, kind, _due) in ob.get("events", []):
            if kind == "X":
                nx[k] = nx.get(k, 0) + 1
            elif kind == "E":
                ne[k] = ne.get(k, 0) + 1
        if ob.get("task_errors"):
            qs.append(("spec eq 0 1", {"what": "aio no_propagation: a supervising task ended with the exception", "op": i, "errors": ob["task_errors"][:2]}))
        for (f_, a_) in ob.get("handler_saw", []):
            qs.append((f"spec le {f_} {a_}", {"what": "aio failed_le_attempts while the failure is being logged", "op": i, "failed": f_, "attempts": a_}))
        for k, v in ob["jobs"].items():
            qs.append((f"spec eq {v[3]} {nx.get(k, 0)}", {"what": "aio failed_attempts = raising runs", "key": k, "op": i}))
            qs.append((f"spec eq {v[2]} {nx.get(k, 0) + ne.get(k, 0)}", {"what": "aio attempts = completed runs", "key": k, "op": i}))
        qs.append((f"spec eq {ob['logs']} {sum(nx.values())}", {"what": "aio one_record_each", "op": i}))
    twin = r["obs"][0].get("_twin") if r["obs"] else None
    if twin is not None:
        for i, (a, b) in enumerate(zip(r["obs"], twin)):
            sa = sorted((t, k, due) for (t, k, kind, due) in a.get("events", []) if kind == "S")
            sb = sorted((t, k, due) for (t, k, kind, due) in b.get("events", []) if kind == "S")
            ja = {k: (v[0], v[2], v[4], v[5]) for k, v in a["jobs"].items()}
            jb = {k: (v[0], v[2], v[4], v[5]) for k, v in b["jobs"].items()}
            ok = sa == sb and ja == jb and a["res"] == b["res"]
            qs.append((f"spec eq {1 if ok else 0} 1", {"what": "aio job_noninterference: the run with faults differs from the fault-free run beyond counters", "op": i}))
            if not ok:
                break
    return qs


# ------------------------------------------------------------------------------------------ C11
def c11_specs(r):
    """registered = created - deleted - retired at every quiescent point - and, "at every moment", also at the loop iteration
    right after the supervisor step that booked a job's last run (probe scheduled with call_soon by every coroutine)"""
    qs = probe_specs(r) + idle_specs(r) + cop_sel_specs(r)
    for i, (o, ob) in enumerate(zip(r["scn"]["ops"], r["obs"])):
        before = {k for k, v in (r["obs"][i - 1]["jobs"] if i > 0 else {}).items() if v[5] == 1}
        now = {k for k, v in ob["jobs"].items() if v[5] == 1}
        dead = {k for (kind, k) in ob.get("trace", []) if kind == "D"}
        want = {k for k, v in ob["jobs"].items() if k not in dead and v[4] == 1}
        qs.append((f"spec eq {1 if now == want else 0} 1", {"what": "aio registry_eq", "op": i, "reported": sorted(now), "expected": sorted(want)}))
        res = ob["res"]
        if o["op"] == "sch" and res[0] == "e":
            qs.append((f"spec eq {1 if now == before else 0} 1", {"what": "aio rejected_registers_nothing", "op": i}))
        elif o["op"] == "del":
            if o["key"] in before:
                qs.append((f"spec eq {1 if res == ('u',) else 0} 1", {"what": "aio delete_registered_succeeds", "op": i}))
            else:
                qs.append((f"spec eq {1 if (res == ('e', 'SchedulerError') and now == before) else 0} 1", {"what": "aio delete_unknown_raises_and_noop", "op": i, "res": list(res)}))
        elif o["op"] in ("get", "jobs"):
            qs.append((f"spec eq {1 if now == before else 0} 1", {"what": "aio queries_pure", "op": i}))
            if o["op"] == "jobs":
                qs.append((f"spec eq {1 if (res[0] == 's' and set(res[1]) == before) else 0} 1", {"what": "aio jobs_returns_registry", "op": i}))
        if ob.get("task_errors"):
            qs.append(("spec eq 0 1", {"what": "aio no_task_error", "op": i, "errors": ob["task_errors"][:2]}))
    return qs


# ------------------------------------------------------------------------------------------ C12
def c12_tweak(rng, scn):
    """tag iterables of every kind for once(), caller-side mutation of tag sets, no scheduling from coroutines"""
    strip_acts(scn, ("as",))
    nj = 0
    for o in scn["ops"]:
        if o["op"] == "sch":
            nj += 1
            if o["call"] == 5 and o.get("tags") is not None:
                o["tagkind"] = rng.choice(["set", "frozenset", "list", "tuple", "gen", "dictkeys"])
    ops = []
    for o in scn["ops"]:
        ops.append(o)
        if o["op"] == "run" and nj and rng.random() < 0.3:
            ops.append({"op": "mutate", "key": rng.randrange(nj), "what": rng.choice(["tags", "returned_tags"]), "how": rng.choice(["swap", "clear"])})
        if o["op"] == "run" and rng.random() < 0.5:
            ops.append({"op": rng.choice(["get", "get", "dtags"]), "tags": sorted(rng.sample(range(1, 5), rng.randint(0, 2))), "any": rng.random() < 0.5})
    scn["ops"] = ops
    return scn


def c12_specs(r):
    qs = cop_sel_specs(r)
    tags = {k: set(o.get("tags") or []) for k, o in top_jobs(r).items()}
    for i, (o, ob) in enumerate(zip(r["scn"]["ops"], r["obs"])):
        before = {k for k, v in (r["obs"][i - 1]["jobs"] if i > 0 else {}).items() if v[5] == 1}
        now = {k for k, v in ob["jobs"].items() if v[5] == 1}
        res = ob["res"]
        if o["op"] == "sch" and res[0] == "e" and res[1] != "SchedulerError":
            qs.append(("spec eq 0 1", {"what": "aio scheduling with these tags failed", "op": i, "res": list(res), "tagkind": o.get("tagkind"), "exc": ob.get("exc")}))
        elif o["op"] in ("get", "dtags"):
            q = set(o.get("tags") or [])
            sel = {k for k in before if (not q) or (bool(q & tags.get(k, set())) if o.get("any") else q <= tags.get(k, set()))}
            if o["op"] == "get":
                ok = res[0] == "s" and set(res[1]) == sel
                qs.append((f"spec eq {1 if ok else 0} 1", {"what": "aio select_iff", "op": i, "got": list(res), "want": sorted(sel)}))
            else:
                ok = res == ("c", len(sel)) and now == before - sel
                qs.append((f"spec eq {1 if ok else 0} 1", {"what": "aio delete_exactly", "op": i, "got": list(res), "want": sorted(sel)}))
        elif o["op"] == "mutate":
            qs.append((f"spec eq {1 if now == before else 0} 1", {"what": "aio tag mutation by the caller changes nothing", "op": i}))
    return qs


# ------------------------------------------------------------------------------------------ C19
def c19_tweak(rng, scn):
    strip_acts(scn, ("as", "ad", "at"))
    nj = 0
    for o in scn["ops"]:
        if o["op"] == "sch":
            nj += 1
            o["payload"] = nj
            o["argshape"] = rng.choice(["none", "empty", "one", "many", "nested"])
            o["kwshape"] = rng.choice(["none", "empty", "one", "many", "reserved"])
            o["hkind"] = rng.choice(["plain", "plain", "partial_kw", "partial_pos"])
            o["tags"] = sorted(rng.sample(range(1, 5), rng.randint(0, 3)))
    ops = []
    for o in scn["ops"]:
        ops.append(o)
        if o["op"] in ("run", "sch") and nj and rng.random() < 0.4:
            ops.append({"op": "mutate", "key": rng.randrange(nj), "what": rng.choice(["kwargs", "tags", "returned_tags", "all"]), "how": rng.choice(["swap", "clear"])})
        if o["op"] == "run" and rng.random() < 0.5:
            ops.append({"op": "get", "tags": sorted(rng.sample(range(1, 5), rng.randint(1, 2))), "any": rng.random() < 0.5})
    scn["ops"] = ops
    return scn


def c19_specs(r):
    qs = [q for q in c12_specs(r)]
    done = {}
    for i, ob in enumerate(r["obs"]):
        for e in ob.get("events", []):
            if e[2] in ("E", "X"):
                done[e[1]] = done.get(e[1], 0) + 1
        # every execution the job counts did run the coroutine function (the arguments reached it)
        for k, v in ob["jobs"].items():
            qs.append((f"spec eq {v[2]} {done.get(k, 0)}", {"what": "aio every counted execution called the coroutine function", "key": k, "op": i}))
        af = ob.get("arg_failures") or []
        qs.append((f"spec eq {len(af)} 0", {"what": "aio exact_arguments: a coroutine received other arguments than given", "op": i, "seen": af[:2]}))
    return qs


# ------------------------------------------------------------------------------------------ C03
def c03_scenarios(rng):
    """cyclic jobs and one-shots of all four kinds on the asyncio scheduler"""
    from .props import c17
    while True:
        tz = None if rng.random() < 0.4 else gen.rand_off(rng, rng.choice(["zero", "hour", "half"]))[0]
        clock = gen.rand_instant(rng)[0] // S * S
        scn = {"aio": True, "tz": tz, "clock0": clock, "ops": []}
        periods = []
        for i in range(rng.randint(1, 3)):
            o, p = scen.gen_job(rng, tz, clock, {"calls": [0, 0, 5, 5, 5], "p_limit": 0.2, "p_stop": 0.0, "p_start": 0.4,
                                                  "p_skip": 0.0, "p_nodelay": 0.2, "p_single": 1.0})
            o.pop("clock", None)
            c17.whole_seconds(o)
            if o["call"] == 0:
                o["timings"][0][1] = p = rng.choice([1, 2, 5, 60, 3600]) * S
                if o.get("start"):
                    # keep the backlog small: the start is at most a few intervals away
                    off = o["start"][1]
                    o["start"] = [clock + rng.choice([0, -p, p, -2 * p, 3 * p]) + (off or 0), off]
            if o["call"] == 5 and o["timings"][0][0] == "c":
                o["timings"][0][1] = rng.choice([1, 3, 7, 3600, 86400]) * S
            if o["call"] == 5 and o["timings"][0][0] == "d":
                o["timings"][0][1] = (clock + rng.choice([2, 4, 9, 86400]) * S) + (o["timings"][0][2] or 0)
            p = max(min(p, core.DAY), S)
            d = rng.choice([0, 0, p // 3, p + p // 2]) // 1000 * 1000
            o["runs"] = [{"acts": [["sl", d + (i + 1) * 7]] if d else [], "raises": False}]
            scn["ops"].append(o)
            periods.append(p)
        horizon = min(max(periods) * rng.choice([3, 5, 12]), 9 * core.DAY, min(periods) * 120)
        steps = rng.randint(2, 5)
        for s_ in range(steps):
            scn["ops"].append({"op": "run", "until": clock + horizon * (s_ + 1) // steps + 500_005})
        yield scn


def c03_specs(r, tm_tokens):
    qs = []
    jobs = top_jobs(r)
    nstart = {}
    for i, (o, ob) in enumerate(zip(r["scn"]["ops"], r["obs"])):
        if o["op"] == "sch":
            if ob["res"][0] == "e" and ob["res"][1] != "SchedulerError":
                qs.append(("spec eq 0 1", {"what": "aio once_accepted", "op": i, "error": ob["res"][1]}))
            if ob["res"][0] == "j":
                k = ob["res"][1]
                due = ob["jobs"][k][0]
                if o["call"] == 5:
                    t = o["timings"][0]
                    if t[0] == "d":
                        qs.append((f"spec eq {t[1] - (t[2] or 0)} {due}", {"what": "aio once_datetime", "key": k}))
                    elif t[0] == "c":
                        qs.append((f"spec eq {o['clock'] + t[1]} {due}", {"what": "aio once_timedelta", "key": k}))
                    elif t[0] == "t":
                        qs.append((f"spec least {tm_tokens(3, t)} {o['clock']} {due}", {"what": "aio once_clock", "key": k}))
                    elif t[0] == "w":
                        qs.append((f"spec least {tm_tokens(4, t)} {o['clock']} {due}", {"what": "aio once_weekday", "key": k}))
        for (_t, k, kind, due) in ob.get("events", []):
            if kind == "S" and k in jobs and jobs[k]["call"] == 0 and not jobs[k].get("skip"):
                nstart[k] = nstart.get(k, 0) + 1
                o2 = jobs[k]
                d = 1 if o2.get("delay", True) else 0
                qs.append((f"spec cadence {d} {ref_of(o2)} {o2['timings'][0][1]} {nstart[k]} {due}", {"what": "aio cadence", "key": k, "execution": nstart[k]}))
        if ob.get("task_errors"):
            qs.append(("spec eq 0 1", {"what": "aio no_task_error", "op": i, "errors": ob["task_errors"][:2]}))
    return qs


def cadence_specs(r, tms_tokens):
    """"due times ... behave exactly as in the threading scheduler": the k-th start of a cyclic job (no skip_missing) belongs to
    s + k*T (s + (k-1)*T with delay=False), and the due times the successive starts of a clock-time / weekday job (no skip_missing,
    delay=True) belonged to enumerate the occurrences of its times after the reference without omission"""
    qs = []
    jobs = top_jobs(r)
    nstart, dues = {}, {}
    for ob in r["obs"]:
        for (_t, k, kind, due) in ob.get("events", []):
            if kind != "S" or k not in jobs or jobs[k].get("skip"):
                continue
            o2 = jobs[k]
            if o2["call"] == 0:
                nstart[k] = nstart.get(k, 0) + 1
                d = 1 if o2.get("delay", True) else 0
                qs.append((f"spec cadence {d} {ref_of(o2)} {o2['timings'][0][1]} {nstart[k]} {due}", {"what": "aio cadence", "key": k, "execution": nstart[k]}))
            elif o2["call"] in (1, 2, 3, 4) and o2.get("delay", True):
                dues.setdefault(k, []).append(due)
    for k, ds in dues.items():
        qs.append((f"spec enum {tms_tokens(jobs[k])} {ref_of(jobs[k])} {core.s_list(ds)}", {"what": "aio none_lost_enumeration", "key": k, "dues": ds[:6]}))
    return qs


def first_due_specs(r, tm_tokens):
    """the due time right after a successful scheduling call is the one the property names: start + T (start itself
    with delay=False) for cyclic jobs, the least occurrence strictly after the reference for single clock-time /
    weekday timings, the exact instant for one-shots - the reference being the given start, else the creation time"""
    qs = []
    for i, (o, ob) in enumerate(zip(r["scn"]["ops"], r["obs"])):
        if o["op"] != "sch" or ob["res"][0] != "j":
            continue
        k = ob["res"][1]
        if k not in ob["jobs"]:
            continue
        due = ob["jobs"][k][0]
        # the observation is taken when the loop is idle again: a job that was due at once has already started -
        # its first due time is then the one its first run belonged to
        started = [e[3] for e in ob.get("events", []) if e[1] == k and e[2] == "S"]
        if started:
            due = started[0]
        call, ts = o["call"], o["timings"]
        ref = ref_of(o)
        if call == 0:
            T = ts[0][1]
            want = ref + (T if o.get("delay", True) else 0)
            qs.append((f"spec eq {want} {due}", {"what": "aio first due of a cyclic job", "key": k, "op": i}))
        elif call in (1, 2, 3, 4) and len(ts) == 1 and o.get("delay", True):
            qs.append((f"spec least {tm_tokens(call, ts[0])} {ref} {due}", {"what": "aio first due = least occurrence after the reference", "key": k, "op": i}))
        elif call == 5:
            t = ts[0]
            if t[0] == "d":
                qs.append((f"spec eq {t[1] - (t[2] or 0)} {due}", {"what": "aio once_datetime", "key": k}))
            elif t[0] == "c":
                qs.append((f"spec eq {o['clock'] + t[1]} {due}", {"what": "aio once_timedelta", "key": k}))
            elif t[0] in ("t", "w"):
                qs.append((f"spec least {tm_tokens(3 if t[0] == 't' else 4, t)} {o['clock']} {due}", {"what": "aio once_clock/weekday", "key": k}))
    return qs


def skip_specs(r, tms_tokens):
    """skip_missing in the asyncio front end: the reference of the rescheduling is the completion time t of the run -
    the next due time is exactly t + interval for cyclic jobs, and for the other types an occurrence of one of the
    job's times, not earlier than t, with nothing skipped in between (the C08 Spec, `spec skipdue`)"""
    qs = []
    jobs = {k: o for k, o in top_jobs(r).items() if o.get("skip") and o.get("delay", True)}
    if not jobs:
        return qs
    pending = {}       # key -> completion instant of the last run, waiting for the next due time to show
    last_jobs = {}
    for i, ob in enumerate(r["obs"]):
        for (t, k, kind, due) in ob.get("events", []):
            if k not in jobs:
                continue
            if kind == "S" and k in pending:
                t_end = pending.pop(k)
                o2 = jobs[k]
                if o2["call"] == 0:
                    qs.append((f"spec eq {t_end + o2['timings'][0][1]} {due}", {"what": "aio skip_cyclic_exact (reference = completion time)", "key": k, "op": i}))
                else:
                    qs.append((f"spec skipdue {tms_tokens(o2)} {t_end} {max(t_end, ref_of(o2))} {due}", {"what": "aio skip_due (reference = completion time)", "key": k, "op": i}))
            elif kind in ("E", "X"):
                pending[k] = t
            elif kind == "C":
                pending.pop(k, None)
        last_jobs = ob.get("jobs", last_jobs)
        # a run that ended in this observation and was not followed by another start: the snapshot shows the new due time
        for k, t_end in list(pending.items()):
            v = ob["jobs"].get(k)
            if v is not None and v[4] == 1 and v[5] == 1:
                o2 = jobs[k]
                if o2["call"] == 0:
                    qs.append((f"spec eq {t_end + o2['timings'][0][1]} {v[0]}", {"what": "aio skip_cyclic_exact (reference = completion time)", "key": k, "op": i}))
                else:
                    qs.append((f"spec skipdue {tms_tokens(o2)} {t_end} {max(t_end, ref_of(o2))} {v[0]}", {"what": "aio skip_due (reference = completion time)", "key": k, "op": i}))
            pending.pop(k, None)
    return qs


def classes(r):
    from .props import c18
    return ["front:asyncio"] + c18.classes(r)


# ------------------------------------------------------------------------------------------ wiring
def default_nontrivial(r):
    return any(e[2] == "S" for ob in r["obs"] for e in ob.get("events", []))


def install(g, share, make_stream, aio_specs, aio_runner=None, aio_nontrivial=None, note=""):
    """wrap a check module's functions (in its globals `g`) so that a share of its scenarios uses the
    asyncio front end"""
    thr = {k: g.get(k) for k in ("scenarios", "runner", "project", "specs", "direct_specs", "direct_count", "classes", "nontrivial", "signature")}
    arun = aio_runner or impl_aio.run_scenario

    def scenarios(rng, n, tier):
        st = make_stream(rng)
        for scn in thr["scenarios"](rng, n, tier):
            yield next(st) if rng.random() < share else scn

    def runner(scn):
        return arun(scn) if scn.get("aio") else thr["runner"](scn)

    def specs(r):
        return aio_specs(r) if r["scn"].get("aio") else thr["specs"](r)

    def classes_(r):
        return classes(r) if r["scn"].get("aio") else thr["classes"](r)

    def nontrivial(r):
        if r["scn"].get("aio"):
            return (aio_nontrivial or default_nontrivial)(r)
        return thr["nontrivial"](r)

    g["scenarios"], g["runner"], g["specs"], g["classes"], g["nontrivial"] = scenarios, runner, specs, classes_, nontrivial
    g["project"] = mixed_project(thr["project"])
    if thr["direct_specs"] is not None:
        g["direct_specs"] = lambda r: [] if r["scn"].get("aio") else thr["direct_specs"](r)
    if thr["direct_count"] is not None:
        g["direct_count"] = lambda r: 0 if r["scn"].get("aio") else thr["direct_count"](r)
    g["RULE"] = g.get("RULE", "") + f"; {int(share * 100)}% of the scenarios use the asyncio front end (real asyncio Scheduler on the virtual-time loop, compared with the Lean asyncio model): " + note
