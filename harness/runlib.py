"""
harness/runlib.py — run scenarios on implementation and model, diff the observation streams.
"""
from __future__ import annotations

import copy

from . import core, impl_thr


def strip_private(scn):
    """JSON-able copy of a scenario (after the run: adaptive clocks are resolved)"""
    def clean(x):
        if isinstance(x, dict):
            return {k: clean(v) for k, v in x.items() if not (isinstance(k, str) and k.startswith("_") and k != "_class")}
        if isinstance(x, (list, tuple)):
            return [clean(v) for v in x]
        return x
    return clean(scn)


def split_line(line):
    """'R .. | I .. | P .. | J .. | L ..' -> dict of sections (lists of records of tokens)"""
    out = {}
    for part in line.split(" | "):
        tag, _, rest = part.partition(" ")
        if tag in ("I", "P", "J"):
            out[tag] = [r.split() for r in rest.split(" ; ") if r.strip()]
        else:
            out[tag] = rest.split()
    return out


def run_batch(scns, runner=impl_thr.run_scenario, project=None):
    """returns a list of per-scenario results:
       {scn, lines, impl, model, obs, diff: index of first differing op or None}"""
    results = []
    all_lines = []
    for scn in scns:
        lines, impl, obs = runner(scn)
        results.append({"scn": scn, "lines": lines, "impl": impl, "obs": obs})
        all_lines.extend(lines)
    model = core.run_driver(all_lines) if all_lines else []
    pos = 0
    for r in results:
        n = len(r["lines"])
        r["model"] = model[pos:pos + n]
        pos += n
        r["diff"] = None
        for i, (a, b) in enumerate(zip(r["impl"], r["model"])):
            if b.strip() == "fuel-exhausted":
                # the model's step fuel ran out on a very long asyncio run: its history from here on is
                # unknown, so the comparison of this scenario stops (Specs on the implementation still run)
                r["model_fuel"] = True
                break
            if project is not None:
                a, b = project(a), project(b)
            if a != b:
                r["diff"] = i
                break
    return results


def explain(r):
    i = r["diff"]
    return {
        "op_index": i - 1,
        "line": r["lines"][i],
        "impl": r["impl"][i],
        "model": r["model"][i],
    }


def waiting_unchanged(r, what="a job that was not invoked by exec_jobs changed (due time / counters)"):
    """Spec clause shared by the checks of the sequential threading runner: an exec_jobs call leaves every
    job it did not invoke exactly as it was (due instant, awareness, attempts, failed attempts) - a due job
    that is passed over because of max_exec keeps its occurrence and its lateness for the next call."""
    fails = []
    for i, (o, ob) in enumerate(zip(r["scn"]["ops"], r["obs"])):
        if "truncated" in ob:
            break
        if o["op"] != "exec" or i == 0 or ob["res"][0] != "c" or "jobs" not in r["obs"][i - 1]:
            continue
        inv = {x[0] for x in ob["invoked"]}
        prev = r["obs"][i - 1]["jobs"]
        for k, v in ob["jobs"].items():
            if k in inv or k not in prev:
                continue
            if tuple(prev[k][:4]) != tuple(v[:4]):
                fails.append({"info": {"what": what, "op": i, "key": k, "before": list(prev[k]), "after": list(v)}})
                break
    return fails


def stop_retirement_specs(r, tms_tokens):
    """Spec clause shared by C07 / C09 / C11: an exec_jobs call may retire a job *because of its stop* only when the job's
    next occurrence - computed from the listed times by the Lean Spec (`unionNext`), not taken from what the implementation
    reports - lies past the stop.  `tms_tokens(op)` renders the timing list of a scheduling op."""
    qs = []
    scn = r["scn"]
    jobs = {}
    for i, o in enumerate(scn["ops"]):
        if i >= len(r["obs"]) or "truncated" in r["obs"][i]:
            break
        ob = r["obs"][i]
        if o["op"] == "sch" and ob["res"][0] == "j":
            ref = (o["start"][0] - (o["start"][1] or 0)) if o.get("start") else o["clock"]
            jobs[ob["res"][1]] = (o, ref)
        if o["op"] != "exec" or ob["res"][0] != "c":
            continue
        for (k, due_seen, _p) in ob["invoked"]:
            if k not in jobs or k not in ob["jobs"] or not jobs[k][0].get("stop"):
                continue
            o2, ref = jobs[k]
            _due, _aw, att, _f, has, _reg = ob["jobs"][k]
            if has == 1 or (o2.get("max_att") and att >= o2["max_att"]) or o2["call"] == 5:
                continue                      # still alive, or retired by its attempt budget
            stop = o2["stop"][0] - (o2["stop"][1] or 0)
            if o2.get("skip"):
                last = max(o["clock"], ref)   # the new due time is at most the first occurrence after max(t, start)
            elif not o2.get("delay", True) and att == 1:
                last = ref                    # the run consumed `start` itself
            else:
                last = due_seen
            info = {"what": "retired_by_stop_only_when_next_occurrence_is_past_stop", "key": k, "op": i, "last": last, "stop": stop}
            if o2["call"] == 0:
                qs.append((f"spec lt {stop} {last + o2['timings'][0][1]}", info))
            else:
                qs.append((f"spec nextpast {tms_tokens(o2)} {last} {stop}", info))
    return qs
