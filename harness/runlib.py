"""
harness/runlib.py — run scenarios on implementation and model, diff the observation streams.
"""
from __future__ import annotations

import copy

from . import core, impl_thr


def strip_private(scn):
    """JSON-able copy of a scenario (after the run: adaptive clocks are resolved)"""
    def clean(x):
        if isinstance(x, dict):
            return {k: clean(v) for k, v in x.items() if not (isinstance(k, str) and k.startswith("_") and k != "_class")}
        if isinstance(x, (list, tuple)):
            return [clean(v) for v in x]
        return x
    return clean(scn)


def split_line(line):
    """'R .. | I .. | P .. | J .. | L ..' -> dict of sections (lists of records of tokens)"""
    out = {}
    for part in line.split(" | "):
        tag, _, rest = part.partition(" ")
        if tag in ("I", "P", "J"):
            out[tag] = [r.split() for r in rest.split(" ; ") if r.strip()]
        else:
            out[tag] = rest.split()
    return out


def run_batch(scns, runner=impl_thr.run_scenario, project=None):
    """returns a list of per-scenario results:
       {scn, lines, impl, model, obs, diff: index of first differing op or None}"""
    results = []
    all_lines = []
    for scn in scns:
        lines, impl, obs = runner(scn)
        results.append({"scn": scn, "lines": lines, "impl": impl, "obs": obs})
        all_lines.extend(lines)
    model = core.run_driver(all_lines) if all_lines else []
    pos = 0
    for r in results:
        n = len(r["lines"])
        r["model"] = model[pos:pos + n]
        pos += n
        r["diff"] = None
        for i, (a, b) in enumerate(zip(r["impl"], r["model"])):
            if b.strip() == "fuel-exhausted":
                # the model's step fuel ran out on a very long asyncio run: its history from here on is
                # unknown, so the comparison of this scenario stops (Specs on the implementation still run)
                r["model_fuel"] = True
                break
            if project is not None:
                a, b = project(a), project(b)
            if a != b:
                r["diff"] = i
                break
    return results


def explain(r):
    i = r["diff"]
    return {
        "op_index": i - 1,
        "line": r["lines"][i],
        "impl": r["impl"][i],
        "model": r["model"][i],
    }
