"""
harness/main.py — command line and verdict logic of ./check (DESIGN.md §8).
"""
from __future__ import annotations

import argparse
import faulthandler
import signal
import importlib
import json
import os
import random
import sys
import time
import traceback

from . import core, framework as fw, runlib

TRUSTED = [
    "Lean 4.33.0 kernel; axioms of every property theorem audited to be within {propext, Classical.choice, Quot.sound}",
    "hand-written Lean model (lean/SchedVerif/Model) tied to /repo by the correspondence harness (harness/*.py, lean/Driver.lean)",
    "CPython datetime as a linear bijection to microsecond counts; fixed-offset tzinfo only",
]


def budgets(mod, tier):
    b = getattr(mod, "BUDGET", {"quick": 300, "thorough": 20000})
    return b[tier]


def known_match(mod, known, failure):
    """does a (shrunk) failure match a known finding of status 'known'?"""
    for e in known:
        if e.get("status") != "known":
            continue
        f = getattr(mod, "match_known", None)
        if f and f(e, failure):
            return e
    return None


def make_pred(mod):
    """predicate: does the scenario still fail the Spec oracle (or, failing that, correspondence)?"""
    def spec_pred(scn):
        recs = fw.evaluate(mod, [scn])
        return bool(recs[0]["spec_fail"])

    def diff_pred(scn):
        recs = fw.evaluate(mod, [scn])
        return bool(recs[0]["diff"])

    return spec_pred, diff_pred


def selftest():
    """planted differences must be reported: a tampered implementation line, a false Spec query"""
    from . import impl_thr, scen
    ans = core.run_driver([
        "spec least 3 10 0 0 0 N 0 36000000000",      # 10:00 is the least daily occurrence after 0
        "spec least 3 10 0 0 0 N 0 122400000000",     # a day later is an occurrence but not the least
        "spec step 1 0 0 5 0 N 5000000 65000000",
        "spec step 1 0 0 5 0 N 5000000 65000001",
    ])
    assert ans == ["ok", "fail", "ok", "fail"], ans

    def tampered(scn):
        lines, impl, obs = impl_thr.run_scenario(scn)
        impl[-1] = impl[-1].replace(" | L ", " | L 9")
        return lines, impl, obs

    res = runlib.run_batch([scen.gen_life(random.Random(6), {"p_nodelay": 0})], runner=tampered)
    assert res[0]["diff"] is not None, "planted difference not detected"
    print("selftest ok")
    return 0


def main(argv):
    try:
        faulthandler.register(signal.SIGUSR1, all_threads=True)
    except Exception:  # noqa: BLE001
        pass
    if argv and argv[0] == "--selftest":
        return selftest()
    ap = argparse.ArgumentParser()
    ap.add_argument("pid")
    ap.add_argument("--tier", default=os.environ.get("VERIF_TIER", "quick"), choices=["quick", "thorough"])
    ap.add_argument("--replay")
    ap.add_argument("--seed", type=int, default=int(os.environ.get("VERIF_SEED", "0") or 0))
    ap.add_argument("--procs", type=int, default=int(os.environ.get("VERIF_PROCS", "0") or 0))
    ap.add_argument("--no-lean", action="store_true", help="development only: skip the Lean stage")
    a = ap.parse_args(argv)
    pid = a.pid
    t0 = time.time()
    try:
        mod = importlib.import_module(f"harness.props.{pid.lower()}")
    except ModuleNotFoundError:
        print(f"no check for {pid}", file=sys.stderr)
        return 2
    try:
        return run_check(mod, pid, a, t0)
    except Exception:  # noqa: BLE001
        traceback.print_exc()
        print(f"INFRASTRUCTURE-ERROR property={pid}", file=sys.stderr)
        return 2


def run_check(mod, pid, a, t0):
    tier, seed = a.tier, a.seed
    procs = a.procs or (16 if tier == "thorough" else min(8, os.cpu_count() or 1))
    known = fw.load_known(pid)
    spec_pred, diff_pred = make_pred(mod)

    # ---------------------------------------------------------- replay mode
    if a.replay:
        payload = json.load(open(a.replay))
        scn = payload.get("scenario", payload)
        recs = fw.evaluate(mod, [scn])
        r = recs[0]
        print(json.dumps({"diff": r["diff"], "spec_fail": r["spec_fail"]}, indent=1, default=str))
        if r["spec_fail"] or r["diff"]:
            print(f"VIOLATION property={pid} replay={a.replay}" + ("" if r["spec_fail"] else " no-failing-input-found"))
            return 1
        print("replay passes on the current tree")
        return 0

    # ---------------------------------------------------------- Lean stage
    if a.no_lean:
        lean = {"ok": True, "obligations": 0, "discharged": 0, "theorems": [], "problems": [], "checker_cmd": "skipped"}
    else:
        lean = fw.lean_stage(pid, getattr(mod, "EXTRA_PROPS", ()), tier)
        if not os.path.exists(core.DRIVER):
            print("Lean driver missing (build failed)", file=sys.stderr)
            print(json.dumps(lean["problems"], indent=1)[:3000], file=sys.stderr)
            return 2

    # ---------------------------------------------------------- tie stage: corpus, then exploration
    total = budgets(mod, tier)
    if not lean["ok"]:
        total *= 4  # a proof obligation no longer checks: search harder for a failing input
    corpus = []
    cdir = os.path.join(core.VERIF, "corpus", pid)
    if os.path.isdir(cdir):
        for f in sorted(os.listdir(cdir)):
            if f.endswith(".json"):
                payload = json.load(open(os.path.join(cdir, f)))
                corpus.append(payload.get("scenario", payload))
    acc = {"n": 0, "ops": 0, "specs": 0, "classes": {}, "hashes": [], "fail": [], "samples": [], "spec_errors": []}
    if corpus:
        fw._merge(acc, fw._summarise(fw.evaluate(mod, corpus)))
    exhaustive = None
    if hasattr(mod, "exhaustive"):
        exhaustive = mod.exhaustive(tier)
        for f in exhaustive.get("fail", []):
            acc["fail"].append(f)
    fw._merge(acc, fw.explore(mod.__name__, seed, total, tier, procs))
    escalated = False
    if acc["fail"] and not any(f.get("spec_fail") for f in acc["fail"]) and tier == "quick":
        # correspondence differs but Spec holds so far: escalate once (capped)
        escalated = True
        fw._merge(acc, fw.explore(mod.__name__, seed + 7919, min(4 * total, 20000), tier, procs))

    # ---------------------------------------------------------- verdict
    violations, known_lines, replay_paths = 0, [], []
    spec_fails = [f for f in acc["fail"] if f.get("spec_fail")]
    diffs = [f for f in acc["fail"] if f.get("diff") and not f.get("spec_fail")]
    reported = set()
    exit_code = 0
    nrep = 0
    sigf = getattr(mod, "signature", lambda ff: str((ff["spec_fail"][0].get("info") or {}).get("what")))
    t_verdict = time.time()
    for f in spec_fails[:40]:
        scn = f["scn"]
        # one replay per kind of failure: do not spend time shrinking a second instance of a reported kind
        # (unless it may be a listed known finding, which is decided on the shrunk scenario)
        if not known and sigf(f) in reported:
            continue
        if time.time() - t_verdict > 240 and reported:
            break
        if f.get("no_shrink"):
            small = scn
        else:
            small = fw.shrink(scn, spec_pred, budget=60 if tier == "quick" else 200)
            recs = fw.evaluate(mod, [small])
            if recs[0]["spec_fail"]:
                f = {"scn": small, "spec_fail": recs[0]["spec_fail"], "diff": recs[0]["diff"]}
        k = known_match(mod, known, f)
        if k:
            line = f"KNOWN-FINDING: property={pid} {k['id']} {k['what']}"
            if line not in known_lines:
                known_lines.append(line)
            continue
        sig = sigf(f)
        if sig in reported:
            continue
        reported.add(sig)
        path = fw.write_replay(pid, seed, nrep, {"property": pid, "kind": "spec-failure", "scenario": f["scn"], "spec_fail": f["spec_fail"], "diff": f.get("diff")})
        nrep += 1
        violations += 1
        replay_paths.append(path)
        if nrep >= 5:
            break
    if violations == 0 and (diffs or not lean["ok"]):
        # the property is no longer shown to hold, and no failing input was found
        unmatched = []
        for f in diffs[:20]:
            k = known_match(mod, known, f)
            if k:
                line = f"KNOWN-FINDING: property={pid} {k['id']} {k['what']}"
                if line not in known_lines:
                    known_lines.append(line)
            else:
                unmatched.append(f)
        if unmatched or not lean["ok"]:
            payload = {"property": pid, "kind": "no-failing-input-found"}
            if not lean["ok"]:
                payload["lean_problems"] = lean["problems"]
                payload["theorems"] = lean["theorems"]
            if unmatched:
                f = unmatched[0]
                small = fw.shrink(f["scn"], diff_pred, budget=60)
                recs = fw.evaluate(mod, [small])
                payload["correspondence"] = f"model {mod.__name__} vs implementation"
                payload["scenario"] = small
                payload["diff"] = recs[0]["diff"] or f["diff"]
            path = fw.write_replay(pid, seed, nrep, payload)
            violations += 1
            replay_paths.append(path + " no-failing-input-found")
    if violations == 0 and acc["spec_errors"]:
        # the Spec oracle could not be evaluated on what the implementation produced (observations of
        # an unexpected shape): the property is no longer shown to hold on these runs
        path = fw.write_replay(pid, seed, nrep, {"property": pid, "kind": "no-failing-input-found",
                                                   "correspondence": "Spec oracle could not be evaluated on the implementation's observations",
                                                   "spec_errors": acc["spec_errors"][:10]})
        violations += 1
        replay_paths.append(path + " no-failing-input-found")
    for line in known_lines:
        print(line)
    for pth in replay_paths:
        print(f"VIOLATION property={pid} replay={pth}")
        exit_code = 1

    # ---------------------------------------------------------- evidence
    cov = {
        "obligations": lean["obligations"],
        "discharged": lean["discharged"],
        "checker_cmd": lean.get("checker_cmd", ""),
        "trusted_base": TRUSTED + list(getattr(mod, "TRUSTED", [])),
        "theorems": lean["theorems"],
        "axioms": lean.get("axioms", {}),
        "lean_problems": lean["problems"],
        "leanchecker": lean.get("leanchecker", "not run in the quick tier"),
        "programs": acc["n"],
        "evaluations": acc["ops"],
        "spec_evaluations": acc["specs"],
        "distinct_nontrivial": len(set(acc["hashes"])),
        "rule": getattr(mod, "RULE", ""),
        "disagreements_checked": acc["n"],
        "disagreements_found": len(acc["fail"]),
        "traces_validated_against_impl": acc["n"],
        "samples": acc["samples"][:3] or [["(none)"]],
        "input_distribution": dict(sorted(acc["classes"].items())),
        "corpus_scenarios": len(corpus),
        "escalated": escalated,
        "spec_errors": acc["spec_errors"][:5],
        "known_findings_printed": known_lines,
    }
    if exhaustive is not None:
        cov["exhaustive_tables"] = exhaustive.get("tables", {})
    if a.no_lean or os.environ.get("VERIF_REPO"):
        pass    # development run (no Lean stage / another tree than /repo): not evidence
    else:
        fw.write_evidence(pid, tier, seed, cov, time.time() - t0, violations, list(getattr(mod, "ASSUMPTIONS", [])))
    print(f"{pid} {tier} seed={seed}: theorems {lean['discharged']}/{lean['obligations']}, scenarios {acc['n']}, ops {acc['ops']}, spec evals {acc['specs']}, nontrivial-distinct {len(set(acc['hashes']))}, disagreements {len(acc['fail'])}, violations {violations}, {time.time()-t0:.1f}s")
    if acc["spec_errors"]:
        print("spec extraction errors:", acc["spec_errors"][:3], file=sys.stderr)
    return exit_code
