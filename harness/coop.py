"""
harness/coop.py — cooperative (controlled) threads, locks and queues.

The names `threading` and `queue` inside the scheduler's modules are rebound to shim namespaces
whose RLock / Thread / Queue hand a baton to a controller at every acquire, release, queue
operation, thread start/join and callback boundary.  Exactly one controlled thread runs at a time;
the controller chooses who runs next (seeded random, priority-change-point, or a recorded
schedule).  Blocking is virtual, so a deadlock shows up as "nobody runnable" instead of a hang.
"""
from __future__ import annotations

import queue as _real_queue
import threading as _real_threading
import types


REAL_TIMEOUT = 45.0   # seconds of real time one controlled scenario may take (they take milliseconds)


class Abort(BaseException):
    """raised inside controlled threads to unwind them after a deadlock / at the end"""


class Deadlock(Exception):
    def __init__(self, waits):
        super().__init__("deadlock: " + "; ".join(waits))
        self.waits = waits


class CoThreadState:
    def __init__(self, tid, name):
        self.tid = tid
        self.name = name
        self.baton = _real_threading.Semaphore(0)
        self.finished = False
        self.blocked_on = None      # description of what it waits for
        self.can_run = None         # predicate: may it be resumed now?
        self.exc = None
        self.real = None
        self.held = []              # names of locks held (outermost first)


class Controller:
    def __init__(self, chooser, max_steps=200000):
        self.chooser = chooser
        self.threads = []
        self.current = None
        self.trace = []             # (tid, kind, info)
        self.schedule = []          # chosen tid at every decision with > 1 candidate
        self.aborting = False
        self.steps = 0
        self.max_steps = max_steps
        self.main_baton = _real_threading.Semaphore(0)
        self.deadlock = None
        self.lock_names = {}
        self.edges = set()          # lock-order edges (held -> requested)
        self.wait_violations = []   # waits for a thread / the queue while holding a lock
        self.foreign = None         # set when an uncontrolled thread touched a shimmed object

    # ---------------------------------------------------------------- thread management
    def new_thread(self, target, name):
        st = CoThreadState(len(self.threads), name)
        self.threads.append(st)

        def body():
            st.baton.acquire()
            try:
                if not self.aborting:
                    target()
            except Abort:
                pass
            except BaseException as e:  # noqa: BLE001
                st.exc = e
            finally:
                st.finished = True
                self._switch_from(st, finishing=True)

        st.real = _real_threading.Thread(target=body, daemon=True, name=f"co-{name}")
        st.real.start()
        return st

    def me(self):
        return self.current

    def runnable(self):
        out = []
        for t in self.threads:
            if t.finished:
                continue
            if t.can_run is None or t.can_run():
                out.append(t)
        return out

    def _pick(self, cands):
        if len(cands) == 1:
            return cands[0]
        tid = self.chooser([c.tid for c in cands], self)
        self.schedule.append(tid)
        for c in cands:
            if c.tid == tid:
                return c
        return cands[0]

    def _switch_from(self, st, finishing=False):
        """give the baton to the next thread; block `st` until it is chosen again"""
        self.steps += 1
        if self.steps > self.max_steps and not self.aborting:
            self.aborting = True
            self.deadlock = Deadlock(["step budget exhausted"])
        if self.aborting:
            if not finishing:
                # unwind this thread right here; the baton moves on when it has finished
                raise Abort()
            nxt = next((t for t in self.threads if not t.finished and t is not st), None)
            if nxt is None:
                self.current = None
                self.main_baton.release()
            else:
                self.current = nxt
                nxt.baton.release()
            return
        cands = self.runnable()
        if not cands:
            if all(t.finished for t in self.threads):
                self.current = None
                self.main_baton.release()
                return
            # deadlock: everybody unfinished is blocked
            self.deadlock = Deadlock([f"{t.name} waits for {t.blocked_on} holding {t.held}" for t in self.threads if not t.finished])
            self.aborting = True
            return self._switch_from(st, finishing)
        nxt = self._pick(cands)
        if nxt is st and not finishing:
            return
        self.current = nxt
        nxt.baton.release()
        if not finishing:
            st.baton.acquire()
            if self.aborting:
                raise Abort()

    def yield_point(self, kind, info=None):
        st = self.current
        if st is None:
            return
        self.trace.append((st.tid, kind, info))
        self._switch_from(st)

    def block_until(self, pred, what):
        st = self.current
        if st is None:
            # not under control (setup phase): must not block
            if not pred():
                raise RuntimeError(f"uncontrolled code would block on {what}")
            return
        while not pred():
            st.blocked_on = what
            st.can_run = pred
            self._switch_from(st)
        st.blocked_on = None
        st.can_run = None

    def run(self, bodies):
        """bodies: list of (name, callable). Runs them to completion under the schedule."""
        for name, fn in bodies:
            self.new_thread(fn, name)
        first = self._pick(self.runnable())
        self.current = first
        first.baton.release()
        if not self.main_baton.acquire(timeout=REAL_TIMEOUT):
            # nobody handed the baton back for a long real time: a controlled thread blocks outside the shims (a primitive
            # they do not cover) - this run decides nothing about the scheduler
            self.aborting = True
            self.foreign = self.foreign or "controller stuck: a controlled thread blocks in something the shims do not cover"
            raise ForeignThread(self.foreign)
        for t in self.threads:
            t.real.join(timeout=5)
        if self.deadlock:
            raise self.deadlock
        for t in self.threads:
            if t.exc is not None:
                raise t.exc


_CTRL = None


def is_shim_error(e):
    """did this exception come out of the cooperative shims themselves (an API of threading / queue they do not provide,
    an internal inconsistency) rather than out of the code under test?  Such a run says nothing about the scheduler."""
    import traceback
    if isinstance(e, (Abort, Deadlock)):
        return False
    tb = traceback.extract_tb(e.__traceback__)
    if tb and tb[-1].filename.endswith("coop.py") and not isinstance(e, (_real_queue.Empty, _real_queue.Full)):
        return True
    msg = str(e)
    return isinstance(e, (AttributeError, TypeError)) and any(n in msg for n in ("CoQueue", "CoThread", "CoRLock", "CoLock", "CoEvent", "CoSemaphore", "CoSimpleQueue", "CoCondition", "CoBarrier"))


def controller():
    return _CTRL


def set_controller(c):
    global _CTRL
    _CTRL = c


class ForeignThread(RuntimeError):
    """a thread the controller does not know (created through an API the shims do not cover) touched a shimmed object"""


def _check_thread(c):
    """called at the entry of every shimmed blocking operation while a controlled phase is running"""
    if c is not None and c.current is not None and c.current.real is not None \
            and _real_threading.get_ident() != c.current.real.ident:
        c.foreign = f"thread {_real_threading.current_thread().name!r} is not under the controller"
        raise ForeignThread(c.foreign)


class CoRLock:
    _n = 0

    def __init__(self):
        CoRLock._n += 1
        self.name = f"lock{CoRLock._n}"
        self.owner = None
        self.count = 0

    reentrant = True

    def _free_for(self, st):
        return self.owner is None or (self.reentrant and self.owner is st)

    def locked(self):
        return self.owner is not None

    def _is_owned(self):
        c = _CTRL
        return self.owner is not None and (c is None or self.owner is c.current or self.owner == "setup")

    def acquire(self, blocking=True, timeout=-1):
        c = _CTRL
        _check_thread(c)
        st = c.current if c else None
        if c is None or st is None:
            # setup phase: single uncontrolled thread
            if self.owner not in (None, "setup"):
                raise RuntimeError("setup code would block on a lock")
            self.owner = "setup"
            self.count += 1
            return True
        c.yield_point("acq?", self.name)
        if not self._free_for(st):
            if not blocking:
                return False
            for h in st.held:
                c.edges.add((h, self.name))
            c.block_until(lambda: self._free_for(st), self.name)
        if self.owner is st:
            self.count += 1
            c.trace.append((st.tid, "reacq", self.name))
        else:
            for h in st.held:
                c.edges.add((h, self.name))
            self.owner = st
            self.count = 1
            self.serial = getattr(self, "serial", 0) + 1     # one number per critical section of this lock
            st.held.append(self.name)
            c.trace.append((st.tid, "acq", self.name))
        return True

    def release(self):
        c = _CTRL
        st = c.current if c else None
        if self.owner == "setup":
            self.count -= 1
            if self.count == 0:
                self.owner = None
            return
        if self.owner is not st:
            raise RuntimeError("release of a lock that is not owned")
        self.count -= 1
        if self.count == 0:
            self.owner = None
            st.held.remove(self.name)
            c.trace.append((st.tid, "rel", self.name))
            c.yield_point("rel", self.name)
        else:
            c.trace.append((st.tid, "rerel", self.name))

    __enter__ = acquire

    def __exit__(self, *a):
        self.release()


class CoLock(CoRLock):
    """threading.Lock: a second acquisition by the owner blocks for ever (reported as a deadlock)"""
    reentrant = False

    def release(self):
        # a plain Lock may be released by any thread
        c = _CTRL
        st = c.current if c else None
        if self.owner is None:
            raise RuntimeError("release unlocked lock")
        if self.owner == "setup" or st is None:
            self.owner, self.count = None, 0
            return
        owner = self.owner
        self.owner, self.count = None, 0
        if self.name in owner.held:
            owner.held.remove(self.name)
        c.trace.append((st.tid, "rel", self.name))
        c.yield_point("rel", self.name)


class CoQueue:
    def __init__(self, maxsize=0):
        self.items = []
        self.unfinished = 0
        self.maxsize = maxsize

    def get_nowait(self):
        return self.get(block=False)

    def put_nowait(self, item):
        return self.put(item, block=False)

    def full(self):
        return 0 < self.maxsize <= len(self.items)

    def put(self, item, block=True, timeout=None):
        _check_thread(_CTRL)
        if self.full():
            c0 = _CTRL
            if not block or not (c0 and c0.current):
                raise _real_queue.Full
            c0.block_until(lambda: not self.full(), "queue.put")
        self.items.append(item)
        self.unfinished += 1
        c = _CTRL
        if c and c.current:
            c.yield_point("qput")

    def get(self, block=True, timeout=None):
        c = _CTRL
        _check_thread(c)
        if c and c.current:
            c.yield_point("qget?")
        if not self.items:
            if not block:
                raise _real_queue.Empty
            c.block_until(lambda: bool(self.items), "queue.get")
        item = self.items.pop(0)
        if c and c.current:
            c.trace.append((c.current.tid, "qget", None))
        return item

    def task_done(self):
        if self.unfinished <= 0:
            raise ValueError("task_done() called too many times")
        self.unfinished -= 1
        c = _CTRL
        if c and c.current:
            c.yield_point("qdone")

    def join(self):
        c = _CTRL
        if c and c.current:
            if c.current.held:
                c.wait_violations.append(("queue.join", list(c.current.held)))
            c.yield_point("qjoin?")
            c.block_until(lambda: self.unfinished == 0, "queue.join")
        elif self.unfinished:
            raise RuntimeError("uncontrolled queue.join would block")

    def qsize(self):
        return len(self.items)

    def empty(self):
        return not self.items


class CoSimpleQueue(CoQueue):
    """queue.SimpleQueue: no task tracking"""
    def __init__(self):
        super().__init__(0)

    def task_done(self):
        raise AttributeError("'SimpleQueue' object has no attribute 'task_done'")

    def join(self):
        raise AttributeError("'SimpleQueue' object has no attribute 'join'")


class CoEvent:
    def __init__(self):
        self._flag = False

    def is_set(self):
        return self._flag

    isSet = is_set

    def set(self):
        self._flag = True
        c = _CTRL
        if c and c.current:
            c.yield_point("evset")

    def clear(self):
        self._flag = False

    def wait(self, timeout=None):
        c = _CTRL
        if c and c.current:
            if c.current.held:
                c.wait_violations.append(("Event.wait", list(c.current.held)))
            c.yield_point("evwait?")
            if not self._flag:
                c.block_until(lambda: self._flag, "event.wait")
        return self._flag


class CoSemaphore:
    def __init__(self, value=1):
        self._value = value

    def acquire(self, blocking=True, timeout=None):
        c = _CTRL
        if c and c.current:
            c.yield_point("sem?")
            if self._value <= 0:
                if not blocking:
                    return False
                c.block_until(lambda: self._value > 0, "semaphore")
        elif self._value <= 0:
            raise RuntimeError("setup code would block on a semaphore")
        self._value -= 1
        return True

    def release(self, n=1):
        self._value += n
        c = _CTRL
        if c and c.current:
            c.yield_point("semrel")

    __enter__ = acquire

    def __exit__(self, *a):
        self.release()


class CoCondition:
    """threading.Condition over a cooperative (R)Lock: wait releases the lock completely, blocks until notified (virtually),
    re-acquires.  A wait with a timeout that nobody notifies returns False after the other threads had 50 turns."""
    def __init__(self, lock=None):
        self._lock = lock if lock is not None else CoRLock()
        self._tickets = []        # waiting tickets, oldest first
        self._notified = set()
        self._n = 0
        self.acquire = self._lock.acquire
        self.release = self._lock.release

    def __enter__(self):
        return self._lock.acquire()

    def __exit__(self, *a):
        self._lock.release()

    def wait(self, timeout=None):
        c = _CTRL
        st = c.current if c else None
        if st is None:
            raise RuntimeError("uncontrolled code would block on a condition")
        if self._lock.owner is not st:
            raise RuntimeError("cannot wait on un-acquired lock")
        saved = self._lock.count
        self._lock.count = 1
        self._n += 1
        ticket = self._n
        self._tickets.append(ticket)
        self._lock.release()
        if timeout is None:
            c.block_until(lambda: ticket in self._notified, "condition.wait")
            got = True
        else:
            for _ in range(50):
                if ticket in self._notified:
                    break
                c.yield_point("cv-timed-wait")
            got = ticket in self._notified
            if not got and ticket in self._tickets:
                self._tickets.remove(ticket)
        self._notified.discard(ticket)
        self._lock.acquire()
        self._lock.count = saved
        return got

    def wait_for(self, predicate, timeout=None):
        r = predicate()
        while not r:
            if not self.wait(timeout) and timeout is not None:
                return predicate()
            r = predicate()
        return r

    def notify(self, n=1):
        for _ in range(n):
            if not self._tickets:
                break
            self._notified.add(self._tickets.pop(0))
        c = _CTRL
        if c and c.current:
            c.yield_point("cv-notify")

    def notify_all(self):
        self.notify(len(self._tickets))

    notifyAll = notify_all


class CoBarrier:
    def __init__(self, parties, action=None, timeout=None):
        self.parties, self._count, self._gen = parties, 0, 0

    def wait(self, timeout=None):
        c = _CTRL
        gen = self._gen
        self._count += 1
        idx = self._count - 1
        if self._count == self.parties:
            self._count = 0
            self._gen += 1
            if c and c.current:
                c.yield_point("barrier-release")
        else:
            c.block_until(lambda: self._gen != gen, "barrier.wait")
        return idx


class CoThread:
    """threading.Thread under the controller (also usable as a base class overriding run())"""
    def __init__(self, group=None, target=None, name=None, args=(), kwargs=None, *, daemon=None):
        self._target, self._args, self._kwargs = target, tuple(args), dict(kwargs or {})
        self.daemon = daemon
        self.name = name or "worker"
        self.st = None
        self.ident = None
        self.native_id = None

    # the attributes older code reads
    target = property(lambda self: self._target)

    def run(self):
        if self._target is not None:
            self._target(*self._args, **self._kwargs)

    def start(self):
        if self.st is not None:
            raise RuntimeError("threads can only be started once")
        c = _CTRL
        self.st = c.new_thread(self.run, self.name)
        self.ident = self.native_id = 10_000 + self.st.tid
        if c.current:
            c.yield_point("spawn", self.st.tid)

    def setDaemon(self, d):  # noqa: N802
        self.daemon = d

    def isDaemon(self):  # noqa: N802
        return bool(self.daemon)

    def getName(self):  # noqa: N802
        return self.name

    def setName(self, n):  # noqa: N802
        self.name = n

    def join(self, timeout=None):
        c = _CTRL
        if self.st is None:
            raise RuntimeError("cannot join thread before it is started")
        if c.current:
            if c.current.held:
                c.wait_violations.append(("Thread.join", list(c.current.held)))
            c.yield_point("join?", self.st.tid)
            c.block_until(lambda: self.st.finished, f"join({self.st.name})")

    def is_alive(self):
        return self.st is not None and not self.st.finished


shim_threading = types.ModuleType("threading")
shim_threading.__dict__.update({k: v for k, v in vars(_real_threading).items() if not k.startswith("__")})
shim_threading.RLock = CoRLock
shim_threading.Lock = CoLock
shim_threading.Thread = CoThread
shim_threading.Event = CoEvent
shim_threading.Semaphore = CoSemaphore
shim_threading.BoundedSemaphore = CoSemaphore
shim_threading.Condition = CoCondition
shim_threading.Barrier = CoBarrier

shim_queue = types.ModuleType("queue")
shim_queue.__dict__.update({k: v for k, v in vars(_real_queue).items() if not k.startswith("__")})
shim_queue.Queue = CoQueue
shim_queue.SimpleQueue = CoSimpleQueue


def install():
    """rebind `threading` / `queue` in the scheduler's modules to the cooperative shims"""
    import scheduler.base.job_timer as m1
    import scheduler.threading.job as m2
    import scheduler.threading.scheduler as m3

    for m in (m1, m2, m3):
        if hasattr(m, "threading"):
            m.threading = shim_threading
        if hasattr(m, "queue"):
            m.queue = shim_queue
        # classes of the module that derive from the real Thread (defined at import time, before the names were rebound)
        for obj in list(vars(m).values()):
            if isinstance(obj, type) and obj.__module__ == m.__name__ and _real_threading.Thread in obj.__bases__:
                try:
                    obj.__bases__ = tuple(CoThread if b is _real_threading.Thread else b for b in obj.__bases__)
                    _REBASED.append(obj)
                except TypeError:
                    pass


_REBASED = []


def uninstall():
    """give the scheduler's modules their real `threading` / `queue` back"""
    import scheduler.base.job_timer as m1
    import scheduler.threading.job as m2
    import scheduler.threading.scheduler as m3

    for m in (m1, m2, m3):
        if hasattr(m, "threading"):
            m.threading = _real_threading
        if hasattr(m, "queue"):
            m.queue = _real_queue
    while _REBASED:
        obj = _REBASED.pop()
        try:
            obj.__bases__ = tuple(_real_threading.Thread if b is CoThread else b for b in obj.__bases__)
        except TypeError:
            pass


# ---------------------------------------------------------------- choosers
def random_chooser(rng):
    def choose(tids, ctrl):
        return rng.choice(tids)
    return choose


def replay_chooser(seq, fallback=None):
    it = iter(seq)

    def choose(tids, ctrl):
        try:
            t = next(it)
            if t in tids:
                return t
        except StopIteration:
            pass
        return fallback(tids, ctrl) if fallback else tids[0]
    return choose


def pct_chooser(rng, nthreads_hint=8, depth=3, length_hint=400):
    """priority-based with a few change points (PCT): good at rare orderings"""
    prios = {}
    change = sorted(rng.sample(range(1, length_hint), min(depth, length_hint - 1)))
    state = {"n": 0}

    def choose(tids, ctrl):
        state["n"] += 1
        for t in tids:
            if t not in prios:
                prios[t] = rng.random() + 1.0
        if change and state["n"] >= change[0]:
            change.pop(0)
            cur = max(tids, key=lambda t: prios[t])
            prios[cur] = rng.random() * 0.5
        return max(tids, key=lambda t: prios[t])
    return choose


def pause_chooser(victim, at, inner):
    """one long preemption: thread `victim` runs first for `at` of its scheduling points, is then suspended while everybody
    else runs (as `inner` decides) until they are finished or blocked, and only then continues.  This is the schedule that
    exposes read-modify-write windows (a whole call of another thread fits into a window a few steps wide), which uniform
    random choice practically never produces."""
    n = {"v": 0}

    def choose(tids, ctrl):
        if victim in tids and n["v"] < at:
            n["v"] += 1
            return victim
        others = [t for t in tids if t != victim]
        if others:
            return inner(others, ctrl)
        return victim
    return choose
