"""
harness/impl_thr.py — run a scenario against the real threading Scheduler (in-process, /repo's
working tree) under the controlled clock and return canonical observations.
"""
from __future__ import annotations

import datetime as _dt
import logging
import threading as _real_threading
import warnings
from fractions import Fraction

from . import core
from .core import CLOCK, from_loc, inst_of, mk_time, off_of, tz_of

CALLS = ["cyclic", "minutely", "hourly", "daily", "weekly", "once"]


def err_kind(e: BaseException) -> str:
    from scheduler.error import SchedulerError

    if isinstance(e, SchedulerError):
        return "SchedulerError"
    if type(e).__name__ == "ExecHang":
        return "ExecHang"
    if isinstance(e, TypeError):
        return "TypeError"
    if isinstance(e, AttributeError):
        return "AttributeError"
    return "Other"


def py_timing(t):
    import scheduler.trigger as trigger

    k = t[0]
    if k == "c":
        return _dt.timedelta(microseconds=t[1])
    if k == "t":
        return mk_time(*t[1:6])
    if k == "w":
        return trigger.weekday(t[1], mk_time(*t[2:7]))
    if k == "d":
        return from_loc(t[1], t[2])
    raise ValueError(k)


def py_tags(tags, kind):
    if tags is None:
        return None
    # tag 5 is the empty string: a perfectly valid (falsy) tag
    strs = ["" if t == 5 else f"t{t}" for t in tags]
    if kind in (None, "set"):
        return set(strs)
    if kind == "frozenset":
        return frozenset(strs)
    if kind == "list":
        return list(strs)
    if kind == "tuple":
        return tuple(strs)
    if kind == "gen":
        return (s for s in strs)
    if kind == "dictkeys":
        return {s: 1 for s in strs}.keys()
    if kind == "dict":
        return {s: 1 for s in strs}
    raise ValueError(kind)


HANG_S = 2.0


class ExecHang(RuntimeError):
    pass


class BadRepr:
    """an argument that cannot be rendered (a closed connection, say): repr() and str() raise"""
    def __repr__(self):
        raise RuntimeError("cannot render this object")
    __str__ = __repr__


class _CountHandler(logging.Handler):
    def __init__(self):
        super().__init__(level=logging.DEBUG)
        self.records = []
        self.seen_counters = []

    def createLock(self):
        # no real lock around emit: under the cooperative controller a real lock held across a controlled
        # yield would block the whole harness; the list append below is atomic anyway
        self.lock = None

    def emit(self, record):
        self.records.append(record)
        # what a handler that looks at the job sees while the failure is being reported: (failed_attempts, attempts)
        try:
            j = record.args[0] if isinstance(record.args, tuple) and record.args else None
            if j is not None and hasattr(j, "failed_attempts") and hasattr(j, "attempts") and record.levelno >= logging.ERROR:
                self.seen_counters.append((j.failed_attempts, j.attempts))
        except Exception:  # noqa: BLE001
            pass
        # like every real handler (the default last-resort handler included): render the message, which evaluates
        # the `%r` of the job - and, through its arguments, whatever they reference; errors are swallowed as
        # logging.Handler.handleError would do
        try:
            record.getMessage()
        except Exception:  # noqa: BLE001
            pass


class ThrRunner:
    """drives one real Scheduler through a scenario"""

    def __init__(self, scn, sched_factory=None):
        core.install_clock()
        from scheduler.prioritization import (
            constant_weight_prioritization,
            linear_priority_function,
        )
        from scheduler.threading.scheduler import Scheduler

        self.scn = scn
        self.created = []  # key -> job
        self.key_of = {}  # id(job) -> key
        self.cells = []
        self.cur = None  # current exec context
        self.hung = False
        self.handler = _CountHandler()
        if scn.get("user_logger", True):
            self.logger = logging.getLogger(f"verif.{id(self)}")
            # "late": the application attaches its handler only after the scheduler was constructed
            self.logger.handlers = [] if scn.get("late_handler") else [self.handler]
            self.logger.propagate = False
            self.logger.setLevel(logging.DEBUG)
            self.logger.disabled = False
            self._logger_arg = self.logger
        else:
            # default logger of the package ("scheduler"): observe it with our handler
            self.logger = logging.getLogger("scheduler")
            self.logger.handlers = [self.handler]
            self.logger.propagate = False
            self.logger.setLevel(logging.DEBUG)
            self.logger.disabled = False
            self._logger_arg = None
        if scn.get("prio", 0) == 2:
            # arbitrary deterministic user function: a table key -> value (default 0), optionally
            # mixed with the lateness so that values change between calls
            table = {int(k): Fraction(v[0], v[1]) for k, v in (scn.get("ptable") or {}).items()}
            mode = scn.get("pmode", "table")

            def base(time_delta, job, max_exec, job_count):
                v = table.get(self.key_of.get(id(job), -1), Fraction(0))
                if mode == "neglate":
                    return float(v) - time_delta / 1024.0
                return float(v) if v.denominator != 1 else int(v)

            base.__name__ = "user_priority"
        else:
            base = [linear_priority_function, constant_weight_prioritization][scn.get("prio", 0)]
        self.base_prio = base

        def prio(time_delta, job, max_exec, job_count):
            ret = base(time_delta, job, max_exec, job_count)
            if self.cur is not None:
                key = self.key_of.get(id(job), -1)
                late = CLOCK.instant - inst_of(job.datetime)
                self.cur["prio"].append((key, time_delta, max_exec, job_count, ret, late, job.weight))
            return ret

        prio.__name__ = base.__name__
        kw = dict(
            tzinfo=tz_of(scn.get("tz")),
            max_exec=scn.get("max_exec", 0),
            priority_function=prio,
            n_threads=scn.get("n_threads", 1),
            logger=self._logger_arg,
        )
        # jobs handed to the constructor: leading ops flagged "ctor" are created directly as Job
        # objects (at clock0) and passed as Scheduler(jobs=...)
        self.ctor_results = []
        ctor_jobs = []
        for o in scn.get("ops", []):
            if not (o.get("op") == "sch" and o.get("ctor")):
                break
            try:
                key = self.do_sched(o, o.get("clock"), direct=True)
                ctor_jobs.append(self.created[key])
                self.ctor_results.append(("j", key))
            except Exception as e:  # noqa: BLE001
                self.ctor_results.append(("e", err_kind(e)))
        if ctor_jobs or any(o.get("ctor") for o in scn.get("ops", [])):
            kind = scn.get("ctor_kind", "set")
            # `jobs` is typed Iterable[Job]: containers and one-shot iterators alike
            kw["jobs"] = {"set": set, "list": list, "tuple": tuple, "frozenset": frozenset,
                          "gen": lambda l: (j for j in list(l)), "iter": lambda l: iter(list(l)),
                          "filter": lambda l: filter(lambda j: True, list(l)),
                          "dictkeys": lambda l: {j: 1 for j in l}.keys()}[kind](ctor_jobs)
        # the caller keeps (and may later mutate) the very collection it passed
        self.ctor_arg = kw.get("jobs")
        self.ctor_error = None
        try:
            self.sched = Scheduler(**kw)
        except Exception as e:  # noqa: BLE001
            self.ctor_error = err_kind(e)
            kw.pop("jobs", None)
            self.sched = Scheduler(**kw)
        if scn.get("user_logger", True) and scn.get("late_handler"):
            self.logger.handlers = [self.handler]
        self.ctor_pos = 0

    def exc_class(self, key):
        import queue as _q

        from scheduler.error import SchedulerError

        class UserError(RuntimeError):
            pass

        class FalsyError(Exception):
            """an exception instance whose truth value is False (e.g. it carries an empty list of items)"""
            def __bool__(self):
                return False

        class EmptyError(Exception):
            def __len__(self):
                return 0

        class BadReprError(Exception):
            """str()/repr() of the instance raise: the record must still be produced once"""
            def __str__(self):
                raise RuntimeError("no text")
            __repr__ = __str__

        name = (self.scn.get("exc") or {}).get(str(key), "ValueError")
        return {"Exception": Exception, "ValueError": ValueError, "UserError": UserError, "SchedulerError": SchedulerError,
                "StopIteration": StopIteration, "QueueEmpty": _q.Empty, "KeyError": KeyError,
                "FalsyError": FalsyError, "EmptyError": EmptyError, "BadReprError": BadReprError}[name]

    # ------------------------------------------------------------ callbacks
    def make_cb(self, cell):
        def cb(*args, **kwargs):
            job = cell["job"]
            key = cell["key"]
            cur = self.cur
            seen = (args, dict(kwargs))
            if cur is not None:
                # a job whose OWN `job.kwargs` mapping was modified (handed out by reference, as documented) is not judged
                pid_ = cell["payload"] if cell.get("own_kwargs_touched") else cell["payload_id"](seen)
                cur["invoked"].append((key, inst_of(job.datetime), pid_))
                for c in (cur["scripts"].get(str(key)) or cur["scripts"].get(key) or []):
                    self.run_cop(c)
                if key in cur["raises"]:
                    raise self.exc_class(key)("scripted failure")

        cb.__qualname__ = "cb"
        return cb

    def run_cop(self, c):
        """one scripted operation performed by a callback on its own scheduler; the outcome is
        recorded for the bookkeeping of the Spec oracles"""
        k = c["op"]
        rec = {"op": k}
        try:
            if k == "sch":
                rec["tags"] = list(c.get("tags") or [])
                rec["key"] = self.do_sched(c, CLOCK.instant)
            elif k == "del":
                rec["key"] = c["key"]
                self.sched.delete_job(self.created[c["key"]])
            elif k == "dtags":
                rec["tags"], rec["any"] = c.get("tags"), bool(c.get("any", False))
                rec["before"] = sorted(self.key_of[id(j)] for j in self.sched.jobs)
                rec["n"] = self.sched.delete_jobs(py_tags(c.get("tags"), "set"), bool(c.get("any", False)))
                rec["after"] = sorted(self.key_of[id(j)] for j in self.sched.jobs)
            elif k == "get":
                rec["tags"], rec["any"] = c.get("tags"), bool(c.get("any", False))
                rec["before"] = sorted(self.key_of[id(j)] for j in self.sched.jobs)
                got = self.sched.get_jobs(py_tags(c.get("tags"), "set"), bool(c.get("any", False)))
                rec["result"] = sorted(self.key_of[id(j)] for j in got)
            elif k == "str":
                text = str(self.sched)
                rec["len"] = len(text)
                # heading count, number of table rows, number of registered jobs at this very moment
                rec["heading"] = int(text.split("#jobs=")[1].split("\n")[0])
                lines_ = text.split("\n")
                sep = max((i for i, ln in enumerate(lines_) if ln.strip() and set(ln.strip()) <= set("- ")), default=len(lines_) - 1)
                rec["rows"] = sum(1 for ln in lines_[sep + 1:] if ln.strip())
                rec["registered"] = len(self.sched.jobs)
            rec["ok"] = True
        except Exception as e:  # a scripted op may legitimately fail (e.g. delete twice)
            rec["ok"] = False
            rec["err"] = err_kind(e)
            if self.cur is not None:
                self.cur.setdefault("cop_errors", []).append(err_kind(e))
        if self.cur is not None:
            self.cur.setdefault("cops", []).append(rec)

    # ------------------------------------------------------------ ops
    def do_sched(self, o, clock, direct=False):
        if clock is None:
            clock = o["clock"] = CLOCK.instant
        CLOCK.instant = clock
        call = CALLS[o["call"]]
        ts = [py_timing(t) for t in o["timings"]]
        timing = ts if o.get("is_list") else (ts[0] if ts else [])
        payload = o.get("payload", 0)
        cell = {"payload": payload}
        # the payload id is carried both positionally and by keyword (C19)
        args = o.get("_args", (payload,))
        kwargs = o.get("_kwargs", {"p": payload})
        cell["payload_id"] = o.get("_payload_id") or (
            lambda seen: seen[0][0] if (len(seen[0]) == 1 and seen[1] == {"p": seen[0][0]}) else 10**9
        )
        if self.scn.get("c19"):
            ash, ksh = o.get("argshape", "one"), o.get("kwshape", "one")
            args = {"none": None, "empty": (), "one": (payload,), "many": (payload, "x", 3.5, None, b"b"),
                    "nested": (payload, [1, [2, 3]], {"k": (4, 5)})}[ash]
            kwargs = {"none": None, "empty": {}, "one": {"p": payload},
                      "many": {"p": payload, "a": 1, "b": "two", "c": None, "d": (1, 2), "e": 2.5},
                      # names that the library itself uses for parameters somewhere on the way to the callback
                      "reserved": {"p": payload, "self": 1, "cls": 2, "logger": 3, "job": 4, "handle": 5, "args": (6,), "kwargs": {"k": 7},
                                   "timing": 8, "tags": {"t"}, "weight": 9, "coroutine": 10}}[ksh]
            want_args = () if args is None else tuple(args)
            want_kwargs = {} if kwargs is None else dict(kwargs)
            cell["orig_kwargs"] = kwargs
            # payload id seen = own id iff exactly the original arguments arrived, else a sentinel
            cell["payload_id"] = lambda seen, wa=want_args, wk=want_kwargs, pid=payload: pid if (seen[0] == wa and seen[1] == wk) else 10**9
        if o.get("badrepr"):
            # the job carries an argument whose repr()/str() raise: rendering the job is impossible, running it is not
            kwargs = dict(kwargs or {}, conn=BadRepr())
            cell["payload_id"] = lambda seen, pid=payload: pid if (seen[1].get("p") == pid and isinstance(seen[1].get("conn"), BadRepr)) else 10**9
        cb = self.make_cb(cell)
        hk = o.get("hkind")
        if hk in ("partial_kw", "partial_pos") and self.scn.get("c19"):
            # the callback is a functools.partial: its frozen arguments come first / are overridden by the scheduled
            # keyword arguments, exactly as functools defines it
            import functools
            if hk == "partial_kw":
                cb = functools.partial(cb, p=-1, frozen=7)
                wa, wk = want_args, dict({"p": -1, "frozen": 7}, **want_kwargs)
            else:
                cb = functools.partial(cb, "front")
                wa, wk = ("front",) + want_args, want_kwargs
            cell["payload_id"] = lambda seen, wa=wa, wk=wk, pid=payload: pid if (seen[0] == wa and seen[1] == wk) else 10**9
        if hk == "wrapped" and self.scn.get("c19"):
            # a decorator in the usual style: accepts (*args, **kwargs), advertises the wrapped function's signature
            import functools

            def advertised(x=None, a=None, p=None, *rest, **more):  # noqa: ARG001
                return None

            inner_cb = cb

            @functools.wraps(advertised)
            def wrapper(*a_, **k_):
                return inner_cb(*a_, **k_)

            cb = wrapper
        kw = {}
        if args is not None:
            kw["args"] = args
        if kwargs is not None:
            kw["kwargs"] = kwargs
        w = o.get("w", [1, 1])
        weight = o.get("_weight", None)
        if weight is None:
            fr = Fraction(w[0], w[1])
            weight = int(fr) if fr.denominator == 1 else float(fr)
        tags = py_tags(o.get("tags"), o.get("tagkind"))
        cell["orig_tags"] = tags
        if call == "once":
            if tags is not None:
                kw["tags"] = tags
            kw["weight"] = weight
            if o.get("alias") is not None:
                kw["alias"] = o["alias"]
        else:
            if tags is not None:
                kw["tags"] = tags
            kw["weight"] = weight
            if o.get("start") is not None:
                kw["start"] = from_loc(*o["start"])
            if o.get("_relstart") is not None and o.get("start") is None:
                d, so = o["_relstart"]
                o["start"] = [clock + d + (so or 0), so]
            if o.get("start") is not None and "start" not in kw:
                kw["start"] = from_loc(*o["start"])
            if o.get("_relstop") is not None and o.get("stop") is None:
                tzo = self.scn.get("tz")
                o["stop"] = [clock + o["_relstop"] + (tzo or 0), tzo]
            if o.get("stop") is not None:
                kw["stop"] = from_loc(*o["stop"])
            if not o.get("delay", True):
                kw["delay"] = False
            if o.get("skip", False):
                kw["skip_missing"] = True
            if o.get("max_att", 0) != 0:
                kw["max_attempts"] = o["max_att"]
            if o.get("alias") is not None:
                kw["alias"] = o["alias"]
        with warnings.catch_warnings():
            warnings.simplefilter("ignore")
            if direct:
                from scheduler.base.definition import JobType
                from scheduler.threading.job import Job

                jt = [JobType.CYCLIC, JobType.MINUTELY, JobType.HOURLY, JobType.DAILY, JobType.WEEKLY][o["call"]]
                jtz = o["_jobtz"] if "_jobtz" in o else self.scn.get("tz")
                o["_schedtz"] = self.scn.get("tz")
                job = Job(jt, ts, cb, tzinfo=tz_of(jtz), **kw)
            else:
                job = getattr(self.sched, call)(timing, cb, **kw)
        key = len(self.created)
        cell["job"] = job
        cell["key"] = key
        self.created.append(job)
        self.key_of[id(job)] = key
        self.cells.append(cell)
        return key

    def call_exec(self, force):
        """exec_jobs in a helper thread: a call that never returns (a worker died, a join that cannot be
        satisfied) is an observation, not a hang of the check"""
        box = {}

        def target():
            try:
                box["n"] = self.sched.exec_jobs(force_exec_all=force)
            except BaseException as e:  # noqa: BLE001
                box["e"] = e

        before = set(_real_threading.enumerate())
        th = _real_threading.Thread(target=target, daemon=True)
        th.start()
        th.join(HANG_S)
        waited = HANG_S
        stuck = 0
        while th.is_alive():
            # a hang, or only a slow / loaded machine? It is a hang when the call stays blocked in a wait while no thread it
            # started is alive any more (nobody can ever satisfy the join) - observed on several consecutive samples, because on a
            # loaded machine the caller can sit in `wait` for a moment after the last worker has already notified it and exited;
            # otherwise keep waiting (bounded)
            import sys as _sys
            workers = [t for t in _real_threading.enumerate() if t not in before and t is not th and t.is_alive()]
            fr = _sys._current_frames().get(th.ident)
            blocked = fr is not None and fr.f_code.co_name in ("wait", "join", "_wait_for_tstate_lock", "acquire")
            stuck = stuck + 1 if (blocked and not workers) else 0
            if stuck >= 6 or waited >= 60.0:
                self.hung = True
                raise ExecHang(f"exec_jobs did not return after {waited:.0f} s of real time: blocked in `{fr.f_code.co_name if fr else '?'}` "
                               f"with {len(workers)} live workers (no callback of the scenario blocks)")
            th.join(0.5)
            waited += 0.5
        if "e" in box:
            raise box["e"]
        return box["n"]

    def snapshot(self):
        regset = self.sched.jobs
        out = {}
        for key, job in enumerate(self.created):
            d = job.datetime
            out[key] = (
                inst_of(d),
                1 if d.tzinfo is not None else 0,
                job.attempts,
                job.failed_attempts,
                1 if job.has_attempts_remaining else 0,
                1 if job in regset else 0,
            )
        return out

    def step(self, o):
        """execute one op; returns the observation dict"""
        k = o["op"]
        obs = {"res": None, "invoked": [], "prio": [], "order": None, "exact": True}
        try:
            if k == "sch" and o.get("ctor"):
                res = self.ctor_results[self.ctor_pos]
                self.ctor_pos += 1
                if res[0] == "j":
                    self.ctor_visible = res[1] + 1
                if self.ctor_error:
                    res = ("e", self.ctor_error)
                obs["res"] = res
                obs["_visible"] = getattr(self, "ctor_visible", 0)
            elif k == "sch":
                key = self.do_sched(o, o.get("clock"))
                obs["res"] = ("j", key)
            elif k == "exec":
                lv = o.get("log")
                if lv is not None:
                    # the user's logging configuration changes between polls
                    self.logger.disabled = lv == "disabled"
                    self.logger.setLevel({"debug": logging.DEBUG, "error": logging.ERROR, "critical": logging.CRITICAL,
                                          "disabled": logging.DEBUG}[lv])
                if "rel" in o and "clock" not in o:
                    # adaptive poll: relative to the observed due time of a job, never going back
                    kk, delta = o["rel"]
                    if 0 <= kk < len(self.created):
                        o["clock"] = max(CLOCK.instant, inst_of(self.created[kk].datetime) + delta)
                    else:
                        o["clock"] = CLOCK.instant + min(abs(delta), core.DAY)
                CLOCK.instant = o["clock"]
                self.cur = {
                    "invoked": [],
                    "prio": [],
                    "scripts": o.get("scripts") or {},
                    "raises": set(o.get("raises") or []),
                }
                try:
                    if self.hung:
                        raise RuntimeError("exec_jobs did not return earlier in this scenario")
                    n = self.call_exec(bool(o.get("force")))
                    obs["res"] = ("c", n)
                finally:
                    cur, self.cur = self.cur, None
                    obs["invoked"] = cur["invoked"]
                    obs["prio"] = cur["prio"]
                    obs["cop_errors"] = cur.get("cop_errors", [])
                    obs["cops"] = cur.get("cops", [])
                    if o.get("force"):
                        obs["order"] = [i[0] for i in cur["invoked"]]
                    else:
                        obs["order"] = [p[0] for p in cur["prio"]]
                    obs["exact"] = self.float_exact(cur["prio"])
            elif k == "del":
                if o["key"] < len(self.created):
                    target = self.created[o["key"]]
                else:
                    # a job this scheduler has never seen (registered with another scheduler)
                    from scheduler.threading.scheduler import Scheduler as _S
                    target = _S(tzinfo=tz_of(self.scn.get("tz"))).cyclic(_dt.timedelta(days=400), lambda: None)
                self.sched.delete_job(target)
                obs["res"] = ("u",)
            elif k == "dtags":
                n = self.sched.delete_jobs(py_tags(o.get("tags"), o.get("qkind", "set")), bool(o.get("any", False)))
                obs["res"] = ("c", n)
            elif k == "get":
                r = self.sched.get_jobs(py_tags(o.get("tags"), o.get("qkind", "set")), o.get("any", False))
                obs["res"] = ("s", sorted(self.key_of[id(j)] for j in r))
                if self.scn.get("mutate_snapshots"):
                    r.clear()
                    r.add(object())
            elif k == "mutate" and o.get("what") == "ctor_arg":
                # the caller changes the collection it handed to Scheduler(jobs=...)
                arg = self.ctor_arg
                if isinstance(arg, set):
                    how = o.get("how", "clear")
                    if how == "clear":
                        arg.clear()
                    elif how == "discard" and arg:
                        arg.discard(sorted(arg, key=lambda j: self.key_of[id(j)])[0])
                    elif how == "add_all":
                        arg.update(self.created)
                elif isinstance(arg, list):
                    arg.clear()
                obs["res"] = ("u",)
            elif k == "mutate":
                cell = self.cells[o["key"]] if o["key"] < len(self.cells) else None
                if cell is not None:
                    what = o.get("what", "all")
                    if what in ("kwargs", "all") and isinstance(cell.get("orig_kwargs"), dict):
                        d = cell["orig_kwargs"]
                        d["injected"] = 1
                        d.pop("p", None)
                        d["a"] = "overwritten"
                    if what in ("tags", "all") and isinstance(cell.get("orig_tags"), set):
                        cell["orig_tags"].clear()
                        cell["orig_tags"].add("t9")
                    if what == "job_kwargs":
                        # the mapping `job.kwargs` hands out belongs to THIS job: writing to it must not reach any other job
                        try:
                            cell["job"].kwargs["leaked"] = 1
                            cell["own_kwargs_touched"] = True
                        except Exception:  # noqa: BLE001 - a read-only view is fine too
                            pass
                    if what in ("returned_tags", "all"):
                        t = cell["job"].tags
                        if o.get("how") == "swap" and t:
                            # size-preserving change of the handed-out set
                            t.discard(sorted(t)[0])
                            t.add("t8")
                        else:
                            t.clear()
                            t.add("t8")
                obs["res"] = ("u",)
            elif k == "jobs":
                r = self.sched.jobs
                obs["res"] = ("s", sorted(self.key_of[id(j)] for j in r))
                if self.scn.get("mutate_snapshots"):
                    r.clear()
                    r.add(object())
            else:
                raise ValueError(k)
        except Exception as e:  # noqa: BLE001
            obs["res"] = ("e", err_kind(e))
            obs["exc"] = repr(e)[:200]
        obs["jobs"] = self.snapshot()
        if "_visible" in obs:
            obs["jobs"] = {k: v for k, v in obs["jobs"].items() if k < obs["_visible"]}
        obs["logs"] = sum(1 for r in self.handler.records if r.levelno >= logging.ERROR)
        obs["handler_saw"] = list(self.handler.seen_counters)
        return obs

    def float_exact(self, prio):
        """would binary floating point order these priorities exactly like the rationals do?
        Decided from the harness's own float evaluation of the documented formula (never from the
        values the implementation returned), so that a wrong implementation is not mistaken for
        rounding."""
        kind = self.scn.get("prio", 0)
        if kind == 2:
            return True  # explicit values: Fraction(float) is exact
        ex = []
        for key, td, me, n, ret, late, w in prio:
            fw = Fraction(w)
            if late < 0:
                e, f = Fraction(0), 0.0
            elif kind == 0:
                e, f = (Fraction(late, 10**6) + 1) * fw, (late / 10**6 + 1) * w
            else:
                e, f = fw, float(w)
            ex.append((e, Fraction(f)))
        for i in range(len(ex)):
            if (ex[i][0] > 0) != (ex[i][1] > 0):
                return False
            for j in range(i + 1, len(ex)):
                a = (ex[i][0] > ex[j][0]) - (ex[i][0] < ex[j][0])
                b = (ex[i][1] > ex[j][1]) - (ex[i][1] < ex[j][1])
                if a != b:
                    return False
        return True


def render(obs) -> str:
    """the canonical line, in the format of Drv.showOut"""
    r = obs["res"]
    if r[0] == "u":
        rs = "u"
    elif r[0] == "j":
        rs = f"j {r[1]}"
    elif r[0] == "c":
        rs = f"c {r[1]}"
    elif r[0] == "s":
        rs = ("s " + " ".join([str(len(r[1]))] + [str(x) for x in r[1]])).strip()
    else:
        rs = f"e {r[1]}"
    inv = " ; ".join(f"{k} {d} {p}" for k, d, p in obs["invoked"])
    pr = " ; ".join(f"{p[0]} {round(p[1] * 10**6)} {p[2]} {p[3]}" for p in obs["prio"])
    js = " ; ".join(f"{k} {v[0]} {v[1]} {v[2]} {v[3]} {v[4]} {v[5]}" for k, v in sorted(obs["jobs"].items()))
    return f"R {rs} | I {inv} | P {pr} | J {js} | L {obs['logs']}"


def run_scenario(scn):
    """returns (model_input_lines, impl_lines, obs_list). Stops at the first op whose float
    priorities are not order-exact (the scenario is truncated there)."""
    if "clock0" in scn:
        CLOCK.instant = scn["clock0"]
    r = ThrRunner(scn)
    lines = [core.s_header(scn)]
    impl = ["S ok"]
    obs_list = []
    for o in scn["ops"]:
        obs = r.step(o)
        if not obs["exact"]:
            obs_list.append({"truncated": "float-inexact"})
            break
        obs_list.append(obs)
        if o["op"] == "mutate":
            continue
        lines.append(core.s_op(o, order=obs.get("order")))
        impl.append(render(obs))
    return lines, impl, obs_list
