"""
harness/vloop.py — a virtual-time asyncio event loop: integer-microsecond clock, jumps to the next
timer when nothing is ready, no real sleeping.
"""
from __future__ import annotations

import asyncio
import heapq

from .core import CLOCK


class LoopSpin(RuntimeError):
    """the loop never gets idle: callbacks keep being ready at one and the same instant"""


class VirtualLoop(asyncio.SelectorEventLoop):
    def __init__(self, origin_us: int):
        super().__init__()
        self.origin_us = origin_us      # instant (µs since 0001-01-01) of loop time 0
        self.vt_us = 0
        self._clock_resolution = 1e-7
        self.max_iterations = 150_000
        self._iterations = 0
        self.max_same_instant = 20_000
        self._same_instant = 0
        self._last_vt = -1
        CLOCK.instant = origin_us

    def time(self):
        return self.vt_us / 1e6

    def call_at(self, when, callback, *args, context=None):
        # quantise deadlines to whole microseconds
        return super().call_at(round(when * 1e6) / 1e6, callback, *args, context=context)

    def _run_once(self):
        self._iterations += 1
        if self.vt_us == self._last_vt:
            self._same_instant += 1
            if self._same_instant > self.max_same_instant:
                raise LoopSpin(f"no progress of time during {self._same_instant} loop iterations at t={self.vt_us}us")
        else:
            self._last_vt = self.vt_us
            self._same_instant = 0
        if self._iterations > self.max_iterations:
            raise LoopSpin(f"iteration budget of {self.max_iterations} loop iterations exhausted (jobs keep running far beyond what the scenario plans)")
        if not self._ready and self._scheduled:
            while self._scheduled and self._scheduled[0]._cancelled:
                h = heapq.heappop(self._scheduled)
                h._scheduled = False
                self._timer_cancelled_count = max(0, getattr(self, "_timer_cancelled_count", 1) - 1)
            if self._scheduled:
                when_us = round(self._scheduled[0]._when * 1e6)
                if when_us > self.vt_us:
                    self.vt_us = when_us
                    CLOCK.instant = self.origin_us + self.vt_us
        super()._run_once()
